#!/bin/sh
# Build the Coq development (full .vo build), extract the model and compile the OCaml driver.
# Offline; uses only what is installed.  --if-stale: do nothing when the products are up to date.
set -e
cd "$(dirname "$0")"
mkdir -p build evidence replays
if [ "$1" = "--if-stale" ] && [ -x build/gxdriver ] && [ -f coq/Extract.vo ]; then
  stale=0
  for f in coq/*.v ocaml/driver.ml coq/_CoqProject; do
    if [ "$f" -nt build/gxdriver ]; then stale=1; fi
  done
  [ $stale = 0 ] && exit 0
fi
cd coq
coq_makefile -f _CoqProject -o Makefile > /dev/null
timeout 1800 make -j16 > ../build/make.log 2>&1 || { tail -40 ../build/make.log; exit 1; }
cd ../build
cp ../ocaml/driver.ml .
ocamlfind ocamlopt -w -a -o gxdriver gx.mli gx.ml driver.ml > ocaml.log 2>&1 || { cat ocaml.log; exit 1; }
touch gxdriver
echo "setup ok"
