(* driver.ml — line-oriented front end to the extracted Gallina model (gx.ml).
   One request (an S-expression) per input line, one JSON answer per output line.
   Trusted for the correspondence check only; nothing here is part of any theorem.
   The numeric carrier is instantiated here with OCaml doubles (a plain record value of the
   extracted polymorphic type 't numOps; no Extract Constant is involved). *)
open Gx

(* ---------- S-expressions ---------- *)
type sexp = A of String.t | L of sexp list

exception Parse_error of String.t

let parse_sexp (s : String.t) : sexp =
  let n = String.length s in
  let pos = ref 0 in
  let rec skip () = if !pos < n && (s.[!pos] = ' ' || s.[!pos] = '\t' || s.[!pos] = '\n' || s.[!pos] = '\r') then (incr pos; skip ()) in
  let rec item () =
    skip ();
    if !pos >= n then raise (Parse_error "eof");
    match s.[!pos] with
    | '(' -> incr pos; let l = ref [] in
      let rec loop () = skip ();
        if !pos >= n then raise (Parse_error "unclosed");
        if s.[!pos] = ')' then incr pos else (l := item () :: !l; loop ()) in
      loop (); L (List.rev !l)
    | ')' -> raise (Parse_error "unexpected )")
    | '"' -> incr pos; let b = Buffer.create 16 in
      let rec loop () =
        if !pos >= n then raise (Parse_error "unclosed string");
        let c = s.[!pos] in
        if c = '"' then incr pos
        else if c = '\\' then begin
          (* \xHH escapes only *)
          if !pos + 3 < n && s.[!pos+1] = 'x' then begin
            Buffer.add_char b (Char.chr (int_of_string ("0x" ^ String.sub s (!pos+2) 2)));
            pos := !pos + 4; loop () end
          else raise (Parse_error "bad escape") end
        else (Buffer.add_char b c; incr pos; loop ()) in
      loop (); A (Buffer.contents b)
    | _ -> let st = !pos in
      while !pos < n && not (List.mem s.[!pos] [' '; '\t'; '\n'; '\r'; '('; ')']) do incr pos done;
      A (String.sub s st (!pos - st))
  in
  let r = item () in skip (); r

(* ---------- conversions between OCaml values and the extracted inductives ---------- *)
let ascii_of_char (c : char) : ascii =
  let k = Char.code c in
  let b i = (k lsr i) land 1 = 1 in
  Ascii (b 0, b 1, b 2, b 3, b 4, b 5, b 6, b 7)

let char_of_ascii (Ascii (b0,b1,b2,b3,b4,b5,b6,b7)) : char =
  let v b i = if b then 1 lsl i else 0 in
  Char.chr (v b0 0 + v b1 1 + v b2 2 + v b3 3 + v b4 4 + v b5 5 + v b6 6 + v b7 7)

let cs (s : String.t) : string =
  let r = ref EmptyString in
  for i = String.length s - 1 downto 0 do r := String (ascii_of_char s.[i], !r) done; !r

let os (s : string) : String.t =
  let b = Buffer.create 16 in
  let rec go = function EmptyString -> () | String (a, r) -> Buffer.add_char b (char_of_ascii a); go r in
  go s; Buffer.contents b

let rec nat_of_int (i : int) : nat = if i <= 0 then O else S (nat_of_int (i - 1))
let rec int_of_nat = function O -> 0 | S n -> 1 + int_of_nat n

let rec pos_of_int (i : int) : positive =
  if i <= 1 then XH else if i land 1 = 0 then XO (pos_of_int (i lsr 1)) else XI (pos_of_int (i lsr 1))
let z_of_int (i : int) : z = if i = 0 then Z0 else if i > 0 then Zpos (pos_of_int i) else Zneg (pos_of_int (-i))

(* decimal string -> Z, exact, for arbitrarily long literals (repeated halving of the digits) *)
let z_of_decimal (s : String.t) : z =
  let neg, st = if String.length s > 0 && s.[0] = '-' then true, 1 else false, 0 in
  let d = Array.init (String.length s - st) (fun i -> Char.code s.[st + i] - 48) in
  let is_zero () = Array.for_all (fun x -> x = 0) d in
  let halve () = (* d := d / 2, returns the remainder *)
    let carry = ref 0 in
    Array.iteri (fun i x -> let v = !carry * 10 + x in d.(i) <- v / 2; carry := v mod 2) d; !carry in
  let bits = ref [] in   (* most significant first after the loop *)
  while not (is_zero ()) do bits := (halve () = 1) :: !bits done;
  match !bits with
  | [] -> Z0
  | _ :: rest ->  (* leading bit is 1 *)
      let p = List.fold_left (fun acc b -> if b then XI acc else XO acc) XH rest in
      if neg then Zneg p else Zpos p

let pos_of_z = function Zpos p -> p | _ -> XH

let rec float_of_pos = function
  | XH -> 1.0
  | XO p -> 2.0 *. float_of_pos p
  | XI p -> 2.0 *. float_of_pos p +. 1.0
let float_of_z = function Z0 -> 0.0 | Zpos p -> float_of_pos p | Zneg p -> -. (float_of_pos p)

(* ---------- the float64 carrier ---------- *)
let b2f b = if b then 1.0 else 0.0
let py_mod a b =
  (* Python's float %: result has the sign of the divisor *)
  if b = 0.0 then nan else
  let r = Float.rem a b in
  if r <> 0.0 && ((r < 0.0) <> (b < 0.0)) then r +. b else if r = 0.0 then Float.copy_sign 0.0 b else r

let fops : float numOps = {
  ofQ = (fun q -> float_of_z q.qnum /. float_of_pos q.qden);
  cpi = Float.pi;
  add0 = ( +. ); sub0 = ( -. ); mul0 = ( *. ); div = ( /. );
  pow = Float.pow;
  neg = (fun x -> -. x);
  fn = (fun f x -> match f with
    | Fexp -> exp x | Fcos -> cos x | Fsin -> sin x | Ftan -> tan x
    | Facos -> acos x | Fasin -> asin x | Fatan -> atan x | Flog -> log x
    | Fsqrt -> sqrt x | Fabs -> Float.abs x | Ffloor -> Float.floor x);
  fmod = py_mod;
  rel = (fun r a b -> b2f (match r with
    | Rlt -> a < b | Rgt -> a > b | Rle -> a <= b | Rge -> a >= b | Req -> a = b | Rne -> a <> b));
  bnot = (fun a -> b2f (a = 0.0));
  band = (fun a b -> b2f (a <> 0.0 && b <> 0.0));
  bor = (fun a b -> b2f (a <> 0.0 || b <> 0.0));
  select = (fun c a b -> if c <> 0.0 then a else b);
}

(* ---------- decoding requests ---------- *)
let bad what = raise (Parse_error what)

let atom = function A s -> s | L _ -> bad "atom expected"
let lst = function L l -> l | A _ -> bad "list expected"

let fn1_of = function
  | "exp" -> Fexp | "cos" -> Fcos | "sin" -> Fsin | "tan" -> Ftan | "acos" -> Facos
  | "asin" -> Fasin | "atan" -> Fatan | "log" -> Flog | "ln" -> Flog | "sqrt" -> Fsqrt
  | "abs" -> Fabs | "Abs" -> Fabs | "floor" -> Ffloor | s -> bad ("fn " ^ s)
let relop_of = function
  | "lt" -> Rlt | "gt" -> Rgt | "le" -> Rle | "ge" -> Rge | "eq" -> Req | "ne" -> Rne
  | s -> bad ("rel " ^ s)

let rec expr_of (s : sexp) : expr =
  match s with
  | A "pi" -> EPi
  | L [A "pi"] -> EPi
  | L [A "n"; A num; A den; A i] ->
      ENum ({ qnum = z_of_decimal num; qden = pos_of_z (z_of_decimal den) }, i = "1")
  | L [A "v"; A x] -> EVar (cs x)
  | L [A "+"; a; b] -> EAdd (expr_of a, expr_of b)
  | L [A "-"; a; b] -> ESub (expr_of a, expr_of b)
  | L [A "*"; a; b] -> EMul (expr_of a, expr_of b)
  | L [A "/"; a; b] -> EDiv (expr_of a, expr_of b)
  | L [A "^"; a; b] -> EPow (expr_of a, expr_of b)
  | L [A "neg"; a] -> ENeg (expr_of a)
  | L [A "fn"; A f; a] -> EFn (fn1_of f, expr_of a)
  | L [A "mod"; a; b] -> EMod (expr_of a, expr_of b)
  | L [A "rel"; A r; a; b] -> ERel (relop_of r, expr_of a, expr_of b)
  | L [A "not"; a] -> ENot (expr_of a)
  | L [A "and"; a; b] -> EAnd (expr_of a, expr_of b)
  | L [A "or"; a; b] -> EOr (expr_of a, expr_of b)
  | L [A "if"; c; a; b] -> ECond (expr_of c, expr_of a, expr_of b)
  | _ -> bad "expr"

let tok_of = function
  | L [A "n"; A num; A den; A i] ->
      TNum ({ qnum = z_of_decimal num; qden = pos_of_z (z_of_decimal den) }, i = "1")
  | L [A "id"; A s] -> TId (cs s)
  | A "plus" -> TPlus | A "minus" -> TMinus | A "star" -> TStar | A "slash" -> TSlash
  | A "pow" -> TPow | A "lp" -> TLP | A "rp" -> TRP | A "comma" -> TComma
  | _ -> bad "token"

let opt_of = function A "none" -> None | L [A "some"; A s] -> Some (cs s) | _ -> bad "option"
let strs l = List.map (fun x -> cs (atom x)) (lst l)

let entry_of = function
  | L [A n; e; u; d] -> { en_name = cs n; en_value = expr_of e; en_unit = opt_of u; en_desc = opt_of d }
  | _ -> bad "entry"
let line_of = function
  | L [A n; e; u; c] -> { ln_name = cs n; ln_expr = expr_of e; ln_unit = opt_of u; ln_comment = opt_of c }
  | _ -> bad "line"
let item_of = function
  | L [A "states"; comps; es] -> IStates (strs comps, List.map entry_of (lst es))
  | L [A "params"; comps; es] -> IParams (strs comps, List.map entry_of (lst es))
  | L [A "exprs"; comps; ls] -> IExprs (strs comps, List.map line_of (lst ls))
  | L [A "comment"; A s] -> IComment (cs s)
  | _ -> bad "item"

let kstmt_of = function
  | L [A "us"; A x; A i] -> KUnS (cs x, nat_of_int (int_of_string i))
  | L [A "up"; A x; A i] -> KUnP (cs x, nat_of_int (int_of_string i))
  | L [A "um"; A x; A i] -> KUnM (cs x, nat_of_int (int_of_string i))
  | L [A "let"; A x; reads] -> KLet (cs x, strs reads)
  | L [A "store"; A i; e] -> KStore (nat_of_int (int_of_string i), expr_of e)
  | _ -> bad "kstmt"

let floats l = List.map (fun x -> float_of_string (atom x)) (lst l)
let inputs_of = function
  | L [A t; A dt; st; ps; ms] ->
      { in_t = float_of_string t; in_dt = float_of_string dt; in_states = floats st;
        in_params = floats ps; in_missing = floats ms }
  | _ -> bad "inputs"

(* ---------- JSON output ---------- *)
let jstr (s : String.t) =
  let b = Buffer.create 16 in
  Buffer.add_char b '"';
  String.iter (fun c -> match c with
    | '"' -> Buffer.add_string b "\\\"" | '\\' -> Buffer.add_string b "\\\\"
    | c when Char.code c < 32 || Char.code c > 126 -> Buffer.add_string b (Printf.sprintf "\\u%04x" (Char.code c))
    | c -> Buffer.add_char b c) s;
  Buffer.add_char b '"'; Buffer.contents b
let jlist f l = "[" ^ String.concat "," (List.map f l) ^ "]"
let jnames l = jlist (fun s -> jstr (os s)) l
let jopt f = function None -> "null" | Some x -> f x
let jfloat (x : float) = jstr (Printf.sprintf "%h" x)
let jbool b = if b then "true" else "false"
let jobj kv = "{" ^ String.concat "," (List.map (fun (k, v) -> jstr k ^ ":" ^ v) kv) ^ "}"

let rec jexpr (e : expr) : String.t =
  match e with
  | ENum (q, i) -> Printf.sprintf "[\"n\",%s,%s]" (jfloat (fops.ofQ q)) (jbool i)
  | EVar x -> Printf.sprintf "[\"v\",%s]" (jstr (os x))
  | EPi -> "[\"pi\"]"
  | EAdd (a, b) -> Printf.sprintf "[\"+\",%s,%s]" (jexpr a) (jexpr b)
  | ESub (a, b) -> Printf.sprintf "[\"-\",%s,%s]" (jexpr a) (jexpr b)
  | EMul (a, b) -> Printf.sprintf "[\"*\",%s,%s]" (jexpr a) (jexpr b)
  | EDiv (a, b) -> Printf.sprintf "[\"/\",%s,%s]" (jexpr a) (jexpr b)
  | EPow (a, b) -> Printf.sprintf "[\"^\",%s,%s]" (jexpr a) (jexpr b)
  | ENeg a -> Printf.sprintf "[\"neg\",%s]" (jexpr a)
  | EFn (_, a) -> Printf.sprintf "[\"fn\",%s]" (jexpr a)
  | EMod (a, b) -> Printf.sprintf "[\"mod\",%s,%s]" (jexpr a) (jexpr b)
  | ERel (_, a, b) -> Printf.sprintf "[\"rel\",%s,%s]" (jexpr a) (jexpr b)
  | ENot a -> Printf.sprintf "[\"not\",%s]" (jexpr a)
  | EAnd (a, b) -> Printf.sprintf "[\"and\",%s,%s]" (jexpr a) (jexpr b)
  | EOr (a, b) -> Printf.sprintf "[\"or\",%s,%s]" (jexpr a) (jexpr b)
  | ECond (c, a, b) -> Printf.sprintf "[\"if\",%s,%s,%s]" (jexpr c) (jexpr a) (jexpr b)

let jstmt = function
  | SUnpackS (x, i) -> Printf.sprintf "[\"us\",%s,%d]" (jstr (os x)) (int_of_nat i)
  | SUnpackP (x, i) -> Printf.sprintf "[\"up\",%s,%d]" (jstr (os x)) (int_of_nat i)
  | SUnpackM (x, i) -> Printf.sprintf "[\"um\",%s,%d]" (jstr (os x)) (int_of_nat i)
  | SLet (x, e) -> Printf.sprintf "[\"let\",%s,%s]" (jstr (os x)) (jnames (vars e))
  | SStore (i, e) -> Printf.sprintf "[\"store\",%d,%s]" (int_of_nat i) (jexpr e)

let jfunc (f : func) =
  jobj [ "name", jstr (os f.f_name); "args", jnames f.f_args;
         "nret", string_of_int (int_of_nat f.f_nret); "body", jlist jstmt f.f_body ]

let jerr = function
  | LDuplicate n -> jobj ["class", jstr "Duplicate"; "name", jstr (os n)]
  | LStateNotFound (s, c) -> jobj ["class", jstr "StateNotFound"; "name", jstr (os s); "comp", jstr (os c)]
  | LNotComplete c -> jobj ["class", jstr "NotComplete"; "comp", jstr (os c)]
  | LMissingSymbol s -> jobj ["class", jstr "MissingSymbol"; "name", jstr (os s)]

(* ---------- state of the session ---------- *)
let cur : ode option ref = ref None
let cur_comps : comp list ref = ref []

let the_ode () = match !cur with Some o -> o | None -> bad "no model loaded"

let dummy_inputs (o : ode) (ss : string list) : float inputs =
  { in_t = 0.0; in_dt = 0.0; in_states = List.map (fun _ -> 0.0) ss;
    in_params = List.map (fun _ -> 0.0) (param_names o);
    in_missing = List.map (fun _ -> 0.0) (missing_names o) }

let fuel_for (o : ode) = nat_of_int (List.length o.o_inters + 2 * List.length o.o_derivs + 3)

let mode_of = function "euler" -> MEuler | "guard" -> MGuard | "plain" -> MPlain | s -> bad ("mode " ^ s)
let mode_name = function MEuler -> "euler" | MGuard -> "guard" | MPlain -> "plain"
let q_of num den = { qnum = z_of_decimal num; qden = pos_of_z (z_of_decimal den) }

let handle (req : sexp) : String.t =
  match req with
  | L [A "load"; items] ->
      let items = List.map item_of (lst items) in
      (match load_comps items with
       | Err e -> cur := None; jobj ["status", jstr "err"; "error", jerr e]
       | Ok cs_ ->
           let o = ode_of cs_ in
           cur := Some o; cur_comps := cs_;
           jobj [ "status", jstr "ok";
                  "state_names", jnames (state_names o);
                  "sorted_states", jopt jnames (sorted_states o);
                  "params", jnames (param_names o);
                  "inters", jnames (inter_names o);
                  "derivs", jnames (deriv_names o);
                  "order", jopt jnames (sorted_names o false);
                  "order_ru", jopt jnames (sorted_names o true);
                  "missing", jnames (missing_names o);
                  "membership", jlist (fun (c, ns) -> "[" ^ jstr (os c) ^ "," ^ jnames ns ^ "]") (membership cs_) ])
  | L [A "split"; A which; A name] ->
      (* make C.to_ode() (which = to_ode) or model - C (which = minus) the current model *)
      let name = cs name in
      (match List.find_opt (fun c -> os c.c_name = os name) !cur_comps with
       | None -> jobj ["status", jstr "no-such-component"]
       | Some c ->
           let o = (match which with "to_ode" -> to_ode c | "minus" -> minus !cur_comps name | _ -> bad "split which") in
           cur := Some o;
           jobj [ "status", jstr "ok";
                  "state_names", jnames (state_names o);
                  "sorted_states", jopt jnames (sorted_states o);
                  "params", jnames (param_names o);
                  "inters", jnames (inter_names o);
                  "derivs", jnames (deriv_names o);
                  "order", jopt jnames (sorted_names o false);
                  "order_ru", jopt jnames (sorted_names o true);
                  "missing", jnames (missing_names o) ])
  | L [A "roundtrip"] ->
      (* model-level save -> load: the items the writer mirror produces for the current model, loaded again *)
      let o = ode_of !cur_comps in
      let pick l names = List.filter_map (fun n -> find_decl l n) names in
      let sts = pick o.o_states (state_names o) and prs = pick o.o_params (param_names o) in
      let asg = List.filter_map (fun n -> find_assign o n) (inter_names o @ deriv_names o) in
      let items = save_items sts prs asg in
      (match load_comps items with
       | Err e -> jobj ["status", jstr "err"; "error", jerr e]
       | Ok cs_ ->
           let o2 = ode_of cs_ in
           jobj [ "status", jstr "ok";
                  "state_names", jnames (state_names o2);
                  "sorted_states", jopt jnames (sorted_states o2);
                  "params", jnames (param_names o2);
                  "inters", jnames (inter_names o2);
                  "derivs", jnames (deriv_names o2);
                  "order", jopt jnames (sorted_names o2 false);
                  "order_ru", jopt jnames (sorted_names o2 true);
                  "missing", jnames (missing_names o2);
                  "membership", jlist (fun (c, ns) -> "[" ^ jstr (os c) ^ "," ^ jnames ns ^ "]") (membership cs_) ])
  | L [A "whole"] ->
      cur := Some (ode_of !cur_comps); jobj ["status", jstr "ok"]
  | L [A "mirror"; A kind; A ru; A order] ->
      let o = the_ode () in
      let ru = (ru = "1") in
      let f = (match kind with
        | "rhs" -> gen_rhs o ru (cs order)
        | "monitor" -> gen_monitor o ru (cs order)
        | "euler" -> gen_euler o ru (cs "explicit_euler") (cs order)
        | _ -> bad "mirror kind") in
      jobj ["status", jstr "ok"; "func", jopt jfunc f]
  | L [A "mirrormissing"; A ru; A order; req] ->
      (* req: ((name index) ...) in the order of the dict the implementation was given *)
      let o = the_ode () in
      let ru = (ru = "1") in
      let rq = List.map (function L [A n; A i] -> (cs n, nat_of_int (int_of_string i)) | _ -> bad "req") (lst req) in
      jobj ["status", jstr "ok"; "func", jopt jfunc (gen_missing_values o ru rq (cs order))]
  | L [A "validate"; A kind; A with_dt; A nret; tbl; body] ->
      (* kind: rhs | euler | named ; tbl: names for kind = named *)
      let o = the_ode () in
      (match sorted_states o with
       | None -> jobj ["status", jstr "cycle"]
       | Some ss ->
         let inp = dummy_inputs o ss in
         let with_dt = (with_dt = "1") in
         let ks = List.map kstmt_of (lst body) in
         (match fill_body o ks with
          | None -> jobj ["status", jstr "ok"; "valid", jbool false; "reason", jstr "fill: a let names no assignment of the model or reads a name its definition does not mention"]
          | Some b ->
            let f = { f_name = cs kind; f_args = []; f_nret = nat_of_int (int_of_string nret); f_body = b } in
            let v = (match kind with
              | "rhs" -> valid_rhs o ss inp with_dt f
              | "euler" -> valid_euler o ss inp with_dt f && states_clean o ss inp with_dt
              | "named" -> valid_named o ss inp with_dt (strs tbl) f
              | _ -> bad "validate kind") in
            let rf = reserved_free o inp with_dt in
            let fb = first_bad o ss inp with_dt f.f_nret (reserved inp with_dt) b O in
            (* hypotheses of MirrorValid.mirror_*_correct on this model, and the instance of that theorem:
               the mirror's own function for this kind passes the same validator *)
            let wf = wf_gen o ss with_dt in
            let mv = (match kind with
              | "rhs" -> List.for_all (fun ru -> match gen_rhs o ru (cs "tsp") with
                                                 | Some g -> valid_rhs o ss inp with_dt g | None -> false) [false; true]
              | "euler" -> List.for_all (fun ru -> match gen_euler o ru (cs "explicit_euler") (cs "stdp") with
                                                   | Some g -> valid_euler o ss inp with_dt g | None -> false) [false; true]
              | "named" -> (match gen_monitor o false (cs "tsp"), sorted_names o false with
                            | Some g, Some ord -> valid_named o ss inp with_dt ord g | _, _ -> false)
              | _ -> true) in
            jobj [ "status", jstr "ok"; "valid", jbool (v && rf); "reserved_free", jbool rf;
                   "wf", jbool wf; "mirror_valid", jbool mv;
                   "first_bad", jopt (fun n -> string_of_int (int_of_nat n)) fb ]))
  | L [A "predict"; nonzero] ->
      (* mode of every state under generalized Rush-Larsen, as the mirror predicts it; nonzero =
         states for which fraction_numerator_is_nonzero holds (exported verdict) *)
      let o = the_ode () in
      (match sorted_states o with
       | None -> jobj ["status", jstr "cycle"]
       | Some ss ->
         let nz = strs nonzero in
         let is_nz s = List.exists (fun x -> os x = os s) nz in
         jobj ["status", jstr "ok";
               "modes", jlist (fun s -> jstr (mode_name (predict_mode o is_nz s))) ss;
               "lin_zero", jlist (fun s ->
                   match List.find_opt (fun a -> os a.a_name = os (deriv_name_of s)) o.o_derivs with
                   | Some a -> jbool (is_zero_expr (d s a.a_expr))
                   | None -> "null") ss])
  | L [A "validate-scheme"; A dnum; A dden; modes; stiff; A nret; body] ->
      let o = the_ode () in
      (match sorted_states o with
       | None -> jobj ["status", jstr "cycle"]
       | Some ss ->
         let ox = extend_lin o in
         let inp = dummy_inputs o ss in
         let ks = List.map kstmt_of (lst body) in
         let st = strs stiff in
         let is_stiff s = List.exists (fun x -> os x = os s) st in
         let modes = List.map (fun m -> mode_of (atom m)) (lst modes) in
         (match fill_body ox ks with
          | None -> jobj ["status", jstr "ok"; "valid", jbool false; "reason", jstr "fill: a let names no assignment of the (extended) model or reads a name its definition does not mention"]
          | Some b ->
            let f = { f_name = cs "scheme"; f_args = []; f_nret = nat_of_int (int_of_string nret); f_body = b } in
            let v = valid_scheme o ss inp modes is_stiff (q_of dnum dden) f && states_clean ox ss inp true in
            let rf = reserved_free ox inp true in
            let fb = first_bad ox ss inp true f.f_nret (reserved inp true) b O in
            jobj [ "status", jstr "ok"; "valid", jbool (v && rf); "reserved_free", jbool rf;
                   "first_bad", jopt (fun n -> string_of_int (int_of_nat n)) fb ]))
  | L [A "mirrorrl"; A ru; A order; A dnum; A dden; modes; stiff] ->
      (* the Rush-Larsen function of the verified mirror generator (MirrorRL.gen_rl) for the observed modes, and
         the hypotheses of MirrorRL.mirror_rl_correct on the extended model *)
      let o = the_ode () in
      let ox = extend_lin o in
      let st = strs stiff in
      let is_stiff s = List.exists (fun x -> os x = os s) st in
      let modes = List.map (fun m -> mode_of (atom m)) (lst modes) in
      let f = gen_rl o (ru = "1") modes is_stiff (q_of dnum dden) (cs "scheme") (cs order) in
      let names = all_names ox in
      let nodup l = List.length (List.sort_uniq compare (List.map os l)) = List.length l in
      let wfx = nodup names
                && List.for_all (fun x -> not (resv true x)) names
                && List.for_all (fun x -> not (resv true x)) (missing_names ox)
                && List.map os (missing_names ox) = List.map os (missing_names o)
                && (match sorted_states o with Some ss -> wf_gen o ss true | None -> false) in
      jobj ["status", jstr "ok"; "func", jopt jfunc f; "wf", jbool wfx]
  | L [A "semeval"; A with_dt; inp; names] ->
      let o = the_ode () in
      (match sorted_states o with
       | None -> jobj ["status", jstr "cycle"]
       | Some ss ->
         let inp = inputs_of inp in
         let with_dt = (with_dt = "1") in
         let ox = extend_lin o in
         let vals = List.map (fun n -> sem_eval fops ox ss inp with_dt (fuel_for o) (cs (atom n))) (lst names) in
         jobj ["status", jstr "ok"; "values", jlist (jopt jfloat) vals])
  | L [A "semexpr"; A with_dt; inp; es] ->
      let o = the_ode () in
      (match sorted_states o with
       | None -> jobj ["status", jstr "cycle"]
       | Some ss ->
         let inp = inputs_of inp in
         let with_dt = (with_dt = "1") in
         let ox = extend_lin o in
         let vals = List.map (fun e -> sem_eval_expr fops ox ss inp with_dt (fuel_for o) (expr_of e)) (lst es) in
         jobj ["status", jstr "ok"; "values", jlist (jopt jfloat) vals])
  | L [A "ceval"; A with_dt; inp; es] ->
      (* C meaning (typed constants, C99 integer division, fmod) and real meaning of C right-hand
         sides, variables standing for the model's meaning of their names *)
      let o = the_ode () in
      (match sorted_states o with
       | None -> jobj ["status", jstr "cycle"]
       | Some ss ->
         let inp = inputs_of inp in
         let with_dt = (with_dt = "1") in
         let ox = extend_lin o in
         let rho x = (match sem_eval fops ox ss inp with_dt (fuel_for o) x with Some v -> v | None -> nan) in
         let c_fmod a b = Float.rem a b in
         let one e =
           let e = expr_of e in
           let cv = (match ceval fops float_of_z c_fmod rho e with CI z -> float_of_z z | CD d -> d) in
           jobj ["c", jfloat cv; "real", jfloat (eval fops rho e); "safe", jbool (c_safe e); "int", jbool (is_int e)] in
         jobj ["status", jstr "ok"; "values", jlist one (lst es)])
  | L [A "cevalenv"; env; es] ->
      (* the same with an explicit environment ((name value) ...) *)
      let tbl = List.map (function L [A n; A v] -> (n, float_of_string v) | _ -> bad "env") (lst env) in
      let rho x = (match List.assoc_opt (os x) tbl with Some v -> v | None -> nan) in
      let c_fmod a b = Float.rem a b in
      let one e =
        let e = expr_of e in
        let cv = (match ceval fops float_of_z c_fmod rho e with CI z -> float_of_z z | CD d -> d) in
        jobj ["c", jfloat cv; "real", jfloat (eval fops rho e); "safe", jbool (c_safe e); "int", jbool (is_int e)] in
      jobj ["status", jstr "ok"; "values", jlist one (lst es)]
  | L [A "parsetoks"; cases] ->
      (* Parse.parse_expr on token lists, compared with the expression the caller obtained from Lark's tree
         ("none" = Lark rejects); every parsed expression is also printed and parsed again (Parse.parse_print) *)
      let one = function
        | L [toks; exp] ->
            let got = parse_expr (List.map tok_of (lst toks)) in
            let verdict = (match exp, got with
              | A "none", None -> "agree"
              | A "none", Some _ -> "model-accepts"
              | _, None -> "model-rejects"
              | s, Some e -> if expr_eqb e (expr_of s) then "agree" else "differ") in
            let rt = (match got with
              | Some e -> (match parse_expr (print_expr e) with Some e2 -> expr_eqb e e2 | None -> false)
              | None -> true) in
            jobj ["verdict", jstr verdict; "roundtrip", jbool rt]
        | _ -> bad "parsetoks case" in
      jobj ["status", jstr "ok"; "results", jlist one (lst cases)]
  | L [A "parsestr"; cases] ->
      (* Lex.lex + Parse.parse_expr on the characters of a right-hand side, compared with the expression the caller
         obtained from Lark's tree ("none" = rejected) and - where the caller has them - with the tokens of the
         harness's regular expression; parsed expressions are printed and parsed again *)
      let one = function
        | L [A src; exp; toks] ->
            let lexed = lex (cs src) in
            let got = parse_string (cs src) in
            let verdict = (match exp, got with
              | A "none", None -> "agree"
              | A "none", Some _ -> "model-accepts"
              | _, None -> "model-rejects"
              | s, Some e -> if expr_eqb e (expr_of s) then "agree" else "differ") in
            let lexagree = (match toks, lexed with
              | A "none", _ -> true
              | L ts, Some l -> l = List.map tok_of ts
              | L _, None -> false
              | _ -> bad "parsestr tokens") in
            let rt = (match got with
              | Some e -> (match parse_expr (print_expr e) with Some e2 -> expr_eqb e e2 | None -> false)
              | None -> true) in
            jobj ["verdict", jstr verdict; "lexagree", jbool lexagree; "lexed", jbool (lexed <> None); "roundtrip", jbool rt]
        | _ -> bad "parsestr case" in
      jobj ["status", jstr "ok"; "results", jlist one (lst cases)]
  | L [A "renderexprs"; es] ->
      (* Lex.render_expr: the model's printer down to characters (every operand in parentheses, numbers as integer
         literals or <m>e-<k>); null where a number is not a non-negative decimal fraction in lowest terms *)
      let one e = (match render_expr (expr_of e) with Some s -> jstr (os s) | None -> "null") in
      jobj ["status", jstr "ok"; "texts", jlist one (lst es)]
  | L [A "parselines"; cases] ->
      (* Line.parse_line on the characters of an assignment line (name = expression [# comment]) against the name and the
         expression of Lark's tree; a line that is read is written again by Line.write_line and read back *)
      let one = function
        | L [A src; A name; exp] ->
            (match parse_line (cs src) with
             | None -> jobj ["verdict", jstr "model-rejects"; "comment", "null"; "roundtrip", jbool true]
             | Some ((x, e), cm) ->
               let ok = (os x = name) && expr_eqb e (expr_of exp) in
               let rt = (match write_line x e cm with
                 | Some s2 -> (match parse_line s2 with
                     | Some ((x2, e2), cm2) -> os x2 = os x && expr_eqb e e2 && cm2 = cm
                     | None -> false)
                 | None -> true) in
               jobj ["verdict", jstr (if ok then "agree" else "differ");
                     "comment", (match cm with Some c -> jstr (os c) | None -> "null"); "roundtrip", jbool rt])
        | _ -> bad "parselines case" in
      jobj ["status", jstr "ok"; "results", jlist one (lst cases)]
  | L [A "parseblock"; lines; expected] ->
      (* Line.parse_body on the physical lines of the body of a headed expressions block (line feeds inside parentheses join,
         comment and blank lines are skipped) against the sequence of (name, expression) Lark reads in that block; "statements" =
         the number of logical lines that are neither comment nor blank (the caller compares only blocks where this is the number of
         assignments Lark found: a layout the line model does not know) *)
      let ls = List.map (fun l -> cs (atom l)) (lst lines) in
      let exp = List.map (function L [A n; e] -> (n, expr_of e) | _ -> bad "parseblock expected") (lst expected) in
      let stmts = List.length (List.filter (fun l -> not (skipped l)) (logical O false EmptyString ls)) in
      (match parse_body ls with
       | None -> jobj ["status", jstr "ok"; "verdict", jstr "model-rejects"; "statements", string_of_int stmts]
       | Some got ->
         let same = List.length got = List.length exp
                    && List.for_all2 (fun ((x, e), _) (n, e2) -> os x = n && expr_eqb e e2) got exp in
         jobj ["status", jstr "ok"; "verdict", jstr (if same then "agree" else "differ"); "statements", string_of_int stmts])
  | L [A "symrhs"; A tries; inp] ->
      (* sympytools.rhs_matrix / jacobi_matrix of the mirror, evaluated at an input point *)
      let o = the_ode () in
      (match sorted_states o with
       | None -> jobj ["status", jstr "cycle"]
       | Some ss ->
         let inp = inputs_of inp in
         let mt = (match tries with "default" -> default_tries o | t -> nat_of_int (int_of_string t)) in
         let rho x = (match base o ss inp false x with Some v -> v | None -> nan) in
         (match rhs_matrix o mt with
          | None -> jobj ["status", jstr "ok"; "rhs", "null"; "jac", "null"]
          | Some es ->
            let jac = (match jacobian o mt with Some j -> j | None -> []) in
            jobj ["status", jstr "ok";
                  "rhs", jlist (fun e -> jfloat (eval fops rho e)) es;
                  "expanded", jbool (not (List.exists (mentions_assigned o) es));
                  "jac", jlist (fun row -> jlist (fun e -> jfloat (eval fops rho e)) row) jac]))
  | L [A "evalclosed"; es] ->
      let vals = List.map (fun e -> eval fops (fun _ -> nan) (expr_of e)) (lst es) in
      jobj ["status", jstr "ok"; "values", jlist jfloat vals]
  | L [A "execmirror"; A kind; A ru; inp] ->
      let o = the_ode () in
      let ru = (ru = "1") in
      let inp = inputs_of inp in
      let f, wd = (match kind with
        | "rhs" -> gen_rhs o ru (cs "tsp"), false
        | "monitor" -> gen_monitor o ru (cs "tsp"), false
        | "euler" -> gen_euler o ru (cs "explicit_euler") (cs "stdp"), true
        | _ -> bad "execmirror kind") in
      (match f with
       | None -> jobj ["status", jstr "cycle"]
       | Some f -> jobj ["status", jstr "ok"; "values", jopt (jlist jfloat) (exec fops f wd inp)])
  | L [A "ping"] -> jobj ["status", jstr "ok"]
  | _ -> bad "unknown request"

let () =
  try
    while true do
      let line = input_line stdin in
      let out =
        try handle (parse_sexp line)
        with
        | Parse_error m -> jobj ["status", jstr "bad-request"; "message", jstr m]
        | Failure m -> jobj ["status", jstr "bad-request"; "message", jstr m]
        | Stack_overflow -> jobj ["status", jstr "bad-request"; "message", jstr "stack overflow"]
      in
      print_string out; print_newline ()
    done
  with End_of_file -> ()
