"""textmodel.py - a harness model (blocks with expression ASTs) from the items of a real parse,
so that hand-written / recorded .ode texts (corpus, shipped examples) can go through the same
reference evaluation as generated models."""
from __future__ import annotations

import lark
import sympy

from gotranx import atoms as gatoms


def tree_to_ast(tree):
    d = tree.data
    ch = tree.children
    if d in ("expression", "term"):
        acc = tree_to_ast(ch[0])
        for i in range(1, len(ch), 2):
            acc = ("bin", str(ch[i]), acc, tree_to_ast(ch[i + 1]))
        return acc
    if d == "factor":
        op = str(ch[0])
        a = tree_to_ast(ch[1])
        return ("neg", a) if op == "-" else a
    if d == "power":
        return ("bin", "**", tree_to_ast(ch[0]), tree_to_ast(ch[1]))
    if d == "variable":
        return ("var", str(ch[0]))
    if d == "scientific":
        return ("num", str(ch[0]))
    if d == "constant":
        return ("pi",)
    if d == "func":
        name = str(ch[0])
        args = [tree_to_ast(c) for c in ch[1:]]
        if name == "Mod":
            return ("mod", args[0], args[1])
        return ("fn", name, args[0])
    if d == "logicalfunc":
        name = str(ch[0])
        if name == "Conditional":
            return ("cond", tree_to_ast(ch[1]), tree_to_ast(ch[2]), tree_to_ast(ch[3]))
        if name == "ContinuousConditional":
            rel_op, a1, a2 = ch[1].children
            return ("ccond", str(rel_op), tree_to_ast(a1), tree_to_ast(a2), tree_to_ast(ch[2]), tree_to_ast(ch[3]),
                    tree_to_ast(ch[4]))
        args = [tree_to_ast(c) for c in ch[1:]]
        if name in ("Lt", "Gt", "Le", "Ge", "Eq"):
            return ("rel", name, args[0], args[1])
        if name == "Not":
            return ("not", args[0])
        if name in ("And", "Or"):
            return (name.lower(), args)
    raise ValueError("tree " + str(d))


def value_ast(v):
    """declared values are kept as unevaluated sympy trees by the transformer (-7 is Mul(-1, 7), 1e-3/5 is
    Mul(0.001, Pow(5, -1))); rebuild the expression structurally so that integer / floating literals and the
    operators survive"""
    v = sympy.sympify(v)
    if v.is_Integer:
        return ("num", str(int(v))) if int(v) >= 0 else ("neg", ("num", str(-int(v))))
    if v.is_Float:
        f = float(v)
        return ("num", repr(f)) if f >= 0 else ("neg", ("num", repr(-f)))
    if v.is_Rational:
        return ("bin", "/", value_ast(sympy.Integer(v.p)), value_ast(sympy.Integer(v.q)))
    if v is sympy.pi:
        return ("pi",)
    if v.is_Mul:
        args = list(v.args)
        if args[0] == -1 and len(args) >= 2:
            rest = args[1] if len(args) == 2 else sympy.Mul(*args[1:], evaluate=False)
            return ("neg", value_ast(rest))
        acc = None
        for a in args:
            if a.is_Pow and a.args[1] == -1 and acc is not None:
                acc = ("bin", "/", acc, value_ast(a.args[0]))
            else:
                acc = value_ast(a) if acc is None else ("bin", "*", acc, value_ast(a))
        return acc
    if v.is_Add:
        acc = None
        for a in v.args:
            if acc is not None and a.is_Mul and a.args[0] == -1:
                rest = a.args[1] if len(a.args) == 2 else sympy.Mul(*a.args[1:], evaluate=False)
                acc = ("bin", "-", acc, value_ast(rest))
            else:
                acc = value_ast(a) if acc is None else ("bin", "+", acc, value_ast(a))
        return acc
    if v.is_Pow:
        return ("bin", "**", value_ast(v.args[0]), value_ast(v.args[1]))
    f = float(v)
    return ("num", repr(f)) if f >= 0 else ("neg", ("num", repr(-f)))


def model_from_items(captured):
    blocks = []
    for line in captured:
        if isinstance(line, gatoms.Comment):
            blocks.append({"kind": "comment", "text": line.text})
            continue
        if isinstance(line, str) or not line:
            continue
        first = line[0]
        comps = [c for c in first.components if c != ""]
        if isinstance(first, (gatoms.State, gatoms.Parameter)):
            blocks.append({"kind": "states" if isinstance(first, gatoms.State) else "parameters", "comps": comps,
                           "entries": [{"name": a.name, "value": value_ast(a.value), "unit": a.unit_str, "desc": a.description}
                                       for a in line]})
        else:
            blocks.append({"kind": "expressions", "comps": comps,
                           "lines": [{"name": a.name, "expr": tree_to_ast(a.value.tree), "comment": None} for a in line]})
    return {"blocks": blocks, "shape": "text", "unused": []}
