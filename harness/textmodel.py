"""textmodel.py - a harness model (blocks with expression ASTs) from the items of a real parse,
so that hand-written / recorded .ode texts (corpus, shipped examples) can go through the same
reference evaluation as generated models."""
from __future__ import annotations

import lark
import sympy

from gotranx import atoms as gatoms


def tree_to_ast(tree):
    d = tree.data
    ch = tree.children
    if d in ("expression", "term"):
        acc = tree_to_ast(ch[0])
        for i in range(1, len(ch), 2):
            acc = ("bin", str(ch[i]), acc, tree_to_ast(ch[i + 1]))
        return acc
    if d == "factor":
        op = str(ch[0])
        a = tree_to_ast(ch[1])
        return ("neg", a) if op == "-" else a
    if d == "power":
        return ("bin", "**", tree_to_ast(ch[0]), tree_to_ast(ch[1]))
    if d == "variable":
        return ("var", str(ch[0]))
    if d == "scientific":
        return ("num", str(ch[0]))
    if d == "constant":
        return ("pi",)
    if d == "func":
        name = str(ch[0])
        args = [tree_to_ast(c) for c in ch[1:]]
        if name == "Mod":
            return ("mod", args[0], args[1])
        return ("fn", name, args[0])
    if d == "logicalfunc":
        name = str(ch[0])
        if name == "Conditional":
            return ("cond", tree_to_ast(ch[1]), tree_to_ast(ch[2]), tree_to_ast(ch[3]))
        if name == "ContinuousConditional":
            rel_op, a1, a2 = ch[1].children
            return ("ccond", str(rel_op), tree_to_ast(a1), tree_to_ast(a2), tree_to_ast(ch[2]), tree_to_ast(ch[3]),
                    tree_to_ast(ch[4]))
        args = [tree_to_ast(c) for c in ch[1:]]
        if name in ("Lt", "Gt", "Le", "Ge", "Eq"):
            return ("rel", name, args[0], args[1])
        if name == "Not":
            return ("not", args[0])
        if name in ("And", "Or"):
            return (name.lower(), args)
    raise ValueError("tree " + str(d))


def value_ast(v):
    v = sympy.sympify(v)
    if v.is_Integer:
        return ("num", str(int(v))) if int(v) >= 0 else ("neg", ("num", str(-int(v))))
    f = float(v)
    return ("num", repr(f)) if f >= 0 else ("neg", ("num", repr(-f)))


def model_from_items(captured):
    blocks = []
    for line in captured:
        if isinstance(line, gatoms.Comment):
            blocks.append({"kind": "comment", "text": line.text})
            continue
        if isinstance(line, str) or not line:
            continue
        first = line[0]
        comps = [c for c in first.components if c != ""]
        if isinstance(first, (gatoms.State, gatoms.Parameter)):
            blocks.append({"kind": "states" if isinstance(first, gatoms.State) else "parameters", "comps": comps,
                           "entries": [{"name": a.name, "value": value_ast(a.value), "unit": a.unit_str, "desc": a.description}
                                       for a in line]})
        else:
            blocks.append({"kind": "expressions", "comps": comps,
                           "lines": [{"name": a.name, "expr": tree_to_ast(a.value.tree), "comment": None} for a in line]})
    return {"blocks": blocks, "shape": "text", "unused": []}
