"""C09 - generated code and slot layout are reproducible across processes.

 1. theorems of coq/Props/C09.v: every layout table and every generated function of the mirror is
    invariant under any permutation of the lists the loaded model consists of (the iteration
    order of Python sets and frozensets is such a permutation); sorting by name is a function
    of the multiset;
 2. correspondence: the layout the implementation produces in fresh processes under different
    PYTHONHASHSEED values equals the layout the mirror predicts (the mirror contains no hash);
 3. direct: byte digests of the generated numpy (both remove_unused settings, all schemes), jax
    and C code and all layouts, compared across fresh processes with different hash seeds;
    in-process histories: regenerate after loading / generating other models and after requesting
    schemes under other names; a scheme function obtained earlier keeps its name.
"""
from __future__ import annotations

import hashlib
import json
import os
import random
import subprocess
import sys
import tempfile
import warnings

import core
import family
import impl
import lang
import pipeline

from gotranx.codegen.python import PythonCodeGenerator, Format
from gotranx.schemes import get_scheme


def run_worker(path, seed):
    env = dict(os.environ)
    env["PYTHONHASHSEED"] = str(seed)
    env["PYTHONPATH"] = str(core.VERIF / "harness") + ":" + str(core.REPO / "src")
    r = subprocess.run([core.PY, str(core.VERIF / "harness" / "c09_worker.py"), path], capture_output=True, text=True, env=env,
                       timeout=1200)
    if r.returncode != 0:
        raise RuntimeError("worker failed: " + r.stderr[-2000:])
    return [json.loads(l) for l in r.stdout.splitlines() if l.startswith("{")]


def main(argv=None):
    a = core.std_args(argv)
    rep = core.Report("C09", a.tier, a.seed)
    core.props_or_violation(rep)
    drv = core.Driver()
    rng = random.Random(a.seed)
    gen = lang.Gen(rng, max_depth=2, p_cond=0.1)
    n = a.n or (24 if a.tier == "quick" else 300)
    seeds = [0, 1, 2, 3, 4, "random"] if a.tier == "quick" else list(range(0, 40)) + ["random"] * 8
    texts, cases = [], []
    # the witness of the repaired defect and a case-colliding variant always run
    texts.append("states(a=1,y=2,z=3)\nda_dt = y + z\ndy_dt = y\ndz_dt = z\n")
    texts.append("states(V=1, f=0.5, F=2)\nparameters(R=8, r=3)\ni = F*f + R*r\ndV_dt = i - V\ndf_dt = F - f\ndF_dt = r*f - R*F\n")
    texts.append("states(V=1, f=0.5, F=2)\ni = F*f\nu = F + 1\nw = f + 1\ndV_dt = i + u + w - V\ndf_dt = w - f\ndF_dt = u - F\n")
    # a sibling of the second text: the same names and, for every assignment, the same set of names read, but other formulas
    # (what a process computed for one model must not leak into the next model it loads)
    texts.append("states(V=1, f=0.5, F=2)\nparameters(R=8, r=3)\ni = F*f - R*r\ndV_dt = i*V\ndf_dt = F*f\ndF_dt = r*f + R*F\n")
    # two components that read several of each other's quantities in different assignments (the sub-models of the split have
    # several missing variables each, first read by different assignments)
    texts.append('states("A", x=1, u=0.5)\nstates("B", y=2, v=1.5)\nparameters("A", ka=1)\nparameters("B", kb=2)\nexpressions("A")\n'
                 'ia = ka*y\nja = v + x\ndx_dt = ia - x\ndu_dt = ja - u*kb\nexpressions("B")\nib = kb*x\njb = u - y\ndy_dt = ib - y\ndv_dt = jb + ia*ka\n')
    # assignments that read nothing but constant-valued intermediates defined further down (every name they read is an assignment
    # of the model; the nodes they depend on have no predecessors, so ties between them are broken by insertion order alone)
    texts.append("states(V=-65, m=0.05)\nparameters(g=1.2)\nE_span = (e_na - e_k) + (e_ca - e_l) + (e_cl - e_h)\nscale = e_h*e_ca - e_l*e_na\n"
                 "dV_dt = -g*(V - E_span) + scale*m\ndm_dt = (e_k - V)/E_span - m\n"
                 "e_na = 50.0\ne_k = -77.0\ne_ca = 120.0\ne_l = -54.4\ne_cl = -30.0\ne_h = -20.0\n")
    # models whose names come in pairs that differ only in case
    saved = list(lang.NAME_POOL)
    lang.NAME_POOL[:] = ["F", "f", "R", "r", "K", "k", "V", "v", "G", "g", "M", "m", "H", "h", "X", "x", "Y", "y", "W", "w", "N", "n", "Q", "q"]
    for _ in range(max(4, n // 4)):
        got = family.new_case(drv, rng, gen, rep, n_states=rng.choice([2, 3]), n_params=2, n_inters=rng.choice([3, 4, 6]), shape="fanin", p_unused=0.0)
        if got is not None:
            texts.append(got[1])
    lang.NAME_POOL[:] = saved
    while len(texts) < n:
        got = family.new_case(drv, rng, gen, rep, n_inters=rng.choice([1, 2, 3, 5]), shape=rng.choice(["random", "fanin", "diamond"]))
        if got is None:
            continue
        texts.append(got[1])
    for t in texts:
        cases.append(pipeline.Case(drv, t))
    tmp = tempfile.mkdtemp(prefix="gxc09_")
    try:
        path = os.path.join(tmp, "texts.json")
        json.dump(texts, open(path, "w"))
        from concurrent.futures import ThreadPoolExecutor

        with ThreadPoolExecutor(max_workers=8) as ex:
            results = list(ex.map(lambda s: run_worker(path, s), seeds))
    finally:
        import shutil

        shutil.rmtree(tmp, ignore_errors=True)
    # ---- a process that loads one text only must produce what the processes that loaded all texts produced for it
    iso = [1, 3] + rng.sample(range(5, len(texts)), k=min(2 if a.tier == "quick" else 8, max(0, len(texts) - 5)))
    for i in iso:
        tmp2 = tempfile.mkdtemp(prefix="gxc09i_")
        try:
            p2 = os.path.join(tmp2, "one.json")
            json.dump([texts[i]], open(p2, "w"))
            alone = run_worker(p2, 0)[0]
        finally:
            import shutil

            shutil.rmtree(tmp2, ignore_errors=True)
        rep.case(key=("isolated", texts[i]), nontrivial=True)
        if alone != results[0][i]:
            diff = sorted(k for k in set(alone) | set(results[0][i]) if alone.get(k) != results[0][i].get(k))
            rep.violation(f"a process that loads only this text generates other output than a process that loaded {i} other texts before it, in {diff}",
                          {"kind": "direct", "text": texts[i], "loaded_before": texts[:i], "hash_seeds": [0, 0],
                           "alone": {k: alone.get(k) for k in diff}, "after_others": {k: results[0][i].get(k) for k in diff}})
    for i, text in enumerate(texts):
        outs = [r[i] for r in results]
        base = outs[0]
        bad = None
        for s, o in zip(seeds[1:], outs[1:]):
            if o != base:
                diff = sorted(k for k in set(o) | set(base) if o.get(k) != base.get(k))
                bad = (s, diff, o)
                break
        c = cases[i]
        if bad:
            s, diff, o = bad
            rep.violation(f"output differs between PYTHONHASHSEED={seeds[0]} and PYTHONHASHSEED={s} in {diff}",
                          {"kind": "direct", "text": text, "hash_seeds": [seeds[0], s],
                           "first": {k: base.get(k) for k in diff}, "second": {k: o.get(k) for k in diff}})
        elif "exception" in base or "error" in base:
            rep.count("worker_case_failed:" + str(base.get("exception", base.get("error")))[:40])
        elif c.mirror is not None and c.mirror.get("status") == "ok":
            mm = [(k, base[k], c.mirror.get(k)) for k in ("sorted_states", "params", "order", "order_ru") if base[k] != c.mirror.get(k)]
            mm += [("missing", base["missing"], c.mirror["missing"])] if [k for k, _ in base["missing"]] != c.mirror["missing"] else []
            if mm:
                rep.violation("layout in fresh processes differs from the (hash-free) mirror: " + str(mm[:1]),
                              {"kind": "correspondence", "relation": "Ode.sorted_names / sorted_states vs implementation in fresh processes",
                               "text": text, "mismatches": mm, "failing_input": None}, failing_input_found=False)
        nontriv = len(base.get("order", [])) >= 3
        rep.case(key=text, nontrivial=nontriv)
        rep.sample({"text": text, "digests": {k: v for k, v in base.items() if isinstance(v, str)}}, limit=2)
    rep.count("processes", len(seeds))
    # ---- histories inside one process
    with warnings.catch_warnings():
        warnings.simplefilter("ignore")
        for i in range(min(8, len(texts))):
            ode = cases[i].ode
            if ode is None:
                continue
            first = impl.gen_python(ode, schemes=impl.ALL_SCHEMES)
            for j in rng.sample(range(len(texts)), k=3):
                o2, _, _, _ = impl.load_text(texts[j])
                if o2 is not None:
                    try:
                        impl.gen_python(o2, schemes=[rng.choice(["forward_explicit_euler", "forward_generalized_rush_larsen", "hybrid_rush_larsen"])])
                    except Exception:  # noqa: BLE001
                        pass
            for alias in rng.sample(["euler", "forward_euler", "rush_larsen", "forward_rush_larsen", "forward_generalized_rush_larsen"], k=2):
                get_scheme(alias)
            again = impl.gen_python(ode, schemes=impl.ALL_SCHEMES)
            ode3, _, _, _ = impl.load_text(texts[i])
            third = impl.gen_python(ode3, schemes=impl.ALL_SCHEMES)
            rep.case(key=("history", i), nontrivial=True)
            if first != again or first != third:
                rep.violation("regenerating after other load / generate / get_scheme calls in the same process changes the output",
                              {"kind": "direct", "text": texts[i], "history": "generate; load+generate 3 other models under alias schemes; get_scheme(aliases); generate again; reload; generate",
                               "functions_first": sorted(impl.export_functions(first)), "functions_again": sorted(impl.export_functions(again))})
                break
        # the caller's option objects (the stiff_states list, the missing_values dict) are reused across calls, as a
        # script that generates numpy, then jax, then C code does: every call must see them as they were given
        for i in range(min(6, len(texts))):
            ode = cases[i].ode
            if ode is None:
                continue
            ss_ = [s.name for s in ode.sorted_states()]
            stiff = ss_[:2] + ["not_a_state"]
            given = list(stiff)
            fresh = impl.gen_python(ode, schemes=impl.ALL_SCHEMES, stiff_states=list(given))
            outs = [impl.gen_python(ode, schemes=impl.ALL_SCHEMES, stiff_states=stiff) for _ in range(2)]
            try:
                outs.append(impl.gen_python(ode, schemes=impl.ALL_SCHEMES, stiff_states=stiff, backend="jax"))
                fresh_jax = impl.gen_python(ode, schemes=impl.ALL_SCHEMES, stiff_states=list(given), backend="jax")
            except Exception:  # noqa: BLE001
                fresh_jax = None
            rep.case(key=("shared-options", i), nontrivial=True)
            if stiff != given:
                rep.violation(f"generating code modifies the caller's stiff_states list: {given} became {stiff}",
                              {"kind": "direct", "text": texts[i], "history": "get_code(..., stiff_states=L) with one list object L"})
                break
            if outs[0] != fresh or outs[1] != fresh or (fresh_jax is not None and outs[2] != fresh_jax):
                rep.violation("generating again with the same stiff_states object gives different code than a first generation",
                              {"kind": "direct", "text": texts[i], "history": "get_code(..., stiff_states=L) three times (numpy, numpy, jax) with one list object L"})
                break
        # a scheme function obtained earlier keeps its name
        ode = cases[0].ode
        cg = PythonCodeGenerator(ode, format=Format.none)
        f = get_scheme("euler")
        get_scheme("explicit_euler"); get_scheme("forward_euler")
        src = cg.scheme(f)
        rep.case(key="held-function", nontrivial=True)
        if "def euler(" not in src:
            rep.violation("a scheme function obtained from get_scheme('euler') is emitted under another name after later get_scheme calls",
                          {"kind": "direct", "history": ["f = get_scheme('euler')", "get_scheme('explicit_euler')", "get_scheme('forward_euler')", "codegen.scheme(f)"],
                           "emitted": src.split("(")[0][-40:]})
    drv.close()
    return rep.finish(
        level="proof",
        rule="two fixed witnesses + random models with 1-5 intermediates (names include pairs differing only in case); each text is loaded "
             "and generated (numpy x2, jax, C, all layouts) in fresh processes with PYTHONHASHSEED in {0..4, random} (quick) / {0..39, 8 x random} "
             "(thorough); non-trivial = at least three assignments; plus processes that load a single text (among them a sibling model with the same names and "
             "dependency sets but other formulas) compared with the processes that loaded all texts, and in-process histories on 8 models",
        trusted_base=["Coq 8.16.1 kernel", "extraction + ocaml/driver.ml", "CPython's set iteration order is modelled as an arbitrary permutation"],
        assumptions=["fresh subprocesses under different PYTHONHASHSEED sample the possible iteration orders; the theorem covers all of them for the mirror"],
    )


if __name__ == "__main__":
    sys.exit(main())
