"""C06 - generalized Rush-Larsen follows the exponential-integrator formula, guarded.

 1. theorems of coq/Props/C06.v: a validated program computes x + (f/g)(exp(g dt) - 1) / the guarded
    form / the Euler update per slot (every carrier with field laws); over the reals: the
    symbolic derivative D used for g is the derivative of the rate with respect to the own state,
    the step is exact for rates affine in the own state, a passed guard excludes division by zero;
 2. correspondence: the generated function passes Schemes.valid_scheme with the slot modes read off
    the code; the modes equal the mirror's prediction (Euler iff D is identically zero; unguarded
    only where fraction_numerator_is_nonzero says so, which is cross-checked numerically); the value
    of every <d>_linearized equals the extracted evaluation of D at sample inputs;
 3. direct: the returned step against the formula evaluated from the model's f and g, at random
    points, at points with a state set to 0, for rates affine in the own state with the coefficient
    placed at 0, +-delta(1 -+ 2^-10), for delta in {1e-8, 0, 1e-3, 0.5, 10}, under both accepted scheme
    names; finiteness whenever f and g are finite.
"""
from __future__ import annotations

import math
import random
import sys
import warnings

import numpy as np

import cback
import core
import family
import impl
import lang
import pipeline
import schemes_obs as so
from pipeline import close

DELTAS = [1e-8, 1e-8, 0.0, 1e-3, 0.5, 10.0]
NAMES = ["generalized_rush_larsen", "generalized_rush_larsen", "forward_generalized_rush_larsen"]


def with_locals(code, fname):
    """the generated function, modified to also return its local variables (to observe the value
    of <d>_linearized)"""
    head, rest = code.split(f"def {fname}(", 1)
    body, tail = rest.split("    return values", 1)
    src = "import numpy\ndef " + fname + "(" + body + "    return values, dict(locals())\n"
    ns = {}
    exec(compile(src, "<generated+locals>", "exec"), ns)  # noqa: S102
    return ns[fname]


def affine_model(rng, delta):
    """dx_dt = a*x + b (a a parameter): g = a exactly"""
    text = ("states(x=1, y=2)\nparameters(a=0.5, b=2, c=1)\n"
            + rng.choice(["dx_dt = a*x + b\n", "dx_dt = b + x*a\n", "k = a*x\ndx_dt = k/1 + b\n" if False else "dx_dt = a*x + b*y\n"])
            + "dy_dt = -c*y + x\n")
    return text


def float_power_singular(ode, s, pt, lay, gi, g):
    """the open finding, by cause: sympy differentiates u**2.0 (floating-point exponent) and (Y/2)**2 (unevaluated
    base) as n*u**n*u'/u, which is 0/0 where u vanishes; for the evaluated rate with exact exponents the same
    derivative is finite and right"""
    if math.isfinite(gi) or not math.isfinite(g):
        return False
    import sympy
    try:
        e = ode[f"d{s}_dt"].expr
        if not e.atoms(sympy.Pow):
            return False
        e2 = e.replace(lambda a: isinstance(a, sympy.Pow) and a.exp.is_Float,
                       lambda a: sympy.Pow(a.base, sympy.nsimplify(a.exp, rational=True)))
        d = sympy.diff(e2.doit(), ode[s].symbol)
        inter = {x.symbol: x.expr for x in ode.intermediates}
        for _ in range(len(inter) + 1):
            d = d.xreplace(inter)
        vals = {ode[k].symbol: v for k, v in list(pt["states"].items()) + list(pt["params"].items())}
        vals[ode.t] = pt["t"]
        v = float(d.subs(vals).evalf())
        return math.isfinite(v) and close(v, g, 1.0 + abs(g), 1e-8)
    except Exception:  # noqa: BLE001
        return False


def numerator_is_a_number(ode, s):
    """the class of the listed finding: the linearisation of the state's rate is a product of non-zero numbers and
    reciprocals (a non-zero number divided by an expression), which is all the shortcut at the pinned commit accepts"""
    import sympy

    def shape(e):
        if isinstance(e, sympy.Pow):
            return e.args[1] is sympy.S.NegativeOne
        if isinstance(e, sympy.Mul):
            return all((len(a.free_symbols) == 0 and bool(a.is_nonzero)) or shape(a) for a in e.args)
        return False
    try:
        d = ode[f"d{s}_dt"]
        g = d.expr.diff(d.state.symbol)
        return bool((len(g.free_symbols) == 0 and g.is_nonzero) or shape(g))
    except Exception:  # noqa: BLE001
        return False


def check_text(rep, drv, rng, text, delta, fname, points, model=None, extra=None):
    """shared by random and directed cases; points: list of dicts (t, dt, states, params)"""
    c = pipeline.Case(drv, text, model)
    if c.err is not None:
        rep.count("rejected:" + c.err)
        return None
    issue = family.mirror_issue(c, text)
    lay = c.impl_layout()
    ss = lay["sorted_states"]
    n = len(ss)
    with warnings.catch_warnings():
        warnings.simplefilter("ignore")
        code = family.try_generate(rep, c, text, schemes=[fname], delta=delta)
    if isinstance(code, Exception):
        key = None
        nm = type(code).__name__
        if nm == "PrintMethodNotImplementedError" or (nm == "ValueError" and "_print_Derivative" in str(code)):
            key = "C06-derivative-of-floor-or-mod-unprintable"
        rep.violation(f"generating {fname} raises {nm}: {str(code)[:150]}",
                      {"kind": "direct", "text": text, "delta": delta, "exception": repr(code)[:300]}, finding_key=key)
        return None
    fns = impl.export_functions(code)
    if fname not in fns:
        rep.violation(f"get_code(scheme=[{fname}]) emits functions {sorted(fns)}", {"kind": "direct", "text": text})
        return None
    ns = impl.exec_module(code)
    fl = with_locals(code, fname)
    structural = None
    failing = None
    modes = None
    verd = so.fnin_verdicts(c.ode)
    if issue is None:
        try:
            body = impl.body_to_sx(fns[fname]["body"])
            modes = so.observed_modes(body, ss)
            v = so.validate_scheme(drv, body, ss, modes, ss, delta)
            if not v.get("valid"):
                structural = (f"rejected by Schemes.valid_scheme with the observed modes {modes}: {v}",
                              {"kind": "validator", "relation": "Schemes.valid_scheme (all states stiff)", "text": text,
                               "delta": delta, "modes": modes, "failing_input": None})
            elif fname == "generalized_rush_larsen":
                so.check_mirror_rl(rep, drv, text, fns[fname]["args"], body, ss, modes, ss, delta)
            pred = drv.ask(["predict", [s for s in ss if verd[s]["nonzero"]]])
            for s, mo, mp, lz in zip(ss, modes, pred["modes"], pred["lin_zero"]):
                rep.count("mode:" + mo)
                if mo == mp:
                    continue
                if mo == "euler" and mp != "euler":
                    rep.count("is_zero_decided_by_sympy_only")   # checked numerically below
                    continue
                structural = (f"state {s}: the generated update is '{mo}', the mirror predicts '{mp}'",
                              {"kind": "correspondence", "relation": "Schemes.predict_mode vs generated update", "text": text,
                               "delta": delta, "state": s, "failing_input": None})
        except impl.SkeletonError as ex:
            structural = ("statement outside the skeleton: " + str(ex),
                          {"kind": "validator", "relation": "skeleton export", "text": text, "failing_input": None})
    for pt in points:
        if failing:
            break
        isx, st, ps = pipeline.inputs_sx(lay, pt)
        dt = pt["dt"]
        names = [f"d{s}_dt" for s in ss] + [f"d{s}_dt_linearized" for s in ss]
        if c.mirror is None or c.mirror.get("status") != "ok":
            break
        sv = pipeline.sem_values(drv, 1, isx, names)
        F = dict(zip(ss, sv[:n])); G = dict(zip(ss, sv[n:]))
        if any(v is None or not math.isfinite(v) for v in list(F.values()) + list(G.values())):
            rep.count("points_with_nonfinite_f_or_g")
            continue
        if model is not None:
            try:
                _, S, margin = pipeline.reference_point(model, pt)
            except (lang.Undefined, KeyError):
                continue
            if margin < 1e-6 or S > 1e8:
                continue
            # a sigmoid saturated beyond exp(+-300): its derivative (exp(u)/(1 + exp(u))**2 and the like) cannot be
            # evaluated in float64 by any straightforward formula; the point decides nothing about the linearisation
            _, pr0 = pipeline._reference_once(model, pt, None, 0.0)
            if pr0.sat > 300:
                rep.count("points_with_saturated_sigmoid_skipped")
                continue
        else:
            S = max([1.0] + [abs(v) for v in F.values()] + [abs(x) for x in st])
        with np.errstate(all="ignore"):
            try:
                out, loc = fl(**{a: {"states": np.array(st, dtype=float), "t": pt["t"], "dt": dt,
                                     "parameters": np.array(ps, dtype=float)}[a] for a in fns[fname]["args"]})
            except Exception as ex:  # noqa: BLE001
                failing = (f"{fname} raises {ex!r}", {"kind": "direct", "text": text, "inputs": pt, "delta": delta})
                break
        out = np.array(out, dtype=float)
        for i, s in enumerate(ss):
            x = st[i]; f = F[s]; g = G[s]
            gname = f"d{s}_dt_linearized"
            mode = None if modes is None else modes[i]
            if gname in loc:
                gi = float(loc[gname])
                if not close(gi, g, S + abs(g), 1e-8):
                    key = "C06-derivative-of-power-singular-at-zero-of-base" if float_power_singular(c.ode, s, pt, lay, gi, g) else None
                    failing = (f"{gname} = {gi!r} but the derivative of d{s}_dt with respect to {s} is {g!r}",
                               {"kind": "direct", "text": text, "inputs": pt, "delta": delta, "state": s}, key)
                    break
                if mode == "plain" and gi == 0.0:
                    key = "C06-guard-dropped-underflow" if abs(x) > 1e100 else None
                    failing = (f"the |g| > delta guard was dropped for {s} but g = 0 at this input",
                               {"kind": "direct", "text": text, "inputs": pt, "delta": delta, "state": s}, key)
                    break
            else:
                # the reference g is a float64 evaluation: tan(0.25*sin(pi)) is 3e-17 there and exactly 0 for the implementation;
                # a g within rounding of 0 (relative to the size of the terms) makes the two updates agree within the tolerance anyway
                if abs(g) > 1e-9 * (1.0 + S):
                    failing = (f"state {s} gets the Euler update (no linearisation emitted) but g = {g!r} is not zero",
                               {"kind": "direct", "text": text, "inputs": pt, "delta": delta, "state": s})
                    break
            # the prescribed value (a state for which no linearisation is emitted because the derivative is identically zero has
            # g = 0 exactly; the float64 reference may see rounding noise such as sin(pi) there - see above)
            g_ref = 0.0 if (gname not in loc and abs(g) <= 1e-9 * (1.0 + S)) else g
            want = so.spec_update(x, f, g_ref, dt, delta)
            got = float(out[i])
            ok = close(got, want, S + abs(x) + abs(want), 1e-8) or (math.isinf(want) and not math.isfinite(got))
            key = None
            if not ok and mode == "plain" and 0 < abs(g) <= delta:
                # the guard was dropped ("certainly non-zero") and |g| <= delta: the property asks for the Euler update.
                # For a linearisation that is a numeric constant this is the listed finding; for any other g it is not.
                try:
                    alt = x + f / g * math.expm1(g * dt)
                except OverflowError:
                    alt = math.copysign(float("inf"), f / g)
                unguarded = close(got, alt, S + abs(x) + abs(alt), 1e-8) if math.isfinite(alt) else (got == alt or got != got)
                if unguarded and numerator_is_a_number(c.ode, s):
                    key = "C06-constant-numerator-linearisation-ignores-delta"
                rep.count("plain_mode_below_delta")
            if not ok and abs(abs(g) - delta) <= 1e-13 * max(delta, 1e-300):
                ok = True   # exactly on the boundary up to rounding of g itself
            if not ok:
                failing = (f"{fname}: slot of {s} = {got!r}; x + (f/g)(exp(g dt) - 1) guarded by |g| > {delta} gives {want!r} "
                           f"(x={x!r}, f={f!r}, g={g!r}, dt={dt!r})",
                           {"kind": "direct", "text": text, "inputs": pt, "delta": delta, "state": s, "mode": mode}, key)
                break
            if math.isfinite(f) and math.isfinite(g) and math.isfinite(want) and not math.isfinite(got) \
                    and not (mode == "plain" and 0 < abs(g) <= delta):
                failing = (f"{fname}: slot of {s} is {got!r} although f and g are finite",
                           {"kind": "direct", "text": text, "inputs": pt, "delta": delta, "state": s})
                break
            rep.count("slots_compared")
            if abs(g) <= delta:
                rep.count("slots_compared_with_g_below_delta")
    family.settle(rep, issue, failing, structural)
    return modes


def main(argv=None):
    a = core.std_args(argv)
    rep = core.Report("C06", a.tier, a.seed)
    core.props_or_violation(rep)
    drv = core.Driver()
    rng = random.Random(a.seed)
    gen = lang.Gen(rng, max_depth=3, funcs=["exp", "cos", "sin", "atan", "log", "sqrt", "abs", "tan", "floor"], allow_mod=True,
                   allow_rel_arith=False)
    n = a.n or (36 if a.tier == "quick" else 900)
    if a.replay:
        import json as _json
        import textmodel
        data = _json.load(open(a.replay))
        text = data["text"]
        c0 = pipeline.Case(drv, text)
        m = textmodel.model_from_items(c0.captured) if c0.err is None else None
        pts = [data["inputs"]] if isinstance(data.get("inputs"), dict) and "states" in data["inputs"] else []
        if m is not None:
            pts += gen.inputs(m, 6)
            for x in lang.model_summary(m)["states"][:2]:
                p = dict(pts[-1]); p["states"] = dict(p["states"]); p["states"][x] = 0.0
                pts.append(p)
        core.guarded(rep, text, check_text, rep, drv, rng, text, data.get("delta", 1e-8),
                     data.get("scheme", "generalized_rush_larsen"), pts, model=m)
        rep.case(key=text, nontrivial=True)
        drv.close()
        return rep.finish(level="proof", rule="replay of " + a.replay, trusted_base=["see the full check"])
    # ---- directed: rates affine in the own state, coefficient around the guard
    for delta in ([1e-8, 1e-3, 0.0, 10.0] if a.tier == "quick" else DELTAS):
        text = "states(x=1, y=2)\nparameters(a=0.5, b=2, c=1)\ndx_dt = a*x + b*y\ndy_dt = x - c*y\n"
        pts = []
        for av in [0.0, delta * (1 - 2.0 ** -10), delta * (1 + 2.0 ** -10), -delta * (1 - 2.0 ** -10), -delta * (1 + 2.0 ** -10),
                   1e-9, 0.5, -3.0, delta]:
            for dt in (0.0, 0.125, 1.0, -0.5):
                pts.append({"t": 0.5, "dt": dt, "states": {"x": 1.25, "y": -0.5}, "params": {"a": av, "b": 2.0, "c": av}})
        for fname in ("generalized_rush_larsen", "forward_generalized_rush_larsen"):
            core.guarded(rep, text, check_text, rep, drv, rng, text, delta, fname, pts)
            rep.case(key=(text, delta, fname), nontrivial=True)
    # ---- the known finding's witness (guard dropped by the "certainly non-zero" shortcut, g underflows)
    text = "states(x=1)\ndx_dt = atan(x)\n"
    core.guarded(rep, text, check_text, rep, drv, rng, text, 1e-8, "generalized_rush_larsen",
                 [{"t": 0.0, "dt": 0.1, "states": {"x": 1e160}, "params": {}}, {"t": 0.0, "dt": 0.1, "states": {"x": 2.0}, "params": {}}])
    rep.case(key=text, nontrivial=True)
    # ---- the witness of the float-power finding (derivative printed as 0/0 at a zero of the base)
    text = "states(b2=-0.3, V=0.5)\ndb2_dt = (b2* b2)**2.0\ndV_dt = 0.5 - V\n"
    core.guarded(rep, text, check_text, rep, drv, rng, text, 0.5, "generalized_rush_larsen",
                 [{"t": 1.0, "dt": 0.0625, "states": {"b2": 0.0, "V": 0.125}, "params": {}},
                  {"t": 1.0, "dt": 0.0625, "states": {"b2": 0.75, "V": 0.125}, "params": {}}])
    rep.case(key=text, nontrivial=True)
    # ---- the witness of the constant-linearisation finding (guard dropped for a numeric g, delta not honoured)
    text = "states(x=1, y=2)\ndx_dt = -0.3*x + y\ndy_dt = -y\n"
    core.guarded(rep, text, check_text, rep, drv, rng, text, 0.5, "generalized_rush_larsen",
                 [{"t": 0.0, "dt": 1.0, "states": {"x": 1.25, "y": 0.5}, "params": {}}])
    rep.case(key=text, nontrivial=True)
    # ---- gating-variable shapes: the linearisation is a symbolic factor that can never be exactly zero (exp, cosh,
    #      a logistic) but does drop below delta or underflow - the guard has to stay
    text = ("states(x=0.5, V=1, w=0.25)\nparameters(xinf=1)\ndx_dt = (xinf - x)*exp(-V*V)\ndV_dt = 0.1 - V/(1 + exp(V))\n"
            "dw_dt = (xinf - w)/(1 + exp(V))\n")
    gpts = [{"t": 0.0, "dt": dtv, "states": {"x": 0.5, "V": Vv, "w": 0.25}, "params": {"xinf": 1.0}}
            for Vv in (5.0, 3.0, 30.0, 0.5) for dtv in (0.125, 100.0)]
    for dlt in (1e-8, 1e-3):
        core.guarded(rep, text, check_text, rep, drv, rng, text, dlt, "generalized_rush_larsen", gpts)
        rep.case(key=(text, dlt), nontrivial=True)
    # ---- reciprocal powers of a symbol: g = -1/tau**2, -1/sqrt(tau), -1/(tau*tau*tau) is never exactly zero on paper but drops below
    #      delta and underflows (tau = 1e160): only an exact reciprocal a**-1 of a non-zero *number* may lose the guard
    text = ("states(m=0.1, n=0.3, h=0.2)\nparameters(tau=2.0, m_inf=0.5)\ndm_dt = (m_inf - m)/(tau*tau)\ndn_dt = (m - n)/sqrt(tau)\n"
            "dh_dt = (m_inf - h)/(tau*tau*tau)\n")
    rpts = [{"t": 0.0, "dt": dtv, "states": {"m": 0.1, "n": 0.3, "h": 0.2}, "params": {"tau": tv, "m_inf": 0.5}}
            for tv in (2.0, 1e3, 1e160, 0.5) for dtv in (0.1, 1.0)]
    for dlt in (1e-8, 0.5):
        core.guarded(rep, text, check_text, rep, drv, rng, text, dlt, "generalized_rush_larsen", rpts)
        rep.case(key=(text, dlt), nontrivial=True)
    # ---- a state whose derivative is a relation (a flag that integrates the time above a threshold): the number 1 or 0, its
    #      linearisation is identically zero, the slot gets the Euler update
    text = "states(v=1, above=0.25)\nparameters(th=0.5)\ndv_dt = -v\ndabove_dt = Gt(v, th)\n"
    fpts = [{"t": 0.0, "dt": dtv, "states": {"v": vv, "above": 0.25}, "params": {"th": 0.5}} for vv in (1.0, 0.25) for dtv in (0.1, 1.0)]
    for fname in ("generalized_rush_larsen", "forward_generalized_rush_larsen"):
        core.guarded(rep, text, check_text, rep, drv, rng, text, 1e-8, fname, fpts)
        rep.case(key=(text, fname), nontrivial=True)
    # ---- random models
    for i in range(n):
        got = family.new_case(drv, rng, gen, rep, self_dep=0.85)
        if got is None:
            continue
        m, text, c = got
        delta = rng.choice(DELTAS)
        fname = rng.choice(NAMES)
        pts = gen.inputs(m, 4)
        # also points with one state at 0 (where a factor of g may vanish)
        s = lang.model_summary(m)
        for x in s["states"][:2]:
            p = dict(pts[0]); p["states"] = dict(p["states"]); p["states"][x] = 0.0
            pts.append(p)
        modes = core.guarded(rep, text, check_text, rep, drv, rng, text, delta, fname, pts, model=m)
        rep.case(key=text, nontrivial=bool(modes) and any(mo != "euler" for mo in modes))
        rep.sample({"text": text, "delta": delta, "scheme": fname}, limit=2)
    drv.close()
    return rep.finish(
        level="proof",
        rule="directed affine models with the own-state coefficient at 0, +-delta(1 -+ 2^-10), delta, 1e-9, 0.5, -3 for each delta, both "
             "scheme names; the underflow witness; gating-variable and reciprocal-power shapes (exp(-V*V), 1/(1+exp(V)), 1/tau**2, 1/sqrt(tau)) below delta and at underflow; random models whose rates depend on their own state (85%), functions incl. abs/"
             "floor/Mod, delta in {1e-8, 0, 1e-3, 0.5, 10}; 4 random points + points with a state at 0; non-trivial = some slot is "
             "not an Euler slot",
        trusted_base=["Coq 8.16.1 kernel", "Coquelicot + the standard library's real numbers for the theorems over R",
                      "extraction + ocaml/driver.ml", "harness skeleton exporter / Python-ast -> expr translation"],
        assumptions=["sympy.diff is an oracle: its value is compared with the extracted evaluation of the Coq differentiator D",
                     "tolerance 1e-8*(1+S+|x|+|v|)"],
    )


if __name__ == "__main__":
    sys.exit(main())
