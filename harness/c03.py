"""C03 - generated JAX code computes the same values, with full-size outputs.

 1. theorems of coq/Props/C03.v (a validated function returns under the jax calling convention an
    array of the declared length equal to the numpy result; an unassigned declared slot is an
    error);
 2. correspondence: the skeletons exported from the generated jax module (the _values_i
    assignments and the returned list) pass the same validators as the numpy functions, against the
    same slot tables, with the returned list being exactly _values_0 .. _values_{n-1} for the
    declared n;
 3. direct: the module imports and every function runs jitted and with jax_disable_jit; output
    lengths (states / monitored names / requested missing values), values against the reference
    meaning and against the numpy module; models without parameters; conditionals whose And / Or
    have 2-5 operands, nested in each other.
"""
from __future__ import annotations

import ast as pyast
import random
import re
import sys

import numpy as np

import cback
import core
import family
import impl
import lang
import pipeline
from pipeline import close


def returned_names(code, fname):
    mod = pyast.parse(code)
    for fd in mod.body:
        if isinstance(fd, pyast.FunctionDef) and fd.name == fname:
            for st in fd.body:
                if isinstance(st, pyast.Return):
                    v = st.value
                    if isinstance(v, pyast.Call) and v.args and isinstance(v.args[0], pyast.List):
                        return [pyast.unparse(e) for e in v.args[0].elts]
                    return [pyast.unparse(v)]
    return None


def check_model(rep, drv, gen, rng, m, text, c, fixed_points=None):
    import jax

    issue = family.mirror_issue(c, text)
    lay = c.impl_layout()
    ss, pn = lay["sorted_states"], lay["params"]
    n = len(ss)
    req = {nme: i for i, nme in enumerate(rng.sample(lay["order"], k=min(len(lay["order"]), rng.choice([1, 2, 3]))))}
    # the slot mapping of missing values need not follow evaluation order
    if len(req) > 1 and rng.random() < 0.5:
        ks = list(req)
        rng.shuffle(ks)
        req = {k: i for i, k in enumerate(ks)}
    stiff = ss[: max(1, n // 2)]
    try:
        ncode = impl.gen_python(c.ode, schemes=impl.ALL_SCHEMES, backend="numpy", missing_values=req, stiff_states=stiff)
    except Exception as ex:  # noqa: BLE001
        rep.count("numpy_backend_raises_too:" + type(ex).__name__)   # not a function the NumPy backend offers (see C06)
        return None
    try:
        jcode = impl.gen_python(c.ode, schemes=impl.ALL_SCHEMES, backend="jax", missing_values=req, stiff_states=stiff)
    except Exception as ex:  # noqa: BLE001
        rep.violation(f"generating the jax module raises {type(ex).__name__}: {str(ex)[:120]} (the numpy module is generated)", {"kind": "direct", "text": text})
        return None
    failing = None
    structural = None

    def fail(what, **kw):
        nonlocal failing
        if failing is None:
            d = {"kind": "direct", "text": text}
            d.update(kw)
            failing = (what, d)

    try:
        jns = cback.jax_module(jcode)
    except Exception as ex:  # noqa: BLE001
        rep.violation(f"the generated jax module does not import: {type(ex).__name__}: {str(ex)[:120]}", {"kind": "direct", "text": text, "code": jcode[:2000]})
        return None
    nns = impl.exec_module(ncode)
    jf = impl.export_functions(jcode)
    nf = impl.export_functions(ncode)
    expected_len = {"rhs": n, "monitor_values": len(lay["order"]), "missing_values": len(req)}
    for s_ in impl.ALL_SCHEMES:
        expected_len[s_] = n
    # ---- structure: returned list and validators
    for fname, nret in expected_len.items():
        rn = returned_names(jcode, fname)
        want = [f"_values_{i}" for i in range(nret)]
        if rn != want:
            fail(f"jax {fname} returns {rn}, the documented output has {nret} entries ({want[:3]}...)", function=fname)
    if issue is None and failing is None:
        try:
            v = {
                "rhs": pipeline.validate(drv, "rhs", 0, n, [], impl.body_to_sx(jf["rhs"]["body"])),
                "monitor_values": pipeline.validate(drv, "named", 0, len(lay["order"]), lay["order"], impl.body_to_sx(jf["monitor_values"]["body"])),
                "missing_values": pipeline.validate(drv, "named", 0, len(req), [k for k, _ in sorted(req.items(), key=lambda kv: kv[1])],
                                                    impl.body_to_sx(jf["missing_values"]["body"])),
                "explicit_euler": pipeline.validate(drv, "euler", 1, n, [], impl.body_to_sx(jf["explicit_euler"]["body"])),
            }
            bad = {k: x for k, x in v.items() if not x.get("valid")}
            if bad:
                structural = ("jax function rejected by the validators: " + str(bad),
                              {"kind": "validator", "relation": "Valid.valid_rhs / valid_named / valid_euler on the jax skeleton", "text": text,
                               "failing_input": None})
        except impl.SkeletonError as ex:
            structural = ("jax function has a statement outside the skeleton: " + str(ex),
                          {"kind": "validator", "relation": "skeleton export", "text": text, "failing_input": None})
    # ---- numerics, jitted and not
    if fixed_points is not None:
        pts = []
        for pt in fixed_points:
            try:
                ref, S, margin = pipeline.reference_point(m, pt)
                pts.append((pt, ref, S))
            except (lang.Undefined, KeyError):
                pass
    else:
        pts, _ = family.usable_points(gen, m, 10, want=3)
    for pt, ref, S in pts:
        isx, st, ps = pipeline.inputs_sx(lay, pt)
        allv = dict(ref); allv.update(pt["states"]); allv.update(pt["params"])
        for mode in ("jit", "nojit"):
            ctx = jax.disable_jit() if mode == "nojit" else None
            if ctx is not None:
                ctx.__enter__()
            try:
                for fname, nret in expected_len.items():
                    dt = 0.125
                    try:
                        out = cback.call_jax(jns[fname], jf[fname]["args"], pt["t"], st, ps, dt=dt)
                    except Exception as ex:  # noqa: BLE001
                        fail(f"jax {fname} ({mode}) raises {type(ex).__name__}: {str(ex)[:140]}", function=fname, inputs=pt, mode=mode)
                        continue
                    if out.shape != (nret,):
                        fail(f"jax {fname} ({mode}) returns shape {out.shape}, documented length {nret}", function=fname, inputs=pt)
                        continue
                    with np.errstate(all="ignore"):
                        ref_out = np.array(impl.call_numpy(nns[fname], nf[fname]["args"], pt["t"], st, ps, dt=dt), dtype=float)
                    for i in range(nret):
                        if np.isfinite(ref_out[i]) and not close(float(out[i]), float(ref_out[i]), S + abs(float(ref_out[i])), 1e-8):
                            fail(f"jax {fname} ({mode}) slot {i} = {out[i]!r}, numpy module gives {ref_out[i]!r}", function=fname, inputs=pt, mode=mode)
                            break
                    if fname == "monitor_values":
                        for i, x in enumerate(lay["order"]):
                            if not close(float(out[i]), ref[x], S, 1e-8):
                                fail(f"jax monitor_values ({mode}) [{i}] for {x} = {out[i]!r}, the model defines {ref[x]!r}", inputs=pt, mode=mode)
                                break
                    if fname == "missing_values":
                        for x, i in req.items():
                            if not close(float(out[i]), allv[x], S, 1e-8):
                                fail(f"jax missing_values ({mode}) [{i}] for {x} = {out[i]!r}, the model defines {allv[x]!r}", inputs=pt, mode=mode, requested=req)
                                break
                    rep.count("jax_calls_compared")
            finally:
                if ctx is not None:
                    ctx.__exit__(None, None, None)
        if failing:
            break
    # ---- initial values
    for kind, names in (("state", ss), ("parameter", pn)):
        try:
            a = np.array(jns[f"init_{kind}_values"](), dtype=float)
            b = np.array(nns[f"init_{kind}_values"](), dtype=float)
            if a.shape != (len(names),) or not np.allclose(a, b, rtol=1e-12, atol=0, equal_nan=True):
                fail(f"jax init_{kind}_values() = {a.tolist()}, numpy {b.tolist()}")
            if names:
                k = rng.choice(names)
                a2 = np.array(jns[f"init_{kind}_values"](**{k: 42.5}), dtype=float)
                if a2[jns[f"{kind}_index"](k)] != 42.5:
                    fail(f"jax init_{kind}_values({k}=42.5) does not put the override into slot {kind}_index({k})")
        except Exception as ex:  # noqa: BLE001
            fail(f"jax init_{kind}_values raises {type(ex).__name__}: {str(ex)[:100]}")
    family.settle(rep, issue, failing, structural)
    return True


def main(argv=None):
    a = core.std_args(argv)
    rep = core.Report("C03", a.tier, a.seed)
    core.props_or_violation(rep)
    drv = core.Driver()
    if a.replay:
        import json as _json
        family.replay_text_case(rep, drv, _json.load(open(a.replay)), check_model)
        drv.close()
        return rep.finish(level="proof", rule="replay of " + a.replay, trusted_base=["see the full check"])
    rng = random.Random(a.seed)
    gen = lang.Gen(rng, max_depth=3, p_cond=0.35)
    n = a.n or (16 if a.tier == "quick" else 400)
    core.CASE_SECONDS = 120
    # directed: connectives nested in each other, every sign pattern of the three states
    import itertools
    import textmodel
    conds = ["And(Gt(z, 0), Or(Gt(x, 0), Gt(y, 0)))", "And(Or(Gt(x, 0), Gt(y, 0)), Gt(z, 0))", "Or(And(Gt(x, 0), Gt(y, 0)), Gt(z, 0))",
             "Or(Gt(z, 0), And(Gt(x, 0), Gt(y, 0)), Lt(p, 0))", "And(Gt(z, 0), Or(Gt(x, 0), Gt(y, 0)), Not(Or(Lt(p, 0), Gt(x, 1))))",
             "Not(And(Or(Gt(x, 0), Gt(y, 0)), Or(Gt(z, 0), Lt(p, 0))))"]
    for k in range(len(conds)):
        cd = conds[(a.seed + k) % len(conds)]
        text = f"states(x=1, y=1, z=1)\nparameters(p=1)\nw = Conditional({cd}, x + 2, y - 3)\ndx_dt = w\ndy_dt = Conditional({cd}, 1, 2)*z\ndz_dt = -z + p\n"
        c = pipeline.Case(drv, text)
        m = textmodel.model_from_items(c.captured)
        pts = [{"t": 0.0, "dt": 0.1, "states": {"x": sx, "y": sy, "z": sz}, "params": {"p": sp}}
               for sx, sy, sz in itertools.product([-0.5, 0.75], repeat=3) for sp in (-1.0, 2.0)]
        core.guarded(rep, text, check_model, rep, drv, gen, rng, m, text, c, fixed_points=pts)
        rep.case(key=text, nontrivial=True)
        rep.count("directed_nested_connective_models")
    # directed: Mod / floor / abs on operands of either sign (the model's Mod has the sign of the divisor)
    text = ("states(x=1, y=2)\nparameters(p=1)\na = Mod(x, 2) + Mod(y, -3) + Mod(-x, 2.5) + Mod(x*y, p)\n"
            "b = floor(x) + floor(-y) + abs(x) - abs(-y)\nc = Conditional(Gt(Mod(x, 2), 1), x, y)\ndx_dt = a + b\ndy_dt = c\n")
    c_ = pipeline.Case(drv, text)
    m_ = textmodel.model_from_items(c_.captured)
    pts = [{"t": 0.0, "dt": 0.1, "states": {"x": sx, "y": sy}, "params": {"p": sp}}
           for sx in (-1.5, 1.25, -0.25, 2.75) for sy in (-1.75, 0.5) for sp in (1.5, -2.5)]
    core.guarded(rep, text, check_model, rep, drv, gen, rng, m_, text, c_, fixed_points=pts)
    rep.case(key=text, nontrivial=True)
    rep.count("directed_sign_models")
    # directed: equality tests between inputs and literals, at equality and a few 1e-6 away (equal means equal: a tolerance
    # such as isclose's 1e-5 picks the wrong branch)
    text = ("states(v=1, w=0.5)\nparameters(c=2)\ndv_dt = Conditional(Eq(v, 1), 10, 20) + Conditional(Not(Eq(w, 0.5)), 1, 2)\n"
            "dw_dt = Conditional(Eq(c, 2), v, -v) + Conditional(Eq(v, w), 5, 7)\n")
    c_ = pipeline.Case(drv, text)
    m_ = textmodel.model_from_items(c_.captured)
    pts = [{"t": 0.0, "dt": 0.1, "states": {"v": sv, "w": sw}, "params": {"c": sc}}
           for sv in (1.0, 1.000004, 0.999996, 0.5) for sw in (0.5, 0.500002, 1.000004) for sc in (2.0, 2.000008)]
    core.guarded(rep, text, check_model, rep, drv, gen, rng, m_, text, c_, fixed_points=pts)
    rep.case(key=text, nontrivial=True)
    rep.count("directed_equality_models")
    # directed: Not / And / Or applied to numbers (relation-valued intermediates, a flag parameter)
    text = open(str(core.VERIF / "corpus" / "C01" / "logical_operators_on_numbers.ode")).read()
    c_ = pipeline.Case(drv, text)
    if c_.err is None:
        m_ = textmodel.model_from_items(c_.captured)
        pts = [{"t": 0.0, "dt": 0.1, "states": {"x": sx, "y": sy}, "params": {"use": u_, "a": 1.5}}
               for sx in (0.5, 2.0) for sy in (-1.0, 1.0) for u_ in (1.0, 0.0, 2.0)]
        core.guarded(rep, text, check_model, rep, drv, gen, rng, m_, text, c_, fixed_points=pts)
        rep.case(key=text, nontrivial=True)
        rep.count("directed_logical_models")
    # directed: powers whose exponent is a parameter with an integer value (a Hill coefficient) and whose base takes either sign
    text = ("states(x=1, y=2)\nparameters(n=2, h=3)\nq = (x/2)**n + (-y)**h + (x*y)**n\ndx_dt = q - x\ndy_dt = (x - 1)**h/(1 + (x - 1)**n) - y\n")
    c_ = pipeline.Case(drv, text)
    m_ = textmodel.model_from_items(c_.captured)
    pts = [{"t": 0.0, "dt": 0.1, "states": {"x": sx, "y": sy}, "params": {"n": pn_, "h": ph}}
           for sx in (-2.0, 1.5, 0.0) for sy in (-1.25, 2.0) for pn_, ph in ((2.0, 3.0), (4.0, 1.0), (0.0, 2.0))]
    core.guarded(rep, text, check_model, rep, drv, gen, rng, m_, text, c_, fixed_points=pts)
    rep.case(key=text, nontrivial=True)
    rep.count("directed_power_models")
    for i in range(n):
        kw = {}
        if i % 5 == 1:
            kw["n_params"] = 0            # a model without parameters
        if i % 5 == 2:
            kw["n_states"] = rng.choice([11, 12]); kw["n_inters"] = 2   # two-digit slot numbers
            gen.max_depth = 2
        else:
            gen.max_depth = rng.choice([3, 4, 4])    # depth 4: And / Or nested in each other
        got = family.new_case(drv, rng, gen, rep, self_dep=0.4, **kw)
        if got is None:
            continue
        m, text, c = got
        k = core.guarded(rep, text, check_model, rep, drv, gen, rng, m, text, c)
        rep.case(key=text, nontrivial=bool(k))
        rep.count("models_with_And_or_Or", 1 if ("And(" in text or "Or(" in text) else 0)
        rep.sample({"text": text[:800]}, limit=2)
    drv.close()
    return rep.finish(
        level="proof",
        rule="random accepted models rich in conditionals with 2-5-operand And/Or (also nested); every 5th without parameters, every 5th with "
             "11-12 states; all functions (rhs, monitor_values, missing_values with a shuffled slot mapping, three schemes, init functions) "
             "jitted and with jax_disable_jit at 2 points; non-trivial = the module imported and ran. jit compilation dominates the cost "
             "(30 models in the quick tier)",
        trusted_base=["Coq 8.16.1 kernel", "extraction + ocaml/driver.ml", "harness skeleton exporter", "jax as executor (tracing itself is not modelled; both modes are run)"],
        assumptions=["tolerance 1e-8*(1+S+|v|) between jax (XLA) and numpy"],
    )


if __name__ == "__main__":
    sys.exit(main())
