#!/bin/sh
# Runs every seeded change in /verif/seeded against the quick check of its property, each in its own
# scratch worktree of /repo (GOTRANX_REPO points the check at it); writes seeded/<id>/detection.txt.
# usage: seed_matrix.sh [parallel jobs]   (SEED_MATRIX_ONLY=<regex> restricts the run to matching directories, SEED_MATRIX_SEED=<n> sets the seed)
J=${1:-4}
mkdir -p /tmp/seedrun
for d in /verif/seeded/*/; do echo "$d"; done | grep -E "${SEED_MATRIX_ONLY:-.}" | xargs -P "$J" -I{} sh -c '
d="{}"; d=${d%/}; name=$(basename "$d"); pid=${name%%-*}; wt=/tmp/seedrun/$name
rm -rf "$wt"; git -C /repo worktree prune 2>/dev/null
git -C /repo worktree add -q --detach "$wt" HEAD || { echo "$name WORKTREE-FAILED"; exit 0; }
if ! git -C "$wt" apply "$d/patch.diff" 2>/dev/null; then
  echo "$name patch-does-not-apply-to-current-HEAD" | tee "$d/detection.txt"
else
  out=$(cd /verif && GOTRANX_REPO="$wt" ./check "$pid" --tier quick ${SEED_MATRIX_SEED:+--seed $SEED_MATRIX_SEED} 2>&1)
  nv=$(echo "$out" | grep -c "^VIOLATION")
  nf=$(echo "$out" | grep "^VIOLATION" | grep -vc "no-failing-input-found")
  first=$(echo "$out" | grep -A1 "^VIOLATION" | sed -n 2p | cut -c1-220)
  echo "$name check=$pid violations=$nv with_failing_input=$nf :: $first" | tee "$d/detection.txt"
fi
git -C /repo worktree remove --force "$wt" 2>/dev/null
'
