"""C12 - removing unused variables never changes results.

 1. theorems of coq/Props/C12.v (two validated programs agree; a validated body never reads an
    unbound name);
 2. correspondence: both variants (remove_unused on/off) of rhs and explicit Euler pass the
    verified validators against the same slot table; layout mirror agrees;
 3. direct: modules generated with and without the option return identical arrays for rhs and all
    three schemes at sample inputs (NameError / IndexError count as failures), identical index
    tables, identical lengths.
"""
from __future__ import annotations

import random
import sys

import numpy as np

import core
import family
import impl
import lang
import pipeline


def check_model(rep, drv, gen, rng, m, text, c, forced_req=None):
    issue = family.mirror_issue(c, text)
    lay = c.impl_layout()
    mirror_ok = c.mirror is not None and c.mirror.get("status") == "ok"
    stiff = [s for s in lay["sorted_states"] if rng.random() < 0.5]
    mods = {}
    # every other model is generated the way a coupled sub-model is: with a missing_values request (the values another model asks
    # for) that names states / parameters / intermediates, read ones and unread ones alike - the request is served by the same
    # generator object that then writes rhs and the schemes
    req = None
    if forced_req:
        req = dict(forced_req)       # a replay: the recorded request
    elif rng.random() < 0.5:
        pool = lay["params"] + lay["sorted_states"] + lay["order"]
        req = {nme: i for i, nme in enumerate(rng.sample(pool, k=min(len(pool), rng.choice([1, 2, 3, 4]))))}
        rep.count("with_missing_values_request")
    for ru in (False, True):
        code = family.try_generate(rep, c, text, schemes=impl.ALL_SCHEMES, remove_unused=ru, stiff_states=stiff, missing_values=req)
        if isinstance(code, Exception):
            rep.count("generation_raises:" + type(code).__name__)
            return
        mods[ru] = (code, impl.export_functions(code), impl.exec_module(code))
    # validators on both variants
    bad = []
    for ru in (False, True) if mirror_ok else ():
        fns = mods[ru][1]
        try:
            v1 = pipeline.validate(drv, "rhs", 0, len(lay["sorted_states"]), [], impl.body_to_sx(fns["rhs"]["body"]))
            v2 = pipeline.validate(drv, "euler", 1, len(lay["sorted_states"]), [], impl.body_to_sx(fns["explicit_euler"]["body"]))
        except impl.SkeletonError as ex:
            bad.append((ru, "skeleton", str(ex)))
            continue
        pipeline.check_instance(rep, v1, text, "rhs")
        pipeline.check_instance(rep, v2, text, "euler")
        pipeline.check_mirror_function(rep, drv, text, "rhs", ru, "tsp", fns["rhs"]["args"], impl.body_to_sx(fns["rhs"]["body"]))
        pipeline.check_mirror_function(rep, drv, text, "euler", ru, "stdp", fns["explicit_euler"]["args"],
                                       impl.body_to_sx(fns["explicit_euler"]["body"]))
        if not v1.get("valid"):
            bad.append((ru, "rhs", v1))
        if not v2.get("valid"):
            bad.append((ru, "explicit_euler", v2))
    # layout identical
    for name in ("state_index", "parameter_index", "monitor_index"):
        a = {k: mods[False][2][name](k) for k in (lay["sorted_states"] if name == "state_index" else lay["params"] if name == "parameter_index" else lay["order"])}
        b = {k: mods[True][2][name](k) for k in a}
        if a != b:
            rep.violation(f"{name} differs with remove_unused", {"kind": "direct", "text": text, "without": a, "with": b})
            return
    failing = None
    pts = gen.inputs(m, 4)
    for pt in pts:
        isx, st, ps = pipeline.inputs_sx(lay, pt)
        for fname in ["rhs"] + impl.ALL_SCHEMES + (["missing_values"] if req else []):
            outs = {}
            for ru in (False, True):
                fn = mods[ru][2][fname]
                args = mods[ru][1][fname]["args"]
                with np.errstate(all="ignore"):
                    try:
                        outs[ru] = np.array(impl.call_numpy(fn, args, pt["t"], st, ps, dt=pt["dt"]), dtype=float)
                    except Exception as ex:  # noqa: BLE001
                        outs[ru] = ex
            if isinstance(outs[False], Exception):
                rep.count("baseline_raises")
                continue
            if isinstance(outs[True], Exception):
                failing = (f"{fname} generated with remove_unused raises {outs[True]!r}", pt, fname)
                break
            if not family.eq_arrays(outs[False], outs[True]):
                failing = (f"{fname}: with removal {outs[True].tolist()} without {outs[False].tolist()}", pt, fname)
                break
        if failing:
            break
    family.settle(
        rep, issue,
        None if failing is None else (failing[0], {"kind": "direct", "text": text, "inputs": failing[1],
                                                   "function": failing[2], "stiff_states": stiff, "missing_values": req}),
        None if not bad else ("a variant is rejected by the verified validator although sampled values agree: " + str(bad[:1]),
                              {"kind": "validator", "relation": "Valid.valid_rhs / valid_euler on both variants",
                               "text": text, "rejected": bad, "failing_input": None}))
    removed = len(mods[False][1]["rhs"]["body"]) - len(mods[True][1]["rhs"]["body"])
    return removed


def check_submodels(rep, c, text, rng):
    """sub-models (component.to_ode(), model - component) read values from the other half through the
    missing_variables array: removal of unused variables must not change that array's layout, the formals, or the
    values returned for one and the same argument list"""
    ode = c.ode
    n_checked = 0
    for comp in list(ode.components):
        for half_name, build in (("to_ode", lambda: comp.to_ode()), ("minus", lambda: ode - comp)):
            try:
                sub = build()
            except Exception:  # noqa: BLE001
                continue
            if not sub.missing_variables or not sub.states:
                continue
            try:
                codes = {ru: impl.gen_python(sub, schemes=["explicit_euler"], remove_unused=ru) for ru in (False, True)}
            except Exception as ex:  # noqa: BLE001
                rep.count("sub_generation_raises:" + type(ex).__name__)
                continue
            fns = {ru: impl.export_functions(codes[ru]) for ru in codes}
            nss = {ru: impl.exec_module(codes[ru]) for ru in codes}
            ss = [s.name for s in sub.sorted_states()]
            pn = [p.name for p in sub.parameters]
            nm = len(sub.missing_variables)
            for fname in ("rhs", "explicit_euler"):
                if fns[False][fname]["args"] != fns[True][fname]["args"]:
                    rep.violation(f"{half_name} of {comp.name!r}: {fname} has formals {fns[False][fname]['args']} without removal and "
                                  f"{fns[True][fname]['args']} with removal",
                                  {"kind": "direct", "text": text, "component": comp.name, "half": half_name})
                    return n_checked
            for _ in range(2):
                st = [rng.randrange(-12, 13) / 8.0 for _ in ss]
                ps = [rng.randrange(-12, 13) / 8.0 for _ in pn]
                ms = [rng.randrange(-12, 13) / 8.0 for _ in range(nm)]
                outs = {}
                for ru in (False, True):
                    with np.errstate(all="ignore"):
                        try:
                            outs[ru] = np.array(impl.call_numpy(nss[ru]["rhs"], fns[ru]["rhs"]["args"], 0.5, st, ps, missing=ms), dtype=float)
                        except Exception as ex:  # noqa: BLE001
                            outs[ru] = repr(ex)
                if isinstance(outs[False], str) or isinstance(outs[True], str) or not family.eq_arrays(outs[False], outs[True]):
                    rep.violation(f"{half_name} of {comp.name!r}: rhs with removal gives {outs[True]}, without {outs[False]} for the same "
                                  f"states, parameters and missing_variables",
                                  {"kind": "direct", "text": text, "component": comp.name, "half": half_name,
                                   "inputs": {"states": st, "params": ps, "missing": ms}})
                    return n_checked
            n_checked += 1
    return n_checked


def main(argv=None):
    a = core.std_args(argv)
    rep = core.Report("C12", a.tier, a.seed)
    core.props_or_violation(rep)
    drv = core.Driver()
    if a.replay:
        import json as _json
        data_ = _json.load(open(a.replay))
        family.replay_text_case(rep, drv, data_, check_model, forced_req=data_.get("missing_values"))
        drv.close()
        return rep.finish(level="proof", rule="replay of " + a.replay, trusted_base=["see the full check"])
    rng = random.Random(a.seed)
    gen = lang.Gen(rng, max_depth=3)
    n = a.n or (50 if a.tier == "quick" else 1200)
    for i in range(n):
        got = family.new_case(drv, rng, gen, rep, p_unused=rng.choice([0.2, 0.4, 0.6]))
        if got is None:
            continue
        m, text, c = got
        removed = core.guarded(rep, text, check_model, rep, drv, gen, rng, m, text, c)
        if len(list(c.ode.components)) > 1:
            rep.count("sub_models_with_missing_variables", core.guarded(rep, text, check_submodels, rep, c, text, rng) or 0)
        rep.case(key=text, nontrivial=bool(removed))
        rep.count("models_where_removal_changes_the_program", 1 if removed else 0)
        rep.sample({"text": text, "unused": m["unused"]}, limit=2)
    drv.close()
    return rep.finish(
        level="proof",
        rule="random accepted models with a share (20-60%) of parameters/states/intermediates never referenced (chains "
             "of unused intermediates arise from unused intermediates being operands of other unused ones); non-trivial = "
             "removal really shortens the rhs body; rhs + explicit_euler + generalized/hybrid Rush-Larsen compared at 4 points",
        trusted_base=["Coq 8.16.1 kernel", "extraction + ocaml/driver.ml", "harness skeleton exporter"],
        assumptions=["values are compared bit for bit (nan = nan); both variants print every kept statement identically"],
    )


if __name__ == "__main__":
    sys.exit(main())
