"""C19 - model identifiers never collide with names the generated code uses itself.

 1. theorems of coq/Props/C19.v: a validated body binds each name exactly once and never one of
    the function's own formals; consistent renaming of identifiers preserves values;
 2. correspondence: for every (identifier, role) the generated numpy functions of the model using
    the identifier pass the validators (capture-freedom is part of Sem.ok_stmt) whenever generation
    succeeds;
 3. direct: a small model with the identifier in the role state / parameter / intermediate against
    the same model with the identifier renamed to a fresh name: either generation (or loading)
    fails with an error, or every function (generated with and without remove_unused; roles include
    quantities that no expression reads, which remove_unused treats differently) of every backend (numpy always; jax and C on a
    subsample) returns the same numbers as the renamed model; a failure only when the generated
    function is called, a module that does not import / compile, or different numbers are violations.
"""
from __future__ import annotations

import keyword
import random
import sys

import numpy as np

import cback
import core
import impl
import pipeline
from pipeline import close

GENERATOR_NAMES = ["dt", "t", "time", "states", "parameters", "values", "shape", "missing_variables", "numpy", "jax", "len",
                   "dx_dt_linearized", "dz_dt_linearized", "_values_0", "math", "state_index", "rhs", "monitor_values",
                   # the jax backend names its output slots _values_<i>: as many as states in rhs / schemes, more in monitor_values
                   "_values_2", "_values_3", "_values_4", "_values_5", "_values_6", "_values_12"]
PY_NAMES = ["lambda", "for", "if", "class", "def", "None", "True", "import", "is", "in", "not", "or", "and", "print", "float",
            "int", "abs", "max", "min", "sum", "list", "dict", "range", "map", "type", "id", "self", "yield", "async", "match"]
C_NAMES = ["double", "const", "while", "return", "register", "struct", "void", "char", "long", "short", "unsigned", "static",
           "auto", "fabs", "pow", "fmod", "M_PI", "main", "restrict", "inline"]
MATH_NAMES = ["E", "I", "S", "N", "O", "Q", "beta", "gamma", "zeta", "Symbol", "oo", "zoo", "nan", "inf", "e", "Pi", "Abs_", "re", "im",
              "Max", "Min", "sign", "Heaviside", "erf", "atan2", "sinh", "Piecewise", "Eq_", "ln_", "Float"]
SHAPES = ["_x", "__a", "x1", "_1", "a_b_c", "X", "x_", "_", "dx", "d_dt", "dq", "Dz_dt", "x__2", "xdt", "dt_", "t_", "time_", "T"]


def model_text(ident, role):
    """three-state model in which `ident` plays `role`; other names are fixed"""
    if role == "state":
        return (f"states({ident}=0.5, z=2, w=1)\nparameters(p=1.5, q=0.25)\nu = p*{ident} + z\n"
                f"d{ident}_dt = -q*{ident} + u\ndz_dt = Conditional(Gt({ident}, 0), -z, z) + {ident}*w\ndw_dt = u - w*abs({ident}) + z**3 + Mod(z, 2.0)\n")
    if role == "parameter":
        return (f"states(x=0.5, z=2, w=1)\nparameters({ident}=1.5, q=0.25)\nu = {ident}*x + z\n"
                f"dx_dt = -q*x + u\ndz_dt = Conditional(Gt(x, 0), -z, z) + {ident}*w\ndw_dt = u - w*abs({ident}) + z**3 + Mod(z, 2.0)\n")
    if role == "conditional":
        # an intermediate defined directly by a conditional (printed through the Piecewise-assignment path)
        return (f"states(x=0.5, z=2, w=1)\nparameters(p=1.5, q=0.25)\n{ident} = Conditional(Gt(x, 0), p*x + z, z - 1)\nv2 = {ident}*{ident} + 1\n"
                f"dx_dt = -q*x + {ident}\ndz_dt = Conditional(Gt({ident}, 0), -z, z) + v2*w\ndw_dt = {ident} - w*abs(x) + z**3 + Mod(z, 2.0)\n")
    if role == "unread_state":
        # an accumulator: assigned by every scheme, read by no expression (so remove_unused might drop its binding)
        return (f"states(x=0.5, z=2, {ident}=1)\nparameters(p=1.5, q=0.25)\nu = p*x + z\n"
                f"dx_dt = -q*x + u\ndz_dt = Conditional(Gt(x, 0), -z, z) + x\nd{ident}_dt = u - q\n")
    if role == "unread_intermediate":
        return (f"states(x=0.5, z=2, w=1)\nparameters(p=1.5, q=0.25)\nu = p*x + z\n{ident} = u*u - w\n"
                f"dx_dt = -q*x + u\ndz_dt = Conditional(Gt(x, 0), -z, z) + x*w\ndw_dt = u - w*abs(x) + z**3 + Mod(z, 2.0)\n")
    if role == "unread_parameter":
        return (f"states(x=0.5, z=2, w=1)\nparameters(p=1.5, q=0.25, {ident}=3)\nu = p*x + z\n"
                f"dx_dt = -q*x + u\ndz_dt = Conditional(Gt(x, 0), -z, z) + x*w\ndw_dt = u - w*abs(x) + z**3 + Mod(z, 2.0)\n")
    return (f"states(x=0.5, z=2, w=1)\nparameters(p=1.5, q=0.25)\n{ident} = p*x + z\nv2 = {ident}*{ident} + 1\n"
            f"dx_dt = -q*x + {ident}\ndz_dt = Conditional(Gt({ident}, 0), -z, z) + v2*w\ndw_dt = {ident} - w*abs(x) + z**3 + Mod(z, 2.0)\n")


def observe(text, backend, ident_map, ru=False, shape=None):
    """returns ('error', class) or ('ok', {function: values by canonical name})"""
    ode, _, err, ex = impl.load_text(text)
    if err is not None:
        return ("error", "load:" + err)
    inv = {v: k for k, v in ident_map.items()}

    def canon(n):
        for a_, b_ in ident_map.items():
            if n == a_:
                return b_
            if n == f"d{a_}_dt":
                return f"d{b_}_dt"
        return n
    try:
        ss = [s.name for s in ode.sorted_states()]
        pn = [p.name for p in ode.parameters]
        order = [a_.name for a_ in ode.sorted_assignments()]
        stv = {"x": 0.75, "z": -1.25, "w": 0.5, "ID": 0.375}
        pav = {"p": 1.5, "q": 0.25, "ID": 1.75}
        st = [stv.get(canon(s) if canon(s) in stv else "x", 0.75) if canon(s) not in stv else stv[canon(s)] for s in ss]
        st = [stv[canon(s)] if canon(s) in stv else 0.75 for s in ss]
        ps = [pav[canon(p)] if canon(p) in pav else 1.5 for p in pn]
        # a second point where the quantities have other signs than at the first (a captured name often carries a value of
        # the same sign as the right one)
        stv2 = {"x": 4.0, "z": -5.5, "w": 0.5, "ID": -0.625}
        st2 = [stv2[canon(s)] if canon(s) in stv2 else 4.0 for s in ss]
        stiff = [s for s in ss if canon(s) in ("ID", "x", "z")]   # chosen by role, not by slot order
        out = {}
        partial = {}
        if backend in ("numpy", "jax"):
            try:
                code = impl.gen_python(ode, schemes=impl.ALL_SCHEMES, backend=backend, stiff_states=stiff, remove_unused=ru, shape=shape)
            except Exception:  # noqa: BLE001
                if backend != "numpy":
                    raise
                # a name may be refused for one scheme only: what the other schemes generate is judged on its own
                for sch in impl.ALL_SCHEMES:
                    try:
                        partial[sch] = impl.gen_python(ode, schemes=[sch], backend=backend, stiff_states=stiff, remove_unused=ru, shape=shape)
                    except Exception:  # noqa: BLE001
                        pass
                if not partial:
                    raise
                code = None
        else:
            code = cback.gen_c(ode, schemes=impl.ALL_SCHEMES, stiff_states=stiff, remove_unused=ru)
    except Exception as ex2:  # noqa: BLE001
        return ("error", "generate:" + type(ex2).__name__)
    if partial:
        try:
            out["__partial__"] = True
            for sch, pcode in partial.items():
                ns = impl.exec_module(pcode)
                fns = impl.export_functions(pcode)
                with np.errstate(all="ignore"):
                    out[sch] = dict(zip([canon(s) for s in ss], map(float, impl.call_numpy(ns[sch], fns[sch]["args"], 0.25, st, ps, dt=0.125))))
        except Exception as ex2:  # noqa: BLE001
            return ("broken", f"generation succeeded but using the {backend} code raises {type(ex2).__name__}: {str(ex2)[:100]}")
        return ("ok", out)
    try:
        if backend == "numpy":
            ns = impl.exec_module(code)
            fns = impl.export_functions(code)
            with np.errstate(all="ignore"):
                out["rhs"] = dict(zip([canon(s) for s in ss], map(float, impl.call_numpy(ns["rhs"], fns["rhs"]["args"], 0.25, st, ps))))
                out["monitor_values"] = dict(zip([canon(n) for n in order], map(float, impl.call_numpy(ns["monitor_values"], fns["monitor_values"]["args"], 0.25, st, ps))))
                out["rhs@2"] = dict(zip([canon(s) for s in ss], map(float, impl.call_numpy(ns["rhs"], fns["rhs"]["args"], 0.25, st2, ps))))
                out["monitor_values@2"] = dict(zip([canon(n) for n in order], map(float, impl.call_numpy(ns["monitor_values"], fns["monitor_values"]["args"], 0.25, st2, ps))))
                for sch in impl.ALL_SCHEMES:
                    out[sch] = dict(zip([canon(s) for s in ss], map(float, impl.call_numpy(ns[sch], fns[sch]["args"], 0.25, st, ps, dt=0.125))))
                out["init_states"] = dict(zip([canon(s) for s in ss], map(float, ns["init_state_values"]())))
                out["init_parameters"] = dict(zip([canon(p) for p in pn], map(float, ns["init_parameter_values"]())))
                out["index"] = {canon(s): ns["state_index"](s) is not None for s in ss}
        elif backend == "jax":
            ns = cback.jax_module(code)
            fns = impl.export_functions(code)
            out["rhs"] = dict(zip([canon(s) for s in ss], map(float, cback.call_jax(ns["rhs"], fns["rhs"]["args"], 0.25, st, ps))))
            out["monitor_values"] = dict(zip([canon(n) for n in order], map(float, cback.call_jax(ns["monitor_values"], fns["monitor_values"]["args"], 0.25, st, ps))))
            out["rhs@2"] = dict(zip([canon(s) for s in ss], map(float, cback.call_jax(ns["rhs"], fns["rhs"]["args"], 0.25, st2, ps))))
            out["monitor_values@2"] = dict(zip([canon(n) for n in order], map(float, cback.call_jax(ns["monitor_values"], fns["monitor_values"]["args"], 0.25, st2, ps))))
            out["explicit_euler"] = dict(zip([canon(s) for s in ss], map(float, cback.call_jax(ns["explicit_euler"], fns["explicit_euler"]["args"], 0.25, st, ps, dt=0.125))))
        else:
            cm = cback.CModule(code)
            try:
                if not cm.compile_ok:
                    return ("broken", "the generated C unit does not compile: " + cm.compile_log.strip().splitlines()[0][:120])
                rv, _, _ = cm.call("rhs", len(ss), t=0.25, states=st, params=ps)
                mv, _, _ = cm.call("monitor_values", len(order), t=0.25, states=st, params=ps)
                ev, _, _ = cm.call("explicit_euler", len(ss), t=0.25, states=st, params=ps, dt=0.125)
                out["rhs"] = dict(zip([canon(s) for s in ss], map(float, rv)))
                out["monitor_values"] = dict(zip([canon(n) for n in order], map(float, mv)))
                out["explicit_euler"] = dict(zip([canon(s) for s in ss], map(float, ev)))
            finally:
                cm.close()
    except Exception as ex2:  # noqa: BLE001
        return ("broken", f"generation succeeded but using the {backend} code raises {type(ex2).__name__}: {str(ex2)[:100]}")
    return ("ok", out)


def main(argv=None):
    a = core.std_args(argv)
    rep = core.Report("C19", a.tier, a.seed)
    core.props_or_violation(rep)
    drv = core.Driver()
    rng = random.Random(a.seed)
    pool = GENERATOR_NAMES + PY_NAMES + C_NAMES + MATH_NAMES + SHAPES
    if a.tier == "quick":
        idents = GENERATOR_NAMES + ["pow", "fmod"] + rng.sample([x_ for x_ in PY_NAMES], 4) + rng.sample([x_ for x_ in C_NAMES if x_ not in ("pow", "fmod")], 3) \
            + rng.sample(MATH_NAMES, 4) + rng.sample(SHAPES, 3)
    else:
        idents = pool
    core.CASE_SECONDS = 120
    want_cache = {}
    for ident in idents:
        from gotranx.codegen.base import Shape
        runs = [("state", False, None), ("parameter", False, None), ("intermediate", False, None), ("conditional", False, None),
                ("unread_state", True, None), ("unread_intermediate", True, None), ("unread_parameter", True, None),
                ("unread_state", False, None), ("state", True, None), ("intermediate", True, None)]
        if ident in ("shape", "len", "values", "states"):
            # the shape option changes which locals the numpy functions use for themselves
            runs += [("state", False, Shape.single), ("parameter", False, Shape.single), ("intermediate", False, Shape.single)]
        for role, ru, shp in runs:
            if a.tier == "quick" and shp is None and (role, ru) in (("unread_state", False), ("state", True), ("intermediate", True)) \
                    and hash((ident, role, a.seed, "ru")) % 3:
                continue
            fresh = "zq_fresh"
            text = model_text(ident, role)
            ref_text = model_text(fresh, role)
            backends = ["numpy"]
            h = hash((ident, role, a.seed))
            if a.tier != "quick" or h % 4 == 0 or ident in ("double", "const", "restrict", "values", "states", "pow", "fmod", "fabs", "floor", "M_PI"):
                backends.append("C")
            if a.tier != "quick" or h % 5 == 1 or ident in ("jax", "numpy", "lambda") or ident.startswith("_values_"):
                backends.append("jax")
            if shp is not None:
                backends = ["numpy"]
            for be in backends:
                def one():
                    got = observe(text, be, {ident: "ID"}, ru, shp)
                    if (role, be, ru, shp) not in want_cache:
                        want_cache[(role, be, ru, shp)] = observe(ref_text, be, {fresh: "ID"}, ru, shp)
                    want = want_cache[(role, be, ru, shp)]
                    rep.count(f"{be}:{got[0]}")
                    if want[0] != "ok":
                        rep.count("reference_model_failed:" + str(want[1])[:40])
                        return
                    if got[0] == "error":
                        return   # rejected with an error: allowed
                    if got[0] == "broken":
                        rep.violation(f"identifier {ident!r} as {role} ({be}, remove_unused={ru}): {got[1]}", {"kind": "direct", "text": text, "identifier": ident, "role": role, "backend": be, "remove_unused": ru})
                        return
                    for fn, vals in want[1].items():
                        if got[1].get("__partial__") and fn not in got[1]:
                            continue      # refused for this function only
                        g = got[1].get(fn, {})
                        for k_, v in vals.items():
                            gv = g.get(k_)
                            if isinstance(v, bool):
                                continue
                            if gv is None or not (close(gv, v, abs(v), 1e-9) or (gv != gv and v != v)):
                                rep.violation(f"identifier {ident!r} as {role} ({be}, remove_unused={ru}): {fn}[{k_}] = {gv!r}, with the identifier renamed it is {v!r}",
                                              {"kind": "direct", "text": text, "renamed": ref_text, "identifier": ident, "role": role, "backend": be, "function": fn,
                                               "remove_unused": ru})
                                return
                    # capture-freedom of the accepted numpy code (validators)
                    if be == "numpy" and not keyword.iskeyword(ident):   # keywords are renamed (x_) consistently by the printer
                        c = pipeline.Case(drv, text)
                        if c.mirror is not None and c.mirror.get("status") == "ok" and not c.layout_mismatches():
                            code = impl.gen_python(c.ode, schemes=["explicit_euler"], remove_unused=ru)
                            fns = impl.export_functions(code)
                            lay = c.impl_layout()
                            v1 = pipeline.validate(drv, "rhs", 1, len(lay["sorted_states"]), [], impl.body_to_sx(fns["rhs"]["body"]))
                            v2 = pipeline.validate(drv, "euler", 1, len(lay["sorted_states"]), [], impl.body_to_sx(fns["explicit_euler"]["body"]))
                            if not (v1.get("valid") and v2.get("valid")):
                                rep.violation(f"identifier {ident!r} as {role}: numbers agree but the validators reject the code (rhs {v1}, euler {v2})",
                                              {"kind": "validator", "relation": "Sem.valid_body (fresh, non-reserved bindings)", "text": text, "failing_input": None},
                                              failing_input_found=False)
                core.guarded(rep, text, one)
                rep.case(key=(ident, role, be, ru, str(shp)), nontrivial=ident not in SHAPES)
        rep.sample({"identifier": ident, "text": model_text(ident, "parameter")}, limit=3)
    drv.close()
    return rep.finish(
        level="proof",
        rule="identifiers from five families (names the templates / generators use, Python keywords and builtins, C keywords and libm names, "
             "numpy / math / sympy names, underscore / digit / d..._dt shapes) x role (state, parameter, intermediate, conditional intermediate; and state / "
             "intermediate / parameter that no expression reads) x remove_unused x backend (numpy always, C and jax "
             "on a subsample in the quick tier); each against the same model with the identifier renamed; non-trivial = the identifier is not "
             "from the plain-shape family",
        trusted_base=["Coq 8.16.1 kernel", "extraction + ocaml/driver.ml", "gcc, jax, numpy as executors"],
        assumptions=["an exception at load or generation time counts as 'generation fails with an error'"],
    )


if __name__ == "__main__":
    sys.exit(main())
