"""C10 - the model does not depend on the order in which statements are written.

 1. theorems of coq/Props/C10.v (for two presentations of the same set of definitions every layout
    table and every generated function of the mirror coincide);
 2. correspondence: the loader mirror, fed the items of the real parse of a text and of its
    permutations, yields the same layout / membership, equal to what the implementation computes;
 3. direct: text vs. permuted text (blocks, entries inside declaration blocks, lines inside
    expression blocks): ODE equality (==), bytes of generated numpy / C (and jax on a subsample)
    code, slot layouts.
"""
from __future__ import annotations

import copy
import random
import sys

import cback
import core
import family
import impl
import lang
import pipeline


def legal_block_order(blocks):
    """a header-less expressions block must not directly follow another expressions block: by the
    grammar it would be read as part of that block (recorded as a known finding, exercised by one
    directed case)"""
    for a, b in zip(blocks, blocks[1:]):
        if b["kind"] == "expressions" and not b["comps"] and a["kind"] == "expressions":
            return False
    return True


def permute(model, rng, what):
    m = copy.deepcopy(model)
    bl = m["blocks"]
    if what in ("blocks", "all"):
        for _ in range(20):
            cand = bl[:]
            rng.shuffle(cand)
            if legal_block_order(cand):
                bl = cand
                break
    if what in ("entries", "all"):
        for b in bl:
            if b["kind"] in ("states", "parameters"):
                rng.shuffle(b["entries"])
    if what in ("lines", "all"):
        for b in bl:
            if b["kind"] == "expressions":
                rng.shuffle(b["lines"])
    m["blocks"] = bl
    return m


def observe(c, with_c, with_jax):
    o = {"layout": c.impl_layout()}
    try:
        o["py"] = impl.gen_python(c.ode, schemes=impl.ALL_SCHEMES, stiff_states=o["layout"]["sorted_states"][:1])
    except Exception as ex:  # noqa: BLE001
        nm = type(ex).__name__
        if not (nm == "PrintMethodNotImplementedError" or (nm == "ValueError" and "_print_Derivative" in str(ex))):
            raise
        # the Rush-Larsen schemes cannot be generated for this model (derivative of floor / Mod: the open C06 finding,
        # reported there); the permutation property is then observed on the functions that can be generated
        o["py"] = "rush-larsen unprintable; " + impl.gen_python(c.ode, schemes=["explicit_euler"])
    o["py_ru"] = impl.gen_python(c.ode, schemes=["explicit_euler"], remove_unused=True)
    if with_c:
        try:
            o["c"] = cback.gen_c(c.ode, schemes=["explicit_euler"])
        except Exception as ex:  # noqa: BLE001
            o["c"] = "raises " + type(ex).__name__
    if with_jax:
        try:
            o["jax"] = impl.gen_python(c.ode, schemes=["explicit_euler"], backend="jax")
        except Exception as ex:  # noqa: BLE001
            o["jax"] = "raises " + type(ex).__name__
    return o


def mirror_view(c):
    mr = dict(c.mirror)
    mr["membership"] = sorted((k, v) for k, v in mr.get("membership", []))
    return mr


def check_model(rep, drv, gen, rng, m, text, c, with_c, with_jax):
    base = observe(c, with_c, with_jax)
    issue0 = family.mirror_issue(c, text)
    nperm = 0
    for what in ("blocks", "entries", "lines", "all", "all"):
        m2 = permute(m, rng, what)
        text2 = lang.render_model(m2, rng)
        if text2 == text:
            continue
        c2 = pipeline.Case(drv, text2, m2)
        nperm += 1
        if c2.err is not None:
            rep.violation(f"a permutation ({what}) of an accepted text is rejected: {c2.err}",
                          {"kind": "direct", "text": text, "permuted": text2, "permutation": what})
            return nperm
        o2 = observe(c2, with_c, with_jax)
        diffs = [k for k in base if base[k] != o2[k]]
        eq = (c.ode == c2.ode)
        if diffs or not eq:
            rep.violation(f"permuting {what} changes " + (", ".join(diffs) if diffs else "") + ("" if eq else " ODE equality (==)"),
                          {"kind": "direct", "text": text, "permuted": text2, "permutation": what,
                           "layout": base["layout"], "layout_permuted": o2["layout"]})
            return nperm
        if issue0 is None and c2.mirror is not None:
            if mirror_view(c2) != mirror_view(c):
                rep.violation("the loader mirror maps a permuted item list to a different model",
                              {"kind": "correspondence", "relation": "Load.load on permuted items (ode_equiv)", "text": text,
                               "permuted": text2, "failing_input": None}, failing_input_found=False)
                return nperm
    if issue0 is not None:
        rep.violation(issue0[0], issue0[1], failing_input_found=False)
    return nperm


def main(argv=None):
    a = core.std_args(argv)
    rep = core.Report("C10", a.tier, a.seed)
    core.props_or_violation(rep)
    drv = core.Driver()
    rng = random.Random(a.seed)
    gen = lang.Gen(rng, max_depth=2, p_cond=0.1)
    n = a.n or (30 if a.tier == "quick" else 600)
    if a.replay:
        import json as _json
        family.replay_text_case(rep, drv, _json.load(open(a.replay)), check_model, True, True)
        drv.close()
        return rep.finish(level="proof", rule="replay of " + a.replay, trusted_base=["see the full check"])
    # directed: the known absorption of a header-less block by a preceding headed block
    t1 = 'states("A", x=1)\nstates(y=2)\nexpressions("A")\ndx_dt = -x\ndy_dt = x - y\n'
    t2 = 'states("A", x=1)\nstates(y=2)\ndy_dt = x - y\nexpressions("A")\ndx_dt = -x\n'
    c1, c2 = pipeline.Case(drv, t1), pipeline.Case(drv, t2)
    rep.case(key="headerless-absorbed", nontrivial=True)
    if c2.err is None and (c1.err is not None or c1.ode != c2.ode):
        rep.violation("a header-less expressions block placed directly after a headed one is read as part of that block",
                      {"kind": "direct", "text": t2, "permuted": t1, "error": c1.err}, finding_key="C10-headerless-block-absorbed")
    # directed: a text that defines one name twice, differently, in two blocks of one component is not reorderable; the
    # only order-independent outcome is the same verdict for every order of the two blocks
    for i in range(12 if a.tier == "quick" else 120):
        m0 = gen.model(n_comps=rng.choice([1, 2]), n_params=rng.choice([2, 3]), n_inters=rng.choice([2, 3, 4]), p_unused=0.0)
        eb = [b for b in m0["blocks"] if b["kind"] == "expressions" and b["lines"]]
        if not eb:
            continue
        b0 = rng.choice(eb)
        ln = rng.choice(b0["lines"])
        summ = lang.model_summary(m0)
        others_n = [x_ for x_ in summ["states"] + summ["parameters"] if x_ not in lang.variables(ln["expr"])]
        variant = ["same_deps", "other_deps", "declaration", "parentheses"][i % 4]
        if variant == "other_deps" and others_n:
            # the second definition reads one more name (another dependency set)
            texpr = ("bin", "+", ln["expr"], ("var", rng.choice(others_n)))
        else:
            texpr = ("bin", "+", ln["expr"], ("bin", "*", ("num", "0"), ln["expr"]))
        if variant == "parentheses" and len(summ["states"] + summ["parameters"]) >= 2:
            # two definitions that differ in their parentheses only: e*(u + v) and e*u + v
            u_, v_ = rng.sample(summ["states"] + summ["parameters"], 2)
            e0 = ln["expr"]
            ln["expr"] = ("bin", "*", e0, ("bin", "+", ("var", u_), ("var", v_)))
            texpr = ("bin", "+", ("bin", "*", e0, ("var", u_)), ("var", v_))
        twin = {"kind": "expressions", "comps": list(b0.get("comps") or []),
                "lines": [{"name": ln["name"], "expr": texpr, "comment": None}]}
        if variant == "declaration":
            # a parameter / state declared twice with different values, in two blocks of one component
            decls_ = [b for b in m0["blocks"] if b["kind"] in ("parameters", "states") and b["entries"] and b.get("comps")]
            if decls_:
                b0 = rng.choice(decls_)
                en = rng.choice(b0["entries"])
                twin = {"kind": b0["kind"], "comps": list(b0["comps"]),
                        "entries": [{"name": en["name"], "value": ("bin", "+", en["value"], ("num", "1")), "unit": None, "desc": None}]}
                ln = {"name": en["name"]}
        if not twin["comps"]:
            continue    # two header-less blocks cannot be kept apart in the text
        others = [b for b in m0["blocks"] if b is not b0]
        decl = [b for b in others if b["kind"] != "expressions"]
        ex = [b for b in others if b["kind"] == "expressions" and b.get("comps")]
        hl = [b for b in others if b["kind"] == "expressions" and not b.get("comps")]
        if twin["kind"] == "expressions":
            t1 = lang.render_model({"blocks": decl + hl + [b0] + ex + [twin], "shape": "dup", "unused": []}, rng)
            t2 = lang.render_model({"blocks": decl + hl + [twin] + ex + [b0], "shape": "dup", "unused": []}, rng)
        else:
            rest_d = [b for b in decl if b is not b0]
            t1 = lang.render_model({"blocks": rest_d + [b0, twin] + hl + ex + ([] if b0 in decl else [b0]), "shape": "dup", "unused": []}, rng)
            t2 = lang.render_model({"blocks": rest_d + [twin, b0] + hl + ex, "shape": "dup", "unused": []}, rng)
        def verdict(t):
            cc = pipeline.Case(drv, t)
            if cc.err is not None:
                return ("rejected", str(cc.err).split(":")[0]), cc
            return ("accepted", impl.gen_python(cc.ode, schemes=["explicit_euler"])), cc
        def dup_case():
            v1, c1 = verdict(t1)
            v2, c2 = verdict(t2)
            rep.count("duplicate_in_two_blocks:" + variant + ":" + v1[0])
            if v1[0] != v2[0] or (v1[0] == "accepted" and (v1[1] != v2[1] or c1.ode != c2.ode)):
                rep.violation(f"a text with two differing definitions of {ln['name']} in two blocks of one component is "
                              f"{v1[0]} in one block order and {v2[0]}{' with different code' if v2[0] == v1[0] else ''} in the other",
                              {"kind": "direct", "text": t1, "permuted": t2, "permutation": "two blocks defining one name"})
        core.guarded(rep, t1, dup_case)
        rep.case(key=t1, nontrivial=True)
    # directed: a state shared by two components (states("A", "B", x=...)), each of which gives its own, different dx_dt in its
    # own block: whatever the verdict, it must not depend on which block stands first (nor may the generated dx_dt)
    for i in range(3 if a.tier == "quick" else 40):
        e1 = lang.render(gen.expr(["x", "y", "p"], 2), rng)
        e2 = lang.render(("bin", "-", gen.expr(["x", "q"], 2), ("var", "q")), rng)
        blocks = ['states("A", "B", x=1)\n', 'states("A", y=2)\n', 'parameters("A", p=0.5)\n', 'parameters("B", q=1.5)\n',
                  f'expressions("A")\ndx_dt = {e1}\ndy_dt = p - y\n', f'expressions("B")\ndx_dt = {e2}\n']
        t1 = "".join(blocks)
        perms = [list(blocks)]
        for _ in range(7):
            pb = list(blocks)
            rng.shuffle(pb)
            perms.append(pb)

        def shared_case(t1=t1, perms=perms):
            outs = []
            for pb in perms:
                t = "".join(pb)
                cc = pipeline.Case(drv, t)
                if cc.err is not None:
                    outs.append(("rejected", None, t))
                else:
                    try:
                        outs.append(("accepted", impl.gen_python(cc.ode, schemes=["explicit_euler"]), t))
                    except Exception as ex:  # noqa: BLE001
                        outs.append(("rejected at generation", type(ex).__name__, t))
            rep.count("shared_state_two_derivatives:" + outs[0][0])
            for o in outs[1:]:
                if o[0] != outs[0][0] or (o[0] == "accepted" and o[1] != outs[0][1]):
                    rep.violation(f"a state shared by two components with a different dx_dt in each is {outs[0][0]} in one block order and "
                                  f"{o[0]}{' with different code' if o[0] == outs[0][0] else ''} in another",
                                  {"kind": "direct", "text": t1, "permuted": o[2], "permutation": "blocks of a text that defines the derivative of a shared state twice"})
                    return
        core.guarded(rep, t1, shared_case)
        rep.case(key=t1, nontrivial=True)
    for i in range(n):
        got = family.new_case(drv, rng, gen, rep, n_comps=rng.choice([1, 2, 3, 3]), n_params=rng.choice([2, 3, 4]),
                              n_inters=rng.choice([2, 3, 4, 6]))
        if got is None:
            continue
        m, text, c = got
        if i % 2 == 0:
            # every other model: some states / parameters carry a unit, a description, both or neither (what one entry declares must
            # not depend on its neighbours in the block)
            m_a = copy.deepcopy(m)
            for b in m_a["blocks"]:
                if b["kind"] in ("states", "parameters"):
                    for en in b["entries"]:
                        if rng.random() < 0.5:
                            en["unit"] = rng.choice(["mV", "ms", "1/ms", "mM", "uA/cm**2"])
                        if rng.random() < 0.4:
                            en["desc"] = rng.choice(["membrane potential", "gate", "maximal conductance", "a, b and c", "x = 1"])
            text_a = lang.render_model(m_a, rng)
            c_a = pipeline.Case(drv, text_a, m_a)
            if c_a.err is None:
                m, text, c = m_a, text_a, c_a
                rep.count("annotated_models")
        k = core.guarded(rep, text, check_model, rep, drv, gen, rng, m, text, c, with_c=(i % 3 == 0), with_jax=(i % 6 == 0))
        comps = {cc for b in m["blocks"] for cc in b.get("comps", [])}
        rep.case(key=text, nontrivial=bool(k) and len(m["blocks"]) >= 3)
        rep.count("permutations", k or 0)
        rep.count("multi_component_models", 1 if len(comps) > 1 else 0)
        rep.sample({"text": text}, limit=2)
    drv.close()
    return rep.finish(
        level="proof",
        rule="random accepted models with 1-3 components, 2-4 parameters, 2-6 intermediates; 5 permutations each (blocks / entries / "
             "lines / everything x2), excluding block orders that put a header-less expressions block directly behind another "
             "expressions block (known finding, exercised by one directed case); non-trivial = at least 3 blocks and a permutation "
             "that changed the text; numpy always, C every 3rd, jax every 6th model",
        trusted_base=["Coq 8.16.1 kernel", "extraction + ocaml/driver.ml", "harness renderer"],
        assumptions=["the theorem (LoadPerm.permuted_text_same_code) is about the loader mirror and the mirror generators; that the implementation agrees with them is checked on every generated model and permutation"],
    )


if __name__ == "__main__":
    sys.exit(main())
