"""C18 - the command line writes what the API generates and honours its options.

 1. theorems of coq/Props/C18.v (thin: the effective options are the command-line options overridden
    by the keys present in the configuration, falsy values included);
 2. correspondence: the effective options predicted by that rule are the ones used to call the API for
    the comparison (so a command that resolves its options differently is caught);
 3. direct: `python -m gotranx <ode2py|ode2c|convert|cellml2ode> ...` in a scratch directory outside
    /repo and /verif, over combinations of scheme list, stiff states, delta, remove-unused,
    formatter, backend, output name (relative / absolute, other directory), suffix, --config file
    and pyproject.toml in the working directory (with empty and zero values): exit status, exactly
    which files appear, and the bytes written against gotran2py.get_code / gotran2c.get_code for the
    effective options; invalid and missing models must exit non-zero without writing.
"""
from __future__ import annotations

import json
import os
import random
import shutil
import subprocess
import sys
import tempfile
from concurrent.futures import ThreadPoolExecutor

import core
import impl
import cback

from gotranx.cli import gotran2py, gotran2c
from gotranx.codegen.python import Format as PyFormat
from gotranx.codegen.c import Format as CFormat
from gotranx.schemes import Scheme

MODEL = ('states("M", v=-80, m=0.1)\nstates("G", h=0.5)\nparameters("M", g=2.5, E=50)\nparameters("G", tau=3)\nexpressions("M")\n'
         "i = g*m*h*(v - E)\nunused_i = v*2\ndv_dt = -i + Conditional(Lt(t, 1), 1, 0)\ndm_dt = (1/(1 + exp(-v/10)) - m)/0.5\n"
         'expressions("G")\ndh_dt = (1/(1 + exp(v/7)) - h)/tau\n')
BROKEN = {"syntax": "states(x=1\ndx_dt = -x\n", "incomplete": "states(x=1, y=2)\ndx_dt = -x\n", "undefined": "states(x=1)\ndx_dt = -q*x\n",
          # accepted by the loader, refused when code is generated
          "cyclic": "states(x=1)\na = b + 1\nb = a + 1\ndx_dt = a - x\n",
          "reserved_name": "states(x=1, states=2)\ndx_dt = -x\ndstates_dt = 1\n"}
SCHEMES = ["explicit_euler", "generalized_rush_larsen", "hybrid_rush_larsen", "forward_explicit_euler", "forward_generalized_rush_larsen"]


def run_cli(args, cwd):
    env = dict(os.environ)
    env["PYTHONPATH"] = str(core.REPO / "src")
    env["PYTHONWARNINGS"] = "ignore"
    r = subprocess.run([core.PY, "-m", "gotranx"] + args, cwd=cwd, capture_output=True, text=True, env=env, timeout=300)
    return r.returncode, r.stdout[-1500:], r.stderr[-1500:]


def listing(root):
    out = []
    for d, _, fs in os.walk(root):
        for f in fs:
            out.append(os.path.relpath(os.path.join(d, f), root))
    return sorted(out)


def toml_of(cfg):
    lines = ["[tool.gotranx]"]
    for k in ("verbose", "delta", "scheme", "stiff_states"):
        if k in cfg:
            v = cfg[k]
            lines.append(f"{k} = " + (json.dumps(v) if not isinstance(v, bool) else ("true" if v else "false")))
    for sec in ("python", "c"):
        if sec in cfg:
            lines.append(f"[tool.gotranx.{sec}]")
            for k, v in cfg[sec].items():
                lines.append(f"{k} = {json.dumps(v)}")
    return "\n".join(lines) + "\n"


def make_case(rng, i):
    cmd = rng.choice(["ode2py", "ode2py", "ode2c", "ode2c", "convert"])
    cli = {"scheme": rng.sample(SCHEMES, k=rng.choice([0, 1, 2, 3])), "stiff": rng.sample(["v", "m", "h", "nostate"], k=rng.choice([0, 0, 1, 2])),
           "delta": rng.choice([None, 1e-3, 0.5, 10.0]), "remove_unused": rng.random() < 0.4,
           "format": rng.choice([None, "none", "black"]) if cmd == "ode2py" else "none",
           "backend": rng.choice([None, "numpy", "jax"]) if cmd == "ode2py" else None,
           "outname": rng.choice([None, "out", "sub/result", "ABS"]), "to": None}
    if cmd == "ode2c":
        cli["to"] = rng.choice([None, ".c", ".h"])
    if cmd == "convert":
        cli["to"] = rng.choice([".py", "py", "python"])
        cli["format"] = None
        cli["backend"] = None
    cfg = {}
    cfg_mode = rng.choice([None, None, "pyproject", "--config"]) if cmd != "convert" else None
    if cfg_mode:
        if rng.random() < 0.6:
            cfg["scheme"] = rng.choice([[], ["explicit_euler"], ["hybrid_rush_larsen", "generalized_rush_larsen"]])
        if rng.random() < 0.6:
            cfg["stiff_states"] = rng.choice([[], ["h"], ["v", "m"]])
        if rng.random() < 0.6:
            cfg["delta"] = rng.choice([0.0, 1e-2, 2.0])
        if rng.random() < 0.3 and cmd == "ode2py":
            cfg["python"] = {"format": rng.choice(["none", "black"])}
            if rng.random() < 0.5:
                cfg["python"]["backend"] = rng.choice(["numpy", "jax"])
        if cmd == "ode2c":
            cfg["c"] = {"format": "none"}
    return {"cmd": cmd, "cli": cli, "cfg": cfg, "cfg_mode": cfg_mode, "i": i}


def expected(case, ode):
    cli, cfg, cmd = case["cli"], case["cfg"], case["cmd"]
    scheme = cfg.get("scheme", cli["scheme"])
    stiff = cfg.get("stiff_states", cli["stiff"])
    delta = cfg.get("delta", cli["delta"] if cli["delta"] is not None else 1e-8)
    schemes = [Scheme(s) for s in scheme] or None
    if cmd == "ode2py" or (cmd == "convert"):
        fmt = cfg.get("python", {}).get("format", cli["format"] or "black") if cmd == "ode2py" else "black"
        backend = cfg.get("python", {}).get("backend", cli["backend"] or "numpy") if cmd == "ode2py" else "numpy"
        import warnings
        with warnings.catch_warnings():
            warnings.simplefilter("ignore")
            code = gotran2py.get_code(ode, scheme=schemes, format=PyFormat(fmt), remove_unused=cli["remove_unused"], stiff_states=stiff,
                                      delta=delta, backend=gotran2py.Backend(backend))
        suffix = ".py"
    else:
        import warnings
        with warnings.catch_warnings():
            warnings.simplefilter("ignore")
            code = gotran2c.get_code(ode, scheme=schemes, format=CFormat("none"), remove_unused=cli["remove_unused"], stiff_states=stiff, delta=delta)
        suffix = cli["to"] or ".h"
    return code, suffix


def run_case(case, root):
    cli, cfg, cmd = case["cli"], case["cfg"], case["cmd"]
    d = os.path.join(root, f"case{case['i']}")
    os.makedirs(os.path.join(d, "models"))
    os.makedirs(os.path.join(d, "work", "sub"))
    mpath = os.path.join(d, "models", "m.ode")
    open(mpath, "w").write(MODEL)
    work = os.path.join(d, "work")
    args = [cmd, mpath]
    for s in cli["scheme"]:
        args += ["--scheme", s]
    for s in cli["stiff"]:
        args += ["-s", s]
    if cli["delta"] is not None:
        args += ["--delta", str(cli["delta"])]
    if cli["remove_unused"]:
        args += ["--remove-unused"]
    if cli["format"] is not None and cmd != "convert":
        args += ["--format", cli["format"]]
    if cli["backend"] is not None:
        args += ["--backend", cli["backend"]]
    if cli["to"] is not None:
        args += ["--to", cli["to"]]
    out = cli["outname"]
    if out == "ABS":
        out = os.path.join(d, "abs_out")
    if out is not None:
        args += ["-o", out]
    if case["cfg_mode"] == "pyproject":
        # the configuration is looked up with black's project-root search: a directory with .git (or a
        # pyproject.toml that has a [tool.black] table) is a project root
        os.makedirs(os.path.join(work, ".git"))
        open(os.path.join(work, "pyproject.toml"), "w").write(toml_of(cfg))
    elif case["cfg_mode"] == "--config":
        cp = os.path.join(d, "conf.toml")
        open(cp, "w").write(toml_of(cfg))
        args += ["--config", cp]
    before = listing(d)
    rc, so, se = run_cli(args, work)
    after = listing(d)
    return {"args": args, "rc": rc, "stdout": so, "stderr": se, "new": [f for f in after if f not in before], "dir": d, "out": out, "work": work, "mpath": mpath}


def main(argv=None):
    a = core.std_args(argv)
    rep = core.Report("C18", a.tier, a.seed)
    core.props_or_violation(rep)
    rng = random.Random(a.seed)
    n = a.n or (28 if a.tier == "quick" else 300)
    root = tempfile.mkdtemp(prefix="gxc18_")
    ode, _, err, _ = impl.load_text(MODEL, name="m")
    try:
        cases = [make_case(rng, i) for i in range(n)]
        with ThreadPoolExecutor(max_workers=12) as ex:
            results = list(ex.map(lambda c_: run_case(c_, root), cases))
        for case, r in zip(cases, results):
            rep.case(key=json.dumps(r["args"][2:]) + str(case["cfg"]) + str(case["cfg_mode"]), nontrivial=len(r["args"]) > 3 or bool(case["cfg"]))
            rep.count("command:" + case["cmd"])
            rep.sample({"args": r["args"][0:1] + ["<model>"] + r["args"][2:], "config": case["cfg"], "config_via": case["cfg_mode"]}, limit=3)
            replay = {"kind": "direct", "command": ["python", "-m", "gotranx"] + r["args"], "config": case["cfg"], "config_via": case["cfg_mode"],
                      "model": MODEL, "stderr": r["stderr"][-600:]}
            try:
                code, suffix = expected(case, ode)
            except Exception as ex:  # noqa: BLE001
                # the API itself refuses these options (e.g. unknown scheme): the CLI must fail, too
                if r["rc"] == 0:
                    rep.violation(f"the API raises {type(ex).__name__} for these options but the command line exits 0", replay)
                continue
            if r["rc"] != 0:
                rep.violation(f"{case['cmd']} exits with status {r['rc']}: {r['stderr'].strip().splitlines()[-1][:160] if r['stderr'].strip() else ''}", replay)
                continue
            # where must the file be?
            if r["out"] is None:
                want = os.path.relpath(os.path.splitext(r["mpath"])[0] + suffix, r["dir"])
            else:
                base = r["out"] if os.path.isabs(r["out"]) else os.path.join(r["work"], r["out"])
                want = os.path.relpath(os.path.splitext(base)[0] + suffix if os.path.splitext(base)[1] else base + suffix, r["dir"])
            if r["new"] != [want]:
                rep.violation(f"{case['cmd']} should write exactly {want}; new files: {r['new']}", replay)
                continue
            got = open(os.path.join(r["dir"], want)).read()
            if got != code:
                import difflib
                diff = "\n".join(list(difflib.unified_diff(code.splitlines(), got.splitlines(), "api", "cli", lineterm="", n=0))[:12])
                rep.violation(f"{case['cmd']} writes text that differs from the API's for the effective options "
                              f"(scheme={case['cfg'].get('scheme', case['cli']['scheme'])}, stiff={case['cfg'].get('stiff_states', case['cli']['stiff'])}, "
                              f"delta={case['cfg'].get('delta', case['cli']['delta'])})", dict(replay, diff=diff))
                continue
            rep.count("files_equal_to_api")
        # ---- invalid and missing models
        for cmd in ("ode2py", "ode2c"):
            for kind, text in list(BROKEN.items()) + [("missing", None)]:
                d = os.path.join(root, f"bad_{cmd}_{kind}")
                os.makedirs(d)
                mp = os.path.join(d, "bad.ode")
                if text is not None:
                    open(mp, "w").write(text)
                before = listing(d)
                rc, so, se = run_cli([cmd, mp, "--format", "none"], d)
                new = [f for f in listing(d) if f not in before]
                rep.case(key=("invalid", cmd, kind), nontrivial=True)
                if rc == 0 or new:
                    rep.violation(f"{cmd} on a {kind} model: exit status {rc}, files written: {new}",
                                  {"kind": "direct", "command": ["python", "-m", "gotranx", cmd, "bad.ode", "--format", "none"], "model": text, "stdout": so[-400:]})
                    continue
                # a failed run must not touch a file that is already there under the output name
                for ext in (".py", ".c", ".h"):
                    open(os.path.join(d, "bad" + ext), "w").write("previous result\n")
                rc2, so2, se2 = run_cli([cmd, mp, "--format", "none"], d)
                changed = [ext for ext in (".py", ".c", ".h") if open(os.path.join(d, "bad" + ext)).read() != "previous result\n"]
                if rc2 == 0 or changed:
                    rep.violation(f"{cmd} on a {kind} model fails (exit status {rc2}) but overwrites the existing output file bad{changed[0] if changed else ''}",
                                  {"kind": "direct", "command": ["python", "-m", "gotranx", cmd, "bad.ode", "--format", "none"], "model": text,
                                   "existing_files": ["bad.py", "bad.c", "bad.h"]})
        # ---- cellml2ode
        cm = sorted((core.REPO / "tests" / "cellml_files").glob("noble*.cellml"))
        if cm:
            d = os.path.join(root, "cellml")
            os.makedirs(d)
            src = os.path.join(d, "noble_1962.cellml")
            shutil.copy(cm[0], src)
            rc, so, se = run_cli(["cellml2ode", src, "-o", os.path.join(d, "out.ode")], d)
            rep.case(key="cellml2ode", nontrivial=True)
            from gotranx.myokit import cellml_to_gotran
            api = os.path.join(d, "api.ode")
            cellml_to_gotran(src).save(api)
            if rc != 0 or not os.path.exists(os.path.join(d, "out.ode")):
                rep.violation(f"cellml2ode exits {rc} / writes nothing: {se.strip().splitlines()[-1][:120] if se.strip() else ''}",
                              {"kind": "direct", "command": ["python", "-m", "gotranx", "cellml2ode", "noble_1962.cellml", "-o", "out.ode"]})
            elif open(os.path.join(d, "out.ode")).read() != open(api).read():
                rep.violation("cellml2ode writes a file that differs from cellml_to_gotran(...).save(...)",
                              {"kind": "direct", "command": ["python", "-m", "gotranx", "cellml2ode", "noble_1962.cellml", "-o", "out.ode"]})
            # the output name is honoured as given: other extensions, no extension, a dotted name, a sub-directory, and no -o at all
            os.makedirs(os.path.join(d, "sub"))
            for oname in ("exported.txt", "model.v2", "noext", "UPPER.ODE", os.path.join("sub", "deep.ode"), None):
                before = listing(d)
                args = ["cellml2ode", src] + (["-o", oname] if oname is not None else [])
                rc, so, se = run_cli(args, d)
                new = sorted(f for f in listing(d) if f not in before)
                want = oname if oname is not None else "noble_1962.ode"
                rep.case(key=("cellml2ode", str(oname)), nontrivial=True)
                ok = rc == 0 and new == [want] and open(os.path.join(d, want)).read() == open(api).read()
                if not ok:
                    rep.violation(f"cellml2ode {'-o ' + oname if oname else '(no -o)'}: exit status {rc}, files written {new}, expected exactly {want!r} with the text the API saves",
                                  {"kind": "direct", "command": ["python", "-m", "gotranx"] + ["cellml2ode", "noble_1962.cellml"] + (["-o", oname] if oname else [])})
                for f in new:
                    os.remove(os.path.join(d, f))
    finally:
        shutil.rmtree(root, ignore_errors=True)
    return rep.finish(
        level="proof",
        rule="random option combinations for ode2py / ode2c / convert on a two-component model (0-3 schemes of the 5 names, 0-2 stiff states incl. a "
             "foreign name, delta, remove-unused, formatter none/black, backend numpy/jax, output name none / relative / in a sub-directory / "
             "absolute, suffix, configuration via pyproject.toml in the working directory or --config with empty lists and zero); the working "
             "directory differs from the model's directory; non-trivial = at least one option or a configuration; invalid (syntax, incomplete, "
             "undefined symbol, and - accepted by the loader, refused at generation - cyclic, reserved name) and missing models for both commands, with and "
             "without a file already present under the output name; cellml2ode on the shipped noble_1962 model with six output names (other extension, dotted, none, upper case, sub-directory, default)",
        trusted_base=["Coq 8.16.1 kernel (the Cli.v model is thin)", "typer, the process exit status and the file system are observed, not modelled"],
        assumptions=["clang-format is not installed in this sandbox: ode2c is run with --format none (or c.format = none in the configuration), convert to C is not exercised"],
    )


if __name__ == "__main__":
    sys.exit(main())
