#!/bin/sh
# usage: try_seed.sh <seed dir name> [check id] [extra check args]  - run one check against a seeded change in a scratch worktree
name="$1"; id="${2:-${name%%-*}}"; [ $# -gt 0 ] && shift; [ $# -gt 0 ] && shift
cd /verif
wt=/tmp/seedrun/$name; rm -rf "$wt"; git -C /repo worktree prune
git -C /repo worktree add -q --detach "$wt" HEAD
git -C "$wt" apply "/verif/seeded/$name/patch.diff" || { echo "$name APPLY-FAILED"; git -C /repo worktree remove --force "$wt"; exit 1; }
out=$(GOTRANX_REPO="$wt" ./check "$id" --tier quick "$@" 2>&1)
nv=$(echo "$out" | grep -c "^VIOLATION")
nf=$(echo "$out" | grep "^VIOLATION" | grep -vc "no-failing-input-found")
first=$(echo "$out" | grep -A1 "^VIOLATION" | sed -n 2p | cut -c1-220)
echo "$name check=$id violations=$nv with_failing_input=$nf :: $first"
echo "$out" | tail -2
git -C /repo worktree remove --force "$wt" 2>/dev/null
git checkout "evidence/$id.json" 2>/dev/null
