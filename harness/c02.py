"""C02 - generated C code compiles and computes the same values as the model defines.

 1. theorems of coq/Props/C02.v: the typed C99 evaluation (integer constants are ints, int/int
    truncates, <math.h> functions are double, fmod has the sign of the dividend) equals the
    real-valued meaning on the fragment without int/int division and without fmod, for every
    carrier into which int embeds as a ring (the reals); computed refutations for (1/4)*x,
    (2*3)/4 and fmod;
 2. correspondence: every right-hand side of the generated C is parsed (harness/cparse.py) and
    evaluated by the extracted typed evaluator in the environment the compiled program computed;
    the compiled program (gcc, default mode; clang on a subsample) must produce exactly these values
    - this ties the C-semantics model to the real compiler;
 3. direct: the C unit must compile; rhs, monitor_values, the schemes and both init functions are
    compared with the reference meaning (and with the numpy module); a mismatch that the typed
    evaluator reproduces on a right-hand side outside the safe fragment is classified as the
    known integer-division / fmod finding, anything else is a violation.
"""
from __future__ import annotations

import math
import random
import sys

import numpy as np

import cback
import core
import cparse
import family
import impl
import lang
import pipeline
from pipeline import close


def has_mod(sx):
    return isinstance(sx, list) and ((sx and sx[0] == "mod") or any(has_mod(x) for x in sx[1:]))


def classify(drv, sx, env, got, want, S, prov=(True, True)):
    """is the wrong value the one the typed C evaluator predicts for a right-hand side outside the
    safe fragment?  -> known-finding id or None"""
    r = drv.ask(["cevalenv", [[k, float(v)] for k, v in env.items()], [sx]])["values"][0]
    cv, rv, safe = core.hexf(r["c"]), core.hexf(r["real"]), r["safe"]
    if safe:
        return None
    if close(got, cv, S, 1e-12) or (got != got and cv != cv):
        key = "C02-fmod-sign-of-dividend" if has_mod(sx) and close(rv, cv, S) is False and _only_mod_differs(drv, sx, env, S) else "C02-integer-constant-division"
        # the listed findings are about constructs of the model text; an integer quotient / fmod that the text does not
        # contain (e.g. one the printer invents for a rational coefficient) is something else
        if key == "C02-fmod-sign-of-dividend":
            return None      # repaired (fix 64554cd): a C value with the sign of the dividend is a violation again
        if key == "C02-integer-constant-division" and not prov[0]:
            return None
        return key
    return None


def _only_mod_differs(drv, sx, env, S):
    """true if replacing integer constants by floating ones makes C and real meaning agree except for fmod"""
    def floatify(x):
        if isinstance(x, list):
            if x and x[0] == "n":
                return ["n", x[1], x[2], 0]
            return [x[0]] + [floatify(y) for y in x[1:]]
        return x
    r = drv.ask(["cevalenv", [[k, float(v)] for k, v in env.items()], [floatify(sx)]])["values"][0]
    return not close(core.hexf(r["c"]), core.hexf(r["real"]), S)


def _names(sx, acc):
    if isinstance(sx, list):
        if sx and sx[0] == "v":
            acc.add(sx[1])
        else:
            for x in sx[1:]:
                _names(x, acc)
    return acc


def c_skeleton(stmts):
    """the statement skeleton (unpack / let / store) of a C function, in the form the extracted validators read"""
    out = []
    for kind, tgt, idx, rhs in stmts:
        if kind == "unpack":
            arr, i = idx
            out.append([{"states": "us", "parameters": "up", "missing_variables": "um"}[arr], tgt, i])
        elif kind == "let":
            out.append(["let", tgt, sorted(_names(cparse.parse_expr(rhs), set()))])
        elif kind == "store":
            out.append(["store", idx, cparse.parse_expr(rhs)])
        else:
            raise cparse.CParseError("statement outside the skeleton: " + str(rhs)[:80])
    return out


def _leaves(e):
    if isinstance(e, tuple):
        if e[0] in ("num", "var", "pi"):
            yield e
        else:
            for x in e[1:]:
                if isinstance(x, (tuple, list)):
                    for y in (x if isinstance(x, list) else [x]):
                        yield from _leaves(y)


def _resolved(e):
    """the expression with the conditionals resolved that sympy decides when the model is built: a relation between two
    identical operands (Le(x, x), Lt(x, x)) is True / False, and Conditional(True, a, b) is a - so that
    Conditional(Le(x, x), 3, y)/(1 + abs(Conditional(Le(x, x), 3, y))) is the integer quotient 3/(1 + 3) of the text's literals"""
    if isinstance(e, tuple):
        if e[0] == "cond" and isinstance(e[1], tuple) and e[1][0] == "rel" and e[1][2] == e[1][3]:
            return _resolved(e[2] if e[1][1] in ("Le", "Ge", "Eq") else e[3])
        return tuple(_resolved(x) if isinstance(x, tuple) else ([_resolved(y) for y in x] if isinstance(x, list) else x) for x in e)
    return e


def _int_only(e):
    ls = list(_leaves(e))
    return bool(ls) and all(l[0] == "num" and lang.lit_is_int(l[1]) for l in ls)


def _has_int_quotient(e):
    if isinstance(e, tuple):
        if e[0] == "bin" and e[1] == "/" and _int_only(e[2]) and _int_only(e[3]):
            return True
        return any(_has_int_quotient(y) for x in e[1:] if isinstance(x, (tuple, list)) for y in (x if isinstance(x, list) else [x]))
    return False


def _has_compound_int_denominator(e):
    """a division in the text whose denominator is built from integer literals only and is not a single literal
    (kb/(1 + 2*2)): sympy keeps such a denominator unevaluated, and the derivative of the quotient (the Rush-Larsen
    linearisation) is then the integer quotient -1/(1 + 2*2); a single literal is folded into a Rational, which is
    printed with decimal points"""
    if isinstance(e, tuple):
        if e[0] == "bin" and e[1] == "/" and _int_only(e[3]) and e[3][0] != "num":
            return True
        return any(_has_compound_int_denominator(y) for x in e[1:] if isinstance(x, (tuple, list)) for y in (x if isinstance(x, list) else [x]))
    return False


def _has_mod_ast(e):
    if isinstance(e, tuple):
        if e[0] == "mod":
            return True
        return any(_has_mod_ast(y) for x in e[1:] if isinstance(x, (tuple, list)) for y in (x if isinstance(x, list) else [x]))
    return False


def text_provenance(drv, m):
    """which of the two numeric findings can the *model text* cause?  (int_quotient, has_mod): some definition or
    declared value of the model, as written, contains a quotient both of whose operands are built from integer
    literals only (1/4, (2*3)/4, 1/(1 + abs(1)) - sympy folds such operands into integers) / a Mod.  A wrong value in a
    model without such a construct is not one of the listed findings, whatever the generated C looks like."""
    defs, stv, pav = lang.model_defs(m)
    es = list(defs.values()) + list(stv.values()) + list(pav.values())
    return any(_has_int_quotient(_resolved(e)) for e in es), any(_has_mod_ast(e) for e in es)


def check_model(rep, drv, gen, rng, m, text, c, use_clang):
    prov_unsafe, prov_mod = text_provenance(drv, m)
    _defs, _stv, _pav = lang.model_defs(m)
    prov_den = any(_has_compound_int_denominator(e) for e in _defs.values())
    lay = c.impl_layout()
    ss, pn = lay["sorted_states"], lay["params"]
    n = len(ss)
    defs, stv, pav = lang.model_defs(m)
    try:
        ccode = cback.gen_c(c.ode, schemes=["explicit_euler", "generalized_rush_larsen", "hybrid_rush_larsen"],
                            stiff_states=ss[: max(1, n // 2)])
    except Exception as ex:  # noqa: BLE001
        rep.count("c_generation_raises:" + type(ex).__name__)
        return None
    cm = cback.CModule(ccode, cc="clang" if use_clang else "gcc")
    try:
        if not cm.compile_ok:
            rep.violation("the generated C unit does not compile (" + ("clang" if use_clang else "gcc") + "): " + cm.compile_log.strip().splitlines()[0][:160],
                          {"kind": "direct", "text": text, "compiler_output": cm.compile_log[:1500]})
            return None
        fns = cparse.functions(ccode)
        pycode = impl.gen_python(c.ode, schemes=["explicit_euler", "generalized_rush_larsen", "hybrid_rush_larsen"],
                                 stiff_states=ss[: max(1, n // 2)])
        pns = impl.exec_module(pycode)
        nfound = 0
        # ---- the verified validators on the skeleton of the C functions (same ones as for the numpy module)
        if family.mirror_issue(c, text) is None:
            try:
                vs = {"rhs": pipeline.validate(drv, "rhs", 0, n, [], c_skeleton(fns["rhs"])),
                      "monitor_values": pipeline.validate(drv, "named", 0, len(lay["order"]), lay["order"], c_skeleton(fns["monitor_values"])),
                      "explicit_euler": pipeline.validate(drv, "euler", 1, n, [], c_skeleton(fns["explicit_euler"]))}
                bad = {k: v for k, v in vs.items() if not v.get("valid")}
                if bad:
                    rep.violation("a generated C function is rejected by the verified validator: " + str(bad)[:300],
                                  {"kind": "validator", "relation": "Valid.valid_rhs / valid_named / valid_euler on the C skeleton", "text": text,
                                   "rejected": bad, "failing_input": None}, failing_input_found=False)
                else:
                    rep.count("c_functions_validated", 3)
            except cparse.CParseError as ex:
                rep.violation("a statement of the generated C is outside the parsed fragment: " + str(ex),
                              {"kind": "correspondence", "relation": "cparse", "text": text, "failing_input": None}, failing_input_found=False)
        # ---- init functions
        for kind, names, vals, fname in (("state", ss, stv, "init_state_values"), ("parameter", pn, pav, "init_parameter_values")):
            arr = cm.call_init(fname, len(names))
            stm = {idx: rhs for k_, tgt, idx, rhs in fns.get(fname, []) if k_ == "store"}
            for i, x in enumerate(names):
                want = core.hexf(drv.ask(["evalclosed", [lang.to_sx(vals[x])]])["values"][0])
                if not close(float(arr[i]), want, abs(want)):
                    key = None
                    try:
                        key = classify(drv, cparse.parse_expr(stm[i]), {}, float(arr[i]), want, abs(want), (prov_unsafe, prov_mod))
                    except Exception:  # noqa: BLE001
                        pass
                    rep.violation(f"C {fname}: {x} is declared as {want!r} but slot {i} is set to {arr[i]!r}  ({stm.get(i)})",
                                  {"kind": "direct", "text": text, "name": x, "c_statement": stm.get(i)}, finding_key=key)
                    nfound += 1
        pts, _ = family.usable_points(gen, m, 10, want=2)
        for pt, ref, S in pts:
            isx, st, ps = pipeline.inputs_sx(lay, pt)
            mv, _, _ = cm.call("monitor_values", len(lay["order"]), t=pt["t"], states=st, params=ps)
            rv, s_after, p_after = cm.call("rhs", n, t=pt["t"], states=st, params=ps)
            got = dict(zip(lay["order"], [float(x) for x in mv]))
            # environment the compiled program computed
            envc = dict(pt["states"]); envc.update(pt["params"]); envc["t"] = pt["t"]; envc.update(got)
            lets = [(tgt, rhs) for k_, tgt, idx, rhs in fns["monitor_values"] if k_ == "let"]
            # (2) the typed evaluator reproduces the compiler, statement by statement
            try:
                sxs = [(nm, cparse.parse_expr(rhs)) for nm, rhs in lets]
            except cparse.CParseError as ex:
                rep.violation("a right-hand side of the generated C is outside the parsed fragment: " + str(ex),
                              {"kind": "correspondence", "relation": "cparse", "text": text, "failing_input": None}, failing_input_found=False)
                return None
            res = drv.ask(["cevalenv", [[k, float(v)] for k, v in envc.items()], [sx for _, sx in sxs]])["values"]
            for (nm, sx), r in zip(sxs, res):
                cv = core.hexf(r["c"])
                if not (close(got[nm], cv, S + abs(cv), 1e-11) or (got[nm] != got[nm] and cv != cv) or (math.isinf(cv) and got[nm] == cv)):
                    rep.violation(f"the compiled C computes {nm} = {got[nm]!r}; the typed C evaluation of its right-hand side gives {cv!r}",
                                  {"kind": "correspondence", "relation": "Cback.ceval vs compiled code", "text": text, "name": nm,
                                   "c_statement": dict(lets)[nm], "inputs": pt, "failing_input": None}, failing_input_found=False)
                    return None
                rep.count("c_statements_matched_by_typed_evaluator")
                rep.count("c_statements_outside_safe_fragment", 0 if r["safe"] else 1)
            # (3) against the meaning of the model
            envr = dict(pt["states"]); envr.update(pt["params"]); envr["t"] = pt["t"]; envr.update(ref)
            for (nm, sx) in sxs:
                if not close(got[nm], ref[nm], S):
                    key = classify(drv, sx, envr, got[nm], ref[nm], S, (prov_unsafe, prov_mod))
                    if key is None:
                        # two integer quotients compounding: the operands (already judged on their own) carry the value the
                        # compiled program gave them, and this statement has an integer quotient of its own
                        key = classify(drv, sx, envc, got[nm], ref[nm], S, (prov_unsafe, prov_mod))
                    if key is None:
                        # wrong only because an earlier (already reported) name is wrong?
                        r2 = drv.ask(["cevalenv", [[k, float(v)] for k, v in envr.items()], [sx]])["values"][0]
                        if close(core.hexf(r2["c"]), ref[nm], S):
                            continue
                    rep.violation(f"C computes {nm} = {got[nm]!r}, the model text defines {ref[nm]!r}   [{dict(lets)[nm][:100]}]",
                                  {"kind": "direct", "text": text, "name": nm, "inputs": pt, "definition": lang.render(defs[nm]),
                                   "c_statement": dict(lets)[nm]}, finding_key=key)
                    nfound += 1
            for i, x in enumerate(ss):
                if close(got[f"d{x}_dt"], ref[f"d{x}_dt"], S) and not close(float(rv[i]), ref[f"d{x}_dt"], S):
                    rep.violation(f"C rhs[{i}] = {rv[i]!r} but d{x}_dt = {ref[f'd{x}_dt']!r}", {"kind": "direct", "text": text, "inputs": pt})
                    nfound += 1
            if not (family.eq_arrays(s_after, st) and family.eq_arrays(p_after, ps)):
                rep.violation("C rhs modifies its inputs", {"kind": "direct", "text": text, "inputs": pt})
            # schemes against the numpy module (same formulas)
            if all(close(got[k], ref[k], S) for k in got):
                for sch in ("explicit_euler", "generalized_rush_larsen", "hybrid_rush_larsen"):
                    ev, _, _ = cm.call(sch, n, t=pt["t"], states=st, params=ps, dt=0.125)
                    with np.errstate(all="ignore"):
                        pv = np.array(pns[sch](np.array(st, dtype=float), pt["t"], 0.125, np.array(ps, dtype=float)), dtype=float)
                    for i, x in enumerate(ss):
                        if np.isfinite(pv[i]) and not close(float(ev[i]), float(pv[i]), S + abs(float(pv[i])), 1e-8):
                            # linearisations may contain integer quotients, too
                            rep.violation(f"C {sch} slot {i} ({x}) = {ev[i]!r}, numpy module gives {pv[i]!r}",
                                          {"kind": "direct", "text": text, "inputs": pt, "scheme": sch},
                                          finding_key="C02-integer-constant-division" if ((prov_unsafe or prov_den) and _scheme_has_int_quotient(fns, sch, drv)) else None)
                            nfound += 1
                            break
        return nfound
    finally:
        cm.close()


def _scheme_has_int_quotient(fns, sch, drv):
    for k_, tgt, idx, rhs in fns.get(sch, []):
        if k_ in ("let", "store"):
            try:
                sx = cparse.parse_expr(rhs)
            except cparse.CParseError:
                continue
            r = drv.ask(["cevalenv", [], [sx]])["values"][0]
            if not r["safe"]:
                return True
    return False


def main(argv=None):
    a = core.std_args(argv)
    rep = core.Report("C02", a.tier, a.seed)
    core.props_or_violation(rep)
    drv = core.Driver()
    if a.replay:
        import json as _json
        family.replay_text_case(rep, drv, _json.load(open(a.replay)), check_model, False)
        drv.close()
        return rep.finish(level="proof", rule="replay of " + a.replay, trusted_base=["see the full check"])
    rng = random.Random(a.seed)
    gen = lang.Gen(rng, max_depth=3, p_cond=0.25)
    n = a.n or (36 if a.tier == "quick" else 700)
    # directed: a unit with missing variables must compile too, index its missing variables and compute what the numpy code of the
    # same sub-model computes
    t = ('states("A", x=1)\nstates("B", y=2, z=0.5)\nparameters("A", k=2)\nexpressions("A")\ni1 = k*y + z\ndx_dt = i1 - x\n'
         'expressions("B")\ndy_dt = x - y\ndz_dt = -z\n')
    cA = pipeline.Case(drv, t)
    sub = cA.ode.get_component("A").to_ode()
    rep.case(key="missing-variables-unit", nontrivial=True)

    def missing_unit():
        cc = cback.gen_c(sub, schemes=["explicit_euler"])
        cm = cback.CModule(cc)
        try:
            if not cm.compile_ok:
                rep.violation("the C unit generated for a sub-model with missing variables does not compile: " + cm.compile_log.strip().splitlines()[0][:140],
                              {"kind": "direct", "text": t, "component": "A", "compiler_output": cm.compile_log[:1200]})
                return
            names = list(sub.missing_variables)
            got = [cm.index("missing_index", x) for x in names]
            if got != [sub.missing_variables[x] for x in names] or cm.index("missing_index", "x") != -1:
                rep.violation(f"C missing_index gives {dict(zip(names, got))}, the model's table is {dict(sub.missing_variables)}",
                              {"kind": "direct", "text": t, "component": "A"})
                return
            pyc = impl.gen_python(sub, schemes=["explicit_euler"])
            ns, fns = impl.exec_module(pyc), impl.export_functions(pyc)
            nmon = len(sub.sorted_assignments())
            for st, ps, ms in (([0.75], [2.0], [1.5, -0.25]), ([-1.25], [0.5], [0.125, 3.0])):
                for fname, nret, kw in (("rhs", 1, {}), ("monitor_values", nmon, {}), ("explicit_euler", 1, {"dt": 0.125})):
                    want = np.array(impl.call_numpy(ns[fname], fns[fname]["args"], 0.5, st, ps, missing=ms, **kw), dtype=float)
                    have, _, _ = cm.call(fname, nret, t=0.5, states=st, params=ps, missing=ms, **kw)
                    if not np.allclose(np.array(have, dtype=float), want, rtol=1e-12, atol=0):
                        rep.violation(f"C {fname} of a sub-model with missing variables returns {list(map(float, have))}, the numpy code {want.tolist()}",
                                      {"kind": "direct", "text": t, "component": "A", "states": st, "params": ps, "missing": ms})
                        return
            rep.count("missing_variable_units_compared")
        finally:
            cm.close()
    core.guarded(rep, t, missing_unit)
    # directed: the witnesses of the two open numeric findings
    import textmodel

    class FixedGen:
        def __init__(self, pts):
            self.pts = pts

        def inputs(self, model, n=1):
            return [dict(self.pts[0], dt=0.125)]

    for wt, wpt in (("states(x=1)\nparameters(a=1/4)\nk = 1/4*x + abs(x)**(1/2)\ndx_dt = k*a\n", {"t": 0.0, "states": {"x": 8.0}, "params": {"a": 0.25}}),
                    ("states(x=1, y=2)\ndx_dt = Mod(y, 2)\ndy_dt = 1\n", {"t": 0.0, "states": {"x": 0.5, "y": -1.7}, "params": {}}),
                    # Mod of dividends sympy knows to be non-negative, by divisors of either sign (the result has the sign of the divisor)
                    ("states(x=1, y=2)\nparameters(p=1.5)\nk = Mod(abs(y), p) + Mod(y*y, -2.0) + Mod(exp(y), p) + Mod(abs(y) + 1.0, -p) + Mod(y, 2.0*p) + Mod(y + 7.0, p/3.0) + Mod(t + 5.0, 0.5*p*p)\ndx_dt = k - x\ndy_dt = Mod(x*x, p) - Mod(abs(x), 2.0) + Mod(x, p + 2.5) - y\n",
                     {"t": 0.0, "states": {"x": 1.7, "y": -0.6}, "params": {"p": -2.0}}),
                    ("states(x=1, y=2)\nparameters(p=1.5)\nk = Mod(abs(y), p) + Mod(y*y, -2.0) + Mod(exp(y), p) + Mod(abs(y) + 1.0, -p) + Mod(y, 2.0*p) + Mod(y + 7.0, p/3.0) + Mod(t + 5.0, 0.5*p*p)\ndx_dt = k - x\ndy_dt = Mod(x*x, p) - Mod(abs(x), 2.0) + Mod(x, p + 2.5) - y\n",
                     {"t": 0.0, "states": {"x": -2.3, "y": 1.1}, "params": {"p": 1.5}}),
                    # exponentials of (quantity - large offset)/small scale: finite values that a rebuilt expression
                    # (exp(1000.0/0.5)*exp(-2.0*t)) turns into inf*0
                    ("states(x=1, y=2)\nparameters(p=1.5)\nk = exp(-(t - 1000.0)/0.5) + 1/(1 + exp(-(x + 20.0)/0.02)) + exp((y - 400.0)/0.25) + log(1 + exp((x + 20.0)/0.02)) + (exp(p*0.001) - 1)\ndx_dt = k - x\ndy_dt = -y\n",
                     {"t": 1000.5, "states": {"x": -20.01, "y": 400.25}, "params": {"p": 1.5}}),
                    # guards: the branch that is not taken is not finite at the point (log of 0 and of a negative number, division by
                    # zero, root of a negative number) - a conditional must select, not multiply
                    ("states(V=-80, c=0.1)\nparameters(c_o=2.0, g=0.3)\ni_c = Conditional(Gt(c, 0), 25.0*log(c_o/c), 0)\ni_V = Conditional(Gt(V, -80.0), g/(V + 80.0), 0)\n"
                     "w = Conditional(Lt(c, 0), sqrt(-c), 0) + Conditional(Ge(c, 0), sqrt(c), 0)\ndV_dt = -i_c - i_V\ndc_dt = w - c\n",
                     {"t": 0.0, "states": {"V": -80.0, "c": 0.0}, "params": {"c_o": 2.0, "g": 0.3}}),
                    ("states(V=-80, c=0.1)\nparameters(c_o=2.0, g=0.3)\ni_c = Conditional(Gt(c, 0), 25.0*log(c_o/c), 0)\ni_V = Conditional(Gt(V, -80.0), g/(V + 80.0), 0)\n"
                     "w = Conditional(Lt(c, 0), sqrt(-c), 0) + Conditional(Ge(c, 0), sqrt(c), 0)\ndV_dt = -i_c - i_V\ndc_dt = w - c\n",
                     {"t": 0.0, "states": {"V": -85.0, "c": -0.5}, "params": {"c_o": 2.0, "g": 0.3}}),
                    # constants for which sympy's C printer substitutes a math.h macro (M_PI_4, M_SQRT2, M_LN2, ...)
                    ("states(x=1, y=2)\nk = atan(1)*x + sqrt(2.0)*y + log(2.0) + 2.0/pi + exp(1.0)\nj = (abs(atan(1)) + 2.0)**(x/8) + sqrt(2)*x + log(2)*y + log(10) + 1/pi + pi/2 + exp(1)\n"
                     "dx_dt = k\ndy_dt = j\n", {"t": 0.0, "states": {"x": 0.5, "y": -1.7}, "params": {}})):
        cw = pipeline.Case(drv, wt)
        mw = textmodel.model_from_items(cw.captured)
        core.guarded_witness(rep, wt, check_model, rep, drv, FixedGen([wpt]), rng, mw, wt, cw, False)
        rep.case(key=wt, nontrivial=True)
    for i in range(n):
        # literals: integer and floating ones mixed, so that integer quotients arise as they do in real models
        got = family.new_case(drv, rng, gen, rep, self_dep=0.3)
        if got is None:
            continue
        m, text, c = got
        k = core.guarded(rep, text, check_model, rep, drv, gen, rng, m, text, c, (i % 5 == 4))
        rep.case(key=text, nontrivial=k is not None)
        rep.sample({"text": text}, limit=2)
    drv.close()
    return rep.finish(
        level="proof",
        rule="random accepted models (integer and floating literals mixed, conditionals 25%, Mod, abs, floor); every model: gcc (clang on "
             "every 5th) in default mode, init functions, monitor_values / rhs at 2 points statement by statement, two schemes; non-trivial = "
             "the unit compiled and was executed",
        trusted_base=["Coq 8.16.1 kernel", "extraction + ocaml/driver.ml", "harness/cparse.py (C right-hand sides -> expr with typed constants)", "gcc / clang + libm + ctypes as executors"],
        assumptions=["that the text is valid C is established only by compiling it", "relations and ?: are given type double by the typed evaluator (a quotient of two comparison results would be mis-typed; the printer never emits one)"],
    )


if __name__ == "__main__":
    sys.exit(main())
