"""core.py - shared plumbing of the /verif checks.

 * paths, evidence / replay / known-finding bookkeeping, the VIOLATION protocol
 * Driver: the extracted Gallina model (build/gxdriver) as a line-oriented subprocess
 * compile_props: re-compiles coq/Props/<id>.v on every run and captures Print Assumptions
 * Impl: access to the implementation (/repo's working tree) - load, generate, export skeletons
"""
from __future__ import annotations

import ast as pyast
import hashlib
import json
import logging
import os
import re
import subprocess
import sys
import time
import traceback
from fractions import Fraction
from pathlib import Path

VERIF = Path(__file__).resolve().parent.parent
REPO = Path(os.environ.get("GOTRANX_REPO", "/repo"))
COQ = VERIF / "coq"
BUILD = VERIF / "build"
EVID = VERIF / "evidence"
REPLAYS = VERIF / "replays"
CORPUS = VERIF / "corpus"
PY = "/venv/bin/python"

# the implementation under test is /repo's *current working tree*
if str(REPO / "src") not in sys.path:
    sys.path.insert(0, str(REPO / "src"))


def quiet_logging():
    import structlog

    structlog.configure(wrapper_class=structlog.make_filtering_bound_logger(logging.CRITICAL))
    logging.disable(logging.CRITICAL)


# --------------------------------------------------------------------------------------------
# S-expressions for the driver
# --------------------------------------------------------------------------------------------
_ATOM_OK = re.compile(r"^[A-Za-z0-9_+\-*/^.]+$")


def sx_str(s: str) -> str:
    out = []
    for ch in s.encode("utf-8", "replace"):
        c = chr(ch)
        if c in '"\\' or ch < 32 or ch > 126:
            out.append("\\x%02x" % ch)
        else:
            out.append(c)
    return '"' + "".join(out) + '"'


def sx(x) -> str:
    if isinstance(x, (list, tuple)):
        return "(" + " ".join(sx(y) for y in x) + ")"
    if isinstance(x, Q):
        return sx_str(x.s)
    if isinstance(x, bool):
        return "1" if x else "0"
    if isinstance(x, int):
        return str(x)
    if isinstance(x, float):
        return x.hex() if x == x and abs(x) != float("inf") else ("nan" if x != x else ("inf" if x > 0 else "-inf"))
    s = str(x)
    if _ATOM_OK.match(s):
        return s
    return sx_str(s)


class Q:
    """a string that must be sent quoted"""

    def __init__(self, s):
        self.s = s


def opt(x):
    return "none" if x is None else ["some", Q(x)]


class Driver:
    def __init__(self):
        exe = BUILD / "gxdriver"
        if not exe.exists():
            raise RuntimeError("build/gxdriver missing: run ./setup.sh")
        self.p = subprocess.Popen([str(exe)], stdin=subprocess.PIPE, stdout=subprocess.PIPE, text=True, bufsize=1)
        self.requests = 0

    def ask(self, req) -> dict:
        line = sx(req)
        assert "\n" not in line
        self.p.stdin.write(line + "\n")
        self.p.stdin.flush()
        out = self.p.stdout.readline()
        self.requests += 1
        if not out:
            raise RuntimeError("driver died on: " + line[:300])
        r = json.loads(out)
        if r.get("status") == "bad-request":
            raise RuntimeError("driver rejected request: %s :: %s" % (r.get("message"), line[:300]))
        return r

    def close(self):
        try:
            self.p.stdin.close()
            self.p.wait(timeout=5)
        except Exception:
            self.p.kill()


def hexf(x):
    """floats come back from the driver as C99 hex strings"""
    if x is None:
        return None
    return float.fromhex(x)


# --------------------------------------------------------------------------------------------
# Props: re-check the theorems of one property on this run
# --------------------------------------------------------------------------------------------
def ensure_built():
    """(re)build the Coq development and the driver when sources are newer than the products"""
    r = subprocess.run([str(VERIF / "setup.sh"), "--if-stale"], capture_output=True, text=True)
    if r.returncode != 0:
        raise RuntimeError("setup failed:\n" + r.stdout[-3000:] + r.stderr[-3000:])


def compile_props(pid: str) -> dict:
    """Compile coq/Props/<pid>.v (theorems only, each followed by Print Assumptions).
    Returns obligations / discharged / axioms."""
    src = COQ / "Props" / f"{pid}.v"
    text = src.read_text()
    names = re.findall(r"^\s*(?:Theorem|Lemma|Corollary|Example)\s+([A-Za-z0-9_']+)", text, flags=re.M)
    t0 = time.time()
    r = subprocess.run(
        ["timeout", "600", "coqc", "-Q", str(COQ), "GX", str(src)],
        capture_output=True, text=True, cwd=str(COQ),
    )
    ok = r.returncode == 0
    out = r.stdout
    # Print Assumptions output: "Closed under the global context" or "Axioms:\n name : type ..."
    axioms = set()
    closed = out.count("Closed under the global context")
    for m in re.finditer(r"^Axioms:\n((?:.+\n?)+?)(?=^\S|\Z)", out, flags=re.M):
        pass
    cur = None
    for line in out.splitlines():
        if line.startswith("Axioms:"):
            cur = True
            continue
        if cur:
            m = re.match(r"^([A-Za-z0-9_.']+)\s*:", line)
            if m:
                axioms.add(m.group(1))
            elif line and not line.startswith(" "):
                cur = None
    bad = re.findall(r"\b(Admitted|admit|Axiom|Parameter|Conjecture)\b", re.sub(r"\(\*.*?\*\)", "", text, flags=re.S))
    return {
        "file": str(src.relative_to(VERIF)),
        "theorems": names,
        "obligations": len(names),
        "discharged": len(names) if ok else 0,
        "ok": ok and not bad,
        "closed_count": closed,
        "axioms": sorted(axioms),
        "stderr": r.stderr[-2000:],
        "wall_s": round(time.time() - t0, 2),
        "checker_cmd": f"coqc -Q coq GX coq/Props/{pid}.v (after make in coq/)",
    }


# --------------------------------------------------------------------------------------------
# results, evidence, violations
# --------------------------------------------------------------------------------------------
def load_known_findings():
    p = VERIF / "known_findings.json"
    if p.exists():
        return json.loads(p.read_text())
    return {"findings": []}


class Report:
    def __init__(self, pid: str, tier: str, seed: int):
        self.pid = pid
        self.tier = tier
        self.seed = seed
        self.t0 = time.time()
        self.evaluations = 0
        self.nontrivial = set()
        self.samples = []
        self.violations = []  # (what, replay dict)
        self.known_hits = {}
        self.counts = {}
        self.notes = []
        self.props = None
        self.known = [f for f in load_known_findings()["findings"] if f["property"] == pid and f.get("status", "open") == "open"]
        try:
            quiet_logging()
        except Exception:  # noqa: BLE001
            pass

    def count(self, key, n=1):
        self.counts[key] = self.counts.get(key, 0) + n

    def case(self, key=None, nontrivial=True):
        self.evaluations += 1
        if nontrivial and key is not None:
            self.nontrivial.add(key)

    def sample(self, s, limit=4):
        if len(self.samples) < limit:
            self.samples.append(s)

    def violation(self, what: str, replay: dict, finding_key: str | None = None, failing_input_found=True):
        """Record a violation.  If it matches a listed known finding (by finding_key) it is
        reported as KNOWN-FINDING instead."""
        if finding_key is not None:
            for f in self.known:
                if f["id"] == finding_key:
                    self.known_hits.setdefault(finding_key, what)
                    return
        self.violations.append((what, replay, failing_input_found))

    def finish(self, level="proof", rule="", trusted_base=None, assumptions=None, extra=None) -> int:
        wall = time.time() - self.t0
        cov = {
            "evaluations": self.evaluations,
            "distinct_nontrivial": len(self.nontrivial),
            "rule": rule,
            "samples": self.samples or ["(no case generated)"],
            "counts": self.counts,
        }
        if self.props is not None:
            cov.update({
                "obligations": self.props["obligations"],
                "discharged": self.props["discharged"],
                "checker_cmd": self.props["checker_cmd"],
                "trusted_base": (trusted_base or []) + ["axioms reported by Print Assumptions: " + (", ".join(self.props["axioms"]) or "none (closed under the global context)")],
                "theorems": self.props["theorems"],
            })
        if extra:
            cov.update(extra)
        ev = {
            "property_id": self.pid,
            "tier": self.tier,
            "seed": self.seed,
            "level": level,
            "coverage": cov,
            "assumptions": assumptions or [],
            "wall_s": round(wall, 2),
            "violations": len(self.violations),
            "known_findings_hit": self.known_hits,
            "notes": self.notes,
        }
        EVID.mkdir(exist_ok=True)
        if not rule.startswith("replay of "):      # a replay does not replace the evidence of the last full run
            (EVID / f"{self.pid}.json").write_text(json.dumps(ev, indent=1, default=str))
        for k, what in self.known_hits.items():
            print(f"KNOWN-FINDING: property={self.pid} {k}: {what}")
        rc = 0
        REPLAYS.mkdir(exist_ok=True)
        for what, replay, found in self.violations[:5]:
            body = json.dumps(replay, indent=1, default=str, sort_keys=True)
            h = hashlib.sha1(body.encode()).hexdigest()[:10]
            path = REPLAYS / f"{self.pid}-{h}.json"
            replay = dict(replay)
            replay.setdefault("property", self.pid)
            replay.setdefault("what", what)
            replay.setdefault("seed", self.seed)
            path.write_text(json.dumps(replay, indent=1, default=str))
            tail = "" if found else " no-failing-input-found"
            print(f"VIOLATION property={self.pid} replay={path}{tail}")
            print(f"  {what}")
            rc = 1
        if len(self.violations) > 5:
            print(f"  ... and {len(self.violations) - 5} more violations")
        print(f"{self.pid} [{self.tier}] evaluations={self.evaluations} distinct_nontrivial={len(self.nontrivial)} "
              f"violations={len(self.violations)} known={len(self.known_hits)} wall={wall:.1f}s "
              + (f"theorems={self.props['discharged']}/{self.props['obligations']}" if self.props else ""))
        return rc


class CaseTimeout(BaseException):
    pass


def _alarm(signum, frame):
    raise CaseTimeout()


CASE_SECONDS = int(os.environ.get("VERIF_CASE_SECONDS", "45"))


def guarded_witness(rep: Report, text, fn, *args, seconds=240, **kw):
    """a directed witness (a small fixed model that the unchanged implementation handles in a second or two): run like
    guarded(), but with a generous limit, and a witness that is still not done after that is reported - code that cannot
    be produced for a five-line model is not code that computes what the model defines"""
    global CASE_SECONDS
    before = dict(rep.counts) if hasattr(rep, "counts") else {}
    limit, CASE_SECONDS = CASE_SECONDS, seconds
    try:
        r = guarded(rep, text, fn, *args, **kw)
    finally:
        CASE_SECONDS = limit
    key = "cases_abandoned_after_%ds" % seconds
    if hasattr(rep, "counts") and rep.counts.get(key, 0) > before.get(key, 0):
        rep.violation(f"a directed witness is not finished after {seconds} s (loading, generating, compiling and evaluating it takes about a second on the unchanged tree)",
                      {"kind": "direct", "text": text})
    return r


def guarded(rep: Report, text, fn, *args, **kw):
    """run one case; an exception escaping the case logic means the implementation behaved in a
    way the check does not expect (e.g. a generated function is missing): reported with the case
    as replay rather than crashing the whole check"""
    import signal

    old = signal.signal(signal.SIGALRM, _alarm)
    signal.alarm(CASE_SECONDS)
    try:
        return fn(*args, **kw)
    except (KeyboardInterrupt, SystemExit):
        raise
    except CaseTimeout:
        # sympy (simplify inside the printers) can take minutes on deeply nested conditionals; the
        # case is abandoned and counted - slowness is not what these properties are about
        rep.count("cases_abandoned_after_%ds" % CASE_SECONDS)
        return None
    except Exception as ex:  # noqa: BLE001
        tb = traceback.format_exc()[-1500:]
        rep.violation(f"the case could not be completed: {type(ex).__name__}: {str(ex)[:200]}",
                      {"kind": "direct", "text": text, "exception": repr(ex)[:300], "traceback": tb})
        return None
    finally:
        signal.alarm(0)
        signal.signal(signal.SIGALRM, old)


def props_or_violation(rep: Report):
    """compile Props/<id>.v; a theorem that no longer checks is a violation (no failing input)"""
    ensure_built()
    pr = compile_props(rep.pid)
    rep.props = pr
    if not pr["ok"]:
        rep.violation(
            f"proof obligations of {pr['file']} no longer check",
            {"kind": "proof-broken", "file": pr["file"], "stderr": pr["stderr"], "failing_input": None,
             "broken": "theorems of " + pr["file"]},
            failing_input_found=False,
        )
    return pr


def std_args(argv=None):
    import argparse

    ap = argparse.ArgumentParser()
    ap.add_argument("--tier", default=os.environ.get("VERIF_TIER", "quick"))
    ap.add_argument("--seed", type=int, default=int(os.environ.get("VERIF_SEED", "20260928")))
    ap.add_argument("--replay", default=None)
    ap.add_argument("--n", type=int, default=None)
    return ap.parse_args(argv)
