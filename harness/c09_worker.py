"""run in a fresh process (PYTHONHASHSEED set by the parent): load every text, generate all
back ends, print one JSON line per text with digests and layouts"""
import hashlib
import json
import sys
import warnings

sys.path.insert(0, __import__("os").path.dirname(__import__("os").path.abspath(__file__)))
import impl  # noqa: E402
import cback  # noqa: E402


def digest(s):
    return hashlib.sha256(s.encode()).hexdigest()[:16]


def main():
    texts = json.load(open(sys.argv[1]))
    warnings.simplefilter("ignore")
    for text in texts:
        out = {}
        try:
            ode, _, err, ex = impl.load_text(text)
            if err is not None:
                out["error"] = err
            else:
                out["sorted_states"] = [s.name for s in ode.sorted_states()]
                out["params"] = [p.name for p in ode.parameters]
                out["order"] = [a.name for a in ode.sorted_assignments()]
                out["order_ru"] = [a.name for a in ode.sorted_assignments(remove_unused=True)]
                out["missing"] = sorted(ode.missing_variables.items())
                for ru in (False, True):
                    out[f"py_ru{int(ru)}"] = digest(impl.gen_python(ode, schemes=impl.ALL_SCHEMES, remove_unused=ru,
                                                                    stiff_states=out["sorted_states"][:1]))
                out["jax"] = digest(impl.gen_python(ode, schemes=["explicit_euler"], backend="jax"))
                out["c"] = digest(cback.gen_c(ode, schemes=["generalized_rush_larsen"]))
                # the sub-models of a split: their missing-variable tables (in slot order) and code
                subs = []
                comps = list(ode.components)
                if len(comps) > 1:
                    for comp in sorted(comps, key=lambda c_: c_.name)[:3]:
                        for half, build in (("to_ode", lambda: comp.to_ode()), ("minus", lambda: ode - comp)):
                            try:
                                sub = build()
                                if not sub.states:
                                    continue
                                table = sorted(sub.missing_variables.items(), key=lambda kv: kv[1])
                                subs.append([comp.name, half, table, digest(impl.gen_python(sub, schemes=["explicit_euler"]))])
                            except Exception as ex2:  # noqa: BLE001
                                subs.append([comp.name, half, "exception", type(ex2).__name__])
                out["sub_models"] = subs
        except Exception as ex:  # noqa: BLE001
            out["exception"] = type(ex).__name__ + ": " + str(ex)[:100]
        print(json.dumps(out, sort_keys=True))


if __name__ == "__main__":
    main()
