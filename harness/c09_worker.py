"""run in a fresh process (PYTHONHASHSEED set by the parent): load every text, generate all
back ends, print one JSON line per text with digests and layouts"""
import hashlib
import json
import sys
import warnings

sys.path.insert(0, __import__("os").path.dirname(__import__("os").path.abspath(__file__)))
import impl  # noqa: E402
import cback  # noqa: E402


def digest(s):
    return hashlib.sha256(s.encode()).hexdigest()[:16]


def main():
    texts = json.load(open(sys.argv[1]))
    warnings.simplefilter("ignore")
    for text in texts:
        out = {}
        try:
            ode, _, err, ex = impl.load_text(text)
            if err is not None:
                out["error"] = err
            else:
                out["sorted_states"] = [s.name for s in ode.sorted_states()]
                out["params"] = [p.name for p in ode.parameters]
                out["order"] = [a.name for a in ode.sorted_assignments()]
                out["order_ru"] = [a.name for a in ode.sorted_assignments(remove_unused=True)]
                out["missing"] = sorted(ode.missing_variables.items())
                for ru in (False, True):
                    out[f"py_ru{int(ru)}"] = digest(impl.gen_python(ode, schemes=impl.ALL_SCHEMES, remove_unused=ru,
                                                                    stiff_states=out["sorted_states"][:1]))
                out["jax"] = digest(impl.gen_python(ode, schemes=["explicit_euler"], backend="jax"))
                out["c"] = digest(cback.gen_c(ode, schemes=["generalized_rush_larsen"]))
        except Exception as ex:  # noqa: BLE001
            out["exception"] = type(ex).__name__ + ": " + str(ex)[:100]
        print(json.dumps(out, sort_keys=True))


if __name__ == "__main__":
    main()
