"""C20 - symbolic right-hand side and Jacobian matrices are those of the model.

 1. theorems of coq/Props/C20.v: substitution rounds preserve the meaning, a produced right-hand
    side is fully expanded, the Jacobian entries are D of the expanded entries in the generated
    state order and D is the derivative over the reals; computed: depth 21 and 41 chains;
 2. correspondence: the mirror (Sympytools.rhs_matrix / jacobian with the repaired bound) evaluated
    by the extracted evaluator against sympytools.rhs_matrix / jacobi_matrix lambdified at sample
    inputs; states_matrix against Ode.sorted_states;
 3. direct: rhs_matrix must contain only states, parameters and t; its value must equal the generated
    rhs and the reference meaning; jacobi_matrix must equal central finite differences of the
    generated rhs (step 1e-6) and the model's symbolic derivative; chains of depth 1..45, diamonds,
    intermediates whose names do not follow dependency order, paths of different lengths.
"""
from __future__ import annotations

import random
import sys

import numpy as np
import sympy

import core
import family
import impl
import lang
import pipeline
from pipeline import close

from gotranx import sympytools


def chain_text(depth, rng, reverse_names=False, mid=True, ops=None):
    names = [f"i{j:02d}" for j in range(depth)]
    if reverse_names:
        names = names[::-1]
    rng_ops = ops or ["+ 1", "* 0.5", "- y", "+ p*x"]
    lines = [f"{names[0]} = x*p + 1"]
    for a_, b_ in zip(names, names[1:]):
        lines.append(f"{b_} = {a_} {rng.choice(rng_ops)}")
    rng.shuffle(lines)
    return "states(x=1, y=2)\nparameters(p=0.5)\n" + "\n".join(lines) + f"\ndx_dt = -{names[-1]} + y\ndy_dt = {names[depth // 2 if mid else 0]} - y*x\n"


def skewed_text():
    return ("states(m=0.1, v=1)\nparameters(k=2)\na_tau = k*m + 1\nb_gate = a_tau*v + m\nz_first = b_gate + a_tau\n"
            "dm_dt = a_tau - b_gate*m + z_first\ndv_dt = -v + b_gate\n")


def hp_eval(expr, syms, args):
    """value of a sympy expression at a point with 60 digits and sympy's unbounded exponent range"""
    try:
        v = expr.xreplace({s_: sympy.Float(repr(float(a_)), 60) for s_, a_ in zip(syms, args)})
        v = sympy.N(v, 60)
        if v.is_real is False or not v.is_number:
            return None
        return float(v)
    except Exception:  # noqa: BLE001
        return None


def check_text(rep, drv, rng, text, model=None, points=None):
    c = pipeline.Case(drv, text, model)
    if c.err is not None:
        rep.count("rejected:" + c.err)
        return None
    issue = family.mirror_issue(c, text)
    lay = c.impl_layout()
    ss, pn = lay["sorted_states"], lay["params"]
    ode = c.ode
    try:
        X = sympytools.states_matrix(ode)
        F = sympytools.rhs_matrix(ode)
        J = sympytools.jacobi_matrix(ode)
    except Exception as ex:  # noqa: BLE001
        rep.violation(f"rhs_matrix / jacobi_matrix raises {type(ex).__name__}: {str(ex)[:100]}", {"kind": "direct", "text": text})
        return None
    failing = None

    def fail(what, **kw):
        nonlocal failing
        if failing is None:
            d = {"kind": "direct", "text": text}
            d.update(kw)
            failing = (what, d)

    if [str(s) for s in X] != ss:
        fail(f"states_matrix order {[str(s) for s in X]} differs from the generated code's state order {ss}")
    allowed = set(ss) | set(pn) | {"t"}
    free = {str(s) for s in F.free_symbols}
    if not free <= allowed:
        fail(f"rhs_matrix still contains {sorted(free - allowed)} (intermediates not expanded)")
    freeJ = {str(s) for s in J.free_symbols}
    if not freeJ <= allowed:
        fail(f"jacobi_matrix still contains {sorted(freeJ - allowed)}")
    code = impl.gen_python(ode)
    ns = impl.exec_module(code)
    fns = impl.export_functions(code)
    syms = [ode[s].symbol for s in ss] + [ode[p].symbol for p in pn] + [ode.t]
    try:
        Ff = sympy.lambdify(syms, F, modules="numpy")
        Jf = sympy.lambdify(syms, J, modules="numpy")
    except Exception as ex:  # noqa: BLE001
        rep.count("lambdify_raises:" + type(ex).__name__)
        return None
    gen = lang.Gen(rng)
    pts = points
    if pts is None:
        if model is not None:
            pts = [p for p, _, _ in family.usable_points(gen, model, 10, want=2)[0]]
        else:
            pts = [{"t": 0.5, "states": {s: rng.randrange(-12, 13) / 8.0 for s in ss}, "params": {p: rng.randrange(1, 13) / 8.0 for p in pn}} for _ in range(2)]
    for pt in pts:
        if failing:
            break
        if model is not None:
            # central differences need a neighbourhood without jumps: a comparison whose operands are exactly equal
            # (allowed elsewhere when both are inputs / literals) is a jump here
            try:
                _, pr0 = pipeline._reference_once(model, pt, None, 0.0)
                if pr0.margin_strict < 1e-4:
                    rep.count("points_on_a_jump_skipped")
                    continue
            except (lang.Undefined, KeyError):
                continue
        isx, st, ps = pipeline.inputs_sx(lay, pt)
        args = st + ps + [pt["t"]]
        with np.errstate(all="ignore"):
            try:
                fv = np.array(Ff(*args), dtype=float).reshape(-1)
                jv = np.array(Jf(*args), dtype=float).reshape(len(ss), len(ss))
                rv = np.array(impl.call_numpy(ns["rhs"], fns["rhs"]["args"], pt["t"], st, ps), dtype=float)
            except Exception as ex:  # noqa: BLE001
                rep.count("numeric_evaluation_raises")
                continue
        if not np.all(np.isfinite(rv)):
            continue
        S = float(max(1.0, np.max(np.abs(rv)), max([abs(x) for x in st] + [1.0])))
        for i, s in enumerate(ss):
            if not close(float(fv[i]), float(rv[i]), S, 1e-8):
                # the property is about the symbolic matrix as a function on the reals: float64 evaluation of an
                # equal expression may overflow where the generated code does not (sympy re-evaluates
                # exp(a - 1e6) into 3.3e-434295*exp(a) when substituting).  Decide with 60-digit arithmetic
                # and an unbounded exponent range.
                hp = hp_eval(F[i], syms, args)
                rep.count("decided_in_high_precision")
                if hp is not None and close(hp, float(rv[i]), S, 1e-8):
                    fv[i] = hp
                    continue
                fail(f"rhs_matrix[{i}] = {fv[i]!r} (60 digits: {hp!r}) but the generated rhs gives d{s}_dt = {rv[i]!r}", inputs=pt)
        # the mirror
        if issue is None:
            mr = drv.ask(["symrhs", "default", isx])
            if mr.get("rhs") is None:
                fail("the mirror's rhs_matrix with the repaired bound gives up", inputs=pt)
            else:
                for i in range(len(ss)):
                    mvv = core.hexf(mr["rhs"][i])
                    if mvv is not None and np.isfinite(mvv) and not close(float(fv[i]), mvv, S, 1e-8):
                        fail(f"rhs_matrix[{i}] = {fv[i]!r}, the mirror's expansion evaluates to {mvv!r}", inputs=pt)
                # Jacobian: implementation vs mirror's symbolic derivative vs finite differences
                h = 1e-6
                for j in range(len(ss)):
                    sp, sm = list(st), list(st)
                    sp[j] += h; sm[j] -= h
                    with np.errstate(all="ignore"):
                        fd = (np.array(impl.call_numpy(ns["rhs"], fns["rhs"]["args"], pt["t"], sp, ps), dtype=float)
                              - np.array(impl.call_numpy(ns["rhs"], fns["rhs"]["args"], pt["t"], sm, ps), dtype=float)) / (2 * h)
                    for i in range(len(ss)):
                        mj = core.hexf(mr["jac"][i][j]) if mr.get("jac") else None
                        Sj = S + abs(float(jv[i, j]))
                        smooth_here = np.isfinite(fd[i]) and (mj is None or not np.isfinite(mj) or abs(fd[i] - mj) <= 1e-4 * (1 + Sj + abs(mj)))
                        if mj is not None and np.isfinite(mj) and np.isfinite(jv[i, j]) and not close(float(jv[i, j]), mj, Sj, 1e-7):
                            if smooth_here:   # at a kink (abs, conditionals) conventions may differ; finite differences decide
                                fail(f"jacobi_matrix[{i},{j}] = {jv[i, j]!r}; the derivative of d{ss[i]}_dt with respect to {ss[j]} is {mj!r} "
                                     f"(finite differences: {fd[i]!r})", inputs=pt)
                        elif np.isfinite(fd[i]) and np.isfinite(jv[i, j]) and abs(fd[i] - jv[i, j]) > 1e-4 * (1 + Sj + abs(fd[i])) and smooth_here:
                            fail(f"jacobi_matrix[{i},{j}] = {jv[i, j]!r} but central differences of the generated rhs give {fd[i]!r}", inputs=pt)
                rep.count("points_compared")
    family.settle(rep, issue, failing, None)
    return True


def main(argv=None):
    a = core.std_args(argv)
    rep = core.Report("C20", a.tier, a.seed)
    core.props_or_violation(rep)
    drv = core.Driver()
    rng = random.Random(a.seed)
    core.CASE_SECONDS = 90
    if a.replay:
        import json as _json
        import textmodel
        data = _json.load(open(a.replay))
        text = data["text"]
        c0 = pipeline.Case(drv, text)
        m = textmodel.model_from_items(c0.captured) if c0.err is None else None
        pts = [data["inputs"]] if isinstance(data.get("inputs"), dict) and "states" in data["inputs"] else None
        core.guarded(rep, text, check_text, rep, drv, rng, text, m, pts)
        rep.case(key=text, nontrivial=True)
        drv.close()
        return rep.finish(level="proof", rule="replay of " + a.replay, trusted_base=["see the full check"])
    depths = [1, 5, 19, 20, 21, 33] if a.tier == "quick" else list(range(1, 46, 2))
    for d in depths:
        for rev in (False, True):
            text = chain_text(d, rng, rev)
            core.guarded(rep, text, check_text, rep, drv, rng, text)
            rep.case(key=text, nontrivial=d > 1)
            rep.count("chain_depths_checked")
    # a chain far deeper than the interpreter's default recursion limit (the expanded expressions stay small)
    for d in ([1300] if a.tier == "quick" else [1300, 3000]):
        text = chain_text(d, rng, False, mid=False, ops=["+ 1", "- y", "+ p*x"])    # sums only: the mirror's symbolic derivative stays linear in the depth
        core.guarded(rep, text, check_text, rep, drv, rng, text)
        rep.case(key=text, nontrivial=True)
        rep.count("chain_depths_checked")
    text = skewed_text()
    core.guarded(rep, text, check_text, rep, drv, rng, text)
    rep.case(key=text, nontrivial=True)
    # right-hand sides that are relations (numbers 1 / 0): as an intermediate that is read, and as the derivative of a flag state
    text = ("states(v=1, above=0.25)\nparameters(th=0.5, k=2)\ng = Gt(v, th)\nh = And(Lt(v, 3), Gt(above, -1))\n"
            "dv_dt = -k*v + 3*g - h\ndabove_dt = Gt(v, th)\n")
    core.guarded(rep, text, check_text, rep, drv, rng, text)
    rep.case(key=text, nontrivial=True)
    # a state derivative read by another state derivative directly (no intermediate in between), by two of them, and through a chain
    for text in ("states(v=-1, w=0.5)\nparameters(eps=0.08, g=0.8, c=0.3)\ndv_dt = v - v**3/3 - w\ndw_dt = eps*(v - g*w) - c*dv_dt\n",
                 "states(a=1, b=2, c=0.5)\nparameters(k=1.5)\nda_dt = -k*a + sin(b)\ndb_dt = a*c - 0.5*da_dt\ndc_dt = db_dt*da_dt - c\n"):
        core.guarded(rep, text, check_text, rep, drv, rng, text)
        rep.case(key=text, nontrivial=True)
    gen = lang.Gen(rng, max_depth=3, p_cond=0.15, funcs=["exp", "cos", "sin", "atan", "log", "sqrt", "abs", "tan"], allow_mod=False)
    n = a.n or (24 if a.tier == "quick" else 500)
    for i in range(n):
        got = family.new_case(drv, rng, gen, rep, n_inters=rng.choice([2, 3, 4, 6, 8]), shape=rng.choice(["random", "chain", "diamond", "fanin"]),
                              p_unused=0.1, self_dep=0.5)
        if got is None:
            continue
        m, text, c = got
        core.guarded(rep, text, check_text, rep, drv, rng, text, m)
        rep.case(key=text, nontrivial=True)
        rep.count("shape:" + m["shape"])
        rep.sample({"text": text}, limit=2)
    drv.close()
    return rep.finish(
        level="proof",
        rule="chains of depth 1..33 (quick) / 1..45 (thorough) with names in and against dependency order, a chain of depth 1300 (3000) that hangs off one derivative, a model with dependency paths "
             "of different lengths, two models in which state derivatives read state derivatives directly, random models with 2-8 intermediates in chain / diamond / fan-in / random shapes, conditionals 15%; two "
             "points each; non-trivial = more than one intermediate level",
        trusted_base=["Coq 8.16.1 kernel", "Coquelicot and the standard library reals (classical) for D_sound", "extraction + ocaml/driver.ml",
                      "sympy.lambdify and numpy as evaluators"],
        assumptions=["finite differences: step 1e-6, tolerance 1e-4 relative; at kinks (abs, conditionals) conventions may differ and finite differences decide"],
    )


if __name__ == "__main__":
    sys.exit(main())
