"""C16 - singularity removal changes a model only at its removable singular points.

 1. theorems of coq/Props/C16.v: the nested combination of the per-singularity conditionals agrees
    with the original at regular points and gives the replacement at a singular point, for any number
    of singularities; without removable singularities nothing changes; the summed combination (the
    code as it stands) equals the nested one for one singularity and counts the expression k times
    for k (refuted / known finding);
 2. correspondence: the number k of removable singularities sympy reports per expression decides
    which theorem applies; for k <= 1 the implementation must behave as the nested form; the limits
    sympy computes are compared with 50-digit evaluation next to the point (oracle check);
 3. direct: ode vs ode.remove_singularities(): monitored values and rhs off the singular points must
    be unchanged; on a singular point the value must be the finite limit; infinite singularities
    (1/x) and singularity-free expressions stay as they are; expressions placed in components with
    and without states; limits with parameters in the denominator.
"""
from __future__ import annotations

import math
import random
import sys

import mpmath
import numpy as np

import core
import impl
import pipeline
from pipeline import close

# removable-singularity building blocks: (text in v, singular point, name)
def blocks(v, rng):
    a = rng.choice(["2", "3", "0.5"])
    b = rng.choice(["b", "k"])
    return [
        (f"{v}/(exp({v}) - 1)", 0.0),
        (f"sin({v})/{v}", 0.0),
        (f"({v} - {a})/(exp({v}) - exp({a}))", float(a)),
        (f"{v}/({b}*(exp({v}) - 1))", 0.0),
        (f"({v} + 47)/(1 - exp(-({v} + 47)/10))", -47.0),
        (f"(exp({v}) - 1)/{v}", 0.0),
        # removable singularities that are not zeros of a denominator
        (f"{v}*log(abs({v}))", 0.0),
        (f"({v} - {a})*log(abs({v} - {a}))", float(a)),
        (f"{v}*sin(1/{v})", 0.0),
        (f"({v} + 47)*log(abs({v} + 47))", -47.0),
        # quotients whose numerator and denominator share a factor (a computer-algebra "factor" / "cancel" would hide the point)
        (f"({v}*{v} - 4)/({v} - 2)", 2.0),
        (f"(exp(2*{v}) - 1)/(exp({v}) - 1)", 0.0),
        (f"({v}**3 - 8)/({v} - 2)", 2.0),
        # the singular point is where the variable meets a parameter (k = 3) or a product of parameters (a*k = 4.5)
        (f"({v} - k)/(1 - exp(-({v} - k)/a))", 3.0),
        (f"sin({v} - k)/({v} - k)", 3.0),
        (f"({v} - k)*log(abs({v} - k))", 3.0),
        (f"({v}*{v} - k*k)/({v} - k)", 3.0),
        (f"({v} - a*k)/(exp({v} - a*k) - 1)", 4.5),
    ]


def build_model(rng, k_target, force=None):
    """one monitored expression with k_target removable singularities (k = 0, 1, 2, 3), plus regular
    and infinite ones; multi-component layout at random"""
    layout = rng.choice(["single", "split"])
    sing_pts = {}
    terms = []
    vars_ = ["x", "y"]
    used = []
    via = k_target >= 1 and rng.random() < 0.35      # the first singularity sits in an intermediate that depends on a state: u = x - 1
    for i in range(k_target):
        v = vars_[i % 2] if i < 2 else "x"
        if i == 0 and via:
            v = "u"
        cand = [b for b in blocks(v, rng) if (v, b[1]) not in used]
        if i == 0 and force is not None:
            bl = blocks(v, rng)
            txt, pt = bl[force % len(bl)]      # every building block is used at least once per run
        else:
            txt, pt = rng.choice(cand)
        used.append((v, pt))
        terms.append(txt)
        sing_pts.setdefault(v, []).append(pt)
    reg = rng.choice(["a*x", "cos(y)", "a + b", "x*y"])
    op = rng.choice([" + ", " * "]) if k_target <= 1 else " + "
    e = op.join(terms + [f"({reg})"]) if terms else reg
    lines = [f"s = {e}", "q = b/x", "r = a*x + y", "dx_dt = -x + s", "dy_dt = q - y + r"]
    if via:
        lines.insert(0, "u = x - 1")
    if layout == "single":
        text = "states(x=1, y=2)\nparameters(a=1.5, b=2, k=3)\n" + "\n".join(lines) + "\n"
    else:
        nr = 4 if via else 3
        text = ('states("Membrane", x=1, y=2)\nparameters("Membrane", a=1.5, b=2, k=3)\nexpressions("Rates")\n'
                + "\n".join(lines[:nr]) + '\nexpressions("Membrane")\n' + "\n".join(lines[nr:]) + "\n")
    return text, sing_pts, layout


def main(argv=None):
    a = core.std_args(argv)
    rep = core.Report("C16", a.tier, a.seed)
    core.props_or_violation(rep)
    drv = core.Driver()
    rng = random.Random(a.seed)
    n = a.n or (36 if a.tier == "quick" else 200)
    core.CASE_SECONDS = 120
    n_single = 0
    for i in range(n):
        k_target = [0, 1, 1, 1, 2, 3][i % 6]
        force = None
        if k_target == 1:
            force = n_single
            n_single += 1
        text, sing_pts, layout = build_model(rng, k_target, force)
        core.guarded(rep, text, check, rep, drv, rng, text, sing_pts, k_target, layout)
        rep.case(key=text, nontrivial=k_target >= 1)
        rep.count(f"k={k_target}")
        rep.count("layout:" + layout)
        rep.sample({"text": text, "removable": sing_pts}, limit=3)
    drv.close()
    return rep.finish(
        level="proof",
        rule="one monitored expression built from 0-3 removable-singularity blocks (x/(exp(x)-1), sin(x)/x, (x-a)/(exp(x)-exp(a)), "
             "x/(b(exp(x)-1)), a shifted gate rate, (exp(x)-1)/x, and four that are not zeros of a denominator: x log|x|, (x-a) log|x-a|, x sin(1/x), "
             "(x+47) log|x+47|; three quotients with a common factor: (x²-4)/(x-2), (e^{2x}-1)/(e^x-1), (x³-8)/(x-2); and five whose singular point is a parameter or a product of parameters: (x-k)/(1-exp(-(x-k)/a)), sin(x-k)/(x-k), (x-k) log|x-k|, (x²-k²)/(x-k), (x-ak)/(exp(x-ak)-1)) in one or two states, in 35% of the models through an intermediate u = x - 1, combined by + or *, next to a regular and an infinite "
             "(b/x) expression; single-component and split layouts (expression in a component without states); values on and off every "
             "singular point; non-trivial = at least one removable singularity",
        trusted_base=["Coq 8.16.1 kernel", "sympy.singularities / limit as oracles (limits re-checked with mpmath, 50 digits)", "numpy as evaluator"],
        assumptions=["detection of singularities is sympy's; only FiniteSet results are handled by the implementation"],
    )


def check(rep, drv, rng, text, sing_pts, k_target, layout):
    ode, _, err, ex = impl.load_text(text)
    if err is not None:
        rep.violation(f"model rejected: {err}", {"kind": "direct", "text": text})
        return
    try:
        ode2 = ode.remove_singularities()
        c1 = impl.gen_python(ode)
        c2 = impl.gen_python(ode2)
    except Exception as ex2:  # noqa: BLE001
        rep.violation(f"remove_singularities / generation raises {type(ex2).__name__}: {str(ex2)[:120]}", {"kind": "direct", "text": text})
        return
    n1, n2 = impl.exec_module(c1), impl.exec_module(c2)
    order = [a_.name for a_ in ode.sorted_assignments()]
    ss = [s.name for s in ode.sorted_states()]
    pn = [p.name for p in ode.parameters]
    # how many removable singularities does the implementation see in s?
    s_atom = ode["s"]
    sings = s_atom.singularities(ode._lookup)
    k_seen = len([s_ for s_ in sings if not s_.is_infinite])
    rep.count(f"k_seen={k_seen}")

    def run(ns, st, ps):
        with np.errstate(all="ignore"):
            mv = np.array(ns["monitor_values"](0.0, np.array(st, dtype=float), np.array(ps, dtype=float)), dtype=float)
        return dict(zip(order, [float(v) for v in mv]))

    pvals = {"a": 1.5, "b": 2.0, "k": 3.0}
    ps = [pvals[p] for p in pn]
    # ---- regular points
    for _ in range(3):
        stv = {"x": rng.choice([0.75, -1.25, 1.5, 2.5]), "y": rng.choice([0.5, -0.75, 1.25])}
        st = [stv[s] for s in ss]
        v1, v2 = run(n1, st, ps), run(n2, st, ps)
        for nm in order:
            if math.isfinite(v1[nm]) and not close(v2[nm], v1[nm], abs(v1[nm]), 1e-9):
                key = "C16-several-removable-singularities-are-summed" if (k_seen >= 2 and nm in ("s", "dx_dt") and
                                                                          close(v2["s"], k_seen * v1["s"], abs(v1["s"]) * k_seen, 1e-9)) else None
                rep.violation(f"at a regular point {stv} the model with singularities removed gives {nm} = {v2[nm]!r}, the original {v1[nm]!r}",
                              {"kind": "direct", "text": text, "states": stv, "name": nm, "k_removable": k_seen}, finding_key=key)
                return
        rep.count("regular_points_compared")
    if k_seen >= 2:
        return   # the summed form is not the nested one: covered by the known finding above
    # ---- singular points
    for v, ptsl in sing_pts.items():
        for p0 in ptsl:
            stv = {"x": 1.5, "y": 1.25}
            if v == "u":
                stv["x"] = p0 + 1.0       # u = x - 1
            else:
                stv[v] = p0
            st = [stv[s] for s in ss]
            v2 = run(n2, st, ps)
            # the limit, from 50-digit evaluation next to the point
            mpmath.mp.dps = 50
            def s_at(val):
                env = dict(stv)
                if v == "u":
                    env["x"] = val + 1
                else:
                    env[v] = val
                env["u"] = mpmath.mpf(env["x"]) - 1
                f = mpmath_eval(text_expr(text, "s"), env, pvals)
                return f
            try:
                lim = (s_at(mpmath.mpf(p0) + mpmath.mpf("1e-20")) + s_at(mpmath.mpf(p0) - mpmath.mpf("1e-20"))) / 2
                lim = float(lim)
            except Exception:  # noqa: BLE001
                rep.count("limit_reference_failed")
                continue
            if not math.isfinite(v2["s"]) or not close(v2["s"], lim, abs(lim), 1e-7):
                key = "C16-limit-wrong-for-float-constant" if (p0 != int(p0) and f"exp({p0:g})" in text.replace("exp(0.5)", "exp(0.5)")) else None
                rep.violation(f"on the removable singularity {v} = {p0} the repaired model gives s = {v2['s']!r}; the limit is {lim!r}",
                              {"kind": "direct", "text": text, "states": stv, "layout": layout, "k_removable": k_seen}, finding_key=key)
                return
            if not math.isfinite(v2["dx_dt"]):
                rep.violation(f"on the removable singularity {v} = {p0} dx_dt is {v2['dx_dt']!r}", {"kind": "direct", "text": text, "states": stv})
                return
            rep.count("singular_points_compared")
    # ---- the infinite singularity stays
    stv = {"x": 0.0, "y": 1.25}
    if "x" not in sing_pts or 0.0 not in sing_pts.get("x", []):
        v2 = run(n2, [stv[s] for s in ss], ps)
        if math.isfinite(v2["q"]):
            rep.violation("the infinite singularity of q = b/x at x = 0 was replaced by a finite value", {"kind": "direct", "text": text})


def text_expr(text, name):
    for line in text.splitlines():
        if line.startswith(name + " = "):
            return line.split(" = ", 1)[1]
    raise KeyError(name)


def mpmath_eval(expr, stv, pvals):
    env = {"exp": mpmath.exp, "sin": mpmath.sin, "cos": mpmath.cos, "log": mpmath.log, "abs": abs}
    env.update({k: mpmath.mpf(v) for k, v in pvals.items()})
    env.update({k: mpmath.mpf(v) for k, v in stv.items()})
    import re
    e = re.sub(r"(?<![\w.])(\d+\.?\d*)", r"mpf('\1')", expr)
    env["mpf"] = mpmath.mpf
    return eval(e, {"__builtins__": {}}, env)  # noqa: S307


if __name__ == "__main__":
    sys.exit(main())
