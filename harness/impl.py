"""impl.py - the implementation side of the correspondence: /repo's working tree is imported
(PYTHONPATH is forced by core), texts are loaded with the real parser / transformer, code is
generated with the real generators, the generated Python is executed, and its statement skeleton
is read off with Python's ast and handed to the verified validators."""
from __future__ import annotations

import ast as pyast
import math
from fractions import Fraction

import core
from core import Q, opt

core.quiet_logging()

import numpy as np  # noqa: E402
import gotranx  # noqa: E402
from gotranx import atoms as gatoms  # noqa: E402
from gotranx.parser import Parser  # noqa: E402
from gotranx.transformer import TreeToODE, LarkODE  # noqa: E402
from gotranx.ode import make_ode  # noqa: E402
from gotranx.codegen.python import Format as PyFormat  # noqa: E402
from gotranx.cli import gotran2py, gotran2c  # noqa: E402
from gotranx.schemes import Scheme  # noqa: E402

assert gotranx.__file__.startswith(str(core.REPO)), gotranx.__file__


# --------------------------------------------------------------------------------------------
# loading, with the item list TreeToODE.ode receives captured on the way
# --------------------------------------------------------------------------------------------
class _Capture(TreeToODE):
    def ode(self, s):
        self.captured = list(s)
        return super().ode(s)


def classify_exception(ex) -> str:
    n = type(ex).__name__
    m = {
        "DuplicateSymbolError": "Duplicate",
        "ComponentNotCompleteError": "NotComplete",
        "StateNotFoundInComponent": "StateNotFound",
        "MissingSymbolError": "MissingSymbol",
        "CycleError": "Cycle",
        "UnexpectedCharacters": "Parse", "UnexpectedToken": "Parse", "UnexpectedInput": "Parse",
        "UnexpectedEOF": "Parse", "VisitError": "Visit",
    }
    if n == "VisitError" and getattr(ex, "orig_exc", None) is not None:
        return classify_exception(ex.orig_exc)
    return m.get(n, "Other:" + n)


def load_text(text: str, name="ode"):
    """returns (ode | None, captured items | None, error class | None, exception).
    The text goes through the real gotranx.load.ode_from_string (the entry point of load_ode and of the command line), whose
    transformer is replaced, for the duration of the call, by a subclass that records the item list TreeToODE.ode receives."""
    import gotranx.load as gload

    tr = _Capture()
    saved = gload.TreeToODE
    gload.TreeToODE = lambda *a, **k: tr
    try:
        ode = gload.ode_from_string(text, name=name)
        return ode, tr.captured, None, None
    except Exception as ex:  # noqa: BLE001
        cls = "Other:InvalidODE" if type(ex).__name__ == "InvalidODEException" else classify_exception(ex)
        return None, getattr(tr, "captured", None), cls, ex
    finally:
        gload.TreeToODE = saved


# --------------------------------------------------------------------------------------------
# lark tree / sympy number  ->  driver S-expression of a Gallina expr
# --------------------------------------------------------------------------------------------
def tree_to_sx(tree):
    """the parse tree of an expression, as the Gallina expr the documented grammar assigns to it
    (mirrors the *shape* cases of expressions.build_expression)"""
    import lark

    if isinstance(tree, lark.Token):
        raise ValueError("token %r" % tree)
    d = tree.data
    ch = tree.children
    if d in ("expression", "term"):
        acc = tree_to_sx(ch[0])
        for i in range(1, len(ch), 2):
            op = str(ch[i])
            acc = [{"+": "+", "-": "-", "*": "*", "/": "/"}[op], acc, tree_to_sx(ch[i + 1])]
        return acc
    if d == "factor":
        op = str(ch[0])
        a = tree_to_sx(ch[1])
        if op == "-":
            return ["neg", a]
        if op == "+":
            return a
        raise ValueError("unary " + op)
    if d == "power":
        return ["^", tree_to_sx(ch[0]), tree_to_sx(ch[1])]
    if d == "variable":
        return ["v", str(ch[0])]
    if d == "scientific":
        t = str(ch[0])
        f = Fraction(t.replace("E", "e"))
        return ["n", str(f.numerator), str(f.denominator), 1 if t.isdigit() else 0]
    if d == "constant":
        return ["pi"]
    if d == "func":
        name = str(ch[0])
        args = [tree_to_sx(c) for c in ch[1:]]
        if name == "Mod":
            if len(args) != 2:
                raise ValueError("arity of Mod")
            return ["mod", args[0], args[1]]
        if len(args) != 1:
            raise ValueError("arity of " + name)     # e.g. log(x, base): outside the modelled language
        return ["fn", name, args[0]]
    if d == "logicalfunc":
        name = str(ch[0])
        if name == "Conditional":
            if len(ch) != 4:
                raise ValueError("arity of Conditional")
            return ["if", tree_to_sx(ch[1]), tree_to_sx(ch[2]), tree_to_sx(ch[3])]
        if name == "ContinuousConditional":
            rel_op, a1, a2 = ch[1].children
            r = str(rel_op)
            a, b = tree_to_sx(a1), tree_to_sx(a2)
            tv, fv, sg = tree_to_sx(ch[2]), tree_to_sx(ch[3]), tree_to_sx(ch[4])
            one = ["n", "1", "1", 1]
            H = ["/", one, ["+", one, ["fn", "exp", ["/", ["-", a, b], sg]]]]
            if r in ("Gt", "Ge"):
                return ["+", ["*", tv, ["-", one, H]], ["*", fv, H]]
            return ["+", ["*", tv, H], ["*", fv, ["-", one, H]]]
        args = [tree_to_sx(c) for c in ch[1:]]
        if name in ("Lt", "Gt", "Le", "Ge", "Eq"):
            if len(args) != 2:
                raise ValueError("arity of " + name)
            return ["rel", name.lower(), args[0], args[1]]
        if name == "Not":
            if len(args) != 1:
                raise ValueError("arity of Not")
            return ["not", args[0]]
        if name in ("And", "Or"):
            acc = args[0]
            for a in args[1:]:
                acc = [name.lower(), acc, a]
            return acc
    raise ValueError("tree " + str(d))


def sympy_value_to_sx(v):
    """value of a state / parameter (build_expression without symbols): exact rational"""
    import sympy

    v = sympy.sympify(v)
    if v.is_Integer:
        return ["n", str(int(v)), "1", 1]
    if v.is_Rational:
        return ["n", str(int(v.p)), str(int(v.q)), 0]
    f = Fraction(float(v))
    return ["n", str(f.numerator), str(f.denominator), 0]


def items_to_sx(captured):
    """the items TreeToODE.ode really received -> Load.item list.  Declaration values are passed
    as the float they denote (their tree is gone by then); assignment trees are intact."""
    items = []
    for line in captured:
        if isinstance(line, gatoms.Comment):
            items.append(["comment", Q(line.text)])
            continue
        if isinstance(line, str):
            continue
        if not line:
            continue
        first = line[0]
        comps = [Q(c) for c in first.components]
        if isinstance(first, gatoms.State) or isinstance(first, gatoms.Parameter):
            kind = "states" if isinstance(first, gatoms.State) else "params"
            items.append([kind, comps, [[a.name, sympy_value_to_sx(a.value), opt(a.unit_str), opt(a.description)]
                                        for a in line]])
        else:
            items.append(["exprs", comps, [[a.name, tree_to_sx(a.value.tree), opt(a.unit_str),
                                            opt(None if a.comment is None else a.comment.text)] for a in line]])
    return items


# --------------------------------------------------------------------------------------------
# generation and execution
# --------------------------------------------------------------------------------------------
ALL_SCHEMES = ["explicit_euler", "generalized_rush_larsen", "hybrid_rush_larsen"]


def gen_python(ode, schemes=(), remove_unused=False, backend="numpy", missing_values=None, delta=1e-8,
               stiff_states=None, shape=None):
    kw = {}
    if shape is not None:
        kw["shape"] = shape
    return gotran2py.get_code(
        ode, scheme=[Scheme(s) for s in schemes] or None, format=PyFormat.none, remove_unused=remove_unused,
        missing_values=missing_values, delta=delta, stiff_states=stiff_states,
        backend=gotran2py.Backend(backend), **kw,
    )


def exec_module(code: str) -> dict:
    ns: dict = {}
    exec(compile(code, "<generated>", "exec"), ns)  # noqa: S102
    return ns


# --------------------------------------------------------------------------------------------
# skeleton export (Python backend, numpy and jax flavours)
# --------------------------------------------------------------------------------------------
class SkeletonError(Exception):
    pass


_NP_FUNCS = {"exp": "exp", "cos": "cos", "sin": "sin", "tan": "tan", "arccos": "acos", "arcsin": "asin",
             "arctan": "atan", "log": "log", "sqrt": "sqrt", "abs": "abs", "floor": "floor",
             "acos": "acos", "asin": "asin", "atan": "atan", "fabs": "abs"}
_CMP = {pyast.Lt: "lt", pyast.Gt: "gt", pyast.LtE: "le", pyast.GtE: "ge", pyast.Eq: "eq", pyast.NotEq: "ne"}


def py_to_sx(node):
    """generated Python expression -> Gallina expr (only the constructs the generators emit)"""
    if isinstance(node, pyast.Name):
        return ["v", node.id]
    if isinstance(node, pyast.Constant):
        v = node.value
        if isinstance(v, bool):
            return ["n", "1" if v else "0", "1", 1]
        if isinstance(v, int):
            return ["n", str(v), "1", 1]
        if isinstance(v, float):
            f = Fraction(v)
            return ["n", str(f.numerator), str(f.denominator), 0]
        raise SkeletonError("constant %r" % (v,))
    if isinstance(node, pyast.Attribute) and isinstance(node.value, pyast.Name) and node.value.id in ("numpy", "math"):
        if node.attr == "pi":
            return ["pi"]
        if node.attr == "e":
            return ["fn", "exp", ["n", "1", "1", 1]]
        raise SkeletonError("attribute " + node.attr)
    if isinstance(node, pyast.BinOp):
        ops = {pyast.Add: "+", pyast.Sub: "-", pyast.Mult: "*", pyast.Div: "/", pyast.Pow: "^"}
        if type(node.op) is pyast.Mod:
            return ["mod", py_to_sx(node.left), py_to_sx(node.right)]
        if type(node.op) not in ops:
            raise SkeletonError("operator " + type(node.op).__name__)
        return [ops[type(node.op)], py_to_sx(node.left), py_to_sx(node.right)]
    if isinstance(node, pyast.UnaryOp):
        if isinstance(node.op, pyast.USub):
            return ["neg", py_to_sx(node.operand)]
        if isinstance(node.op, pyast.UAdd):
            return py_to_sx(node.operand)
        raise SkeletonError("unary")
    if isinstance(node, pyast.Compare) and len(node.ops) == 1:
        return ["rel", _CMP[type(node.ops[0])], py_to_sx(node.left), py_to_sx(node.comparators[0])]
    if isinstance(node, pyast.Call):
        f = node.func
        if isinstance(f, pyast.Attribute) and isinstance(f.value, pyast.Name) and f.value.id in ("numpy", "math"):
            n = f.attr
            args = node.args
            if n in _NP_FUNCS and len(args) == 1:
                return ["fn", _NP_FUNCS[n], py_to_sx(args[0])]
            if n == "where" and len(args) == 3:
                return ["if", py_to_sx(args[0]), py_to_sx(args[1]), py_to_sx(args[2])]
            if n in ("logical_and", "logical_or") and len(args) == 2:
                return ["and" if n == "logical_and" else "or", py_to_sx(args[0]), py_to_sx(args[1])]
            if n == "logical_not" and len(args) == 1:
                return ["not", py_to_sx(args[0])]
            if n in ("float64", "real") and len(args) == 1:
                # numpy.float64(c) wraps the base of a constant power, numpy.real(x) stands for sympy's re(x):
                # both are the identity on the real values of a model and are applied column by column
                return py_to_sx(args[0])
            if n == "sign" and len(args) == 1:
                a = py_to_sx(args[0])
                zero, one = ["n", "0", "1", 1], ["n", "1", "1", 1]
                return ["if", ["rel", "gt", a, zero], one, ["if", ["rel", "lt", a, zero], ["neg", one], zero]]
        raise SkeletonError("call " + pyast.unparse(node)[:60])
    raise SkeletonError("node " + type(node).__name__)


def _names_read(node):
    return sorted({n.id for n in pyast.walk(node) if isinstance(n, pyast.Name)} - {"numpy", "math", "jax"})


def _sub_index(node, base):
    """node is  base[<int>]  -> int"""
    if (isinstance(node, pyast.Subscript) and isinstance(node.value, pyast.Name) and node.value.id == base):
        sl = node.slice
        if isinstance(sl, pyast.Constant) and isinstance(sl.value, int):
            return sl.value
    return None


def export_functions(code: str) -> dict:
    """generated module text -> {function name: skeleton}
    skeleton = {args, nret_expr, body: [kstmt S-expressions], lets: {name: text}, meta}"""
    mod = pyast.parse(code)
    out = {}
    for fd in mod.body:
        if not isinstance(fd, pyast.FunctionDef):
            continue
        args = [a.arg for a in fd.args.args]
        if fd.args.kwarg is not None:
            args.append("**" + fd.args.kwarg.arg)
        body, lets, meta = [], {}, {"values_init": None, "shape": None, "returns": None, "jit": bool(fd.decorator_list)}
        other = []
        for st in fd.body:
            if isinstance(st, pyast.Expr) and isinstance(st.value, pyast.Constant):
                continue  # docstring
            if isinstance(st, pyast.Return):
                meta["returns"] = pyast.unparse(st.value)
                continue
            if isinstance(st, pyast.Assign) and len(st.targets) == 1:
                tg = st.targets[0]
                if isinstance(tg, pyast.Name):
                    n = tg.id
                    for base, tag in (("states", "us"), ("parameters", "up"), ("missing_variables", "um")):
                        i = _sub_index(st.value, base)
                        if i is not None:
                            body.append([tag, n, i])
                            break
                    else:
                        if n == "values":
                            meta["values_init"] = pyast.unparse(st.value)
                        elif n == "shape":
                            meta["shape"] = pyast.unparse(st.value)
                        elif n.startswith("_values_") and n[8:].isdigit() and meta["jit"]:
                            body.append(["store", int(n[8:]), ("py", st.value)])
                        else:
                            body.append(["let", n, _names_read(st.value)])
                            lets[n] = pyast.unparse(st.value)
                    continue
                i = _sub_index(tg, "values")
                if i is not None:
                    body.append(["store", i, ("py", st.value)])
                    continue
            other.append(pyast.unparse(st)[:80])
        out[fd.name] = {"args": args, "body": body, "lets": lets, "meta": meta, "other": other}
    return out


def body_to_sx(body):
    """convert the stores' Python expressions; raises SkeletonError on an unknown construct"""
    out = []
    for st in body:
        if st[0] == "store":
            out.append(["store", st[1], py_to_sx(st[2][1])])
        else:
            out.append(st)
    return out


def call_numpy(fn, argnames, t, states, params, dt=None, missing=None):
    """call a generated function by formal-parameter name (any argument order)"""
    kw = {}
    for a in argnames:
        if a == "t":
            kw[a] = t
        elif a == "states":
            kw[a] = np.array(states, dtype=float)
        elif a == "parameters":
            kw[a] = np.array(params, dtype=float)
        elif a == "dt":
            kw[a] = dt
        elif a == "missing_variables":
            kw[a] = np.array(missing if missing is not None else [], dtype=float)
        else:
            raise SkeletonError("unknown formal " + a)
    return fn(**kw)


def array_unsafe_constructs(code: str) -> list:
    """statements of the generated module whose right-hand side uses a construct that is not
    applied column by column by numpy (Python conditional expression, and / or / not, min / max,
    float(), chained comparison ...): everything py_to_sx cannot translate"""
    mod = pyast.parse(code)
    bad = []
    for fd in mod.body:
        if not isinstance(fd, pyast.FunctionDef) or fd.name.endswith("_index") or fd.name.startswith("init_"):
            continue
        for st in fd.body:
            if not (isinstance(st, pyast.Assign) and len(st.targets) == 1):
                continue
            tg = st.targets[0]
            if isinstance(tg, pyast.Name) and tg.id in ("values", "shape"):
                continue
            if any(_sub_index(st.value, b) is not None for b in ("states", "parameters", "missing_variables")):
                continue
            try:
                py_to_sx(st.value)
            except SkeletonError as ex:
                bad.append((fd.name, pyast.unparse(st)[:120], str(ex)))
    return bad


# --------------------------------------------------------------------------------------------
# expressions of a text as token lists (for the parser mirror Parse.v)
# --------------------------------------------------------------------------------------------
import re as _re

_TOKEN_RE = _re.compile(r"\s*(?:(?P<num>(?:\d+\.\d*|\.\d+|\d+)(?:[eE][+-]?\d+)?)|(?P<id>[A-Za-z_]\w*)|(?P<op>\*\*|[-+*/(),]))")
_OPS = {"+": "plus", "-": "minus", "*": "star", "/": "slash", "**": "pow", "(": "lp", ")": "rp", ",": "comma"}


def tokenize_expression(s: str):
    """token list of an expression text in the driver's encoding, or None if a character is outside the token alphabet"""
    out = []
    i = 0
    s = s.rstrip()
    while i < len(s):
        m = _TOKEN_RE.match(s, i)
        if not m or m.end() == i:
            return None
        if m.group("num") is not None:
            t = m.group("num")
            f = Fraction(t.replace("E", "e"))
            out.append(["n", str(f.numerator), str(f.denominator), 1 if t.isdigit() else 0])
        elif m.group("id") is not None:
            out.append(["id", m.group("id")])
        else:
            out.append(_OPS[m.group("op")])
        i = m.end()
    return out


_RAW_PARSER = None


def expression_cases(text: str, with_spans: bool = False):
    """[(where, expression text, tokens, expression the grammar assigns - as tree_to_sx reads Lark's tree)] for every
    right-hand side and declared value of a text that Lark accepts; [] if it does not parse; with_spans: the character
    span of the expression in the text is appended to each tuple"""
    import lark

    global _RAW_PARSER
    if _RAW_PARSER is None:
        _RAW_PARSER = Parser(parser="lalr", propagate_positions=True)
    try:
        tree = _RAW_PARSER.parse(text)
    except Exception:  # noqa: BLE001
        return []
    out = []

    def walk(t):
        if not isinstance(t, lark.Tree):
            return
        if t.data in ("assignment", "param", "scalarparam") and len(t.children) >= 2 and isinstance(t.children[1], lark.Tree):
            e = t.children[1]
            src = text[e.meta.start_pos:e.meta.end_pos]
            try:
                want = tree_to_sx(e)
            except Exception:  # noqa: BLE001
                want = None
            toks = tokenize_expression(src)
            if toks is not None:
                out.append((str(t.children[0]), src, toks, want) + ((e.meta.start_pos, e.meta.end_pos) if with_spans else ()))
            return
        for c in t.children:
            walk(c)
    walk(tree)
    return out


def assignment_cases(text: str):
    """[(source characters of the assignment up to the end of its first line of comment, name, expression as tree_to_sx reads
    Lark's tree, has a trailing comment)] for every assignment line of a text Lark accepts"""
    import lark

    global _RAW_PARSER
    if _RAW_PARSER is None:
        _RAW_PARSER = Parser(parser="lalr", propagate_positions=True)
    try:
        tree = _RAW_PARSER.parse(text)
    except Exception:  # noqa: BLE001
        return []
    out = []

    def walk(t):
        if not isinstance(t, lark.Tree):
            return
        if t.data == "assignment" and len(t.children) >= 2 and isinstance(t.children[1], lark.Tree):
            e = t.children[1]
            try:
                want = tree_to_sx(e)
            except Exception:  # noqa: BLE001
                want = None
            cm = next((c for c in t.children[2:] if isinstance(c, lark.Tree) and c.data == "comment"), None)
            # the end of the expression is not the end of its tree (the parentheses of "(a + b)" are filtered out of it): the code
            # ends where the comment, the NEWLINE token or the assignment ends
            nlt = next((c for c in t.children[2:] if isinstance(c, lark.Token) and c.type == "NEWLINE"), None)
            end = nlt.start_pos if nlt is not None else t.meta.end_pos
            if cm is not None:
                # the first line of the comment (further comment lines are merged into it by the grammar)
                nl = text.find("\n", cm.meta.start_pos)
                end = nl if nl >= 0 else len(text)
            src = text[t.meta.start_pos:end]
            if want is not None and all(ord(ch) < 128 for ch in src):
                out.append((src, str(t.children[0]), want, cm is not None))
            return
        for c in t.children:
            walk(c)
    walk(tree)
    return out


def block_cases(text: str):
    """[(physical lines of the body of a headed expressions block, [(name, expression)] as Lark reads the block)] for every headed
    block of a text Lark accepts (ASCII only; the caller asks the model which of them are inside its line model)"""
    import lark

    global _RAW_PARSER
    if _RAW_PARSER is None:
        _RAW_PARSER = Parser(parser="lalr", propagate_positions=True)
    try:
        tree = _RAW_PARSER.parse(text)
    except Exception:  # noqa: BLE001
        return []
    out = []
    for t in tree.iter_subtrees_topdown():
        if t.data != "expressions":
            continue
        heads = [c for c in t.children if isinstance(c, lark.Token) and c.type == "COMPONENT_NAME"]
        asg = [c for c in t.children if isinstance(c, lark.Tree) and c.data == "assignment"]
        if not heads or not asg:
            continue
        start = text.find("\n", heads[-1].end_pos)
        if start < 0:
            continue
        last = asg[-1]
        cms = [c for c in t.children if isinstance(c, lark.Tree) and c.data == "comment"]
        end = max([last.meta.end_pos] + [c.meta.end_pos for c in cms])
        nl = text.find("\n", end - 1) if end > 0 and text[end - 1] != "\n" else end - 1
        body = text[start + 1: (nl if nl >= 0 else len(text))]
        lines = [ln.rstrip("\r") for ln in body.split("\n")]
        exp = []
        ok = all(ord(ch) < 128 for ch in body)
        for a_ in asg:
            try:
                w = tree_to_sx(a_.children[1])
            except Exception:  # noqa: BLE001
                w = None
            if w is None:
                ok = False
            exp.append([str(a_.children[0]), w])
        if ok:
            out.append((lines, exp))
    return out
