"""cback.py - the C and jax backends: generate, build (gcc / clang in default mode), call."""
from __future__ import annotations

import ctypes
import os
import re
import shutil
import subprocess
import tempfile

import numpy as np

import impl
from gotranx.cli import gotran2c
from gotranx.codegen.c import Format as CFormat
from gotranx.schemes import Scheme


def gen_c(ode, schemes=(), remove_unused=False, delta=1e-8, stiff_states=None, missing_values=None):
    return gotran2c.get_code(ode, scheme=[Scheme(s) for s in schemes] or None, format=CFormat.none,
                             remove_unused=remove_unused, delta=delta, stiff_states=stiff_states,
                             missing_values=missing_values)


class CModule:
    """a generated C translation unit compiled to a shared object (scratch dir removed on close)"""

    def __init__(self, code: str, cc="gcc", extra_flags=()):
        self.dir = tempfile.mkdtemp(prefix="gxc_")
        self.code = code
        src = os.path.join(self.dir, "m.c")
        with open(src, "w") as f:
            f.write(code)
        so = os.path.join(self.dir, "m.so")
        r = subprocess.run([cc, "-shared", "-fPIC", "-O0", "-o", so, src, "-lm", *extra_flags],
                           capture_output=True, text=True)
        self.compile_ok = r.returncode == 0
        self.compile_log = (r.stdout + r.stderr)[-3000:]
        self.lib = ctypes.CDLL(so) if self.compile_ok else None
        self.sigs = self._signatures(code)

    @staticmethod
    def _signatures(code):
        sigs = {}
        for m in re.finditer(r"^(void|int)\s+(\w+)\s*\(([^)]*)\)\s*\{?", code, flags=re.M):
            args = []
            for a in m.group(3).split(","):
                a = a.strip()
                if not a:
                    continue
                name = re.findall(r"(\w+)\s*(?:\[\])?$", a)[0]
                kind = "ptr" if ("*" in a or "[" in a) else ("double" if "double" in a else "int")
                if "char" in a:
                    kind = "str"
                args.append((name, kind))
            sigs[m.group(2)] = (m.group(1), args)
        return sigs

    def index(self, fname, key: str) -> int:
        f = getattr(self.lib, fname)
        f.restype = ctypes.c_int
        f.argtypes = [ctypes.c_char_p]
        return f(key.encode())

    def constant(self, name) -> int:
        return ctypes.c_int.in_dll(self.lib, name).value

    def call(self, fname, nret, t=0.0, states=(), params=(), dt=0.0, missing=(), fill=float("nan")):
        """call by formal-parameter name; returns (values array, states after, params after)"""
        ret, args = self.sigs[fname]
        f = getattr(self.lib, fname)
        f.restype = None
        st = np.array(states, dtype=np.float64)
        ps = np.array(params, dtype=np.float64)
        ms = np.array(missing, dtype=np.float64)
        vals = np.full(max(nret, 1), fill, dtype=np.float64)
        cargs, ctypes_ = [], []
        dp = ctypes.POINTER(ctypes.c_double)
        for name, kind in args:
            if kind == "ptr":
                arr = {"states": st, "parameters": ps, "values": vals, "missing_variables": ms}.get(name)
                if arr is None:
                    raise impl.SkeletonError("unknown C formal " + name)
                cargs.append(arr.ctypes.data_as(dp)); ctypes_.append(dp)
            elif kind == "double":
                cargs.append(ctypes.c_double({"t": t, "dt": dt}[name])); ctypes_.append(ctypes.c_double)
            else:
                raise impl.SkeletonError("unexpected C formal " + name)
        f.argtypes = ctypes_
        f(*cargs)
        return vals[:nret], st, ps

    def call_init(self, fname, n):
        f = getattr(self.lib, fname)
        f.restype = None
        arr = np.full(max(n, 1), float("nan"), dtype=np.float64)
        f.argtypes = [ctypes.POINTER(ctypes.c_double)]
        f(arr.ctypes.data_as(ctypes.POINTER(ctypes.c_double)))
        return arr[:n]

    def close(self):
        self.lib = None
        shutil.rmtree(self.dir, ignore_errors=True)


_JAX = None


def jax_module(code: str):
    """exec a generated jax module (x64 enabled by the module itself)"""
    global _JAX
    if _JAX is None:
        os.environ.setdefault("JAX_PLATFORMS", "cpu")
        import jax  # noqa: F401

        _JAX = jax
    ns: dict = {}
    exec(compile(code, "<generated-jax>", "exec"), ns)  # noqa: S102
    return ns


def call_jax(fn, argnames, t, states, params, dt=None, missing=None):
    import jax.numpy as jnp

    kw = {}
    for a in argnames:
        if a == "t":
            kw[a] = t
        elif a == "states":
            kw[a] = jnp.array(states, dtype=jnp.float64)
        elif a == "parameters":
            kw[a] = jnp.array(params, dtype=jnp.float64)
        elif a == "dt":
            kw[a] = dt
        elif a == "missing_variables":
            kw[a] = jnp.array(missing if missing is not None else [], dtype=jnp.float64)
    return np.array(fn(**kw), dtype=float)
