"""writes /verif/MANIFEST.json from the table below (keep it valid at all times)"""
import json
from pathlib import Path

V = Path(__file__).resolve().parent.parent
TB = ("Trusted base: Coq 8.16.1 kernel; extraction with ExtrOcamlBasic only + the OCaml driver; the Python harness "
      "(generator, renderer, ast-based skeleton exporter, numeric rule). sympy, Lark, numpy/jax/gcc, pint, typer, "
      "myokit are oracles whose effect is compared by execution, not proved. See DESIGN.md section 6.")

CHECKS = {
    "C01": ("Theorems (validator soundness for every carrier/model/statement order; uniqueness of the documented meaning; "
            "soundness of the reference evaluator; the statement order is topological (soundness proof of the graphlib mirror); the "
            "mirror generator is a verified compiler: accepted item list -> loader -> generator -> execution returns the meaning of every "
            "derivative) + correspondence by execution: generated rhs / monitor_values equal the verified mirror's functions statement by "
            "statement, loader/layout mirror vs implementation, "
            "verified validators on the exported rhs/monitor_values skeleton, every let value and slot vs the extracted "
            "evaluator; Python's own parser as precedence oracle.",
            "Gallina model + verified validator run on the generated code (translation validation) + differential execution"),
    "C04": ("Theorems (index tables without repetition are bijections refusing unknown names; init functions put an override in "
            "exactly the indexed slot; validated rhs / monitor_values write slot index(name); argument order changes formals only) "
            "+ correspondence: implementation's tables = mirror's tables, validators on exported skeletons (remove_unused on/off), "
            "per-backend slot probing against the reference meaning (the C module with and without remove_unused), all 6 + 24 argument orders called positionally.",
            "Gallina model + verified validator on generated code + differential execution across backends/orders"),
    "C05": ("Theorems (validated Euler program = states + dt*rhs slot by slot in every commutative carrier; dt = 0 returns the "
            "states under ring laws; the mirror's Euler function is valid and correct for every accepted item list) + correspondence: valid_euler/valid_rhs on the exported skeletons; direct oracle "
            "euler == s + dt*rhs bit for bit over dt in {0, tiny, large, negative}, inputs unmodified, all scheme aliases in random "
            "process histories, random argument orders, numpy + jax + C, a directed model with 13 states.",
            "Gallina model + verified validator on generated code + metamorphic execution"),
    "C12": ("Theorems (two validated programs of one model return the same array; a validated body never reads an unbound name; "
            "for the mirror generator removal never changes rhs, for every well-formed model) + correspondence: rhs / Euler with and "
            "without removal equal the verified mirror's functions statement by statement; both variants pass the validators against one slot table; direct oracle: rhs and all three schemes "
            "with/without removal agree bit for bit, same index tables and lengths, NameError counted as failure; every other model generated with a missing_values request (read and unread names) served by the same generator object.",
            "Gallina model + verified validator on both variants + differential execution"),
    "C06": ("Theorems (validated program = x + (f/g)(exp(g dt)-1) / guarded form / Euler per slot for every carrier with field "
            "laws; the mirror of the Rush-Larsen generator passes the validator for every well-formed model, stiff set and mode "
            "assignment; every slot agrees with Euler to first order in dt; the reals satisfy the laws; over R: guarded slot = RL formula iff |g| > delta else Euler, a passed guard excludes "
            "division by zero, exactness for affine rates; free names of D) + correspondence: Schemes.valid_scheme on the exported "
            "function, slot modes vs mirror prediction, value of every <d>_linearized vs the extracted evaluation of the Coq "
            "differentiator D; direct oracle: returned step vs formula from the model's f and g at random points, states at 0, "
            "affine rates with coefficient at 0 / +-delta(1 -+ 2^-10), five delta values, both scheme names.",
            "Gallina model (symbolic differentiator, scheme shapes) + verified validator + differential execution"),
    "C07": ("Theorems (every validated scheme computes the prescribed update per slot; hybrid = generalized on stiff slots and "
            "Euler elsewhere for every subset; only states matter; the mirror generator is valid for every stiff set) + correspondence: generalized "
            "and hybrid functions equal the mirror's statement by statement; Schemes.valid_scheme on hybrid / generalized / "
            "Euler functions of one generated module; direct oracle: slot-by-slot bit-for-bit comparison for random subsets incl. "
            "foreign names, random delta, through get_code (add_schemes).",
            "Gallina model + verified validator on three generated functions + metamorphic execution"),
    "C08": ("Theorem load_sound (what the loader mirror accepts has no name with two differing definitions, of any kind, in any "
            "component; every derivative has a declared state in its component; every state a derivative; every referenced symbol "
            "is defined; names unique across kinds; an accepted model satisfies the generators' preconditions; the sort's order is "
            "topological, so a dependency cycle of any length gets no order) + validated code never reads an undefined value + computed "
            "rejection of each fault kind; correspondence: "
            "outcome class of the implementation vs the mirror on every fault-injected text (items taken from the real parse); direct: "
            "a faulty text that yields code is a violation.",
            "Gallina mirror of the loader with soundness theorem + fault-injection differential execution"),
    "C09": ("Theorems (every layout table and generated function of the mirror is invariant under any permutation of the lists "
            "the model consists of, i.e. under any set iteration order; name sorting is a function of the multiset; the name order is "
            "a total order) + correspondence: layout in fresh processes = hash-free mirror; direct: byte digests of numpy/jax/C code "
            "and layouts across fresh processes with different PYTHONHASHSEED (incl. a text whose assignments read only constants defined further down), in-process histories, held scheme functions.",
            "Gallina model with permutation-invariance theorems + cross-process differential execution"),
    "C10": ("Theorems (permuted_text_same_code: if the atomic insertions of two item lists are a permutation of each other - blocks, "
            "entries, lines permuted - and the first loads, the second loads to an equivalent model with identical statement order, slot "
            "layout and generated rhs / monitor_values / Euler functions of the mirror; definitions are found by name) + correspondence: "
            "loader mirror on the items of every permuted text; direct: ==, bytes of numpy / C / jax code and layouts for permuted "
            "blocks / entries / lines (every other model with units and descriptions on some of its declarations); one known finding (header-less block absorbed, a grammar-level effect).",
            "Gallina loader model with a permutation-invariance proof + metamorphic execution on permuted texts"),
    "C13": ("Theorems (the mirror's missing_values is valid and returns the requested meanings for every well-formed model and request; "
            "missing variables = names used but not defined; the halves of a split contain every state, a state in both "
            "halves is declared in two components; a sub-model fed the full model's values reproduces every quantity, for every carrier; "
            "validated missing_values writes the requested names) + correspondence: Load.to_ode / Load.minus vs to_ode() / __sub__ "
            "(layouts, missing variables), validators on the halves' functions; direct: both halves of every component split, "
            "remove_unused off/on, fed from the full model, compared by name (rhs, monitored values, Euler, generalized RL, missing_values); the jax modules of the halves against numpy's on every sixth model; two directed models whose keyword-named variables cross the split.",
            "Gallina model of the split + transfer theorem + differential execution of both halves"),
    "C14": ("Theorems (over the batch carrier a function body executed on a batch gives, in column j, the result for column j alone, "
            "and fails exactly when the single-column call fails; every expression is evaluated column by column - for every body, width "
            "and carrier) + correspondence: every generated right-hand side consists only of constructs in the array-safe fragment "
            "(the Python-ast -> expr translation), a Python conditional / and / or / chained comparison is reported; direct: batches "
            "of 2-8 columns, shared and per-column parameters/time, three shape options, every generated function.",
            "Gallina batch semantics with column-wise theorem + array-safety validation + batch-vs-column execution"),
    "C02": ("Theorems (the typed C99 evaluation - integer constants are ints, int/int truncates, math functions are double, fmod has the "
            "sign of the dividend, which is why the generator now prints Mod as fmod(fmod(a, b) + b, b) - equals the real meaning on the fragment without int/int division and fmod, for every carrier into "
            "which int embeds as a ring; the reals are one; computed refutations for (1/4)*x, (2*3)/4, fmod) + correspondence: every "
            "right-hand side of the generated C, parsed with typed constants, evaluated by the extracted typed evaluator, must equal "
            "what the gcc/clang-compiled unit computes; direct: compile in default mode, init functions, rhs/monitor_values/schemes vs "
            "reference meaning and numpy module, a sub-model with missing variables compiled and compared with its numpy code, guards whose untaken branch is not finite at the point; mismatches the typed evaluator predicts for integer quotients of the model text are the one known finding.",
            "Gallina typed C-expression semantics with soundness theorem + compile-and-run differential execution"),
    "C03": ("Theorems (a validated function returns, under the jax convention _values_i + returned list, an array of the declared "
            "length equal to the numpy result; an unassigned declared slot is an error) + correspondence: jax skeletons pass the same "
            "validators against the same tables, returned list = _values_0.._values_{n-1}; direct: import, jitted and un-jitted runs of "
            "every function, lengths and values vs reference and numpy module, models without parameters, nested 2-5-operand And/Or "
            "over all sign patterns.",
            "Gallina model of the functional jax convention + verified validators + jit/no-jit differential execution"),
    "C20": ("Theorems (each substitution round preserves the meaning, so the symbolic rhs has the value of the derivatives' expressions; "
            "a produced rhs is fully expanded; Jacobian entries are D of the expanded entries in the generated state order; D is the "
            "derivative over the reals (Coquelicot) on the smooth fragment; rhs and Jacobian are produced for every model that has a "
            "statement order, whatever the dependency depth; computed: chains of depth 20 / 40, "
            "accepted by the repaired bound, as is depth 41) + correspondence: mirror's rhs_matrix / jacobian evaluated by the extracted "
            "evaluator vs sympytools lambdified; direct: free symbols, values vs generated rhs, Jacobian vs central differences; state derivatives read by state derivatives.",
            "Gallina model of rhs_matrix with meaning-preservation theorem, D_sound over R + differential / finite-difference execution"),
    "C16": ("Theorems (the nested combination agrees with the original at regular points and gives the replacement at a singular "
            "point, for any number of singularities and every carrier with selection laws; nothing changes without removable "
            "singularities; the summed combination the code uses equals the nested one for one singularity - C16_partial - and counts "
            "the expression k times for k - refuted, known finding) + direct: ode vs remove_singularities() on and off the singular "
            "points for 0-3 singularities built from 18 blocks (zeros of a denominator, x log|x| shapes, quotients with a common factor, singular points at a parameter / a product of parameters; each block at least once per run), single and split layouts, limits re-checked with 50-digit arithmetic.",
            "Gallina model of both combinations with theorems + on/off-singularity differential execution"),
    "C19": ("Theorems (a validated body binds each name exactly once and never one of the function's own formals dt / t / time; "
            "consistent renaming of identifiers preserves the value of every expression and renames exactly the occurring names) + "
            "correspondence: validators on the code generated for every accepted (identifier, role); direct: model with the identifier "
            "vs the same model with it renamed, for generator-internal names, Python / C keywords and builtins, numpy / math / sympy names "
            "and underscore / digit shapes, in the roles state / parameter / intermediate / conditional intermediate and as quantities no expression reads, with and without remove_unused, numpy + C + jax at two points; the jax slot variables _values_<i> capture nothing outside the refused pattern (JaxNames.v).",
            "Gallina capture-freedom theorems on validated code + rename-and-compare differential execution"),
    "C17": ("Theorems (comment items are ignored by the loader mirror for any text and place; annotations and component tags do not "
            "influence statement order or slot layout; white space between the tokens of an expression is inert for the verified lexer: lex_layout - partial: comments and block structure at the character level are outside the model) + correspondence: "
            "loader mirror on the items of the real parse of base and decorated text (every load goes through gotranx.load.ode_from_string); direct: ten decorations (incl. any white space between tokens inside parentheses, comment lines inside headed blocks) x 56 comment strings (the empty one included) (each also once as trailing comment and as comment line on a fixed model), "
            "per-load time limit, layout / membership / numerics compared; directed cases for the three repaired lexer-level defects.",
            "Gallina loader model with inertness theorems + metamorphic execution on decorated texts"),
    "C11": ("Theorems (save_then_load: for every loaded model the items the writer mirror produces load again, to an equivalent model "
            "with the same layout and generated functions, in whatever order the atoms are listed; blocks contain exactly the atoms, each "
            "under its own components; no header-less block follows a headed one) + correspondence: model-level round trip Save.save_items -> "
            "Load.load in the extracted code, loader mirror on the parse of the file the implementation saved; direct: the saved file loads, "
            "declared atoms equal, monitored values / Euler / generalized RL equal by name at 3 points; 40 constructs sympy normalises, random "
            "annotated models, shipped CellML models. The text level (sympy printer, Lark) is compared by execution only.",
            "Gallina writer + loader model with a round-trip proof + save/load differential execution"),
    "C15": ("Theorems (partial: the converter's substitution passes as identifier renamings - a renaming that maps every reference to the "
            "referent's unique name preserves the meaning under the transported environment; passes compose; a pass that matches nothing "
            "changes nothing) + correspondence: no converted expression refers to a name the converted model does not define; direct: shipped "
            ".mmt / .cellml files and generated Myokit models (nested variables with equal local names, names clashing with sympy names incl. pi, "
            "equal local state names in two components, two levels of nesting with re-used local names, if(), all operators): states / initial values / constants under unique names, generated rhs "
            "after the documented save-and-reload step vs Model.evaluate_derivatives at 3 states, and the conversion back to Myokit.",
            "Gallina renaming model (partial) + differential execution against Myokit's evaluator"),
    "C18": ("Theorems (thin model: the effective options are the command-line options overridden by the keys present in the configuration, "
            "falsy values included; options without a configuration key pass through) + direct: python -m gotranx ode2py / ode2c / convert / "
            "cellml2ode in scratch directories over option and configuration combinations: exit status, exactly which files appear, bytes vs "
            "the API for the effective options; invalid / missing models exit non-zero without writing.",
            "thin Gallina option-merge model + subprocess differential execution against the API"),
}

def main():
    props = [json.loads(l) for l in (V / "properties.jsonl").read_text().splitlines() if l.strip()]
    checks = []
    na = []
    impl = {p.stem.upper() for p in (V / "harness").glob("c[0-9][0-9].py")}
    for p in props:
        pid = p["id"]
        if pid in impl and pid in CHECKS:
            text, tech = CHECKS[pid]
            checks.append({
                "property_id": pid,
                "quick_cmd": f"./check {pid} --tier quick",
                "thorough_cmd": f"./check {pid} --tier thorough",
                "evidence_file": f"evidence/{pid}.json",
                "replay_cmd_template": f"./check {pid} --replay {{path}}",
                "engine": "gx-coq",
                "level_claimed": {"category": "proof", "text": text, "design_ref": "DESIGN.md section 4, " + pid},
                "level_note": TB,
                "technique": tech,
            })
        else:
            na.append({"property_id": pid, "reason": "check not built yet in this round (planned: Gallina model + theorems + correspondence, see DESIGN.md section 4); not a claim that the technique cannot apply"})
    man = {
        "version": 1,
        "setup_cmd": "./setup.sh",
        "hooks": {"guard": "GOTRANX_VERIF", "enable": "no hooks are needed: everything is observed through the public API, the generated text and fresh subprocesses; the guard name is reserved",
                  "baseline_off_cmd": "cd /repo && /venv/bin/python -m pytest -ra -q -p no:cacheprovider --timeout=900 --continue-on-collection-errors",
                  "source_commits": [], "add_only": True},
        "engines": [{"name": "gx-coq", "path": "coq/", "serves_properties": [c["property_id"] for c in checks],
                     "kind_free_text": "Coq 8.16.1 development (model, validators, theorems) + extracted OCaml driver + Python correspondence harness"}],
        "checks": checks,
        "not_applicable": na,
        "notes": "fix: commits in /repo are listed in known_findings.json (status fixed: ...).",
    }
    (V / "MANIFEST.json").write_text(json.dumps(man, indent=1))
    print("checks:", [c["property_id"] for c in checks], "not yet:", len(na))

if __name__ == "__main__":
    main()
