"""C08 - ill-formed models are rejected, never silently repaired.

 1. theorems of coq/Props/C08.v: what the loader mirror accepts is well formed (no name with two
    differing definitions of any kind in any component, every derivative has a declared state in its
    component, every state a derivative, every referenced symbol is defined); an accepted body never
    reads an undefined value;
 2. correspondence: for every fault-injected text the outcome class of the implementation
    (load + generate) equals the outcome the mirror predicts from the items of the real parse
    (Duplicate / StateNotFound / NotComplete / MissingSymbol / Cycle / accepted);
 3. direct: one well-formedness fault at a random site of a random well-formed model must surface
    as an exception no later than code generation (numpy and C); a faulty text that yields code is
    a violation, replayed with the two conflicting definitions.
"""
from __future__ import annotations

import copy
import random
import sys

import cback
import core
import family
import impl
import lang
import pipeline


def exprs_blocks(m):
    return [b for b in m["blocks"] if b["kind"] == "expressions"]


def all_lines(m):
    return [(b, ln) for b in exprs_blocks(m) for ln in b["lines"]]


def inter_lines(m):
    return [(b, ln) for b, ln in all_lines(m) if not (ln["name"].startswith("d") and ln["name"].endswith("_dt"))]


def deriv_lines(m):
    return [(b, ln) for b, ln in all_lines(m) if ln["name"].startswith("d") and ln["name"].endswith("_dt")]


def decl_entries(m, kind):
    return [(b, en) for b in m["blocks"] if b["kind"] == kind for en in b["entries"]]


def different_expr(gen, e, names, same_deps):
    """an expression that differs in value from e; same_deps: over exactly the same variable set"""
    vs = sorted(set(lang.variables(e)))
    if same_deps:
        return ("bin", "+", e, ("num", "1"))
    fresh = [x for x in names if x not in vs]
    extra = ("var", fresh[0]) if fresh else ("var", "t")
    return ("bin", "+", ("bin", "*", e, ("num", "2")), extra)


# each fault: (model) -> (faulty model | None, expected class, description dict)
def f_dup_same_deps(m, gen, rng):
    ls = inter_lines(m)
    if not ls:
        return None
    b, ln = rng.choice(ls)
    m2 = copy.deepcopy(m)
    b2 = exprs_blocks(m2)[exprs_blocks(m).index(b)]
    new = {"name": ln["name"], "expr": different_expr(gen, ln["expr"], [], True), "comment": None}
    b2["lines"].insert(rng.randrange(len(b2["lines"]) + 1), new)
    return m2, "Duplicate", {"name": ln["name"], "first": lang.render(ln["expr"]), "second": lang.render(new["expr"])}


def f_dup_parens(m, gen, rng):
    """two definitions that differ only in parenthesisation: g*(v - E)  vs  g*v - E"""
    names = lang.model_summary(m)
    pool = names["states"] + names["parameters"]
    if len(pool) < 2 or not exprs_blocks(m):
        return None
    a, b_ = rng.sample(pool, 2)
    c = rng.choice(pool)
    m2 = copy.deepcopy(m)
    blk = rng.choice(exprs_blocks(m2))
    nm = "zz_dup"
    e1 = ("bin", "*", ("var", a), ("bin", "-", ("var", b_), ("var", c)))
    e2 = ("bin", "-", ("bin", "*", ("var", a), ("var", b_)), ("var", c))
    blk["lines"].append({"name": nm, "expr": e1, "comment": None})
    blk["lines"].insert(0, {"name": nm, "expr": e2, "comment": None})
    return m2, "Duplicate", {"name": nm, "first": lang.render(e2), "second": lang.render(e1)}


def f_dup_diff_deps(m, gen, rng):
    ls = inter_lines(m)
    if not ls:
        return None
    b, ln = rng.choice(ls)
    names = lang.model_summary(m)
    m2 = copy.deepcopy(m)
    b2 = exprs_blocks(m2)[exprs_blocks(m).index(b)]
    new = {"name": ln["name"], "expr": different_expr(gen, ln["expr"], names["states"] + names["parameters"], False), "comment": None}
    b2["lines"].append(new)
    return m2, "Duplicate", {"name": ln["name"], "first": lang.render(ln["expr"]), "second": lang.render(new["expr"])}


def f_dup_other_component(m, gen, rng):
    ls = inter_lines(m)
    if not ls:
        return None
    b, ln = rng.choice(ls)
    m2 = copy.deepcopy(m)
    same = rng.random() < 0.5
    new = {"name": ln["name"], "expr": ln["expr"] if same else different_expr(gen, ln["expr"], [], True), "comment": None}
    m2["blocks"].append({"kind": "expressions", "comps": ["Other component"], "lines": [new]})
    return m2, "Duplicate", {"name": ln["name"], "first": lang.render(ln["expr"]), "second": lang.render(new["expr"]),
                             "note": "second definition in another component" + (" (same right-hand side)" if same else "")}


def f_dup_derivative(m, gen, rng):
    ls = deriv_lines(m)
    b, ln = rng.choice(ls)
    m2 = copy.deepcopy(m)
    b2 = exprs_blocks(m2)[exprs_blocks(m).index(b)]
    names = lang.model_summary(m)
    new = {"name": ln["name"], "expr": different_expr(gen, ln["expr"], names["states"], rng.random() < 0.5), "comment": None}
    b2["lines"].insert(rng.randrange(len(b2["lines"]) + 1), new)
    return m2, "Duplicate", {"name": ln["name"], "first": lang.render(ln["expr"]), "second": lang.render(new["expr"])}


def f_kind_clash(m, gen, rng):
    m2 = copy.deepcopy(m)
    sts, pas, ins = decl_entries(m2, "states"), decl_entries(m2, "parameters"), inter_lines(m2)
    choice = rng.choice(["state-param-same", "state-param-diff", "state-inter", "param-inter", "param-param", "state-state"])
    if choice.startswith("state-param") and sts:
        b, en = rng.choice(sts)
        val = en["value"] if choice.endswith("same") else ("num", "123")
        m2["blocks"].insert(1, {"kind": "parameters", "comps": list(b["comps"]), "entries": [{"name": en["name"], "value": val, "unit": None, "desc": None}]})
        return m2, "Duplicate", {"name": en["name"], "note": choice}
    if choice == "state-inter" and sts and exprs_blocks(m2):
        b, en = rng.choice(sts)
        rng.choice(exprs_blocks(m2))["lines"].append({"name": en["name"], "expr": rng.choice([("num", "0"), en["value"], ("num", "5")]), "comment": None})
        return m2, "Duplicate", {"name": en["name"], "note": choice}
    if choice == "param-inter" and pas and exprs_blocks(m2):
        b, en = rng.choice(pas)
        rng.choice(exprs_blocks(m2))["lines"].append({"name": en["name"], "expr": rng.choice([("num", "0"), en["value"]]), "comment": None})
        return m2, "Duplicate", {"name": en["name"], "note": choice}
    if choice == "param-param" and pas:
        b, en = rng.choice(pas)
        m2["blocks"].insert(0, {"kind": "parameters", "comps": list(b["comps"]), "entries": [{"name": en["name"], "value": ("num", "77"), "unit": None, "desc": None}]})
        return m2, "Duplicate", {"name": en["name"], "note": choice}
    if choice == "state-state" and sts:
        b, en = rng.choice(sts)
        other = rng.random() < 0.5
        m2["blocks"].insert(0, {"kind": "states", "comps": ["Other component"] if other else list(b["comps"]),
                                "entries": [{"name": en["name"], "value": ("num", "77"), "unit": None, "desc": None}]})
        # in another component the state has no derivative there: NotComplete comes first
        return m2, ("NotComplete" if other else "NotComplete|Duplicate"), {"name": en["name"], "note": choice}
    return None


def f_missing_derivative(m, gen, rng):
    m2 = copy.deepcopy(m)
    ls = deriv_lines(m2)
    b, ln = rng.choice(ls)
    b["lines"].remove(ln)
    if not b["lines"]:
        m2["blocks"].remove(b)
    return m2, "NotComplete", {"name": ln["name"], "note": "derivative removed" + ("" if b["lines"] else " (it was the only equation of its block)")}


def f_state_in_equationless_component(m, gen, rng):
    """a component that declares a state but has no equation at all"""
    m2 = copy.deepcopy(m)
    m2["blocks"].insert(rng.randrange(len(m2["blocks"]) + 1),
                        {"kind": "states", "comps": ["Lonely"], "entries": [{"name": "lonely", "value": ("num", "1"), "unit": None, "desc": None}]})
    if rng.random() < 0.5:
        b, ln = rng.choice(all_lines(m2))
        ln["expr"] = ("bin", "+", ln["expr"], ("var", "lonely"))
    return m2, "NotComplete", {"name": "lonely", "note": "state declared in a component without any equation"}


def f_orphan_derivative(m, gen, rng):
    m2 = copy.deepcopy(m)
    rng.choice(exprs_blocks(m2))["lines"].append({"name": "dqq_dt", "expr": ("num", "1"), "comment": None})
    return m2, "StateNotFound", {"name": "dqq_dt"}


def f_wrong_component(m, gen, rng):
    m2 = copy.deepcopy(m)
    ls = deriv_lines(m2)
    b, ln = rng.choice(ls)
    b["lines"].remove(ln)
    if not b["lines"]:
        m2["blocks"].remove(b)
    m2["blocks"].append({"kind": "expressions", "comps": ["Elsewhere"], "lines": [ln]})
    return m2, "StateNotFound", {"name": ln["name"], "note": "derivative moved to a component without the state"}


def f_undefined_symbol(m, gen, rng):
    m2 = copy.deepcopy(m)
    b, ln = rng.choice(all_lines(m2))
    ln["expr"] = ("bin", rng.choice("+*"), ln["expr"], ("var", "undefined_thing"))
    return m2, "MissingSymbol", {"name": ln["name"]}


def f_undefined_in_dead_branch(m, gen, rng):
    """the undefined name stands in a branch that can never be taken: a reference is a reference wherever it stands"""
    m2 = copy.deepcopy(m)
    b, ln = rng.choice(all_lines(m2))
    und = ("var", "undefined_thing")
    e = ln["expr"]
    ln["expr"] = rng.choice([("cond", ("rel", "Gt", ("num", "1"), ("num", "2")), und, e),
                             ("cond", ("rel", "Eq", ("num", "1"), ("num", "1")), e, ("bin", "*", und, ("num", "2"))),
                             ("bin", "+", e, ("cond", ("rel", "Lt", ("num", "3"), ("num", "2")), und, ("num", "0")))])
    return m2, "MissingSymbol", {"name": ln["name"]}


def f_self_reference(m, gen, rng):
    """a definition that reads itself: inside a sum, inside a branch of a conditional, or in an intermediate nothing reads"""
    m2 = copy.deepcopy(m)
    b, ln = rng.choice(all_lines(m2))
    me = ("var", ln["name"])
    e = ln["expr"]
    # a relation-valued definition (ind = Gt(et, 3)) is compared as the number it stands for: Gt(Gt(et, 3), 0) is refused by sympy
    # with a TypeError of its own, whatever else the text contains
    e_num = ("bin", "+", e, ("num", "0")) if e[0] in ("rel", "not", "and", "or") else e
    ln["expr"] = rng.choice([("bin", "+", ("bin", "*", me, ("num", "0.5")), e),
                             ("cond", ("rel", "Gt", e_num, ("num", "0")), e, ("bin", "/", me, ("num", "2"))),
                             ("bin", "-", e, me)])
    return m2, "Cycle", {"name": ln["name"]}


def f_cycle(m, gen, rng):
    m2 = copy.deepcopy(m)
    k = rng.choice([1, 2, 2, 3, 5])
    names = [f"cyc{i}" for i in range(k)]
    blk = rng.choice(exprs_blocks(m2))
    for i, nme in enumerate(names):
        blk["lines"].insert(rng.randrange(len(blk["lines"]) + 1),
                            {"name": nme, "expr": ("bin", "+", ("var", names[(i + 1) % k]), ("num", "1")), "comment": None})
    b, ln = rng.choice(deriv_lines(m2))
    ln["expr"] = ("bin", "+", ln["expr"], ("var", names[0]))
    return m2, "Cycle", {"cycle": names}


def f_identical_twice(m, gen, rng):
    """control: the very same definition twice is not a fault"""
    ls = inter_lines(m)
    if not ls:
        return None
    b, ln = rng.choice(ls)
    m2 = copy.deepcopy(m)
    b2 = exprs_blocks(m2)[exprs_blocks(m).index(b)]
    b2["lines"].append(copy.deepcopy(ln))
    return m2, "accepted", {"name": ln["name"], "note": "identical definition repeated in the same block"}


FAULTS = [f_dup_same_deps, f_dup_parens, f_dup_diff_deps, f_dup_other_component, f_dup_derivative, f_kind_clash, f_kind_clash,
          f_missing_derivative, f_state_in_equationless_component, f_orphan_derivative, f_wrong_component, f_undefined_symbol, f_undefined_in_dead_branch, f_self_reference, f_cycle, f_cycle, f_identical_twice]


def impl_outcome(c, with_c):
    if c.err is not None:
        return c.err
    try:
        impl.gen_python(c.ode, schemes=["explicit_euler"])
        if with_c:
            cback.gen_c(c.ode)
    except Exception as ex:  # noqa: BLE001
        return impl.classify_exception(ex)
    return "accepted"


def mirror_outcome(c):
    if c.mirror is None:
        return "no-items"
    if c.mirror["status"] == "err":
        return c.mirror["error"]["class"]
    if c.mirror.get("order") is None:
        return "Cycle"
    return "accepted"


def main(argv=None):
    a = core.std_args(argv)
    rep = core.Report("C08", a.tier, a.seed)
    core.props_or_violation(rep)
    drv = core.Driver()
    rng = random.Random(a.seed)
    gen = lang.Gen(rng, max_depth=2, p_cond=0.05)
    n = a.n or (150 if a.tier == "quick" else 3000)
    done = 0
    while done < n:
        got = family.new_case(drv, rng, gen, rep, n_comps=rng.choice([1, 1, 2, 3]), n_inters=rng.choice([1, 2, 3, 4]), n_params=rng.choice([1, 2, 3]))
        if got is None:
            continue
        m, text, c = got
        for fault in rng.sample(FAULTS, 4):
            r = fault(m, gen, rng)
            if r is None:
                continue
            m2, expected, info = r
            text2 = lang.render_model(m2)
            c2 = pipeline.Case(drv, text2, m2)
            io = impl_outcome(c2, with_c=(done % 5 == 0))
            mo = mirror_outcome(c2)
            done += 1
            rep.case(key=text2, nontrivial=True)
            rep.count("fault:" + fault.__name__)
            rep.count("outcome:" + io)
            rep.sample({"fault": fault.__name__, "text": text2, "outcome": io}, limit=3)
            exp = expected.split("|")
            if expected == "accepted":
                if io != "accepted":
                    rep.violation(f"a well-formed text (the same definition written twice) is rejected: {io}",
                                  {"kind": "direct", "text": text2, "info": info})
                continue
            if io == "accepted":
                rep.violation(f"ill-formed text accepted ({fault.__name__}: {info}) - code was generated", {"kind": "direct", "text": text2, "fault": fault.__name__, "info": info})
                continue
            if io.startswith("Other:") or io in ("Parse", "Visit"):
                rep.violation(f"ill-formed text surfaces as a non-gotranx exception {io} ({fault.__name__})",
                              {"kind": "direct", "text": text2, "fault": fault.__name__, "info": info, "exception": repr(c2.exc)[:200]})
                continue
            if mo != io:
                rep.violation(f"outcome {io} but the loader mirror predicts {mo} ({fault.__name__})",
                              {"kind": "correspondence", "relation": "Load.load / Ode.sorted_names vs ode_from_string + get_code", "text": text2,
                               "fault": fault.__name__, "failing_input": None}, failing_input_found=False)
    # ---- syntax faults: one token of a right-hand side deleted, doubled, swapped with its neighbour or replaced; the verified
    #      expression parser (Parse.parse_expr) and Lark must agree on acceptance, and on the expression when both accept
    import re as _re
    n_syn = 60 if a.tier == "quick" else 1500
    cases = []
    while len(cases) < n_syn:
        src = lang.render(gen.expr(["x", "y", "p"], 3), rng)
        toks = _re.findall(r"(?:\d+\.\d*|\.\d+|\d+)(?:[eE][+-]?\d+)?|[A-Za-z_]\w*|\*\*|[-+*/(),]", src)
        if len(toks) < 3:
            continue
        k = rng.randrange(len(toks))
        how = rng.choice(["delete", "double", "swap", "replace", "none"])
        t2 = list(toks)
        if how == "delete":
            del t2[k]
        elif how == "double":
            t2.insert(k, t2[k])
        elif how == "swap" and k + 1 < len(t2):
            t2[k], t2[k + 1] = t2[k + 1], t2[k]
        elif how == "replace":
            t2[k] = rng.choice(["+", "*", "**", "(", ")", ",", "x", "2", "cos", "Lt", "-"])
        mutated = " ".join(t2)
        text2 = f"states(x=1, y=2)\nparameters(p=3)\nq = {mutated}\ndx_dt = q\ndy_dt = -y\n"
        ecs = [ec for ec in impl.expression_cases(text2) if ec[0] == "q"]
        tk = impl.tokenize_expression(mutated)
        if tk is None:
            continue
        if ecs and ecs[0][2] != tk:
            continue       # the text was accepted, but not as one right-hand side made of these tokens
        _, _, lerr, _ = impl.load_text(text2)
        if ecs and ecs[0][3] is not None:
            # Lark reads the text as one right-hand side made of these tokens: the tree is the reference. The loader may still
            # refuse the expression for a reason outside the grammar (sympy: -Ge(x, 1) "Relational cannot be used in Mul",
            # ContinuousConditional on a relation sympy decides) - counted, not judged here
            want = ecs[0][3]
            if lerr is not None and lerr != "MissingSymbol":
                rep.count("syntax_fault:parsed_but_refused_while_building:" + str(lerr))
        elif ecs:
            rep.count("syntax_fault:accepted_call_shape_outside_the_model")    # e.g. log(x, base), atan(x, x), Lt(x)
            continue
        elif lerr is not None and lerr != "MissingSymbol":
            want = "none"
        else:
            rep.count("syntax_fault:accepted_but_not_as_this_right_hand_side")
            continue
        cases.append((how, mutated, tk, want))
    res = drv.ask(["parsestr", [[core.Q(mutated), want, tk] for _, mutated, tk, want in cases]])["results"]
    for (how, mutated, tk, want), r in zip(cases, res):
        rep.case(key=("syntax", mutated), nontrivial=True)
        rep.count("syntax_fault:" + how + (":rejected" if want == "none" else ":accepted"))
        if r["verdict"] != "agree" or not r["roundtrip"] or not r["lexagree"]:
            rep.violation(f"a right-hand side with one token changed ({how}): Lark {'rejects' if want == 'none' else 'accepts'} it, the parser mirror: {r['verdict']}  [{mutated[:80]}]",
                          {"kind": "correspondence", "relation": "Lex.lex + Parse.parse_expr vs Lark", "expression": mutated, "failing_input": None},
                          failing_input_found=False)
    drv.close()
    return rep.finish(
        level="proof",
        rule="one fault (duplicate with same deps / parenthesisation only / different deps / other component / derivative; kind clashes of "
             "every pair; missing, orphan, misplaced derivative; undefined symbol, also in a branch that a decided condition never takes; a definition that reads itself; cycles of length 1-5; control: identical repetition) "
             "at a random site of a random well-formed model with 1-3 components; every faulty text is distinct and non-trivial; outcome "
             "class of load + generate (numpy; C on every 5th) vs the loader mirror; plus right-hand sides with one token deleted / doubled / swapped / replaced: "
             "acceptance and parsed expression of the verified parser vs Lark",
        trusted_base=["Coq 8.16.1 kernel", "extraction + ocaml/driver.ml", "harness fault injector and renderer", "Lark: the item list is taken from the real parse"],
        assumptions=["where sympy's structural equality and the mirror's tree equality could differ (1 vs 1.0 vs 1e0) the injector stays out: a second definition is either token-identical or differs in value"],
    )


if __name__ == "__main__":
    sys.exit(main())
