"""C17 - comments, layout and annotations are inert.

 1. theorems of coq/Props/C17.v: comment items are ignored by the loader (any text, any place);
    annotations and component tags do not influence statement order or slot layout (partial: the
    lexer-level behaviour is outside the item-level model);
 2. correspondence: the items of the real parse of a decorated text, fed to the loader mirror,
    give the same model (layout, membership) as those of the base text, except for comment items;
 3. direct: base text vs decorated text - comment lines (header, between blocks), trailing
    comments on assignments, blank lines, indentation, tabs, CRLF line endings, line continuation
    inside parentheses, unit / description annotations - with comment strings from a corpus of
    unit-like, number-like, expression-like, bracket-unbalanced, long-prose and quote-containing
    texts: the decorated model must load (within a time limit), with the same slot layout, the same
    component membership of every definition, and the same rhs / monitored values.
"""
from __future__ import annotations

import copy
import random
import signal
import sys

import numpy as np

import core
import family
import impl
import lang
import pipeline

COMMENTS = [
    "mV", "1/ms", "uA/cm**2", "mM", "3", "3.5e-2", "1/0", "(", ")", ")(", "m**", "[", "{}", "%", "a + b*2", "x = 1", "dx_dt = 0",
    "plain words", "TODO: fix", "states(x=1)", "expressions(\"A\")", "#", "##", "# nested # hashes", "\"quoted\"", "it's", "tab\there",
    "maximal conductance of the background calcium current, fitted to the data of reference 12; see text.",
    "aaaaaaaaaaaaaaaaaaaaaaaaaaaaaaaaaaaaaaaaaaaaaaaa!", "ms ) unbalanced", "1e400", "- 5", "*", "pi", "exp(1)", "Conditional(1,2,3)",
    "ümlaut µA", "mV   ", "   mV", "1/(ms*mV)", "kelvin**-1", "degC", "0", "-", "--", "a,b,c", "", "   ",
    # characters that str.splitlines() / some editors treat as line ends but the grammar does not (vertical tab, form feed,
    # file / group / record separators, NEL, LINE SEPARATOR, PARAGRAPH SEPARATOR), followed by something that looks like a statement
    "before:\x0bi_old = 1", "page\x0cx = 2", "fs\x1cq_new = 3", "gs\x1dstates(u=1)", "rs\x1edx_dt = 0", "nel\x85i_old = 1",
    "ls\u2028i_old = x", "ps\u2029parameters(k=1)",
]
DESCRIPTIONS = ["membrane potential", "old\x0bvalue = 3", "see\u2028x = 1",
                # backslashes that are no Python escape sequences (a description is text, not a Python literal)
                "time constant \\xi", "see C:\\users\\me\\fit.csv", "called \\Upsilon in the paper", "a \\N{dash} here", "conductance of the \\\"late\\\" current", "rate (1/ms)", "it's a gate", "a, b; c", "50% block", ""]
UNITS = ["mV", "ms", "1/ms", "uA/cm**2", "mM", "1", "nonsense_unit", "ms**-1"]


class LoadTimeout(BaseException):
    pass


def load_with_timeout(drv, text, model=None, seconds=20):
    def h(sig, frm):
        raise LoadTimeout()
    old = signal.signal(signal.SIGALRM, h)
    prev = signal.alarm(seconds)
    try:
        return pipeline.Case(drv, text, model)
    finally:
        signal.alarm(0)
        signal.signal(signal.SIGALRM, old)
        if prev:
            signal.alarm(prev)


def decorate(model, rng, what):
    """returns (decorated text, description).  Only placements the grammar documents as inert."""
    m = copy.deepcopy(model)
    base_lines = None
    cm = rng.choice(COMMENTS)
    if what == "comment_lines":
        # before the first block and between declaration blocks (inside headed expression blocks: "comment_in_block")
        bl = m["blocks"]
        pos = [i for i in range(len(bl) + 1) if (i == 0 or bl[i - 1]["kind"] != "expressions")]
        for p in sorted(rng.sample(pos, k=min(len(pos), rng.randint(1, 3))), reverse=True):
            bl.insert(p, {"kind": "comment", "text": rng.choice(COMMENTS)})
        return lang.render_model(m), {"decoration": what}
    if what == "trailing":
        lines = [(b, ln) for b in m["blocks"] if b["kind"] == "expressions" for ln in b["lines"]]
        for b, ln in rng.sample(lines, k=min(len(lines), rng.randint(1, 3))):
            c = rng.choice([c_ for c_ in COMMENTS if not c_.startswith("#") and c_ not in ("-", "--", "*")])
            ln["comment"] = c
        return lang.render_model(m), {"decoration": what}
    if what == "annotations":
        for b in m["blocks"]:
            if b["kind"] in ("states", "parameters"):
                for en in b["entries"]:
                    if rng.random() < 0.6:
                        en["unit"] = rng.choice(UNITS)
                    if rng.random() < 0.5:
                        en["desc"] = rng.choice(DESCRIPTIONS)
        return lang.render_model(m), {"decoration": what}
    text = lang.render_model(m)
    if what == "blank_lines":
        out = []
        for line in text.splitlines():
            out.append(line)
            if rng.random() < 0.4 and not line.rstrip().endswith(","):
                out.extend([""] * rng.randint(1, 3))
        return "\n".join(out) + "\n", {"decoration": what}
    if what == "indentation":
        out = []
        for line in text.splitlines():
            out.append(rng.choice(["", "  ", "\t", "    ", " \t "]) + line + rng.choice(["", " ", "\t"]))
        return "\n".join(out) + "\n", {"decoration": what}
    if what == "crlf":
        return text.replace("\n", "\r\n"), {"decoration": what}
    if what == "crlf_blank_lines":
        out = []
        for line in text.splitlines():
            out.append(line)
            if rng.random() < 0.5 and not line.rstrip().endswith(","):
                out.extend([""] * rng.randint(1, 2))
        return "\r\n".join(out) + "\r\n", {"decoration": what}
    if what == "continuation":
        # newline after an opening parenthesis / before a closing one inside expressions
        out = []
        for line in text.splitlines():
            if " = " in line and "(" in line and not line.lstrip().startswith(("states", "parameters", "expressions")) and rng.random() < 0.6:
                i = line.index("(", line.index(" = "))
                line = line[: i + 1] + "\n      " + line[i + 1:]
            out.append(line)
        return "\n".join(out) + "\n", {"decoration": what}
    if what == "comment_in_block":
        # comment lines inside headed expression blocks: directly after the header, between two assignments, after the last one
        out = []
        headed = False
        lines_ = text.splitlines()
        for k_, line in enumerate(lines_):
            out.append(line)
            st = line.lstrip()
            if st.startswith(("expressions(", "component(")):
                headed = True
            elif st.startswith(("states(", "parameters(")):
                headed = False
            if headed and rng.random() < 0.4:
                for _ in range(rng.choice([1, 1, 2])):
                    c = rng.choice([c_ for c_ in COMMENTS if "\n" not in c_ and "\r" not in c_])
                    out.append("# " + c)
        return "\n".join(out) + "\n", {"decoration": what}
    if what == "layout":
        # any white space (blanks, tabs, line feeds, CR LF, form feeds) between the tokens of a right-hand side wherever the
        # expression is inside parentheses or cannot end (behind an operator, behind "="); one blank elsewhere (Lex.lex_layout: the
        # tokens are the same)
        out = []
        for line in text.splitlines():
            if " = " in line and "#" not in line and not line.lstrip().startswith(("states", "parameters", "expressions")) and rng.random() < 0.7:
                lhs, rhs = line.split(" = ", 1)
                toks = [m_.group(0).strip() for m_ in impl._TOKEN_RE.finditer(rhs.rstrip())]
                if toks and "".join(toks) == "".join(rhs.split()):
                    depth = 0
                    parts = []
                    for k_, tk in enumerate(toks):
                        parts.append(tk)
                        if tk == "(":
                            depth += 1
                        nxt = toks[k_ + 1] if k_ + 1 < len(toks) else None
                        if nxt is None:
                            break
                        d_after = depth - (1 if nxt == ")" else 0)
                        # ... and outside parentheses wherever the expression cannot end: behind an operator (and behind "=")
                        free = min(depth, d_after) > 0 or tk in ("+", "-", "*", "/", "**")
                        parts.append(rng.choice([" ", "\t", "\n   ", " \r\n\t", "\f ", "  ", "\n\n  "]) if free else " ")
                        if nxt == ")":
                            depth -= 1
                    line = lhs + " =" + rng.choice([" ", " ", "\n    ", "\t", " \r\n  "]) + "".join(parts)
            out.append(line)
        return "\n".join(out) + "\n", {"decoration": what}
    raise ValueError(what)


def view(c):
    lay = c.impl_layout()
    memb = sorted((cc.name, sorted([a.name for a in cc.states] + [a.name for a in cc.parameters] + [a.name for a in cc.assignments]))
                  for cc in c.ode.components)
    return lay, memb


def numerics(c, gen, model):
    code = impl.gen_python(c.ode)
    ns = impl.exec_module(code)
    fns = impl.export_functions(code)
    lay = c.impl_layout()
    out = []
    for pt in FIXED_POINTS:
        pt = {"t": pt["t"], "states": {s: pt["v"][i % 5] for i, s in enumerate(sorted(lay["sorted_states"]))},
              "params": {p: pt["v"][(i + 2) % 5] for i, p in enumerate(sorted(lay["params"]))}}
        isx, st, ps = pipeline.inputs_sx(lay, pt)
        with np.errstate(all="ignore"):
            mv = impl.call_numpy(ns["monitor_values"], fns["monitor_values"]["args"], pt["t"], st, ps)
        out.append(dict(zip(lay["order"], [float(x) for x in mv])))
    return out


FIXED_POINTS = [{"t": 0.5, "v": [0.75, -1.25, 1.5, 0.25, -0.5]}, {"t": 2.0, "v": [-0.25, 1.0, 0.5, -1.5, 1.25]}]


def same_numbers(a, b):
    for x, y in zip(a, b):
        for k in x:
            if k not in y:
                return False
            if not (x[k] == y[k] or (x[k] != x[k] and y[k] != y[k])):
                return False
    return True


def main(argv=None):
    a = core.std_args(argv)
    rep = core.Report("C17", a.tier, a.seed)
    core.props_or_violation(rep)
    drv = core.Driver()
    rng = random.Random(a.seed)
    gen = lang.Gen(rng, max_depth=2, p_cond=0.1)
    n = a.n or (24 if a.tier == "quick" else 400)
    # ---- directed: the lexer-level known findings
    directed = [
        ("C17-comment-line-inside-headed-block", 'states("A", x=1)\nparameters("A", p=2)\nexpressions("A")\na = p*x\ndx_dt = a\n',
         'states("A", x=1)\nparameters("A", p=2)\nexpressions("A")\na = p*x\n# a comment line\ndx_dt = a\n'),
        ("C17-comment-directly-after-block-header", 'states("A", x=1)\nexpressions("A")\ndx_dt = -x\n',
         'states("A", x=1)\nexpressions("A")\n# about this block\ndx_dt = -x\n'),
        ("C17-empty-trailing-comment-swallows-next-line", "states(x=1)\nparameters(p=2)\na = p*x\ndx_dt = a\n",
         "states(x=1)\nparameters(p=2)\na = p*x #\ndx_dt = a\n"),
    ]
    # inert placements in a text that mixes headed and header-less expression blocks (a declaration block in between)
    mixed = 'states("A", x=1)\nparameters("A", p=2)\nexpressions("A")\na = p*x\ndx_dt = a\nstates(y=2)\ndy_dt = -y + x\nparameters(q=3)\nb = q*y\n'
    directed += [(None, mixed, mixed.replace('states(y=2)\n', 'states(y=2)\n# about the rest\n')),
                 (None, mixed, mixed.replace('states(y=2)\n', 'states(y=2) # note\n')),
                 (None, mixed, mixed.replace('states(y=2)\n', '# before the second part\nstates(y=2)\n')),
                 (None, mixed, mixed.replace('parameters(q=3)\n', 'parameters(q=3)\n# the last one\n')),
                 (None, mixed, '# header\n' + mixed.replace('parameters("A", p=2)\n', 'parameters("A", p=2)\n# between declarations\n'))]
    for key, base, deco in directed:
        try:
            cb, cd = load_with_timeout(drv, base), load_with_timeout(drv, deco)
        except LoadTimeout:
            rep.violation("loading hangs", {"kind": "direct", "text": deco})
            continue
        rep.case(key=key or deco, nontrivial=True)
        bad = cd.err is not None or view(cb) != view(cd)
        if bad:
            rep.violation(f"a comment changes the model: {cd.err or 'component membership / layout differ'}",
                          {"kind": "direct", "text": base, "decorated": deco, "error": cd.err}, finding_key=key)
    # ---- directed: every string of the corpus once as a trailing comment and once as a comment line, on a fixed model
    base = "states(x=1, y=2)\nparameters(p=2)\na = p*x\ndx_dt = a - y\ndy_dt = -y + a\n"
    try:
        cb = load_with_timeout(drv, base)
        base_view0 = view(cb)
    except Exception:  # noqa: BLE001
        cb = None
    for cm in COMMENTS if cb is not None and cb.err is None else []:
        variants = [("comment_line", "# " + cm + "\n" + base)]
        if cm.strip() and not cm.startswith("#") and cm not in ("-", "--", "*"):
            variants.append(("trailing", base.replace("a = p*x\n", "a = p*x # " + cm + "\n")))
        for where, deco in variants:
            rep.case(key=("corpus", where, cm), nontrivial=True)
            rep.count("corpus:" + where)
            try:
                cd = load_with_timeout(drv, deco)
            except LoadTimeout:
                rep.violation(f"loading does not finish within 20 s when the comment {cm[:60]!r} is added ({where})",
                              {"kind": "direct", "text": base, "decorated": deco, "decoration": where})
                continue
            if cd.err is not None or view(cd) != base_view0:
                rep.violation(f"the comment {cm[:60]!r} ({where}) changes the model: {cd.err or 'component membership / layout differ'}",
                              {"kind": "direct", "text": base, "decorated": deco, "decoration": where, "error": cd.err})
    # ---- directed: every description and unit string once as an annotation of a state and of a parameter of the fixed model
    for kind_, strings in (("description", DESCRIPTIONS), ("unit", UNITS)):
        for st_ in strings if cb is not None and cb.err is None else []:
            ann = f'{kind_}="{st_}"'
            deco = (f"states(x=ScalarParam(1, {ann}), y=2)\nparameters(p=ScalarParam(2, {ann}))\na = p*x\ndx_dt = a - y\ndy_dt = -y + a\n")
            rep.case(key=("annotation", kind_, st_), nontrivial=True)
            rep.count("corpus:" + kind_)
            try:
                cd = load_with_timeout(drv, deco)
            except LoadTimeout:
                rep.violation(f"loading does not finish within 20 s with the annotation {ann[:60]!r}", {"kind": "direct", "text": base, "decorated": deco, "decoration": kind_})
                continue
            if cd.err is not None or view(cd) != base_view0:
                rep.violation(f"the annotation {ann[:60]!r} changes the model: {cd.err or 'component membership / layout differ'}",
                              {"kind": "direct", "text": base, "decorated": deco, "decoration": kind_, "error": cd.err})
    kinds = ["comment_lines", "trailing", "annotations", "blank_lines", "indentation", "crlf", "crlf_blank_lines", "continuation", "layout", "comment_in_block"]
    for i in range(n):
        got = family.new_case(drv, rng, gen, rep, n_comps=rng.choice([1, 2, 3]))
        if got is None:
            continue
        m, text, c = got
        text = lang.render_model(m)      # canonical base text (no random layout)
        try:
            c = load_with_timeout(drv, text, m)
        except LoadTimeout:
            continue
        if c.err is not None:
            continue
        try:
            base_view = view(c)
            base_num = numerics(c, gen, m)
        except Exception:  # noqa: BLE001
            rep.count("base_model_generation_failed")
            continue
        for what in rng.sample(kinds, 3):
            deco, info = decorate(m, rng, what)
            if deco == text:
                continue
            rep.case(key=deco, nontrivial=True)
            rep.count("decoration:" + what)
            try:
                c2 = load_with_timeout(drv, deco, m)
                pipeline.check_parser(rep, drv, deco, "decorated text")
            except LoadTimeout:
                rep.violation(f"loading the decorated text ({what}) does not finish within 20 s", {"kind": "direct", "text": text, "decorated": deco, "decoration": what})
                continue
            if c2.err is not None:
                rep.violation(f"decoration ({what}) makes a loadable model fail to load: {c2.err}: {repr(c2.exc)[:120]}",
                              {"kind": "direct", "text": text, "decorated": deco, "decoration": what})
                continue
            v2 = view(c2)
            if v2 != base_view:
                rep.violation(f"decoration ({what}) changes the slot layout or the component membership",
                              {"kind": "direct", "text": text, "decorated": deco, "decoration": what, "base": base_view, "got": v2})
                continue
            try:
                num2 = numerics(c2, gen, m)
            except Exception as ex:  # noqa: BLE001
                rep.violation(f"decoration ({what}): code generation / execution raises {type(ex).__name__}", {"kind": "direct", "text": text, "decorated": deco})
                continue
            if not same_numbers(base_num, num2):
                rep.violation(f"decoration ({what}) changes generated numerics", {"kind": "direct", "text": text, "decorated": deco, "decoration": what})
                continue
            # the mirror on the decorated parse
            if c.mirror and c2.mirror and c.mirror.get("status") == "ok":
                keys = ("status", "sorted_states", "params", "order", "order_ru", "missing", "membership")
                if {k: c.mirror.get(k) for k in keys} != {k: c2.mirror.get(k) for k in keys}:
                    rep.violation("the loader mirror gives a different model for the items of the decorated parse",
                                  {"kind": "correspondence", "relation": "Load.load on decorated items", "text": text, "decorated": deco,
                                   "failing_input": None}, failing_input_found=False)
            rep.sample({"decoration": what, "decorated": deco[:500]}, limit=3)
    drv.close()
    return rep.finish(
        level="proof",
        rule="random models x 3 of 8 decorations (comment lines before / between declaration blocks, trailing comments, unit / description "
             "annotations, blank lines, indentation with spaces and tabs, CRLF, CRLF with blank lines, line continuation inside parentheses); comment texts from a "
             "corpus of 54 strings (units, numbers, 1/0, unbalanced brackets, statements, hashes, quotes, long prose with punctuation, "
             "non-ASCII, and the eight characters other than \\n / \\r that str.splitlines() treats as line ends, each followed by statement-like text); each decorated text is distinct; every corpus string also once as a trailing comment and once as a comment line on a fixed model; per-load time limit 20 s; three directed cases for the lexer-level known findings",
        trusted_base=["Coq 8.16.1 kernel", "extraction + ocaml/driver.ml", "Lark lexer / LALR engine (outside the model; the items come from the real parse)"],
        assumptions=["placements inside a headed expressions block, directly after a block header, and empty trailing comments are known findings and are "
                     "only exercised by the directed cases"],
    )


if __name__ == "__main__":
    sys.exit(main())
