#!/bin/sh
# usage: seedtest.sh <diff> <check id> [check args...]  -- applies a seeded change to /repo, runs the check, reverts
diff="$1"; shift; id="$1"; shift
cd /repo && git apply "$diff" || { echo "APPLY FAILED"; exit 2; }
cd /verif && ./check "$id" "$@" 2>&1 | grep -E "VIOLATION|KNOWN-FINDING|^C[0-9]+ \[" | cut -c1-300
cd /repo && git checkout -- . 
