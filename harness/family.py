"""family.py - observations shared by the code-generation properties (C01 C04 C05 C07 C12):
generate a model, load it on both sides, compare layouts, validate skeletons, compare numbers."""
from __future__ import annotations

import math
import random

import numpy as np

import core
import impl
import lang
import pipeline
from pipeline import Case, close


def new_case(drv, rng, gen, rep, **kw):
    """generate until the implementation accepts; returns (model, text, case) or None"""
    for _ in range(20):
        m = gen.model(**kw)
        text = lang.render_model(m, rng)
        c = Case(drv, text, m)
        if c.err is not None:
            rep.count("generated_text_rejected_by_loader:" + c.err)
            continue
        if has_nonfinite_constant(c.ode):
            # e.g. exp(1e3): outside "values at which the model's expressions are defined"
            rep.count("generated_model_with_overflowing_constant")
            continue
        return m, text, c
    return None


def has_nonfinite_constant(ode):
    import sympy

    for a in ode.intermediates + ode.state_derivatives:
        e = a.expr
        if e.has(sympy.oo, -sympy.oo, sympy.zoo, sympy.nan):
            return True
        for f in e.atoms(sympy.Float):
            if not (abs(float(f)) < 1e300):
                return True
    return False


def mirror_issue(c, text):
    """correspondence L+G: the loader mirror accepts what the loader accepted and predicts the same
    slot layout / statement order.  Returns None, or (what, replay) describing the broken
    correspondence; the caller goes on to search for a failing input before reporting it."""
    if c.mirror is None:
        return ("items of the parse could not be exported: " + getattr(c, "items_err", "?"),
                {"kind": "correspondence", "relation": "export-items", "text": text, "failing_input": None})
    if c.mirror["status"] != "ok":
        return (f"loader mirror rejects ({c.mirror['error']}) a text the loader accepts",
                {"kind": "correspondence", "relation": "Load.load vs ode_from_string", "text": text,
                 "mirror": c.mirror, "failing_input": None})
    mm = c.layout_mismatches()
    if mm:
        return ("layout predicted by the mirror differs from the implementation: " + str(mm[:2]),
                {"kind": "correspondence", "relation": "Ode.sorted_names / sorted_states vs ODE.sorted_assignments",
                 "text": text, "mismatches": mm, "failing_input": None})
    return None


def mirror_agrees(rep, c, text, what="C"):
    issue = mirror_issue(c, text)
    if issue is not None:
        rep.violation(issue[0], issue[1], failing_input_found=False)
        return False
    return True


def settle(rep, issue, failing, structural=None):
    """one verdict per case: a failing input if one was found; otherwise the broken
    correspondence / validator rejection, reported as no-failing-input-found"""
    if failing is not None:
        rep.violation(failing[0], failing[1], finding_key=failing[2] if len(failing) > 2 else None)
    elif issue is not None:
        rep.violation(issue[0], issue[1], failing_input_found=False)
    elif structural is not None:
        rep.violation(structural[0], structural[1], failing_input_found=False)


def try_generate(rep, c, text, **kw):
    try:
        return impl.gen_python(c.ode, **kw)
    except Exception as ex:  # noqa: BLE001
        return ex


def eq_arrays(a, b):
    a = np.asarray(a, dtype=float)
    b = np.asarray(b, dtype=float)
    if a.shape != b.shape:
        return False
    return bool(np.all((a == b) | (np.isnan(a) & np.isnan(b))))


def usable_points(gen, model, n, want=3, extra_env=None):
    """sample points where the reference is defined and no comparison sits on its boundary"""
    out = []
    tried = 0
    while len(out) < want and tried < n:
        tried += 1
        for pt in gen.inputs(model, 1):
            try:
                ref, S, margin = pipeline.reference_point(model, pt, extra_env)
            except lang.Undefined:
                continue
            except KeyError:
                continue
            if margin < 1e-6 or S > 1e12:
                continue
            out.append((pt, ref, S))
    return out, tried


class ReplayGen:
    """a generator that replays the recorded input point(s) first and then falls back to random ones"""

    def __init__(self, gen, points):
        self.gen = gen
        self.points = list(points)
        self.rng = gen.rng

    def __getattr__(self, name):
        return getattr(self.gen, name)

    def inputs(self, model, n=4):
        out = []
        for _ in range(n):
            if self.points:
                pt = dict(self.points.pop(0))
                pt.setdefault("dt", 0.125)
                pt.setdefault("t", 0.0)
                out.append(pt)
            else:
                out.extend(self.gen.inputs(model, 1))
        return out


def replay_text_case(rep, drv, data, fn, *extra, **kw):
    """re-run the per-model check of a property on the model text recorded in a replay file"""
    import random as _random
    import textmodel

    text = data.get("decorated") or data.get("text")
    if not text:
        rep.notes.append("the replay file holds no model text; nothing to re-run")
        return False
    c = Case(drv, text)
    if c.err is not None:
        rep.violation(f"the recorded model is rejected: {c.err}", {"kind": "direct", "text": text})
        return True
    m = textmodel.model_from_items(c.captured)
    rng = _random.Random(data.get("seed", 0))
    g = lang.Gen(rng, max_depth=3)
    pts = []
    if isinstance(data.get("inputs"), dict) and "states" in data["inputs"]:
        pts.append(data["inputs"])
    gen = ReplayGen(g, pts)
    core.guarded(rep, text, fn, rep, drv, gen, rng, m, text, c, *extra, **kw)
    rep.case(key=text, nontrivial=True)
    return True
