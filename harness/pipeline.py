"""pipeline.py - one generated model through both sides: implementation (load, generate, run)
and model (Gallina loader mirror, layout, validators, reference evaluator)."""
from __future__ import annotations

import math
import random

import numpy as np

import core
import impl
import lang
from core import hexf


class CaseError(Exception):
    pass


class Case:
    """A model text loaded on both sides."""

    def __init__(self, drv: core.Driver, text: str, model=None):
        self.drv = drv
        self.text = text
        self.model = model
        self.ode, self.captured, self.err, self.exc = impl.load_text(text)
        self.items_sx = None
        self.mirror = None
        if self.captured is not None:
            try:
                self.items_sx = impl.items_to_sx(self.captured)
            except Exception as ex:  # noqa: BLE001
                self.items_sx = None
                self.items_err = repr(ex)
        if self.items_sx is not None:
            self.mirror = drv.ask(["load", self.items_sx])

    # ----- layout on the implementation side -----
    def impl_layout(self):
        o = self.ode
        return {
            "sorted_states": [s.name for s in o.sorted_states()],
            "params": [p.name for p in o.parameters],
            "order": [a.name for a in o.sorted_assignments()],
            "order_ru": [a.name for a in o.sorted_assignments(remove_unused=True)],
            "missing": [k for k, _ in sorted(o.missing_variables.items(), key=lambda kv: kv[1])],
            "state_names": [s.name for s in o.states],
            "inters": [a.name for a in o.intermediates],
            "derivs": [a.name for a in o.state_derivatives],
        }

    def layout_mismatches(self):
        il = self.impl_layout()
        out = []
        for k, v in il.items():
            if self.mirror.get(k) != v:
                out.append((k, v, self.mirror.get(k)))
        return out


def inputs_sx(layout, pt, missing_vals=None):
    st = [pt["states"][s] for s in layout["sorted_states"]]
    ps = [pt["params"][p] for p in layout["params"]]
    ms = list(missing_vals or [])
    return [float(pt["t"]), float(pt.get("dt", 0.0)), st, ps, ms], st, ps


def sem_values(drv, with_dt, inp_sx, names):
    r = drv.ask(["semeval", with_dt, inp_sx, names])
    if r["status"] != "ok":
        raise CaseError("semeval: " + r["status"])
    return [hexf(v) for v in r["values"]]


def _reference_once(model, pt, extra_env, jit):
    defs, st, pa = lang.model_defs(model)
    pr = lang.Probe(jit)
    cache = {}
    env = {}
    j = 1 + jit
    env.update({k: v * j for k, v in pt["states"].items()})
    env.update({k: v * j for k, v in pt["params"].items()})
    env["t"] = pt["t"] * j
    env["time"] = pt["t"] * j
    if extra_env:
        env.update({k: v * j for k, v in extra_env.items()})
    visiting = set()

    def get(name):
        if name in cache:
            return cache[name]
        if name in visiting:
            raise lang.Undefined("cycle")
        visiting.add(name)
        v = lang.evaluate(defs[name], lookup, pr)
        v = float(lang._num(v))
        visiting.discard(name)
        cache[name] = v
        return v

    class L(dict):
        def __contains__(self, k):
            return k in defs or k in env

        def __getitem__(self, k):
            if k in env:
                return env[k]
            return get(k)

    lookup = L()
    lookup.inputs = set(env)
    vals = {n: get(n) for n in defs}
    return vals, pr


def reference_point(model, pt, extra_env=None):
    """Python-side instrumented reference evaluation of every assignment at one input point.
    Returns (values by name, S, margin) or raises lang.Undefined.  The point is also evaluated with
    every leaf value perturbed by a relative 1e-13: if some value moves by more than 1e-11 of its
    scale the point is ill-conditioned (e.g. sqrt or a fractional power next to 0, where sympy's
    exact sin(pi) = 0 and the float 1.2e-16 give visibly different results) and is discarded
    (margin 0), because there "to within rounding" decides nothing."""
    vals, pr = _reference_once(model, pt, extra_env, 0.0)
    try:
        vj, prj = _reference_once(model, pt, extra_env, 1e-13)
    except lang.Undefined:
        return vals, pr.S, 0.0
    if pr.branches != prj.branches:
        return vals, pr.S, 0.0
    for n, v in vals.items():
        if abs(vj[n] - v) > 1e-11 * (1.0 + pr.S + abs(v)):
            return vals, pr.S, 0.0
    return vals, pr.S, pr.margin


def close(a, b, S, tol=1e-9):
    if a is None or b is None:
        return False
    if a != a or b != b:
        return False
    if math.isinf(a) or math.isinf(b):
        return a == b
    return abs(a - b) <= tol * (1.0 + S + abs(a))


def validate(drv, kind, with_dt, nret, tbl, body_sx):
    r = drv.ask(["validate", kind, with_dt, nret, tbl, body_sx])
    return r


def _names_in(sx, acc):
    if isinstance(sx, list):
        if sx and sx[0] == "v":
            acc.add(sx[1])
        else:
            for x in sx[1:]:
                _names_in(x, acc)
    return acc


def mirror_function_issue(drv, kind, ru, order, args, body_sx, resp=None):
    """statement-by-statement comparison of a function the implementation generated (its exported skeleton) with
    the function the verified mirror generator (Codegen.gen_rhs / gen_monitor / gen_euler, MirrorValid.v) produces
    for the same model: same formals, same unpack statements in the same order with the same indices, same
    assignments in the same order, same slots written in the same places from the same names.  A let of the
    implementation may read fewer names than the definition mentions (sympy drops 0*x)."""
    if resp is not None:
        r = resp
    elif kind == "missing":
        r = drv.ask(["mirrormissing", "1" if ru else "0", order[0], [[n, i] for n, i in order[1]]])
    else:
        r = drv.ask(["mirror", kind, "1" if ru else "0", order])
    f = r.get("func")
    if r.get("status") != "ok" or f is None:
        return "the mirror generator produces no function (" + str(r)[:80] + ")"
    if list(f["args"]) != list(args):
        return f"formals differ: implementation {list(args)}, mirror {f['args']}"
    mb = f["body"]
    if len(mb) != len(body_sx):
        return f"the implementation's function has {len(body_sx)} statements, the mirror's {len(mb)}"
    for k, (a, b) in enumerate(zip(body_sx, mb)):
        if a[0] != b[0]:
            return f"statement {k}: implementation {a[:2]}, mirror {b[:2]}"
        if a[0] in ("us", "up", "um"):
            if a[1] != b[1] or int(a[2]) != int(b[2]):
                return f"statement {k}: implementation unpacks {a[1]} from slot {a[2]}, mirror {b[1]} from slot {b[2]}"
        elif a[0] == "let":
            if a[1] != b[1]:
                return f"statement {k}: implementation assigns {a[1]}, mirror {b[1]}"
            if not a[1].endswith("_linearized") and not set(a[2]) <= set(b[2]) | {"t", "time"}:
                return f"statement {k}: {a[1]} reads {sorted(set(a[2]) - set(b[2]))}, which its definition does not mention"
        elif a[0] == "store":
            if int(a[1]) != int(b[1]) or _names_in(a[2], set()) != _names_in(b[2], set()):
                return f"statement {k}: implementation writes slot {a[1]} from {sorted(_names_in(a[2], set()))}, mirror slot {b[1]} from {sorted(_names_in(b[2], set()))}"
    return None


def check_mirror_function(rep, drv, text, kind, ru, order, args, body_sx, resp=None):
    issue = mirror_function_issue(drv, kind, ru, order, args, body_sx, resp)
    if issue is None:
        rep.count("functions_equal_to_the_verified_mirror")
        return True
    rep.violation(f"generated {kind} (remove_unused={ru}) differs from the verified mirror generator: {issue}",
                  {"kind": "correspondence", "relation": f"Codegen.gen_{kind} vs generated code", "text": text, "remove_unused": ru,
                   "failing_input": None}, failing_input_found=False)
    return False


THEOREM_OF = {"rhs": "MirrorValid.mirror_rhs_correct", "euler": "MirrorValid.mirror_euler_correct",
              "named": "MirrorValid.mirror_monitor_correct"}


def check_instance(rep, v, text, kind):
    """The mirror-compiler theorems (coq/MirrorValid.v) say: for every model with wf_gen = true the mirror's
    function passes the validator.  Their tie to this run: the model the implementation generated code for
    must satisfy wf_gen (otherwise the theorem says nothing about it), and the instance of the theorem on
    this model must evaluate to true in the extracted code."""
    if v.get("status") != "ok" or "wf" not in v:
        return
    if not v["wf"]:
        rep.count("mirror_theorem_hypotheses_fail")
        rep.violation("code was generated for a model outside the hypotheses (wf_gen) of " + THEOREM_OF.get(kind, kind),
                      {"kind": "correspondence", "relation": "wf_gen (mirror model) for a model with generated code",
                       "theorem": THEOREM_OF.get(kind), "text": text, "failing_input": None}, failing_input_found=False)
        return
    rep.count("mirror_theorem_hypotheses_hold")
    if not v["mirror_valid"]:
        rep.violation("the extracted instance of " + THEOREM_OF.get(kind, kind) + " evaluates to false (model / extraction inconsistent)",
                      {"kind": "correspondence", "relation": "theorem instance", "theorem": THEOREM_OF.get(kind), "text": text,
                       "failing_input": None}, failing_input_found=False)


def check_parser(rep, drv, text, what="text"):
    """Lex.lex + Parse.parse_expr (the verified lexer and expression parser) on the characters of every expression of a text Lark
    accepts must give the expression Lark's tree stands for; the tokens must be those of the harness's regular expression; what is
    parsed must survive printing and parsing again"""
    cases = [c_ for c_ in impl.expression_cases(text) if c_[3] is not None]   # None: a call shape outside the modelled language
    if not cases:
        return 0
    r = drv.ask(["parsestr", [[core.Q(src), want, toks if toks is not None else "none"] for _, src, toks, want in cases]])
    for (name, src, toks, want), res in zip(cases, r["results"]):
        if res["verdict"] != "agree" or not res["roundtrip"] or not res["lexagree"]:
            rep.violation(f"the lexer / parser mirror and Lark disagree on the right-hand side of {name} in the {what}: {res['verdict']}"
                          + ("" if res["roundtrip"] else "; print / parse round trip fails")
                          + ("" if res["lexagree"] else "; the token sequences of Lex.lex and of the harness differ") + f"  [{src[:80]}]",
                          {"kind": "correspondence", "relation": "Lex.lex + Parse.parse_expr vs Lark + expressions.build_expression (shape)",
                           "text": text, "expression": src, "failing_input": None}, failing_input_found=False)
            return len(cases)
    rep.count("expressions_parsed_like_lark", len(cases))
    check_printer(rep, drv, text, what)
    check_lines(rep, drv, text, what)
    return len(cases)


def check_printer(rep, drv, text, what="text"):
    """the other direction: every expression of the text is written by the model's printer (Lex.render_expr: every operand in
    parentheses, numbers as integer literals or <m>e-<k>; render_expr_parse: the verified parser reads it back) and put in
    the place of the original; Lark must read the new text and assign the same expressions"""
    cases = impl.expression_cases(text, with_spans=True)
    if not cases or any(c_[3] is None for c_ in cases):
        return
    texts = drv.ask(["renderexprs", [c_[3] for c_ in cases]])["texts"]
    t2 = text
    n_written = 0
    for (name, src, toks, want, a_, b_), rt in sorted(zip(cases, texts), key=lambda z: -z[0][4]):
        if rt is None:
            rep.count("expression_not_renderable")
            continue
        t2 = t2[:a_] + rt.rstrip() + t2[b_:]
        n_written += 1
    if not n_written:
        return
    cases2 = impl.expression_cases(t2)

    def canon(x):      # the two spellings of one function (Abs / abs, ln / log) are one constructor of the model
        if isinstance(x, list):
            if len(x) == 3 and x[0] == "fn":
                return ["fn", {"Abs": "abs", "ln": "log"}.get(x[1], x[1]), canon(x[2])]
            return [canon(y) for y in x]
        return x
    got = [(c_[0], canon(c_[3])) for c_ in cases2]
    exp = [(c_[0], canon(c_[3])) for c_ in cases]
    if got != exp:
        where = next((e_[0] for g_, e_ in zip(got, exp) if g_ != e_), None) if len(got) == len(exp) else None
        rep.violation(f"the {what} with every right-hand side written by the model's printer is "
                      + ("not read by Lark" if not cases2 else f"read differently by Lark (first difference: {where})"),
                      {"kind": "correspondence", "relation": "Lark + expressions.build_expression (shape) on Lex.render_expr of its own tree",
                       "text": text, "rewritten": t2, "failing_input": None}, failing_input_found=False)
        return
    rep.count("expressions_printed_and_read_by_lark", n_written)


def check_lines(rep, drv, text, what="text"):
    """Line.parse_line (cut at the first '#', then at the first '=', name by Lex.lex, right-hand side by Lex.lex + Parse.parse_expr) on
    the characters of every assignment line must give the name and the expression of Lark's tree, and a comment exactly when Lark
    attaches one; what it reads, written by Line.write_line, is read back (parse_written_line)"""
    cases = impl.assignment_cases(text)
    if not cases:
        return
    r = drv.ask(["parselines", [[core.Q(src), core.Q(name), want] for src, name, want, _ in cases]])
    for (src, name, want, has_cm), res in zip(cases, r["results"]):
        if res["verdict"] != "agree" or not res["roundtrip"] or ((res["comment"] is not None) != has_cm):
            rep.violation(f"the line mirror and Lark disagree on the assignment of {name} in the {what}: {res['verdict']}"
                          + ("" if res["roundtrip"] else "; write / parse round trip of the line fails")
                          + ("" if (res["comment"] is not None) == has_cm else "; one of them sees a comment, the other does not") + f"  [{src[:80]}]",
                          {"kind": "correspondence", "relation": "Line.parse_line vs Lark (assignment rule, comment token)",
                           "text": text, "line": src, "failing_input": None}, failing_input_found=False)
            return
    rep.count("assignment_lines_read_like_lark", len(cases))
    for lines, exp in impl.block_cases(text):
        r2 = drv.ask(["parseblock", [core.Q(ln) for ln in lines], [[core.Q(n_), e_] for n_, e_ in exp]])
        if r2["statements"] != len(exp):
            rep.count("headed_blocks_outside_the_line_model")     # a layout the line model does not know
            continue
        if r2["verdict"] != "agree":
            rep.violation(f"the block mirror (Line.parse_body: line feeds inside parentheses and behind operators join, comment and blank lines skipped) and Lark disagree on a headed "
                          f"block of the {what}: {r2['verdict']}  [{' / '.join(lines)[:100]}]",
                          {"kind": "correspondence", "relation": "Line.parse_body vs Lark (headed expressions block)", "text": text,
                           "lines": lines, "failing_input": None}, failing_input_found=False)
            return
        rep.count("headed_blocks_read_like_lark")
        rep.count("comment_or_blank_lines_inside_headed_blocks", sum(1 for ln in lines if not ln.strip() or ln.lstrip().startswith("#")))
