"""C14 - generated NumPy functions are vectorised: columns are independent.

 1. theorems of coq/Props/C14.v: over the batch carrier (every operation applied column by
    column) executing a function body on a batch gives, in column j, exactly what executing it on
    column j alone gives - for every body, every width, every carrier; every expression is evaluated
    column by column;
 2. correspondence: every right-hand side of every generated function consists only of constructs
    numpy applies column by column (those the Python-ast -> expr translation knows: arithmetic,
    numpy.<function>, comparisons, numpy.where, numpy.logical_*); a Python conditional expression,
    and/or, min/max, float() ... is reported;
 3. direct: rhs, monitor_values, missing_values and all schemes called on (n_states, N) batches with
    shared and per-column parameters and time, all three shape options; column j against the call on
    column j alone.
"""
from __future__ import annotations

import random
import sys

import numpy as np

import core
import family
import impl
import lang
import pipeline

from gotranx.codegen.base import Shape


def check_model(rep, drv, gen, rng, m, text, c):
    lay = c.impl_layout()
    ss, ps_names = lay["sorted_states"], lay["params"]
    n = len(ss)
    failing = None
    structural = None
    req = {nme: i for i, nme in enumerate(rng.sample(lay["order"] + ss, k=min(2, len(lay["order"]))))}
    shape = rng.choice([None, None, Shape.dynamic, Shape.multiple])
    try:
        code = impl.gen_python(c.ode, schemes=impl.ALL_SCHEMES, stiff_states=ss[: max(1, n // 2)], missing_values=req, shape=shape)
    except Exception as ex:  # noqa: BLE001
        rep.count("generation_raises:" + type(ex).__name__)
        return None
    bad = impl.array_unsafe_constructs(code)
    if bad:
        key = "C14-sign-printed-as-scalar-conditional" if all("IfExp" in b[2] and "copysign" in b[1] for b in bad) else None
        structural = (f"generated code uses a construct that is not applied column by column: {bad[0]}",
                      {"kind": "validator", "relation": "array-safe constructs (Batch.exec_columnwise applies to translatable bodies)",
                       "text": text, "constructs": bad[:3], "failing_input": None}, key)
    ns = impl.exec_module(code)
    fns = impl.export_functions(code)
    N = rng.choice([2, 3, 5, 8])
    pts = gen.inputs(m, N)
    S = np.array([[pt["states"][x] for pt in pts] for x in ss], dtype=float).reshape(n, N)
    P = np.array([[pt["params"][x] for pt in pts] for x in ps_names], dtype=float).reshape(len(ps_names), N)
    Tt = np.array([pt["t"] for pt in pts], dtype=float)
    dt = 0.125
    for variant in ("shared", "percolumn"):
        for fname in ["rhs", "monitor_values", "missing_values"] + impl.ALL_SCHEMES:
            if failing:
                break
            fn = ns[fname]
            args = fns[fname]["args"]

            def call(st, t, p):
                kw = {}
                for a_ in args:
                    kw[a_] = {"states": st, "t": t, "parameters": p, "dt": dt}[a_]
                with np.errstate(all="ignore"):
                    return np.array(fn(**kw), dtype=float)
            try:
                if variant == "shared":
                    p_b = P[:, 0].copy(); t_b = float(Tt[0])
                else:
                    p_b = P.copy(); t_b = Tt.copy()
                singles = []
                for j in range(N):
                    pj = p_b if variant == "shared" else P[:, j].copy()
                    tj = t_b if variant == "shared" else float(Tt[j])
                    singles.append(call(S[:, j].copy(), tj, pj))
            except Exception as ex:  # noqa: BLE001
                rep.count("single_column_call_raises")
                continue
            try:
                out = call(S.copy(), t_b, p_b)
            except Exception as ex:  # noqa: BLE001
                key = "C14-sign-printed-as-scalar-conditional" if ("ambiguous" in str(ex) and "copysign" in code and
                                                                   all("copysign" in b[1] for b in bad) and bad) else None
                failing = (f"{fname} on a batch of {N} columns ({variant} parameters/time, shape={shape}) raises {type(ex).__name__}: {str(ex)[:100]}",
                           {"kind": "direct", "text": text, "function": fname, "columns": N, "variant": variant,
                            "states": S.tolist(), "parameters": P.tolist(), "t": Tt.tolist(), "shape": str(shape)}, key)
                break
            want = np.stack(singles, axis=-1) if singles[0].ndim == 1 else None
            if out.shape != want.shape:
                failing = (f"{fname} on a batch of {N} columns returns shape {out.shape}, expected {want.shape}",
                           {"kind": "direct", "text": text, "function": fname, "columns": N, "variant": variant, "shape": str(shape)})
                break
            # magnitude of the intermediates of each column: sin / cos / Mod of a value of size M turn a one-ulp
            # difference between numpy's vector and scalar kernels into an absolute difference of about M*2^-52
            mags = []
            for j in range(N):
                pj = p_b if variant == "shared" else P[:, j].copy()
                tj = t_b if variant == "shared" else float(Tt[j])
                with np.errstate(all="ignore"):
                    try:
                        mon = np.array(ns["monitor_values"](**{a_: {"states": S[:, j].copy(), "t": tj, "parameters": pj, "dt": dt}[a_]
                                                               for a_ in fns["monitor_values"]["args"]}), dtype=float)
                        mon = mon[np.isfinite(mon)]
                        mags.append(max([1.0] + [abs(float(v)) for v in mon] + [abs(float(v)) for v in S[:, j]]))
                    except Exception:  # noqa: BLE001
                        mags.append(1.0)
            mag = np.array(mags, dtype=float)
            with np.errstate(all="ignore"):
                same = ((out == want) | (np.isnan(out) & np.isnan(want)) | (np.abs(out - want) <= 1e-12 * (np.abs(out) + np.abs(want)))
                        | (np.abs(out - want) <= 1e-14 * mag)
                        # ... and when that value is multiplied by another factor (a**(c/3) * sin(x) with |x| ~ 1e4) the absolute
                        # difference scales with the result as well
                        | (np.abs(out - want) <= 1e-13 * mag * (np.abs(out) + np.abs(want))))
            if not bool(np.all(same)):
                j = int(np.argwhere(~same)[0][-1])
                failing = (f"{fname}: column {j} of the batch result differs from the call on column {j} alone",
                           {"kind": "direct", "text": text, "function": fname, "columns": N, "variant": variant,
                            "states": S.tolist(), "parameters": P.tolist(), "t": Tt.tolist(), "batch": out.tolist(), "single": want.tolist()})
                break
            rep.count("batch_calls_compared")
    if failing is not None:
        rep.violation(failing[0], failing[1], finding_key=failing[2] if len(failing) > 2 else None)
    elif structural is not None:
        rep.violation(structural[0], structural[1], finding_key=structural[2], failing_input_found=False)
    return N


def main(argv=None):
    a = core.std_args(argv)
    rep = core.Report("C14", a.tier, a.seed)
    core.props_or_violation(rep)
    drv = core.Driver()
    if a.replay:
        import json as _json
        family.replay_text_case(rep, drv, _json.load(open(a.replay)), check_model)
        drv.close()
        return rep.finish(level="proof", rule="replay of " + a.replay, trusted_base=["see the full check"])
    rng = random.Random(a.seed)
    gen = lang.Gen(rng, max_depth=3, p_cond=0.3)
    n = a.n or (40 if a.tier == "quick" else 800)
    # directed: conditions whose operands have different shapes in a vectorised call (a state column next to scalar time and a shared
    # parameter): stimulus windows with three and four operands, clamps against a number / a parameter, a cell-type switch
    import textmodel
    for text in ("states(V=-1, w=0.5)\nparameters(start=1, dur=2, Vth=0.5, amp=3)\n"
                 "i_stim = Conditional(And(Ge(time, start), Le(time, start + dur), Lt(V, Vth)), amp, 0)\n"
                 "gate = Conditional(Or(Lt(V, -2), Gt(w, 1), Ge(time, 10), Eq(amp, 0)), 1, w)\n"
                 "dV_dt = i_stim - V*gate\ndw_dt = Conditional(Gt(V, 0), V, 0) - w + Conditional(Lt(w, Vth), Vth, w)\n",
                 "states(x=1, y=2)\nparameters(celltype=1, lo=0.25)\n"
                 "g = Conditional(Eq(celltype, 1), 2.5, Conditional(Eq(celltype, 2), 1.5, 1))\n"
                 "dx_dt = -g*x + Conditional(And(Gt(time, 1), Lt(time, 3), Gt(y, lo), Lt(x, 5)), 1, 0)\n"
                 "dy_dt = Conditional(Lt(y, lo), lo, y)*Conditional(Gt(x, 1.2), 1.2, x) - y\n"):
        c_ = pipeline.Case(drv, text)
        m_ = textmodel.model_from_items(c_.captured)
        core.guarded(rep, text, check_model, rep, drv, gen, rng, m_, text, c_)
        rep.case(key=text, nontrivial=True)
    for i in range(n):
        got = family.new_case(drv, rng, gen, rep, self_dep=0.6, n_params=rng.choice([1, 2, 3]))
        if got is None:
            continue
        m, text, c = got
        k = core.guarded(rep, text, check_model, rep, drv, gen, rng, m, text, c)
        has_cond = any(x in text for x in ("Conditional", "And(", "Or(", "abs(", "Abs(", "floor(", "Mod("))
        rep.case(key=text, nontrivial=bool(k) and has_cond)
        rep.sample({"text": text}, limit=2)
    drv.close()
    return rep.finish(
        level="proof",
        rule="two directed models (stimulus windows with 3-4 operands of different shapes, clamps, a cell-type switch); random models rich in conditionals (30%), And/Or with 2-5 operands, abs, floor, Mod; rates depending on the own state (so that "
             "scheme linearisations contain sign/conditionals); batches of 2-8 columns built from independent random points (columns fall on "
             "different sides of the conditions); shared and per-column parameters/time; shape option default/dynamic/multiple; non-trivial = "
             "the text contains a conditional / abs / floor / Mod",
        trusted_base=["Coq 8.16.1 kernel", "harness Python-ast -> expr translation defines the array-safe fragment", "numpy applies the translated constructs element-wise (oracle, checked by the batch calls)"],
        assumptions=["a batch column and the single-column call may differ by rounding (numpy uses SIMD kernels for arrays and libm for scalars): relative tolerance 1e-12"],
    )


if __name__ == "__main__":
    sys.exit(main())
