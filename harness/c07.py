"""C07 - hybrid Rush-Larsen applies RL to exactly the stiff states and Euler to the rest.

 1. theorems of coq/Props/C07.v (hybrid_slotwise: three validated programs agree slot by slot as
    the property says; the stiff set only matters on states);
 2. correspondence: the skeletons of hybrid / generalized / Euler functions of one generated module
    pass Schemes.valid_scheme with stiff = S / all / none and the slot modes read off the
    generalized function;
 3. direct: the three functions of the module (generated through get_code, i.e. through
    add_schemes, with random S incl. foreign names and a random delta) compared slot by slot, bit for
    bit; S = [] against Euler, S = all states against generalized; foreign names against none.
"""
from __future__ import annotations

import random
import sys

import numpy as np

import core
import family
import impl
import lang
import pipeline
import schemes_obs as so

DELTAS = [1e-8, 1e-8, 1e-3, 0.5, 10.0]


def check_model(rep, drv, gen, rng, m, text, c):
    issue = family.mirror_issue(c, text)
    lay = c.impl_layout()
    ss = lay["sorted_states"]
    n = len(ss)
    delta = rng.choice(DELTAS)
    S = [s for s in ss if rng.random() < 0.5]
    if rng.random() < 0.15:
        S = []
    elif rng.random() < 0.15:
        S = list(ss)
    foreign = rng.sample(["nostate", "t", "dt"] + lay["params"] + lay["inters"], k=rng.randint(0, 2))
    S_given = S + foreign
    rng.shuffle(S_given)
    ru = rng.random() < 0.3
    code = family.try_generate(rep, c, text, schemes=impl.ALL_SCHEMES, stiff_states=S_given, delta=delta, remove_unused=ru)
    if isinstance(code, Exception):
        rep.count("generation_raises:" + type(code).__name__)
        return None
    fns = impl.export_functions(code)
    ns = impl.exec_module(code)
    structural = None
    failing = None
    for sch in impl.ALL_SCHEMES:
        if sch not in fns:
            rep.violation(f"get_code emits no function {sch}", {"kind": "direct", "text": text, "functions": sorted(fns)})
            return None
    if issue is None:
        try:
            bodies = {k: impl.body_to_sx(fns[k]["body"]) for k in impl.ALL_SCHEMES}
            modes = so.observed_modes(bodies["generalized_rush_larsen"], ss)
            res = {
                "hybrid": so.validate_scheme(drv, bodies["hybrid_rush_larsen"], ss, modes, S, delta),
                "generalized": so.validate_scheme(drv, bodies["generalized_rush_larsen"], ss, modes, ss, delta),
                "euler": so.validate_scheme(drv, bodies["explicit_euler"], ss, modes, [], delta),
            }
            bad = {k: v for k, v in res.items() if not v.get("valid")}
            if bad:
                structural = ("rejected by Schemes.valid_scheme: " + str(bad),
                              {"kind": "validator", "relation": "Schemes.valid_scheme (hybrid: stiff=S, generalized: all, euler: none)",
                               "text": text, "stiff_states": S_given, "delta": delta, "modes": modes, "failing_input": None})
            rep.count("slots_guarded", modes.count("guard")); rep.count("slots_plain", modes.count("plain")); rep.count("slots_euler", modes.count("euler"))
            if not bad:
                # the three functions against the verified mirror generator for the same modes: all stiff / S stiff / none stiff
                so.check_mirror_rl(rep, drv, text, fns["generalized_rush_larsen"]["args"], bodies["generalized_rush_larsen"], ss, modes, ss, delta, ru=ru)
                so.check_mirror_rl(rep, drv, text, fns["hybrid_rush_larsen"]["args"], bodies["hybrid_rush_larsen"], ss, modes, S, delta, ru=ru)
        except impl.SkeletonError as ex:
            structural = ("statement outside the skeleton: " + str(ex),
                          {"kind": "validator", "relation": "skeleton export", "text": text, "failing_input": None})
    # foreign names have no effect: same text as with S alone
    code2 = family.try_generate(rep, c, text, schemes=["hybrid_rush_larsen"], stiff_states=S, delta=delta, remove_unused=ru)
    if not isinstance(code2, Exception):
        h1 = code.split("def hybrid_rush_larsen", 1)[1]
        h2 = code2.split("def hybrid_rush_larsen", 1)[1]
        if h1 != h2:
            failing = (f"names that are not states change the hybrid scheme (stiff_states {S_given} vs {S})",
                       {"kind": "direct", "text": text, "stiff_states": S_given, "delta": delta})
    for pt in gen.inputs(m, 4):
        if failing:
            break
        isx, st, ps = pipeline.inputs_sx(lay, pt)
        dt = pt["dt"]
        outs = {}
        with np.errstate(all="ignore"):
            for sch in impl.ALL_SCHEMES:
                try:
                    outs[sch] = np.array(impl.call_numpy(ns[sch], fns[sch]["args"], pt["t"], st, ps, dt=dt), dtype=float)
                except Exception as ex:  # noqa: BLE001
                    outs[sch] = ex
        if any(isinstance(v, Exception) for v in outs.values()):
            if not isinstance(outs["hybrid_rush_larsen"], Exception):
                rep.count("reference_scheme_raises")
                continue
            # the schemes hybrid is made of on this model: generalized for the stiff states, Euler for the others; where one of
            # them cannot be evaluated at this point (22.75**(t/4) overflows in Python's float power) neither can hybrid
            needed = (["generalized_rush_larsen"] if S else []) + (["explicit_euler"] if len(S) < n else [])
            if any(isinstance(outs[k_], Exception) for k_ in needed):
                rep.count("reference_scheme_raises")
                continue
            failing = (f"hybrid_rush_larsen raises {outs['hybrid_rush_larsen']!r}",
                       {"kind": "direct", "text": text, "inputs": pt, "stiff_states": S_given, "delta": delta})
            break
        h, g, e = outs["hybrid_rush_larsen"], outs["generalized_rush_larsen"], outs["explicit_euler"]
        if h.shape != (n,):
            failing = (f"hybrid_rush_larsen returns shape {h.shape}", {"kind": "direct", "text": text, "inputs": pt})
            break
        for i, s in enumerate(ss):
            want = g[i] if s in S else e[i]
            if not family.eq_arrays([h[i]], [want]):
                failing = (f"hybrid slot {i} (state {s}, {'stiff' if s in S else 'not stiff'}) = {h[i]!r}, "
                           f"{'generalized' if s in S else 'Euler'} gives {want!r}",
                           {"kind": "direct", "text": text, "inputs": pt, "stiff_states": S_given, "delta": delta,
                            "remove_unused": ru})
                break
    family.settle(rep, issue, failing, structural)
    return (len(S), n)


def main(argv=None):
    a = core.std_args(argv)
    rep = core.Report("C07", a.tier, a.seed)
    core.props_or_violation(rep)
    drv = core.Driver()
    if a.replay:
        import json as _json
        family.replay_text_case(rep, drv, _json.load(open(a.replay)), check_model)
        drv.close()
        return rep.finish(level="proof", rule="replay of " + a.replay, trusted_base=["see the full check"])
    rng = random.Random(a.seed)
    gen = lang.Gen(rng, max_depth=3, funcs=["exp", "cos", "sin", "atan", "log", "sqrt", "abs", "tan"], allow_mod=False)
    n = a.n or (40 if a.tier == "quick" else 1000)
    for i in range(n):
        got = family.new_case(drv, rng, gen, rep, self_dep=0.8)
        if got is None:
            continue
        m, text, c = got
        r = core.guarded(rep, text, check_model, rep, drv, gen, rng, m, text, c)
        rep.case(key=text, nontrivial=bool(r) and 0 < r[0] < r[1])
        rep.sample({"text": text}, limit=2)
    drv.close()
    return rep.finish(
        level="proof",
        rule="random accepted models (no floor/Mod: their own-state derivative is outside what sympy prints); random subset S "
             "of states (15% empty, 15% all) plus up to 2 foreign names, delta in {1e-8, 1e-3, 0.5, 10}, remove_unused 30%; "
             "non-trivial = S is a proper non-empty subset; 4 points with dt in {0, 2^-40, 1/16, 1, -0.5, 2^20, 0.01}",
        trusted_base=["Coq 8.16.1 kernel", "extraction + ocaml/driver.ml", "harness skeleton exporter and Python-ast -> expr translation of store expressions"],
        assumptions=["bit-for-bit equality: the hybrid and generalized functions print a stiff slot identically"],
    )


if __name__ == "__main__":
    sys.exit(main())
