"""C13 - a component split yields complementary sub-models that reproduce the full model.

 1. theorems of coq/Props/C13.v: missing variables are exactly the names used but not defined;
    the two halves of a split contain every state of the original, and a state in both halves is
    declared in two components; a sub-model whose undefined names are fed the full model's values
    gives every quantity the value it has in the full model; a validated missing_values function
    writes the requested names to the requested slots;
 2. correspondence: for every component C the layout and the missing variables of C.to_ode() and of
    model - C equal what the mirror (Load.to_ode / Load.minus) predicts; the exported skeletons of
    the halves' rhs, monitor_values and missing_values pass the validators;
 3. direct: each half, fed the other's values (from the full model, and from the other half's
    generated missing_values function), reproduces the full model's rhs, monitored values and
    Euler / Rush-Larsen steps for its own states and intermediates, by name; with remove_unused on
    and off; numpy always, jax on a subsample.
"""
from __future__ import annotations

import random
import sys

import numpy as np

import cback
import core
import family
import impl
import lang
import pipeline
from pipeline import close


def sub_layout(o):
    return {
        "sorted_states": [s.name for s in o.sorted_states()],
        "params": [p.name for p in o.parameters],
        "order": [a.name for a in o.sorted_assignments()],
        "order_ru": [a.name for a in o.sorted_assignments(remove_unused=True)],
        "missing": [k for k, _ in sorted(o.missing_variables.items(), key=lambda kv: kv[1])],
        "state_names": [s.name for s in o.states],
        "inters": [a.name for a in o.intermediates],
        "derivs": [a.name for a in o.state_derivatives],
    }


def check_model(rep, drv, gen, rng, m, text, c, with_jax, direct_only=False):
    # direct_only: names the printers rename (Python keywords: lambda -> lambda_) - the skeleton validators are fed the model's own
    # names, so such a model is compared by values only
    issue = family.mirror_issue(c, text)
    full_lay = c.impl_layout()
    ode = c.ode
    full_code = impl.gen_python(ode, schemes=["explicit_euler", "generalized_rush_larsen"])
    full_ns = impl.exec_module(full_code)
    full_fns = impl.export_functions(full_code)
    failing = None
    structural = None

    def fail(what, **kw):
        nonlocal failing
        if failing is None:
            d = {"kind": "direct", "text": text}
            d.update(kw)
            failing = (what, d)

    comps = [cc.name for cc in ode.components]
    nsplits = 0
    for cname in comps:
        comp = ode.get_component(cname)
        halves = {}
        try:
            halves["to_ode"] = comp.to_ode()
            halves["minus"] = ode - comp
        except Exception as ex:  # noqa: BLE001
            rep.count("split_raises:" + type(ex).__name__)
            continue
        nsplits += 1
        lays = {k: sub_layout(v) for k, v in halves.items()}
        # ---- complementarity of states
        sa, sb = lays["to_ode"]["state_names"], lays["minus"]["state_names"]
        if sorted(sa + sb) != sorted(full_lay["state_names"]):
            fail(f"splitting off {cname!r}: states {sa} + {sb} are not the states of the model {full_lay['state_names']}", component=cname)
        # ---- missing variables are exactly the names used but not defined
        defs, stv, pav = lang.model_defs(m)
        for k, lay in lays.items():
            own = set(lay["state_names"]) | set(lay["params"]) | set(lay["inters"]) | set(lay["derivs"])
            usedn = set()
            for a in lay["inters"] + lay["derivs"]:
                usedn |= set(lang.variables(defs[a]))
            want = sorted(usedn - own - {"t", "time"})
            if want != lay["missing"]:
                fail(f"{k} of {cname!r}: missing variables {lay['missing']}, used-but-undefined names are {want}", component=cname)
        # ---- mirror
        if issue is None and not direct_only:
            for k in ("to_ode", "minus"):
                mr = drv.ask(["split", k, core.Q(cname)])
                mm = [(f, lays[k][f], mr.get(f)) for f in lays[k] if mr.get(f) != lays[k][f]]
                if mm and structural is None:
                    structural = (f"{k} of {cname!r}: the mirror predicts a different sub-model: {mm[:1]}",
                                  {"kind": "correspondence", "relation": "Load.to_ode / Load.minus vs to_ode() / __sub__", "text": text,
                                   "component": cname, "failing_input": None})
        # ---- numerics: feed each half from the full model
        for ru in (False, True):
            mods = {}
            for k, o in halves.items():
                other = "minus" if k == "to_ode" else "to_ode"
                req = {n: i for i, n in enumerate(lays[other]["missing"])}   # what the other half needs
                try:
                    code = impl.gen_python(o, schemes=["explicit_euler", "generalized_rush_larsen"], remove_unused=ru,
                                           missing_values=req if req else None)
                except Exception as ex:  # noqa: BLE001
                    rep.count("sub_generation_raises:" + type(ex).__name__)
                    mods = None
                    break
                mods[k] = (code, impl.exec_module(code), impl.export_functions(code), req)
            if mods is None:
                continue
            # validators on the halves
            if issue is None and structural is None and not direct_only:
                for k in ("to_ode", "minus"):
                    drv.ask(["split", k, core.Q(cname)])
                    lay = lays[k]
                    code, ns, fns, req = mods[k]
                    try:
                        v1 = pipeline.validate(drv, "rhs", 0, len(lay["sorted_states"]), [], impl.body_to_sx(fns["rhs"]["body"]))
                        v2 = pipeline.validate(drv, "named", 0, len(lay["order"]), lay["order"], impl.body_to_sx(fns["monitor_values"]["body"]))
                        bad = {n: v for n, v in (("rhs", v1), ("monitor_values", v2)) if not v.get("valid")}
                        if req:
                            tbl = [n for n, _ in sorted(req.items(), key=lambda kv: kv[1])]
                            v3 = pipeline.validate(drv, "named", 0, len(tbl), tbl, impl.body_to_sx(fns["missing_values"]["body"]))
                            if not v3.get("valid"):
                                bad["missing_values"] = v3
                            pipeline.check_mirror_function(rep, drv, text, "missing", ru, ("tsp", list(req.items())),
                                                           fns["missing_values"]["args"], impl.body_to_sx(fns["missing_values"]["body"]))
                        pipeline.check_mirror_function(rep, drv, text, "rhs", ru, "tsp", fns["rhs"]["args"], impl.body_to_sx(fns["rhs"]["body"]))
                        pipeline.check_mirror_function(rep, drv, text, "monitor", ru, "tsp", fns["monitor_values"]["args"],
                                                       impl.body_to_sx(fns["monitor_values"]["body"]))
                        if bad:
                            structural = (f"{k} of {cname!r} (remove_unused={ru}): rejected by the validators: {bad}",
                                          {"kind": "validator", "relation": "Valid.valid_rhs / valid_named on a sub-model", "text": text,
                                           "component": cname, "failing_input": None})
                    except impl.SkeletonError as ex:
                        structural = ("statement outside the skeleton: " + str(ex), {"kind": "validator", "text": text, "failing_input": None})
                drv.ask(["whole"])
            pts, _ = family.usable_points(gen, m, 8, want=2)
            for pt, ref, S in pts:
                allv = dict(ref); allv.update(pt["states"]); allv.update(pt["params"])
                dt = 0.125
                isx, fst, fps = pipeline.inputs_sx(full_lay, pt)
                with np.errstate(all="ignore"):
                    full_e = dict(zip(full_lay["sorted_states"], np.array(full_ns["explicit_euler"](np.array(fst), pt["t"], dt, np.array(fps)), dtype=float)))
                    full_g = dict(zip(full_lay["sorted_states"], np.array(full_ns["generalized_rush_larsen"](np.array(fst), pt["t"], dt, np.array(fps)), dtype=float)))
                for k in ("to_ode", "minus"):
                    lay = lays[k]
                    code, ns, fns, req = mods[k]
                    st = [pt["states"][x] for x in lay["sorted_states"]]
                    ps = [pt["params"][x] for x in lay["params"]]
                    ms = [allv[x] for x in lay["missing"]]
                    with np.errstate(all="ignore"):
                        try:
                            rv = np.array(impl.call_numpy(ns["rhs"], fns["rhs"]["args"], pt["t"], st, ps, missing=ms), dtype=float)
                            mv = np.array(impl.call_numpy(ns["monitor_values"], fns["monitor_values"]["args"], pt["t"], st, ps, missing=ms), dtype=float)
                            ev = np.array(impl.call_numpy(ns["explicit_euler"], fns["explicit_euler"]["args"], pt["t"], st, ps, dt=dt, missing=ms), dtype=float)
                            gv = np.array(impl.call_numpy(ns["generalized_rush_larsen"], fns["generalized_rush_larsen"]["args"], pt["t"], st, ps, dt=dt, missing=ms), dtype=float)
                            xv = None
                            if req:
                                xv = np.array(impl.call_numpy(ns["missing_values"], fns["missing_values"]["args"], pt["t"], st, ps, missing=ms), dtype=float)
                        except Exception as ex:  # noqa: BLE001
                            fail(f"{k} of {cname!r} (remove_unused={ru}) raises {ex!r}", component=cname, inputs=pt)
                            continue
                    for i, x in enumerate(lay["sorted_states"]):
                        if not close(float(rv[i]), ref[f"d{x}_dt"], S):
                            fail(f"{k} of {cname!r}: rhs for {x} = {rv[i]!r}, full model {ref[f'd{x}_dt']!r}", component=cname, inputs=pt, remove_unused=ru)
                        if not close(float(ev[i]), float(full_e[x]), S):
                            fail(f"{k} of {cname!r}: explicit_euler for {x} = {ev[i]!r}, full model {full_e[x]!r}", component=cname, inputs=pt, remove_unused=ru)
                        if np.isfinite(full_g[x]) and not close(float(gv[i]), float(full_g[x]), S, 1e-8):
                            fail(f"{k} of {cname!r}: generalized_rush_larsen for {x} = {gv[i]!r}, full model {full_g[x]!r}", component=cname, inputs=pt, remove_unused=ru)
                    if mv.shape != (len(lay["order"]),):
                        fail(f"{k} of {cname!r}: monitor_values has shape {mv.shape}, {len(lay['order'])} monitored names", component=cname)
                    else:
                        for i, x in enumerate(lay["order"]):
                            if not close(float(mv[i]), ref[x], S):
                                fail(f"{k} of {cname!r}: monitored {x} = {mv[i]!r}, full model {ref[x]!r}", component=cname, inputs=pt, remove_unused=ru)
                    if xv is not None:
                        if xv.shape != (len(req),):
                            fail(f"{k} of {cname!r}: missing_values has shape {xv.shape}, {len(req)} names were requested", component=cname)
                        else:
                            for nme, i in req.items():
                                if not close(float(xv[i]), allv[nme], S):
                                    fail(f"{k} of {cname!r} (remove_unused={ru}): missing_values[{i}] for {nme} = {xv[i]!r}, the full model has {allv[nme]!r}",
                                         component=cname, inputs=pt, remove_unused=ru, requested=req)
                    # the jax module of the same half (on a subsample of the models): rhs, monitored values and the Euler step against numpy's
                    if with_jax and not ru and not failing:
                        try:
                            if "jax" not in mods[k][1]:
                                jcode = impl.gen_python(halves[k], schemes=["explicit_euler"], backend="jax", missing_values=req if req else None)
                                mods[k][1]["jax"] = (cback.jax_module(jcode), impl.export_functions(jcode))
                            jns, jfns = mods[k][1]["jax"]
                            with np.errstate(all="ignore"):
                                jr = cback.call_jax(jns["rhs"], jfns["rhs"]["args"], pt["t"], st, ps, missing=ms)
                                jm = cback.call_jax(jns["monitor_values"], jfns["monitor_values"]["args"], pt["t"], st, ps, missing=ms)
                                je = cback.call_jax(jns["explicit_euler"], jfns["explicit_euler"]["args"], pt["t"], st, ps, dt=dt, missing=ms)
                            for what, jv, nv in (("rhs", jr, rv), ("monitor_values", jm, mv), ("explicit_euler", je, ev)):
                                if jv.shape != nv.shape or not all(close(float(a_), float(b_), S, 1e-8) or (a_ != a_ and b_ != b_) or not np.isfinite(b_)
                                                                   for a_, b_ in zip(jv, nv)):
                                    fail(f"{k} of {cname!r}: the jax module's {what} gives {jv.tolist()}, the numpy module's {nv.tolist()}",
                                         component=cname, inputs=pt, backend="jax")
                            rep.count("half_points_compared_jax")
                        except Exception as ex:  # noqa: BLE001
                            fail(f"{k} of {cname!r}: the jax module raises {ex!r}", component=cname, inputs=pt, backend="jax")
                    rep.count("half_points_compared")
            if failing:
                break
        if failing:
            break
    family.settle(rep, issue, failing, structural)
    return nsplits


COMP_NAMES = [["INa", "INaCa"], ["Membrane", "Gate"], ["A", "B", "AB"], ["main", "I Ca", "I Na"], ["", "gates"], ["X", "X-gate", "Y"]]


def main(argv=None):
    a = core.std_args(argv)
    rep = core.Report("C13", a.tier, a.seed)
    core.props_or_violation(rep)
    drv = core.Driver()
    if a.replay:
        import json as _json
        family.replay_text_case(rep, drv, _json.load(open(a.replay)), check_model, False)
        drv.close()
        return rep.finish(level="proof", rule="replay of " + a.replay, trusted_base=["see the full check"])
    rng = random.Random(a.seed)
    gen = lang.Gen(rng, max_depth=2, p_cond=0.08, funcs=["exp", "cos", "sin", "atan", "log", "sqrt", "abs"], allow_mod=False)
    n = a.n or (24 if a.tier == "quick" else 500)
    # directed: variables whose names the Python printers rename (keywords) cross the split in both directions, as a state, as an
    # intermediate and as a parameter's reader
    import textmodel
    for text in ('states("A", lambda=0.5, x=1)\nparameters("A", k=2)\nstates("B", y=0.25)\nparameters("B", g=1.5)\n'
                 'expressions("A")\nglobal = k*lambda + x\ndlambda_dt = -k*lambda + y\ndx_dt = global - x\n'
                 'expressions("B")\nrate = g*lambda - global\ndy_dt = rate - y\n',
                 'states("Gate", m=0.5)\nparameters("Gate", tau=2)\nstates("Membrane", V=0.25)\nparameters("Membrane", g=1.5)\n'
                 'expressions("Gate")\nis = 1/(1 + exp(-V))\ndm_dt = (is - m)/tau\n'
                 'expressions("Membrane")\nnonlocal = g*m*is\ndV_dt = -nonlocal*V + cos(time)\n'):
        c_ = pipeline.Case(drv, text)
        if c_.err is not None:
            rep.violation(f"directed model rejected: {c_.err}", {"kind": "direct", "text": text})
            continue
        m_ = textmodel.model_from_items(c_.captured)
        k_ = core.guarded(rep, text, check_model, rep, drv, gen, rng, m_, text, c_, with_jax=True, direct_only=True)
        rep.case(key=text, nontrivial=True)
        rep.count("splits", k_ or 0)
    for i in range(n):
        got = family.new_case(drv, rng, gen, rep, n_comps=rng.choice([2, 2, 3]), n_states=rng.choice([2, 3, 4]),
                              n_inters=rng.choice([2, 3, 4, 5]), n_params=rng.choice([1, 2, 3]), p_unused=0.15, self_dep=0.5)
        if got is None:
            continue
        m, text, c = got
        # rename the components to names that contain each other (component lookup is by name)
        names = rng.choice(COMP_NAMES)
        used = sorted({cc for b in m["blocks"] for cc in b.get("comps", [])})
        if len(used) <= len(names) and "" not in names:
            ren = dict(zip(used, names))
            for b in m["blocks"]:
                if b.get("comps"):
                    b["comps"] = [ren[x] for x in b["comps"]]
            text = lang.render_model(m, rng)
            c = pipeline.Case(drv, text, m)
            if c.err is not None:
                continue
        k = core.guarded(rep, text, check_model, rep, drv, gen, rng, m, text, c, with_jax=(i % 6 == 0))
        rep.case(key=text, nontrivial=bool(k) and k >= 2)
        rep.count("splits", k or 0)
        rep.sample({"text": text}, limit=2)
    drv.close()
    return rep.finish(
        level="proof",
        rule="two directed models in which a state / an intermediate named by a Python keyword (lambda, global, is, nonlocal: the printers rename them) crosses the split (values only); random models with 2-3 components (names chosen so that some contain others: INa / INaCa, A / AB, X / X-gate), intermediates "
             "spread over components; every component is split off in turn; both halves generated with remove_unused off and on, each fed "
             "the full model's values at 2 points; non-trivial = at least two components could be split",
        trusted_base=["Coq 8.16.1 kernel", "extraction + ocaml/driver.ml", "harness skeleton exporter"],
        assumptions=["the C backend with missing variables does not compile on the unchanged tree (known finding of C02); it is exercised there"],
    )


if __name__ == "__main__":
    sys.exit(main())
