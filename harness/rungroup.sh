#!/bin/sh
# usage: rungroup.sh <tier> <seed> id...   (used for background soak runs; prints one line per check)
tier=$1; seed=$2; shift; shift
cd "$(dirname "$0")/.."
[ -x build/gxdriver ] || ./setup.sh > /dev/null
for id in "$@"; do
  s=$(date +%s)
  out=$(VERIF_SEED=$seed ./check $id --tier $tier 2>&1); rc=$?
  e=$(date +%s)
  echo "$id seed=$seed rc=$rc $((e-s))s :: $(echo "$out" | grep "^$id \[" | tail -1)"
  echo "$out" | grep -A1 '^VIOLATION' | head -8
  echo "$out" | grep '^KNOWN-FINDING' | cut -c1-160
done
