#!/bin/sh
# usage: adopt_seed.sh <prop id> <mutant name>   (reads /tmp/seed/<id>/out/<m>.diff, <m>_demo.py, <m>_notes.json)
# confirms the seeded change in a scratch worktree (confirm_seed.sh), records it under seeded/<id>-<m>/ with a
# meta.json, and runs the property's quick check against it (detection.txt).  Evidence is restored afterwards.
id="$1"; m="$2"; name="$id-$m"
cd /verif
harness/confirm_seed.sh "$id" "$m" | tail -1
[ -f "seeded/$name/patch.diff" ] || { echo "$name: not adopted"; exit 1; }
cp "/tmp/seed/$id/out/${m}_notes.json" "seeded/$name/notes_from_author.json" 2>/dev/null
/venv/bin/python - "$id" "$m" <<'PY'
import json, sys
pid, m = sys.argv[1], sys.argv[2]
d = f"/verif/seeded/{pid}-{m}"
try:
    notes = json.load(open(f"{d}/notes_from_author.json"))
except Exception:
    notes = {}
meta = {"property": pid, "id": f"{pid}-{m}", "breaks": notes.get("breaks", ""), "needs_to_manifest": notes.get("needs_to_manifest", ""),
        "origin": "written by an independent sub-agent that saw only the property text and its own scratch worktree of /repo",
        "confirmed_by_me": {"how": "harness/confirm_seed.sh in a scratch git worktree of /repo HEAD: demo.py exits 0 on the unchanged tree and non-zero with patch.diff applied; the repository's test suite gives the baseline result with the patch applied",
                            "result": open(f"{d}/confirm.txt").read().strip()},
        "detected_by": None}
json.dump(meta, open(f"{d}/meta.json", "w"), indent=1)
PY
wt=/tmp/seedrun/$name; rm -rf "$wt"; git -C /repo worktree prune
git -C /repo worktree add -q --detach "$wt" HEAD
git -C "$wt" apply "/verif/seeded/$name/patch.diff" || { echo "$name APPLY-FAILED"; git -C /repo worktree remove --force "$wt"; exit 1; }
out=$(GOTRANX_REPO="$wt" ./check "$id" --tier quick 2>&1)
nv=$(echo "$out" | grep -c "^VIOLATION")
nf=$(echo "$out" | grep "^VIOLATION" | grep -vc "no-failing-input-found")
first=$(echo "$out" | grep -A1 "^VIOLATION" | sed -n 2p | cut -c1-220)
echo "$name check=$id violations=$nv with_failing_input=$nf :: $first" | tee "seeded/$name/detection.txt"
git -C /repo worktree remove --force "$wt" 2>/dev/null
git checkout "evidence/$id.json" 2>/dev/null
