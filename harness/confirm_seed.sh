#!/bin/sh
# usage: confirm_seed.sh <prop id> <mutant name>   (reads /tmp/seed/<id>/out/<m>.diff and <m>_demo.py)
# confirms in a scratch worktree: patch applies, suite result unchanged, demo passes without / fails with.
id="$1"; m="$2"
src=/tmp/seed/$id/out
wt=/tmp/confirm/$id-$m
out=/verif/seeded/$id-$m
mkdir -p /tmp/confirm "$out"
rm -rf "$wt"; git -C /repo worktree prune
git -C /repo worktree add -q --detach "$wt" HEAD || exit 2
cp "$src/$m.diff" "$out/patch.diff"; cp "$src/${m}_demo.py" "$out/demo.py"
cd "$wt"
PYTHONPATH=$wt/src /venv/bin/python "$out/demo.py" > "$out/demo_unchanged.log" 2>&1; d0=$?
git apply "$out/patch.diff" || { echo "$id $m APPLY-FAILED"; git -C /repo worktree remove --force "$wt"; exit 2; }
PYTHONPATH=$wt/src /venv/bin/python "$out/demo.py" > "$out/demo_mutant.log" 2>&1; d1=$?
PYTHONPATH=$wt/src /venv/bin/python -m pytest -q -p no:cacheprovider --timeout=900 --continue-on-collection-errors tests > "$out/suite.log" 2>&1
summary=$(tail -1 "$out/suite.log")
tail -30 "$out/suite.log" > "$out/suite_tail.log"; rm "$out/suite.log"
echo "$id $m demo_unchanged=$d0 demo_mutant=$d1 suite: $summary" | tee "$out/confirm.txt"
cd /; git -C /repo worktree remove --force "$wt"
