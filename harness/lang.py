"""lang.py - the .ode language as the harness sees it: expression ASTs, rendering to text with
minimal parentheses, conversion to the driver's S-expressions (i.e. to the Gallina [expr]), an
instrumented reference evaluator (magnitudes and comparison margins, to apply the numeric rule),
an independent precedence oracle (Python's own parser on the rendered text), and the random
model generator.

Expression nodes (tuples):
  ('num', text) ('var', name) ('pi',) ('bin', op, a, b) op in + - * / **   ('neg', a)
  ('fn', name, a) ('mod', a, b) ('rel', op, a, b) op in Lt Gt Le Ge Eq   ('not', a)
  ('and', [..]) ('or', [..]) ('cond', c, a, b) ('ccond', relop, a, b, tv, fv, sigma)
"""
from __future__ import annotations

import math
import random
from fractions import Fraction

from core import Q, opt

FUNCS = ["exp", "cos", "sin", "tan", "acos", "asin", "atan", "log", "ln", "sqrt", "abs", "Abs", "floor"]
RELS = ["Lt", "Gt", "Le", "Ge", "Eq"]
GRAMMAR_WORDS = set(FUNCS) | set(RELS) | {
    "Mod", "And", "Or", "Not", "Conditional", "ContinuousConditional", "pi", "ScalarParam", "states",
    "parameters", "expressions", "component", "unit", "description", "t", "time", "dt", "E", "e", "I",
}


# --------------------------------------------------------------------------------------------
# literals
# --------------------------------------------------------------------------------------------
def lit_fraction(text: str) -> Fraction:
    return Fraction(text.replace("E", "e"))


def lit_is_int(text: str) -> bool:
    return text.isdigit()


# --------------------------------------------------------------------------------------------
# to the Gallina expr
# --------------------------------------------------------------------------------------------
_REL = {"Lt": "lt", "Gt": "gt", "Le": "le", "Ge": "ge", "Eq": "eq", "Ne": "ne"}
_BIN = {"+": "+", "-": "-", "*": "*", "/": "/", "**": "^"}


def to_sx(e):
    k = e[0]
    if k == "num":
        f = lit_fraction(e[1])
        return ["n", str(f.numerator), str(f.denominator), 1 if lit_is_int(e[1]) else 0]
    if k == "var":
        return ["v", e[1]]
    if k == "pi":
        return ["pi"]
    if k == "bin":
        return [_BIN[e[1]], to_sx(e[2]), to_sx(e[3])]
    if k == "neg":
        return ["neg", to_sx(e[1])]
    if k == "fn":
        return ["fn", e[1], to_sx(e[2])]
    if k == "mod":
        return ["mod", to_sx(e[1]), to_sx(e[2])]
    if k == "rel":
        return ["rel", _REL[e[1]], to_sx(e[2]), to_sx(e[3])]
    if k == "not":
        return ["not", to_sx(e[1])]
    if k in ("and", "or"):
        args = [to_sx(a) for a in e[1]]
        acc = args[0]
        for a in args[1:]:
            acc = [k, acc, a]
        return acc
    if k == "cond":
        return ["if", to_sx(e[1]), to_sx(e[2]), to_sx(e[3])]
    if k == "ccond":
        # sympytools.ContinuousConditional (Expr.mk_ccond)
        _, r, a, b, tv, fv, sg = e
        one = ["n", "1", "1", 1]
        a, b, tv, fv, sg = map(to_sx, (a, b, tv, fv, sg))
        H = ["/", one, ["+", one, ["fn", "exp", ["/", ["-", a, b], sg]]]]
        if r in ("Gt", "Ge"):
            return ["+", ["*", tv, ["-", one, H]], ["*", fv, H]]
        return ["+", ["*", tv, H], ["*", fv, ["-", one, H]]]
    raise ValueError(e)


def variables(e, acc=None):
    if acc is None:
        acc = []
    k = e[0]
    if k == "var":
        acc.append(e[1])
    elif k in ("and", "or"):
        for a in e[1]:
            variables(a, acc)
    else:
        for a in e[1:]:
            if isinstance(a, tuple):
                variables(a, acc)
    return acc


def relation_literals(e, acc=None):
    """numeric literals that stand directly as an operand of a relation (thresholds), as floats"""
    if acc is None:
        acc = []
    if not isinstance(e, tuple):
        return acc
    k = e[0]
    if k == "rel":
        for a in e[2:4]:
            if isinstance(a, tuple) and a[0] == "num":
                try:
                    acc.append(float(a[1]))
                except ValueError:
                    pass
            elif isinstance(a, tuple) and a[0] == "neg" and isinstance(a[1], tuple) and a[1][0] == "num":
                try:
                    acc.append(-float(a[1][1]))
                except ValueError:
                    pass
    for a in e[1:]:
        if isinstance(a, tuple):
            relation_literals(a, acc)
        elif isinstance(a, list):
            for x in a:
                relation_literals(x, acc)
    return acc


def depth(e):
    k = e[0]
    if k in ("num", "var", "pi"):
        return 1
    if k in ("and", "or"):
        return 1 + max(depth(a) for a in e[1])
    return 1 + max([depth(a) for a in e[1:] if isinstance(a, tuple)] or [0])


def ops_of(e, acc):
    k = e[0]
    if k == "bin":
        acc[e[1]] = acc.get(e[1], 0) + 1
    elif k == "fn":
        acc[e[1]] = acc.get(e[1], 0) + 1
    elif k == "rel":
        acc[e[1]] = acc.get(e[1], 0) + 1
    else:
        acc[k] = acc.get(k, 0) + 1
    if k in ("and", "or"):
        for a in e[1]:
            ops_of(a, acc)
    else:
        for a in e[1:]:
            if isinstance(a, tuple):
                ops_of(a, acc)
    return acc


# --------------------------------------------------------------------------------------------
# rendering: the grammar's ladder  expression > term > factor > power > signedatom > atom
# --------------------------------------------------------------------------------------------
def render(e, rng: random.Random | None = None, level=1) -> str:
    """text of e that parses back to exactly this tree (minimal parentheses); with rng, some
    redundant parentheses and spaces are added"""
    k = e[0]

    def sp():
        return " " if rng is None or rng.random() < 0.8 else ""

    if k == "num":
        s, lv = e[1], 5
    elif k == "var":
        s, lv = e[1], 5
    elif k == "pi":
        s, lv = "pi", 5
    elif k == "bin":
        op = e[1]
        if op in "+-":
            s = render(e[2], rng, 1) + sp() + op + sp() + render(e[3], rng, 2)
            lv = 1
        elif op in "*/":
            s = render(e[2], rng, 2) + sp() + op + sp() + render(e[3], rng, 3)
            lv = 2
        else:
            s = render(e[2], rng, 5) + "**" + render(e[3], rng, 3)
            lv = 4
    elif k == "neg":
        s = "-" + render(e[1], rng, 3)
        lv = 3
    elif k == "fn":
        s = f"{e[1]}({render(e[2], rng, 1)})"
        lv = 5
    elif k == "mod":
        s = f"Mod({render(e[1], rng, 1)}, {render(e[2], rng, 1)})"
        lv = 5
    elif k == "rel":
        s = f"{e[1]}({render(e[2], rng, 1)}, {render(e[3], rng, 1)})"
        lv = 5
    elif k == "not":
        s = f"Not({render(e[1], rng, 1)})"
        lv = 5
    elif k in ("and", "or"):
        s = ("And" if k == "and" else "Or") + "(" + ", ".join(render(a, rng, 1) for a in e[1]) + ")"
        lv = 5
    elif k == "cond":
        s = f"Conditional({render(e[1], rng, 1)}, {render(e[2], rng, 1)}, {render(e[3], rng, 1)})"
        lv = 5
    elif k == "ccond":
        _, r, a, b, tv, fv, sg = e
        s = (f"ContinuousConditional({r}({render(a, rng, 1)}, {render(b, rng, 1)}), {render(tv, rng, 1)}, "
             f"{render(fv, rng, 1)}, {render(sg, rng, 1)})")
        lv = 5
    else:
        raise ValueError(e)
    if lv < level or (rng is not None and lv < 5 and rng.random() < 0.08):
        return "(" + s + ")"
    return s


# --------------------------------------------------------------------------------------------
# reference evaluation in Python (instrumented)
# --------------------------------------------------------------------------------------------
class Undefined(Exception):
    pass


class Probe:
    """collects the largest magnitude of any sub-value and the smallest relative margin of any
    comparison / floor / Mod jump met during one evaluation"""

    def __init__(self, jit=0.0):
        self.S = 0.0
        self.margin = float("inf")
        self.margin_strict = float("inf")   # also counts operands that are exactly equal (for finite differences)
        self.sat = 0.0                       # largest |(a - b)/sigma| of a ContinuousConditional (saturation of the sigmoid)
        self.branches = []
        self.jit = jit   # relative perturbation of every leaf value (conditioning probe)

    def see(self, v):
        if isinstance(v, bool):
            return v
        if isinstance(v, int) and abs(v) > 2 ** 53:
            raise Undefined("integer beyond 2**53")
        if v != v or abs(v) == float("inf"):
            raise Undefined("non-finite")
        if abs(v) > self.S:
            self.S = abs(v)
        return v

    def cmp(self, a, b, exact_ok):
        d = abs(a - b)
        scale = max(1.0, abs(a), abs(b))
        self.margin_strict = min(self.margin_strict, d / scale)
        if d == 0 and exact_ok:
            return
        self.margin = min(self.margin, d / scale)


def py_mod(a, b):
    if b == 0:
        raise Undefined("mod 0")
    return a % b


def _simple(e, env=None):
    """an operand whose float value is exact: a literal, or a name that is an input (state, parameter, time) -
    not an intermediate, whose value the implementation may compute by a differently rounded formula"""
    if e[0] in ("num", "pi"):
        return True
    if e[0] == "neg":
        return _simple(e[1], env)
    if e[0] == "var":
        inputs = getattr(env, "inputs", None)
        return True if inputs is None else e[1] in inputs
    return False


def evaluate(e, env, pr: Probe):
    k = e[0]
    if k == "num":
        t = e[1]
        if pr.jit:
            return pr.see(float(t) * (1 + pr.jit))
        return pr.see(int(t) if lit_is_int(t) else float(t))
    if k == "var":
        if e[1] not in env:
            raise KeyError(e[1])
        v = env[e[1]]
        if callable(v):
            v = v()
        return pr.see(v)
    if k == "pi":
        return math.pi * (1 + pr.jit)
    try:
        if k == "bin":
            a = evaluate(e[2], env, pr)
            b = evaluate(e[3], env, pr)
            a, b = _num(a), _num(b)
            op = e[1]
            if op == "+":
                return pr.see(a + b)
            if op == "-":
                return pr.see(a - b)
            if op == "*":
                return pr.see(a * b)
            if op == "/":
                return pr.see(a / b)
            if isinstance(a, int) and isinstance(b, int) and (abs(b) > 12 or abs(a) > 10 ** 6):
                a = float(a)   # keep Python's big integers out of the reference evaluation
            r = a ** b
            if isinstance(r, complex):
                raise Undefined("complex")
            return pr.see(r)
        if k == "neg":
            return pr.see(-_num(evaluate(e[1], env, pr)))
        if k == "fn":
            a = float(_num(evaluate(e[2], env, pr)))
            f = e[1]
            if f in ("abs", "Abs"):
                return pr.see(abs(a))
            if f == "floor":
                pr.cmp(a, round(a), False)
                return pr.see(float(math.floor(a)))
            if f in ("log", "ln"):
                if a <= 0:
                    raise Undefined("log")
                return pr.see(math.log(a))
            if f == "sqrt":
                if a < 0:
                    raise Undefined("sqrt")
                if a < 1e-6:
                    pr.margin = min(pr.margin, a)
                return pr.see(math.sqrt(a))
            if f in ("acos", "asin") and abs(a) > 1:
                raise Undefined(f)
            return pr.see(getattr(math, f)(a))
        if k == "mod":
            a = _num(evaluate(e[1], env, pr))
            b = _num(evaluate(e[2], env, pr))
            r = py_mod(a, b)
            # distance to the jump
            pr.cmp(abs(r), 0.0, False)
            pr.cmp(abs(r), abs(b), False)
            return pr.see(r)
        if k == "rel":
            a = _num(evaluate(e[2], env, pr))
            b = _num(evaluate(e[3], env, pr))
            pr.cmp(a, b, _simple(e[2], env) and _simple(e[3], env))
            op = e[1]
            r = {"Lt": a < b, "Gt": a > b, "Le": a <= b, "Ge": a >= b, "Eq": a == b, "Ne": a != b}[op]
            pr.branches.append(r)
            return r
        if k == "not":
            return not _truth(evaluate(e[1], env, pr))
        if k == "and":
            vals = [_truth(evaluate(a, env, pr)) for a in e[1]]
            return all(vals)
        if k == "or":
            vals = [_truth(evaluate(a, env, pr)) for a in e[1]]
            return any(vals)
        if k == "cond":
            c = _truth(evaluate(e[1], env, pr))
            # both branches are evaluated (numpy.where does), but only the chosen one must be defined
            if c:
                return evaluate(e[2], env, pr)
            return evaluate(e[3], env, pr)
        if k == "ccond":
            _, r, a, b, tv, fv, sg = e
            a = _num(evaluate(a, env, pr)); b = _num(evaluate(b, env, pr))
            tv = _num(evaluate(tv, env, pr)); fv = _num(evaluate(fv, env, pr)); sg = _num(evaluate(sg, env, pr))
            pr.sat = max(pr.sat, abs((a - b) / sg))
            H = 1 / (1 + math.exp((a - b) / sg))
            if r in ("Gt", "Ge"):
                return pr.see(tv * (1 - H) + fv * H)
            return pr.see(tv * H + fv * (1 - H))
    except (OverflowError, ZeroDivisionError, ValueError) as ex:
        raise Undefined(str(ex))
    raise ValueError(e)


def _num(v):
    if isinstance(v, bool):
        return 1 if v else 0
    return v


def _truth(v):
    return bool(v)


class _Rel(float):
    pass


def python_namespace():
    """names with which the rendered text is valid Python: Python's own parser then serves as
    an independent oracle for precedence and associativity"""

    def rel(f):
        return lambda a, b: f(a, b)

    def ccond(c, tv, fv, sigma):
        raise NotImplementedError

    ns = {
        "exp": math.exp, "cos": math.cos, "sin": math.sin, "tan": math.tan, "acos": math.acos,
        "asin": math.asin, "atan": math.atan, "log": math.log, "ln": math.log, "sqrt": math.sqrt,
        "abs": lambda a: abs(float(a)), "Abs": lambda a: abs(float(a)),
        "floor": lambda a: float(math.floor(a)),
        "Mod": lambda a, b: a % b, "pi": math.pi,
        "Lt": lambda a, b: a < b, "Gt": lambda a, b: a > b, "Le": lambda a, b: a <= b,
        "Ge": lambda a, b: a >= b, "Eq": lambda a, b: a == b,
        "Not": lambda a: not a, "And": lambda *a: all(a), "Or": lambda *a: any(a),
        "Conditional": lambda c, a, b: a if c else b,
        "__builtins__": {},
    }
    return ns


# --------------------------------------------------------------------------------------------
# models
# --------------------------------------------------------------------------------------------
def render_entry(en, rng=None):
    v = render(en["value"], rng)
    if en.get("unit") is not None or en.get("desc") is not None:
        s = f"ScalarParam({v}"
        if en.get("unit") is not None:
            s += f', unit="{en["unit"]}"'
        if en.get("desc") is not None:
            s += f', description="{en["desc"]}"'
        return f"{en['name']}={s})"
    return f"{en['name']}={v}"


def render_model(model, rng=None) -> str:
    out = []
    for b in model["blocks"]:
        k = b["kind"]
        if k in ("states", "parameters"):
            head = "".join(f'"{c}", ' for c in b["comps"])
            ents = ", ".join(render_entry(en, rng) for en in b["entries"])
            if rng is not None and rng.random() < 0.3:
                ents = ",\n    ".join(render_entry(en, rng) for en in b["entries"])
                out.append(f"{k}({head}\n    {ents}\n)")
            else:
                out.append(f"{k}({head}{ents})")
        elif k == "expressions":
            if b["comps"]:
                out.append("expressions(" + ", ".join(f'"{c}"' for c in b["comps"]) + ")")
            for ln in b["lines"]:
                s = f"{ln['name']} = {render(ln['expr'], rng)}"
                if ln.get("comment") is not None:
                    s += " # " + ln["comment"]
                out.append(s)
        elif k == "comment":
            out.append("# " + b["text"])
        elif k == "blank":
            out.append("")
        else:
            raise ValueError(k)
    return "\n".join(out) + "\n"


def model_items(model):
    """the item list TreeToODE.ode is expected to receive for this model (Load.item)"""
    items = []
    for b in model["blocks"]:
        k = b["kind"]
        comps = [Q(c) for c in (b.get("comps") or [""])]
        if k in ("states", "parameters"):
            items.append(["states" if k == "states" else "params", comps,
                          [[en["name"], to_sx(en["value"]), opt(en.get("unit")), opt(en.get("desc"))]
                           for en in b["entries"]]])
        elif k == "expressions":
            items.append(["exprs", comps,
                          [[ln["name"], to_sx(ln["expr"]), opt(ln.get("unit")), opt(ln.get("comment"))]
                           for ln in b["lines"]]])
        elif k == "comment":
            items.append(["comment", Q(b["text"])])
    return items


def model_summary(model):
    st = [en["name"] for b in model["blocks"] if b["kind"] == "states" for en in b["entries"]]
    pa = [en["name"] for b in model["blocks"] if b["kind"] == "parameters" for en in b["entries"]]
    ls = [ln["name"] for b in model["blocks"] if b["kind"] == "expressions" for ln in b["lines"]]
    return {"states": st, "parameters": pa, "assignments": ls}


def model_defs(model):
    """name -> expr for assignments; name -> value expr for states / parameters"""
    d, st, pa = {}, {}, {}
    for b in model["blocks"]:
        if b["kind"] == "expressions":
            for ln in b["lines"]:
                d[ln["name"]] = ln["expr"]
        elif b["kind"] == "states":
            for en in b["entries"]:
                st[en["name"]] = en["value"]
        elif b["kind"] == "parameters":
            for en in b["entries"]:
                pa[en["name"]] = en["value"]
    return d, st, pa


# --------------------------------------------------------------------------------------------
# generator
# --------------------------------------------------------------------------------------------
NAME_POOL = ["x", "y", "z", "u", "v", "w", "m", "h", "n", "q", "r", "s", "c", "g", "k", "Vm", "Ca_i", "Na", "K_o",
             "alpha", "beta", "gam", "tau", "rho", "a1", "b2", "x_1", "_p", "A", "B", "Cm", "I_Na", "i_K", "phi",
             "kf", "kb", "J", "f0", "w_inf", "xr", "yy", "lam", "mu", "nu", "om", "th", "ze", "et",
             # names that differ only in case (F / f, R / r ...): a case-insensitive sort key is not total
             "F", "f", "R", "H", "M", "N", "X", "Y", "V", "G", "K", "Q", "S", "U", "W", "Z", "C", "a", "b"]

LITS = ["0", "1", "2", "3", "4", "5", "7", "10", "0.5", "0.25", "1.5", "2.0", "0.1", "0.3", "3.14", "2.5e-1",
        "1e-3", "1E2", "12.75", "0.125", "1e3", "6.02", "0.04", "100", "1.0"]


class Gen:
    def __init__(self, rng: random.Random, max_depth=4, p_cond=0.18, funcs=None, allow_mod=True,
                 allow_ccond=True, allow_rel_arith=True, smooth_only=False):
        self.rng = rng
        self.max_depth = max_depth
        self.p_cond = p_cond
        self.funcs = funcs or FUNCS
        self.allow_mod = allow_mod
        self.allow_ccond = allow_ccond
        self.allow_rel_arith = allow_rel_arith
        self.smooth_only = smooth_only

    def lit(self):
        return ("num", self.rng.choice(LITS))

    def poslit(self):
        return ("num", self.rng.choice([l for l in LITS if float(l) > 0]))

    def leaf(self, names):
        r = self.rng.random()
        if names and r < 0.62:
            return ("var", self.rng.choice(names))
        if r < 0.93:
            return self.lit()
        if r < 0.97:
            return ("pi",)
        return ("var", self.rng.choice(["t", "time"]))

    def rel(self, names, d):
        rng = self.rng
        r = rng.random()
        if d <= 1 or r < 0.6:
            a = self.expr(names, d - 1)
            b = self.expr(names, d - 1) if rng.random() < 0.6 else self.lit()
            if not variables(a) and not variables(b):
                a = ("var", rng.choice(names)) if names else ("var", "t")
            return ("rel", rng.choice(RELS), a, b)
        if r < 0.72:
            return ("not", self.rel(names, d - 1))
        if r < 0.80 and names:
            # a window on one quantity: lo < x < hi
            x = ("var", rng.choice(names))
            lo, hi = sorted(rng.sample(["0", "0.5", "1", "1.5", "2", "0.25"], 2), key=float)
            lo_e = ("num", lo) if rng.random() < 0.7 else ("neg", ("num", hi))
            return ("and", [("rel", rng.choice(["Gt", "Ge"]), x, lo_e), ("rel", rng.choice(["Lt", "Le"]), x, ("num", hi))])
        n = rng.choice([2, 2, 2, 3, 3, 4, 5])
        return (rng.choice(["and", "or"]), [self.rel(names, d - 1) for _ in range(n)])

    def expr(self, names, d=None):
        rng = self.rng
        if d is None:
            d = self.max_depth
        if d <= 1 or rng.random() < 0.15:
            return self.leaf(names)
        r = rng.random()
        if r < 0.50:
            op = rng.choice(["+", "+", "-", "-", "*", "*", "*", "/", "**"])
            a = self.expr(names, d - 1)
            if op == "/":
                b = self.safe_den(names, d - 1)
            elif op == "**":
                if rng.random() < 0.6:
                    b = ("num", rng.choice(["2", "3", "0", "1", "2.0", "0.5"]))
                    if b[1] == "0.5":
                        a = ("fn", "abs", a)
                else:
                    a = ("bin", "+", ("fn", "abs", a), self.poslit())
                    b = ("bin", "/", self.expr(names, d - 2), ("num", rng.choice(["4", "8", "3.0"])))
            else:
                b = self.expr(names, d - 1)
            e = ("bin", op, a, b)
            if self.allow_rel_arith and not self.smooth_only and rng.random() < 0.04:
                # relations used as numbers: next to a real-valued term, and next to each other (two numpy booleans
                # are not two numbers: True + True is True, True - True raises)
                k = rng.random()
                if k < 0.5:
                    e = ("bin", rng.choice("+*"), e, self.rel(names, 1))
                else:
                    # (a unary minus directly on a relation is refused by the loader with a TypeError, so the
                    # negated indicator is written 0 - rel)
                    e = ("bin", "+", e, ("bin", rng.choice("+--"), rng.choice([self.rel(names, 1), ("num", "0")]), self.rel(names, 1)))
            return e
        if r < 0.58:
            return ("neg", self.expr(names, d - 1))
        if r < 0.78:
            f = rng.choice(self.funcs)
            a = self.expr(names, d - 1)
            if f in ("log", "ln"):
                a = ("bin", "+", ("fn", "abs", a), self.poslit())
            elif f == "sqrt":
                a = rng.choice([("fn", "abs", a), ("bin", "+", ("bin", "*", a, a), self.poslit())])
            elif f in ("acos", "asin"):
                a = ("bin", "/", a, ("bin", "+", ("num", "1"), ("fn", "abs", a)))
            elif f == "exp":
                if rng.random() < 0.7:
                    a = ("bin", "*", ("num", rng.choice(["0.1", "0.5", "0.25"])), a)
            elif f == "tan":
                a = ("bin", "*", ("num", "0.25"), ("fn", "sin", a))
            if f in ("sin", "cos") and rng.random() < 0.25:
                # multiples of pi among the terms of a nested sum (sympy shifts the argument of a periodic function by them)
                b = self.expr(names, max(1, d - 2))
                pim = rng.choice([("pi",), ("bin", "*", ("num", "2"), ("pi",)), ("bin", "/", ("pi",), ("num", "2")), ("neg", ("pi",))])
                a = rng.choice([("bin", "*", ("bin", "*", ("pi",), ("pi",)), a), ("bin", "*", ("bin", "*", a, ("pi",)), ("pi",)),
                                ("bin", "+", ("bin", "+", a, pim), b), ("bin", "-", ("bin", "-", pim, a), b),
                                ("bin", "+", ("bin", "+", pim, a), b), ("neg", ("bin", "+", ("bin", "-", a, pim), b)),
                                ("bin", "-", ("bin", "-", pim, ("num", "2.0")), ("num", "0"))])
            return ("fn", f, a)
        if r < 0.78 + self.p_cond and not self.smooth_only:
            if self.allow_ccond and rng.random() < 0.2:
                a = self.expr(names, d - 1)
                if not variables(a):
                    a = ("var", rng.choice(names)) if names else ("var", "t")
                # the second operand is a literal: sympy must not be able to decide the relation
                # (sympytools.ContinuousConditional needs a Relational: Le(x, x) crashes the loader)
                return ("ccond", rng.choice(["Lt", "Gt", "Le", "Ge"]), a, self.lit(),
                        self.expr(names, d - 1), self.expr(names, d - 1), self.poslit())
            if rng.random() < 0.18:
                # min / max / clamp / relu idioms: the branch values are the compared operands themselves, in either
                # orientation (Conditional(Lt(x, 0), 0, x), Conditional(Gt(y, top), top, y), ...)
                a = self.expr(names, d - 1)
                if not variables(a):
                    a = ("var", rng.choice(names)) if names else ("var", "t")
                b = rng.choice([("num", rng.choice(["0", "1", "0.5", "2"])), self.expr(names, d - 1)])
                tv, fv = rng.choice([(a, b), (b, a)])
                return ("cond", ("rel", rng.choice(["Lt", "Gt", "Le", "Ge"]), a, b), tv, fv)
            return ("cond", self.rel(names, d - 1), self.expr(names, d - 1), self.expr(names, d - 1))
        if self.allow_mod and not self.smooth_only and rng.random() < 0.25:
            dividend = self.expr(names, d - 1)
            if rng.random() < 0.3:
                # a dividend that is provably non-negative (the result still has the sign of the divisor)
                dividend = rng.choice([("fn", "abs", dividend), ("bin", "*", dividend, dividend), ("fn", "exp", ("bin", "*", ("num", "0.1"), dividend))])
            return ("mod", dividend, rng.choice([self.poslit(), ("neg", self.poslit()), ("neg", self.poslit()),
                                                  ("bin", "+", ("fn", "abs", self.expr(names, d - 2)), self.poslit()),
                                                  # divisors that are products / quotients (operator precedence in the printed form)
                                                  ("bin", "*", self.poslit(), ("bin", "+", ("fn", "abs", self.expr(names, d - 2)), self.poslit())),
                                                  ("bin", "/", ("bin", "+", ("fn", "abs", self.expr(names, d - 2)), self.poslit()), self.poslit())]))
        return self.leaf(names)

    def safe_den(self, names, d):
        rng = self.rng
        r = rng.random()
        if r < 0.12 and names:
            # an integer power of a bare symbol under the division bar: a / x**2
            return ("bin", "**", ("var", rng.choice(names)), ("num", rng.choice(["2", "3", "2"])))
        if r < 0.35:
            return self.poslit()
        if r < 0.7:
            return ("bin", "+", self.poslit(), ("fn", "abs", self.expr(names, d - 1)))
        e = self.expr(names, d - 1)
        return ("bin", "+", ("num", "1"), ("bin", "*", e, e))

    # ---- whole models ----
    def fresh_names(self, n, taken=()):
        pool = [x for x in NAME_POOL if x not in taken and x not in GRAMMAR_WORDS]
        self.rng.shuffle(pool)
        out = pool[:n]
        i = 0
        while len(out) < n:
            out.append(f"v{i}_{self.rng.randrange(1000)}")
            i += 1
        return out

    @staticmethod
    def fresh_names_ok(name):
        """[name] if it is an ordinary identifier: not a Python keyword / builtin the printers rename or the generators reserve
        (identifier capture is C19's subject; the other checks use names the generated code keeps as they are)"""
        import keyword
        reserved = {"dt", "t", "time", "states", "parameters", "values", "shape", "missing_variables", "numpy", "math", "jax", "pi", "E", "I",
                    "S", "N", "O", "Q", "re", "im", "len", "abs", "exp", "log", "sin", "cos", "tan", "sqrt", "floor", "ln"}
        return [] if (keyword.iskeyword(name) or keyword.issoftkeyword(name) or name in reserved) else [name]

    def model(self, n_states=None, n_params=None, n_inters=None, n_comps=None, shape=None,
              p_unused=0.2, decorate=False, self_dep=0.0):
        rng = self.rng
        n_states = n_states or rng.choice([1, 2, 2, 3, 3, 4, 5])
        n_params = rng.choice([0, 1, 2, 3, 4]) if n_params is None else n_params
        n_inters = rng.choice([0, 1, 2, 3, 4, 5, 6, 8]) if n_inters is None else n_inters
        n_comps = n_comps or rng.choice([1, 1, 2, 3])
        shape = shape or rng.choice(["random", "chain", "diamond", "fanin", "disconnected"])
        names = self.fresh_names(n_states + n_params + n_inters)
        states = names[:n_states]
        params = names[n_states:n_states + n_params]
        inters = names[n_states + n_params:]
        if rng.random() < getattr(self, "p_prefix", 0.2):
            # names that extend another name of the same kind (Ca / Ca_sr, g_K / g_Kr): lookups by prefix go wrong
            for grp in (states, params, inters):
                if len(grp) >= 2:
                    j = rng.randrange(1, len(grp))
                    new = grp[0] + rng.choice(["r", "_sr", "s", "2", "_", "_inf"])
                    if (new not in names and new not in GRAMMAR_WORDS and not (new.startswith("d") and new.endswith("_dt"))
                            and new in self.fresh_names_ok(new)):
                        names[names.index(grp[j])] = new
                        grp[j] = new
        comps = [""] if n_comps == 1 and rng.random() < 0.6 else [rng.choice(["Membrane", "I Na", "gate", "Ca", "main", "X-gate", "B"]) + (str(i) if i else "") for i in range(n_comps)]
        comp_of = {s: rng.choice(comps) for s in states}
        # unused names are never offered as operands
        unused = {x for x in states + params + inters if rng.random() < p_unused}
        lines = {c: [] for c in comps}
        avail = [x for x in states + params if x not in unused]
        defined = []
        for j, x in enumerate(inters):
            pool = list(avail)
            if shape == "chain" and defined:
                pool = [defined[-1]] + avail[:1]
            elif shape == "diamond" and len(defined) >= 2:
                pool = defined[-2:] + avail[:1]
            elif shape == "fanin":
                pool = avail + defined
            elif shape == "disconnected":
                pool = avail[j % max(1, len(avail)):][:2] or avail
            else:
                pool = avail + [d for d in defined if d not in unused]
            if x in unused and defined:
                # an unused definition may read anything, live or unused (chains of unused ones,
                # and live intermediates that also feed an unused one)
                pool = pool + defined + [p for p in states + params if p in unused]
            e = self.expr(pool)
            if x in unused and defined and rng.random() < 0.6 and not any(v in defined for v in variables(e)):
                e = ("bin", rng.choice("+*"), e, ("var", rng.choice(defined)))
            if shape in ("chain", "diamond") and defined:
                # make sure the shape really is what it says
                need = [defined[-1]] if shape == "chain" else defined[-2:]
                for nd in need:
                    if nd not in variables(e):
                        e = ("bin", rng.choice("+*"), e, ("var", nd))
            lines[rng.choice(comps)].append({"name": x, "expr": e, "comment": None})
            defined.append(x)
        live = [d for d in defined if d not in unused]
        for s in states:
            pool = avail + live
            e = self.expr(pool)
            if live and rng.random() < 0.7 and not any(v in live for v in variables(e)):
                e = ("bin", "+", e, ("var", rng.choice(live)))
            if rng.random() < self_dep and s not in variables(e):
                # the rate depends on its own state (what the Rush-Larsen schemes linearise)
                k = rng.choice([("num", "0.5"), ("num", "2"), ("var", rng.choice(avail)) if avail else ("num", "3")])
                other = ("var", rng.choice(avail)) if avail else ("num", "3")
                term = rng.choice([("bin", "*", k, ("var", s)), ("bin", "/", ("var", s), self.safe_den(pool, 2)),
                                   ("bin", "*", self.expr(pool, 2), ("var", s)), ("fn", "sin", ("var", s)),
                                   ("bin", "*", ("var", s), ("var", s)),
                                   # a product of a factor that can vanish and a reciprocal (the shape the
                                   # "certainly non-zero" shortcut of the Rush-Larsen schemes looks at)
                                   ("bin", "/", ("bin", "*", ("var", s), ("var", s)), other),
                                   ("bin", "/", ("bin", "*", ("var", s), other), other),
                                   ("bin", "/", ("var", s), other)])
                e = ("bin", rng.choice("+-"), e, term)
            lines[comp_of[s]].append({"name": f"d{s}_dt", "expr": e, "comment": None})
        if len(states) >= 2 and rng.random() < getattr(self, "p_deriv_dep", 0.12):
            # an intermediate computed from a state derivative, feeding another state's derivative (no cycle: nothing
            # else ever reads a derivative)
            s1, s2 = rng.sample(states, 2)
            q = "rate_of_" + s1
            if rng.random() < 0.4:
                # ... or read by the other derivative directly, with no intermediate in between
                for ln in lines[comp_of[s2]]:
                    if ln["name"] == f"d{s2}_dt":
                        ln["expr"] = ("bin", "-", ln["expr"], ("bin", "*", ("num", "0.5"), ("var", f"d{s1}_dt")))
            elif q not in names:
                lines[rng.choice(comps)].append({"name": q, "expr": ("bin", "*", ("num", "2"), ("var", f"d{s1}_dt")), "comment": None})
                for ln in lines[comp_of[s2]]:
                    if ln["name"] == f"d{s2}_dt":
                        ln["expr"] = ("bin", "+", ln["expr"], ("var", q))
        if (self.allow_rel_arith and not self.smooth_only and avail and rng.random() < getattr(self, "p_indicator", 0.12)
                and "ind_a" not in names and "ind_b" not in names):
            # intermediates that ARE a relation / a connective (numbers 1 or 0 for whatever reads them), read by a
            # state derivative as a sum, a difference and a negation (a numpy bool is not a number: True + True is True)
            pool = avail + live
            lines[rng.choice(comps)].append({"name": "ind_a", "expr": self.rel(pool, 1), "comment": None})
            lines[rng.choice(comps)].append({"name": "ind_b", "expr": self.rel(pool, rng.choice([1, 2])), "comment": None})
            comb = rng.choice([("bin", "+", ("var", "ind_a"), ("var", "ind_b")), ("bin", "-", ("var", "ind_a"), ("var", "ind_b")),
                               ("bin", "+", ("neg", ("var", "ind_a")), ("bin", "*", ("num", "3"), ("var", "ind_b"))),
                               # the indicators (numbers 1 / 0) as operands of Not / And / Or: logical, not bitwise, negation
                               ("cond", ("not", ("var", "ind_a")), ("num", "2.5"), ("var", "ind_b")),
                               ("cond", ("and", [("not", ("var", "ind_b")), ("var", "ind_a")]), ("num", "1.5"), ("num", "0.25"))])
            s0 = rng.choice(states)
            for ln in lines[comp_of[s0]]:
                if ln["name"] == f"d{s0}_dt":
                    ln["expr"] = ("bin", "+", ln["expr"], comb)
            if len(states) >= 2 and rng.random() < 0.35:
                # a state whose derivative IS a relation (a flag that counts time above a threshold): the schemes
                # differentiate it and the symbolic right-hand side substitutes it
                s1 = rng.choice([s_ for s_ in states if s_ != s0])
                for ln in lines[comp_of[s1]]:
                    if ln["name"] == f"d{s1}_dt":
                        ln["expr"] = self.rel(pool, 1)
        blocks = []
        for c in comps:
            sts = [s for s in states if comp_of[s] == c]
            hdr = [c] if c != "" else []
            if sts:
                blocks.append({"kind": "states", "comps": hdr, "entries": [
                    {"name": s, "value": self.value_expr(), "unit": None, "desc": None} for s in sts]})
        for c in comps:
            ps = [p for p in params if rng.choice(comps) == c] if len(comps) > 1 else list(params)
            hdr = [c] if c != "" else []
            if ps:
                blocks.append({"kind": "parameters", "comps": hdr, "entries": [
                    {"name": p, "value": self.value_expr(), "unit": None, "desc": None} for p in ps]})
        placed = {en["name"] for b in blocks if b["kind"] == "parameters" for en in b["entries"]}
        rest = [p for p in params if p not in placed]
        if rest:
            c = comps[0]
            blocks.append({"kind": "parameters", "comps": [c] if c != "" else [], "entries": [
                {"name": p, "value": self.value_expr(), "unit": None, "desc": None} for p in rest]})
        # a parameter may have ended up in two blocks of different components: keep the first
        seen = set()
        for b in blocks:
            if b["kind"] == "parameters":
                b["entries"] = [en for en in b["entries"] if not (en["name"] in seen or seen.add(en["name"]))]
        blocks = [b for b in blocks if b["kind"] != "parameters" or b["entries"]]
        for c in comps:
            if lines[c]:
                rng.shuffle(lines[c])
                blocks.append({"kind": "expressions", "comps": [c] if c != "" else [], "lines": lines[c]})
        # header-less expression blocks must not directly follow a headed one (they would be
        # absorbed by it: the grammar takes a maximal run of assignments)
        if "" in comps and len(comps) > 1:
            hl = [b for b in blocks if b["kind"] == "expressions" and not b["comps"]]
            others = [b for b in blocks if not (b["kind"] == "expressions" and not b["comps"])]
            decls = [b for b in others if b["kind"] != "expressions"]
            exprs = [b for b in others if b["kind"] == "expressions"]
            blocks = decls + hl + exprs
        if decorate:
            self.decorate(blocks)
        return {"blocks": blocks, "shape": shape, "unused": sorted(unused)}

    def value_expr(self):
        rng = self.rng
        r = rng.random()
        if r < 0.75:
            return self.lit()
        if r < 0.85:
            return ("neg", self.lit())
        return ("bin", rng.choice("+*-/"), self.lit(), self.poslit())

    def decorate(self, blocks):
        rng = self.rng
        for b in blocks:
            if b["kind"] in ("states", "parameters"):
                for en in b["entries"]:
                    if rng.random() < 0.3:
                        en["unit"] = rng.choice(["mV", "ms", "1/ms", "uA/cm**2", "mM"])
                    if rng.random() < 0.2:
                        en["desc"] = rng.choice(["membrane potential", "a gate", "rate"])

    def inputs(self, model, n=4):
        """sample points: dyadic rationals of moderate size; the first is the default values"""
        rng = self.rng
        s = model_summary(model)
        # thresholds the text compares with: values on, next to and beyond them make both sides of every such comparison reachable
        # (the dyadic grid alone never exceeds 2 in absolute value)
        try:
            defs, _, _ = model_defs(model)
            lits = sorted({c for e in defs.values() for c in relation_literals(e) if abs(c) <= 1e3})
        except Exception:  # noqa: BLE001
            lits = []
        special = sorted({v for c in lits for v in (c, c + 0.125, c - 0.125, -c, c * 2 + 1)})

        def value():
            if special and rng.random() < 0.2:
                return rng.choice(special)
            return rng.randrange(-16, 17) / 8.0
        pts = []
        for _ in range(n):
            pts.append({
                "t": rng.choice([0.0, 0.5, 1.0, 2.25, 3.0, -0.75, -2.0]) if not (special and rng.random() < 0.15) else rng.choice(special),
                "dt": rng.choice([0.0, 2.0 ** -40, 0.0625, 1.0, -0.5, 2.0 ** 20, 0.01]),
                "states": {x: value() for x in s["states"]},
                "params": {x: value() for x in s["parameters"]},
            })
        return pts
