"""C04 - names and array slots agree across every generated function.

 1. theorems of coq/Props/C04.v (index tables are bijections refusing unknown names; the init
    functions put an override in exactly the indexed slot; validated rhs / monitor_values write
    slot index(name); argument order changes only the formals);
 2. correspondence: the index tables the implementation emits equal the mirror's tables
    (sorted_states / param_names / sorted_names), are duplicate free, and the exported skeletons
    of rhs / monitor_values / schemes pass the validators against those tables (also with
    remove_unused);
 3. direct, per backend (numpy always; jax and C on a subsample, including models with more
    than ten states so that slot numbers have two digits): index functions on declared and
    foreign names, init functions with random keyword overrides and an unknown keyword, declared
    counts vs array lengths, every slot of rhs / monitor_values / schemes against the value the
    model defines for the name the index function maps to that slot, and all 6 + 24 argument
    orders called positionally.
"""
from __future__ import annotations

import random
import sys

import numpy as np

import cback
import core
import family
import impl
import lang
import pipeline
from pipeline import close

from gotranx.codegen.python import PythonCodeGenerator, Format
from gotranx.codegen.jax import JaxCodeGenerator
from gotranx.codegen.base import SchemeArgument, RHSArgument
from gotranx.schemes import get_scheme
import gotranx


def foreign_names(names):
    """unknown names next to known ones: a known name extended, and a proper prefix of a known name"""
    out = []
    if names:
        out.append(names[0] + "x")
        out.append(names[-1] + "_")
        if len(names[-1]) > 1:
            out.append(names[-1][:-1])
    return [x for x in out if x not in names]


def value_of(drv, ex):
    r = drv.ask(["evalclosed", [lang.to_sx(ex)]])
    return core.hexf(r["values"][0])


def check_model(rep, drv, gen, rng, m, text, c, with_jax, with_c):
    issue = family.mirror_issue(c, text)
    lay = c.impl_layout()
    defs, stv, pav = lang.model_defs(m)
    failing = None
    structural = None

    def fail(what, **kw):
        nonlocal failing
        if failing is None:
            d = {"kind": "direct", "text": text}
            d.update(kw)
            failing = (what, d)

    for ru in (False, True):
        code = family.try_generate(rep, c, text, schemes=impl.ALL_SCHEMES, remove_unused=ru)
        if isinstance(code, Exception):
            rep.count("generation_raises:" + type(code).__name__)
            return
        fns = impl.export_functions(code)
        ns = impl.exec_module(code)
        tables = {"state": lay["sorted_states"], "parameter": lay["params"], "monitor": lay["order"]}
        # ---- index functions
        for kind, names in tables.items():
            f = ns[f"{kind}_index"]
            got = [f(x) for x in names]
            if sorted(got) != list(range(len(names))):
                fail(f"{kind}_index is not a bijection onto 0..{len(names)-1}: {dict(zip(names, got))}", remove_unused=ru)
            if issue is None and got != list(range(len(names))):
                fail(f"{kind}_index differs from the slot table the generated functions use", remove_unused=ru,
                     table=names, got=got)
            for foreign in ["__nope__", "X" + (names[0] if names else "q"), ""] + foreign_names(names):
                if foreign in names:
                    continue
                try:
                    r = f(foreign)
                    fail(f"{kind}_index accepts the unknown name {foreign!r} (returns {r!r})", remove_unused=ru)
                except KeyError:
                    pass
        # ---- init functions
        for kind, names, vals in (("state", lay["sorted_states"], stv), ("parameter", lay["params"], pav)):
            init = ns[f"init_{kind}_values"]
            arr = np.array(init(), dtype=float)
            if arr.shape != (len(names),):
                fail(f"init_{kind}_values() has shape {arr.shape}, {len(names)} {kind}s are declared", remove_unused=ru)
                continue
            want = [value_of(drv, vals[x]) for x in names]
            for i, (x, w) in enumerate(zip(names, want)):
                if not close(float(arr[i]), w, abs(w)):
                    fail(f"init_{kind}_values()[{i}] = {arr[i]!r} but {x} is declared as {w!r}", remove_unused=ru)
            if names:
                ks = rng.sample(names, k=rng.randint(1, len(names)))
                ov = {k: float(rng.randrange(-40, 40)) + 0.5 for k in ks}
                arr2 = np.array(init(**ov), dtype=float)
                for i, x in enumerate(names):
                    w = ov.get(x, want[i])
                    if not close(float(arr2[i]), w, abs(w)):
                        fail(f"init_{kind}_values(**{ov})[{i}] = {arr2[i]!r}, expected {w!r} for {x}", remove_unused=ru)
                try:
                    init(**{"__nope__": 1.0})
                    fail(f"init_{kind}_values accepts an unknown keyword", remove_unused=ru)
                except KeyError:
                    pass
        # ---- validators against the implementation's tables
        if issue is None:
            n = len(lay["sorted_states"])
            try:
                vs = {
                    "rhs": pipeline.validate(drv, "rhs", 0, n, [], impl.body_to_sx(fns["rhs"]["body"])),
                    "monitor_values": pipeline.validate(drv, "named", 0, len(lay["order"]), lay["order"],
                                                        impl.body_to_sx(fns["monitor_values"]["body"])),
                    "explicit_euler": pipeline.validate(drv, "euler", 1, n, [], impl.body_to_sx(fns["explicit_euler"]["body"])),
                }
                badv = {k: v for k, v in vs.items() if not v.get("valid")}
                if badv:
                    structural = ("rejected by the verified validator: " + str(badv),
                                  {"kind": "validator", "relation": "Valid.valid_rhs / valid_named / valid_euler", "text": text,
                                   "remove_unused": ru, "failing_input": None})
            except impl.SkeletonError as ex:
                structural = ("statement outside the skeleton: " + str(ex),
                              {"kind": "validator", "relation": "skeleton export", "text": text, "failing_input": None})
        # ---- slots vs meaning
        pts, _ = family.usable_points(gen, m, 8, want=2)
        for pt, ref, S in pts:
            isx, st, ps = pipeline.inputs_sx(lay, pt)
            with np.errstate(all="ignore"):
                rv = np.array(impl.call_numpy(ns["rhs"], fns["rhs"]["args"], pt["t"], st, ps), dtype=float)
                mv = np.array(impl.call_numpy(ns["monitor_values"], fns["monitor_values"]["args"], pt["t"], st, ps), dtype=float)
            if rv.shape != (len(lay["sorted_states"]),):
                fail(f"rhs returns shape {rv.shape}", inputs=pt, remove_unused=ru)
            if mv.shape != (len(lay["order"]),):
                fail(f"monitor_values returns shape {mv.shape}, monitor_index has {len(lay['order'])} names", inputs=pt, remove_unused=ru)
                continue
            for x in lay["sorted_states"]:
                i = ns["state_index"](x)
                if not close(float(rv[i]), ref[f"d{x}_dt"], S):
                    fail(f"rhs[state_index({x!r})={i}] = {rv[i]!r} but d{x}_dt = {ref[f'd{x}_dt']!r}", inputs=pt, remove_unused=ru)
            for x in lay["order"]:
                i = ns["monitor_index"](x)
                if not close(float(mv[i]), ref[x], S):
                    fail(f"monitor_values[monitor_index({x!r})={i}] = {mv[i]!r} but {x} = {ref[x]!r}", inputs=pt, remove_unused=ru)
            dt = 0.125
            for sch in impl.ALL_SCHEMES:
                with np.errstate(all="ignore"):
                    ev = np.array(impl.call_numpy(ns[sch], fns[sch]["args"], pt["t"], st, ps, dt=dt), dtype=float)
                if ev.shape != (len(lay["sorted_states"]),):
                    fail(f"{sch} returns shape {ev.shape}", inputs=pt, remove_unused=ru)
                    continue
                if sch == "explicit_euler" or sch == "hybrid_rush_larsen":   # no stiff states given: Euler
                    for x in lay["sorted_states"]:
                        i = ns["state_index"](x)
                        w = pt["states"][x] + dt * ref[f"d{x}_dt"]
                        if not close(float(ev[i]), w, S):
                            fail(f"{sch}[state_index({x!r})={i}] = {ev[i]!r}, expected {w!r}", inputs=pt, remove_unused=ru)
        # ---- the hybrid scheme with every state stiff writes the slots of the generalized scheme, name by name
        #      (states whose rate does not contain them get the Euler update wherever they sit in the layout)
        if not failing and lay["sorted_states"]:
            code_h = family.try_generate(rep, c, text, schemes=["hybrid_rush_larsen", "generalized_rush_larsen"],
                                         stiff_states=list(lay["sorted_states"]), remove_unused=ru)
            if not isinstance(code_h, Exception):
                ns_h = impl.exec_module(code_h)
                fns_h = impl.export_functions(code_h)
                for pt, ref, S in pts:
                    isx, st, ps = pipeline.inputs_sx(lay, pt)
                    with np.errstate(all="ignore"):
                        hv = np.array(impl.call_numpy(ns_h["hybrid_rush_larsen"], fns_h["hybrid_rush_larsen"]["args"], pt["t"], st, ps, dt=0.125), dtype=float)
                        gv = np.array(impl.call_numpy(ns_h["generalized_rush_larsen"], fns_h["generalized_rush_larsen"]["args"], pt["t"], st, ps, dt=0.125), dtype=float)
                    if hv.shape != gv.shape:
                        fail(f"hybrid_rush_larsen (all states stiff) returns shape {hv.shape}, generalized {gv.shape}", inputs=pt, remove_unused=ru)
                        break
                    for x in lay["sorted_states"]:
                        i = ns["state_index"](x)
                        if np.isfinite(gv[i]) and not close(float(hv[i]), float(gv[i]), S + abs(float(gv[i]))):
                            fail(f"hybrid_rush_larsen (all states stiff)[state_index({x!r})={i}] = {hv[i]!r}, generalized_rush_larsen gives {gv[i]!r}",
                                 inputs=pt, remove_unused=ru)
                    rep.count("hybrid_all_stiff_points")
        if failing:
            break
    # ---- argument orders (numpy generator; the jax one shares the code path and is sampled below)
    if failing is None:
        cg = PythonCodeGenerator(c.ode, format=Format.none)
        pt = gen.inputs(m, 1)[0]
        isx, st, ps = pipeline.inputs_sx(lay, pt)
        pos = {"s": np.array(st, dtype=float), "t": pt["t"], "p": np.array(ps, dtype=float), "d": 0.25}
        base = {}
        for kind, orders in (("rhs", [o.value for o in RHSArgument]), ("monitor_values", [o.value for o in RHSArgument]),
                             ("explicit_euler", [o.value for o in SchemeArgument]),
                             ("generalized_rush_larsen", rng.sample([o.value for o in SchemeArgument], 6))):
            bodies = set()
            for order in orders:
                if kind == "rhs":
                    src = cg.rhs(order=order)
                elif kind == "monitor_values":
                    src = cg.monitor_values(order=order)
                else:
                    src = cg.scheme(get_scheme(kind), order=order)
                sk = impl.export_functions("import numpy\n" + src)[kind]
                want_args = [{"s": "states", "t": "t", "p": "parameters", "d": "dt"}[ch] for ch in order]
                if sk["args"] != want_args:
                    fail(f"{kind} generated with order {order!r} has formals {sk['args']}, expected {want_args}", order=order)
                bodies.add(src.split("):", 1)[1] if "):" in src else src)
                fn = impl.exec_module("import numpy\n" + src)[kind]
                with np.errstate(all="ignore"):
                    try:
                        out = np.array(fn(*[pos[ch] for ch in order]), dtype=float)
                    except Exception as ex:  # noqa: BLE001
                        fail(f"{kind} generated with order {order!r}, called positionally in that order, raises {ex!r}", order=order, inputs=pt)
                        continue
                if kind not in base:
                    base[kind] = out
                elif not family.eq_arrays(base[kind], out):
                    fail(f"{kind}: argument order {order!r} changes the result", order=order, inputs=pt)
            if len(bodies) != 1:
                fail(f"{kind}: the argument order changes the function body, not only the formals")
    # ---- jax
    if failing is None and with_jax:
        try:
            jcode = impl.gen_python(c.ode, schemes=["explicit_euler"], backend="jax")
            jns = cback.jax_module(jcode)
            jf = impl.export_functions(jcode)
        except Exception as ex:  # noqa: BLE001
            rep.count("jax_backend_raises:" + type(ex).__name__)
            jns = None
        if jns is not None:
            rep.count("jax_models")
            pts, _ = family.usable_points(gen, m, 6, want=1)
            for pt, ref, S in pts:
                isx, st, ps = pipeline.inputs_sx(lay, pt)
                rv = cback.call_jax(jns["rhs"], jf["rhs"]["args"], pt["t"], st, ps)
                mv = cback.call_jax(jns["monitor_values"], jf["monitor_values"]["args"], pt["t"], st, ps)
                ev = cback.call_jax(jns["explicit_euler"], jf["explicit_euler"]["args"], pt["t"], st, ps, dt=0.125)
                if rv.shape != (len(lay["sorted_states"]),) or mv.shape != (len(lay["order"]),):
                    fail(f"jax: rhs shape {rv.shape}, monitor_values shape {mv.shape}; declared {len(lay['sorted_states'])} states, {len(lay['order'])} monitors",
                         inputs=pt, backend="jax")
                    continue
                for x in lay["sorted_states"]:
                    i = jns["state_index"](x)
                    if not close(float(rv[i]), ref[f"d{x}_dt"], S, 1e-8):
                        fail(f"jax rhs[state_index({x!r})={i}] = {rv[i]!r} but d{x}_dt = {ref[f'd{x}_dt']!r}", inputs=pt, backend="jax")
                    w = pt["states"][x] + 0.125 * ref[f"d{x}_dt"]
                    if not close(float(ev[i]), w, S, 1e-8):
                        fail(f"jax explicit_euler[state_index({x!r})={i}] = {ev[i]!r}, expected {w!r}", inputs=pt, backend="jax")
                for x in lay["order"]:
                    i = jns["monitor_index"](x)
                    if not close(float(mv[i]), ref[x], S, 1e-8):
                        fail(f"jax monitor_values[monitor_index({x!r})={i}] = {mv[i]!r} but {x} = {ref[x]!r}", inputs=pt, backend="jax")
            for kind, names, vals in (("state", lay["sorted_states"], stv), ("parameter", lay["params"], pav)):
                arr = np.array(jns[f"init_{kind}_values"](), dtype=float)
                want = [value_of(drv, vals[x]) for x in names]
                if arr.shape != (len(names),) or any(not close(float(a), w, abs(w)) for a, w in zip(arr, want)):
                    fail(f"jax init_{kind}_values() = {arr.tolist()}, declared {dict(zip(names, want))}", backend="jax")
    # ---- C
    if failing is None and with_c:
        for cru in (False, True):      # the C module with and without removal of unused variables: same tables, same counts
            try:
                ccode = cback.gen_c(c.ode, schemes=["explicit_euler"], remove_unused=cru)
            except Exception as ex:  # noqa: BLE001
                rep.count("c_generation_raises:" + type(ex).__name__)
                ccode = None
            if ccode is not None:
                cm = cback.CModule(ccode)
                try:
                    if not cm.compile_ok:
                        rep.count("c_does_not_compile")
                    else:
                        rep.count("c_models")
                        for kind, names in (("state", lay["sorted_states"]), ("parameter", lay["params"]), ("monitor", lay["order"])):
                            got = [cm.index(f"{kind}_index", x) for x in names]
                            if got != list(range(len(names))):
                                fail(f"C {kind}_index: {dict(zip(names, got))}", backend="C", remove_unused=cru)
                            for foreign in ["__nope__"] + foreign_names(names):
                                if foreign not in names and cm.index(f"{kind}_index", foreign) != -1:
                                    fail(f"C {kind}_index accepts the unknown name {foreign!r}", backend="C", remove_unused=cru)
                        for cname, want in (("NUM_STATES", len(lay["sorted_states"])), ("NUM_PARAMS", len(lay["params"])),
                                            ("NUM_MONITORED", len(lay["order"]))):
                            if cm.constant(cname) != want:
                                fail(f"C {cname} = {cm.constant(cname)}, expected {want}", backend="C", remove_unused=cru)
                        for kind, names, vals in (("state", lay["sorted_states"], stv), ("parameter", lay["params"], pav)):
                            arr = cm.call_init(f"init_{kind}_values", len(names))
                            want = [value_of(drv, vals[x]) for x in names]
                            for i, (a_, w) in enumerate(zip(arr, want)):
                                if not close(float(a_), w, abs(w)):
                                    # C integer arithmetic in declared values belongs to C02; only slots are judged here
                                    if all(close(float(b_), w2, abs(w2)) for b_, w2 in zip(sorted(arr), sorted(want))):
                                        fail(f"C init_{kind}_values puts values in the wrong slots: {arr.tolist()} vs {dict(zip(names, want))}", backend="C", remove_unused=cru)
                finally:
                    cm.close()
    family.settle(rep, issue, failing, structural)


def main(argv=None):
    a = core.std_args(argv)
    rep = core.Report("C04", a.tier, a.seed)
    core.props_or_violation(rep)
    drv = core.Driver()
    if a.replay:
        import json as _json
        family.replay_text_case(rep, drv, _json.load(open(a.replay)), check_model, True, True)
        drv.close()
        return rep.finish(level="proof", rule="replay of " + a.replay, trusted_base=["see the full check"])
    rng = random.Random(a.seed)
    gen = lang.Gen(rng, max_depth=3)
    n = a.n or (24 if a.tier == "quick" else 500)
    # directed: intermediates that nothing reads and whose own dependencies would change the order of the derivatives if the
    # statements were sorted again without them (remove_unused must not move a slot)
    import textmodel
    for text in ("parameters(a=1.0, b=2.0, c=3.0)\nstates(u=1.0, v=2.0, w=3.0)\nprobe = b\ndu_dt = w\ndv_dt = u\ndw_dt = b\n",
                 "states(x=1, y=2, z=3)\nparameters(p=1, q=2)\nmon1 = z*q\nmon2 = mon1 + y\ndx_dt = y\ndy_dt = z - p\ndz_dt = q - x\n",
                 # a quantity whose name is the jax generator's name for a result slot beyond the states (monitor_values has more slots
                 # than rhs): the jax module is either refused or puts every quantity in the slot monitor_index reports
                 "states(x=1, y=2)\nparameters(a=3, b=0.5)\n_values_2 = a*x\nz = _values_2 + b*y\nw = z*_values_2\nv = w + _values_2\ndx_dt = v - x\ndy_dt = _values_2 - y\n"):
        c_ = pipeline.Case(drv, text)
        m_ = textmodel.model_from_items(c_.captured)
        core.guarded(rep, text, check_model, rep, drv, gen, rng, m_, text, c_, with_jax=True, with_c=True)
        rep.case(key=text, nontrivial=True)
    for i in range(n):
        big = (i % 6 == 1)
        kw = dict(n_states=rng.choice([11, 12, 13]), n_inters=rng.choice([0, 3])) if big else {}
        if big:
            gen.max_depth = 2
        else:
            gen.max_depth = 3
        got = family.new_case(drv, rng, gen, rep, **kw)
        if got is None:
            continue
        m, text, c = got
        core.guarded(rep, text, check_model, rep, drv, gen, rng, m, text, c,
                     with_jax=(big or i % 6 == 0), with_c=(i % 3 == 0))
        s = lang.model_summary(m)
        rep.case(key=text, nontrivial=len(s["states"]) + len(s["parameters"]) > 2)
        rep.count("models_with_more_than_10_states", 1 if len(s["states"]) > 10 else 0)
        rep.sample({"text": text[:600]}, limit=2)
    drv.close()
    return rep.finish(
        level="proof",
        rule="random accepted models (every 6th with 11-13 states); non-trivial = more than two declared names; per model: "
             "remove_unused off/on x (index functions incl. foreign names - unknown, a known name extended, a proper prefix of a known name -, init functions incl. overrides and unknown keyword, "
             "validators, slots of rhs/monitor_values/3 schemes at 2 points), 6 rhs + 6 monitor + 24 Euler + 6 RL argument orders "
             "called positionally; jax on every 6th model and on every big one, C (gcc) on every 3rd",
        trusted_base=["Coq 8.16.1 kernel", "extraction + ocaml/driver.ml", "harness skeleton exporter", "gcc, ctypes, jax as executors"],
        assumptions=["declared default values are compared through the extracted evaluator on the value expression as written"],
    )


if __name__ == "__main__":
    sys.exit(main())
