"""C15 - importing a Myokit / CellML model preserves its dynamics.

 1. theorems of coq/Props/C15.v (partial: the substitution passes as renamings - a renaming that maps
    every reference to the referent's unique name preserves the meaning; passes compose; a pass that
    matches nothing changes nothing);
 2. correspondence: for every converted model, each reference in each converted expression must be the
    unique name of a state, constant or intermediate of the converted model (no dangling local name),
    i.e. the hypothesis of the renaming theorem holds;
 3. direct: the shipped .mmt / .cellml files and Myokit models built from generated models (nested
    variables, names that clash with sympy names, if / piecewise, every operator): every state with
    its initial value and every constant with its value appears under its unique name; after the
    documented save-and-reload step the generated rhs equals Model.evaluate_derivatives at the initial
    state and at perturbed states; gotran_to_myokit preserves values, units and derivatives for
    imported models and for models written as .ode text.
"""
from __future__ import annotations

import glob
import math
import os
import random
import shutil
import sys
import tempfile
import warnings

import numpy as np

import core
import impl
import lang

import gotranx
import myokit
import myokit.lib.guess
import myokit.formats.cellml
from gotranx.myokit import myokit_to_gotran, mmt_to_gotran, cellml_to_gotran, gotran_to_myokit, reserved_names

CLASH = ["pi", "pi", "beta", "gamma", "zeta", "E", "I", "S", "N", "Q", "O", "lambda_v", "Symbol", "oo", "alpha", "re", "im", "sign", "Max", "Min", "Abs", "Float"]


def mmt_expr(e):
    """harness AST -> Myokit expression text"""
    k = e[0]
    if k == "num":
        return e[1].replace("E", "e")
    if k == "var":
        return "engine.time" if e[1] in ("t", "time") else e[1]
    if k == "pi":
        return "3.141592653589793"
    if k == "bin":
        op = "^" if e[1] == "**" else e[1]
        return f"({mmt_expr(e[2])} {op} {mmt_expr(e[3])})"
    if k == "neg":
        return f"(-{mmt_expr(e[1])})"
    if k == "fn":
        f = {"ln": "log", "Abs": "abs"}.get(e[1], e[1])
        return f"{f}({mmt_expr(e[2])})"
    if k == "rel":
        op = {"Lt": "<", "Gt": ">", "Le": "<=", "Ge": ">=", "Eq": "=="}[e[1]]
        return f"({mmt_expr(e[2])} {op} {mmt_expr(e[3])})"
    if k == "not":
        return f"(not {mmt_expr(e[1])})"
    if k in ("and", "or"):
        return "(" + f" {k} ".join(mmt_expr(a) for a in e[1]) + ")"
    if k == "cond":
        return f"if({mmt_expr(e[1])}, {mmt_expr(e[2])}, {mmt_expr(e[3])})"
    raise ValueError(k)


def build_mmt(rng, gen):
    """a Myokit model text with 2 components, nested variables and clashing names"""
    names = rng.sample(CLASH, 5) + ["V", "m_gate", "h2"]
    s1, s2, s3 = "V", names[0], "h2"
    p1, p2 = names[1], "g_max"
    nested_a, nested_b = names[2], names[3]       # nested under s2; same local names reused under s3
    inter = names[4]
    pool = [s1, s2, s3, p1, p2]
    e_inter = gen.expr(pool, 3)
    e_a = gen.expr([s1, p1], 2)
    e_b = gen.expr([s1, p2], 2)
    e_a3 = gen.expr([s1, s3], 2)
    # a variable that reads the derivative of a state (dot(x) inside an expression), own component or foreign
    probe = rng.random() < 0.6
    probe_def = f"rate_probe = 2 * dot({s1}) + dot(gate.{s3}) + 0.5 * dot(gate.{s2})\n    in [mV/ms]\n" if probe else ""   # s2 clashes with a sympy name
    probe_use = " + 0.01 * rate_probe" if probe else ""
    text = f"""[[model]]
name: generated
# Initial values
memb.{s1} = -1.25
gate.{s2} = 0.5
gate.{s3} = 0.75
memb.w_dup = 0.3
gate.w_dup = -0.6
memb.K_clamp = 140

[engine]
time = 0 bind time

[memb]
dot({s1}) = -{inter} + gate.{s2} * {p2} - {s1} * 0.5 + 0.001 * K_clamp
    in [nM]
dot(K_clamp) = 0
{inter} = {mmt_expr(e_inter).replace(s2, 'gate.' + s2).replace(s3, 'gate.' + s3).replace(p1, 'gate.' + p1)}
{p2} = 2.5
    in [pS/nF]
{probe_def}dot(w_dup) = -k_loc * w_dup + {s1} * 0.1{probe_use}
    k_loc = 1.5 + 0.1 * {s1}

[gate]
use memb.{s1} as {s1}
use memb.{p2} as {p2}
{p1} = 0.125
dot({s2}) = {nested_a} * (1 - {s2}) - {nested_b} * {s2}
    {nested_a} = {mmt_expr(e_a)} + sub_c * sub_k
        sub_c = 0.5
        sub_k = 0.25 * {s1}
    {nested_b} = {mmt_expr(e_b)} - sub_c / sub_k
        sub_c = 2
        sub_k = 1.5 + 0.125 * {s1} * {s1}
dot({s3}) = {nested_a} - {s3} * if({s1} < -1, 2, 3)
    {nested_a} = {mmt_expr(e_a3)}
dot(w_dup) = -k_loc * w_dup + {s3}
    k_loc = 2 + 0.25 * {s3}
"""
    return text


def compare_with_myokit(rep, model, protocol, label, text=None, perturb=2, rng=None):
    """convert, save, reload, generate; compare rhs with Myokit's own evaluation"""
    replay = {"kind": "direct", "label": label, "mmt": text}
    with warnings.catch_warnings():
        warnings.simplefilter("ignore")
        try:
            ode = myokit_to_gotran(model, protocol=protocol)
        except Exception as ex:  # noqa: BLE001
            rep.violation(f"{label}: conversion raises {type(ex).__name__}: {str(ex)[:120]}", replay)
            return None
    m2 = model.clone()
    if protocol is not None:
        myokit.lib.guess.add_embedded_protocol(m2, protocol)
    m2.create_unique_names()

    def gname(v):
        n = v.uname()
        return n + "_" if n in reserved_names else n
    # ---- states / constants under their unique names
    gs = {s.name: float(s.value) for s in ode.states}
    gp = {p.name: float(p.value) for p in ode.parameters}
    for v, iv in zip(m2.states(), m2.initial_values(as_floats=True)):
        if gname(v) not in gs or not math.isclose(gs[gname(v)], iv, rel_tol=1e-12, abs_tol=0):
            rep.violation(f"{label}: state {v.qname()} (initial value {iv}) does not appear as {gname(v)} with that value: {gs.get(gname(v))}", replay)
            return None
    gi = {a_.name for a_ in ode.intermediates}
    for v in m2.variables(deep=True, const=True):
        if v.is_bound():
            continue
        if isinstance(v.rhs(), myokit.Number):
            if gname(v) not in gp or not math.isclose(gp[gname(v)], v.eval(), rel_tol=1e-12, abs_tol=0):
                rep.violation(f"{label}: constant {v.qname()} = {v.eval()} does not appear as parameter {gname(v)}: {gp.get(gname(v))}", replay)
                return None
        elif gname(v) not in gi and gname(v) not in gp:
            # a constant given by an expression may be kept as an expression (its value is then covered by the derivatives)
            rep.violation(f"{label}: constant {v.qname()} does not appear under its unique name {gname(v)}", replay)
            return None
    # ---- no dangling reference (hypothesis of the renaming theorem)
    known = set(gs) | set(gp) | {a.name for a in ode.intermediates} | {a.name for a in ode.state_derivatives} | {"time", "t"}
    for a_ in ode.intermediates + ode.state_derivatives:
        free = {str(s) for s in a_.expr.free_symbols}
        if not free <= known:
            rep.violation(f"{label}: the converted expression of {a_.name} refers to {sorted(free - known)}, which the converted model does not define",
                          dict(replay, kind="correspondence", relation="every reference is renamed to a unique name of the model", failing_input=None),
                          failing_input_found=False)
            return None
    # ---- the documented save-and-reload step
    d = tempfile.mkdtemp(prefix="gxc15_")
    try:
        p = os.path.join(d, "m.ode")
        try:
            ode.save(p)
            o2 = gotranx.load_ode(p)
        except Exception as ex:  # noqa: BLE001
            rep.violation(f"{label}: save-and-reload raises {type(ex).__name__}: {str(ex)[:140]}", dict(replay, saved=open(p).read()[:1500] if os.path.exists(p) else None))
            return None
        code = impl.gen_python(o2)
        ns = impl.exec_module(code)
    finally:
        shutil.rmtree(d, ignore_errors=True)
    ss = [s.name for s in o2.sorted_states()]
    st0 = np.array(ns["init_state_values"](), dtype=float)
    pr0 = np.array(ns["init_parameter_values"](), dtype=float)
    base = m2.initial_values(as_floats=True)
    mstates = list(m2.states())
    pts = [list(base)]
    rng = rng or random.Random(0)
    for _ in range(perturb):
        pts.append([b * (1 + rng.choice([-0.05, 0.03, 0.1])) + rng.choice([0.0, 1e-3]) for b in base])
    for pt in pts:
        try:
            md = m2.evaluate_derivatives(state=pt)
        except Exception:  # noqa: BLE001
            rep.count("myokit_evaluation_failed")
            continue
        st = st0.copy()
        for v, val in zip(mstates, pt):
            st[ns["state_index"](gname(v))] = val
        with np.errstate(all="ignore"):
            rv = np.array(ns["rhs"](0.0, st, pr0), dtype=float)
        for v, want in zip(mstates, md):
            got = float(rv[ns["state_index"](gname(v))])
            if not (math.isclose(got, want, rel_tol=1e-8, abs_tol=1e-12) or (got != got and want != want)):
                rep.violation(f"{label}: d{gname(v)}/dt = {got!r} from the generated rhs, Myokit evaluates {want!r}", dict(replay, state=pt))
                return None
        rep.count("states_points_compared")
    return o2, m2


def back_to_myokit(rep, ode, label, src_model=None, text=None):
    with warnings.catch_warnings():
        warnings.simplefilter("ignore")
        try:
            mm = gotran_to_myokit(ode)
        except Exception as ex:  # noqa: BLE001
            rep.violation(f"{label}: gotran_to_myokit raises {type(ex).__name__}: {str(ex)[:120]}", {"kind": "direct", "label": label, "text": text})
            return
    vals = {v.name(): v for v in mm.variables(deep=True)}
    for s in ode.states:
        v = vals.get(s.name)
        if v is None or not v.is_state() or not math.isclose(float(v.initial_value(as_float=True)), float(s.value), rel_tol=1e-12):
            rep.violation(f"{label}: converted back to Myokit, state {s.name} (initial value {s.value}) is lost or changed", {"kind": "direct", "label": label, "text": text})
            return
        if s.unit_str and v.unit() is None:
            rep.violation(f"{label}: converted back to Myokit, the unit {s.unit_str!r} of {s.name} is lost", {"kind": "direct", "label": label, "text": text})
            return
    if src_model is not None:
        # units as Myokit knows them, multiplier included ([uV] is [V (1e-06)]), for every variable of the source model that has one
        for vs in src_model.variables(deep=True):
            if vs.unit() is None:
                continue
            nm = vs.uname() + "_" if vs.uname() in reserved_names else vs.uname()
            v = vals.get(nm)
            if v is not None and v.unit() != vs.unit():
                rep.violation(f"{label}: converted back to Myokit, {nm} has unit {v.unit()} where the imported model has {vs.unit()}",
                              {"kind": "direct", "label": label, "text": text})
                return
    for p_ in ode.parameters:
        v = vals.get(p_.name)
        if v is None or not math.isclose(float(v.eval()), float(p_.value), rel_tol=1e-12):
            rep.violation(f"{label}: converted back to Myokit, parameter {p_.name} = {p_.value} is lost or changed", {"kind": "direct", "label": label, "text": text})
            return
    # derivatives of the back-converted model vs the gotranx rhs
    code = impl.gen_python(ode)
    ns = impl.exec_module(code)
    st0 = np.array(ns["init_state_values"](), dtype=float)
    pr0 = np.array(ns["init_parameter_values"](), dtype=float)
    try:
        md = mm.evaluate_derivatives()
    except Exception:  # noqa: BLE001
        rep.count("myokit_evaluation_failed")
        return
    with np.errstate(all="ignore"):
        rv = np.array(ns["rhs"](0.0, st0, pr0), dtype=float)
        rv_j = np.array(ns["rhs"](0.0, st0 * (1 + 1e-13), pr0), dtype=float)     # conditioning probe (sin of 1e67 is noise)
    for v, want in zip(mm.states(), md):
        got = float(rv[ns["state_index"](v.name())])
        got_j = float(rv_j[ns["state_index"](v.name())])
        if not (abs(got_j - got) <= 1e-9 * (1 + abs(got))):
            rep.count("back_conversion_ill_conditioned_state_skipped")
            continue
        if not (math.isclose(got, want, rel_tol=1e-8, abs_tol=1e-12) or (got != got and want != want)):
            rep.violation(f"{label}: converted back to Myokit, d{v.name()}/dt evaluates to {want!r}; the gotranx rhs gives {got!r}", {"kind": "direct", "label": label, "text": text})
            return
    rep.count("back_conversions_compared")


def main(argv=None):
    a = core.std_args(argv)
    rep = core.Report("C15", a.tier, a.seed)
    core.props_or_violation(rep)
    rng = random.Random(a.seed)
    gen = lang.Gen(rng, max_depth=3, p_cond=0.2, funcs=["exp", "cos", "sin", "atan", "log", "sqrt", "abs", "floor", "tan"], allow_mod=False,
                   allow_ccond=False, allow_rel_arith=False)
    core.CASE_SECONDS = 240
    if a.replay:
        import json as _json
        data = _json.load(open(a.replay))
        if data.get("mmt"):
            text = data["mmt"]
            def replayed():
                model = myokit.parse_model(text)
                model.validate()
                r = compare_with_myokit(rep, model, None, "replay", text=text, rng=rng)
                if r is not None:
                    back_to_myokit(rep, r[0], "replay -> myokit")
            core.guarded(rep, text, replayed)
        elif data.get("text"):
            text = data["text"]
            ode, _, err, _ = impl.load_text(text)
            if err is None:
                core.guarded(rep, text, back_to_myokit, rep, ode, "replay")
        else:
            rep.notes.append("the replay file holds neither an .mmt nor an .ode text")
        rep.case(key=a.replay, nontrivial=True)
        return rep.finish(level="proof", rule="replay of " + a.replay, trusted_base=["see the full check"])
    # ---- shipped files
    files = sorted(glob.glob(str(core.REPO / "tests" / "mmt_files" / "*.mmt"))) + sorted(glob.glob(str(core.REPO / "tests" / "cellml_files" / "*.cellml")))
    if a.tier == "quick":
        files = [f for f in files if "ToRORd" not in f]
    for f in files:
        def shipped(f=f):
            if f.endswith(".mmt"):
                model, protocol, _ = myokit.load(f)
            else:
                model, protocol = myokit.formats.cellml.CellMLImporter().model(f), None
            r = compare_with_myokit(rep, model, protocol, os.path.basename(f), rng=rng)
            if r is not None:
                back_to_myokit(rep, r[0], os.path.basename(f) + " -> myokit")
        core.guarded(rep, f, shipped)
        rep.case(key=f, nontrivial=True)
        rep.count("shipped_files")
    # ---- generated Myokit models
    n = a.n or (16 if a.tier == "quick" else 300)
    for i in range(n):
        text = build_mmt(rng, gen)
        def generated(text=text):
            try:
                model = myokit.parse_model(text)
                model.validate()
                model.evaluate_derivatives()
            except Exception as ex:  # noqa: BLE001
                rep.count("generated_mmt_rejected_by_myokit:" + type(ex).__name__)
                return
            r = compare_with_myokit(rep, model, None, f"generated #{i}", text=text, rng=rng)
            if r is not None:
                _src = model.clone()
                _src.create_unique_names()
                back_to_myokit(rep, r[0], f"generated #{i} -> myokit", _src, text)
        core.guarded(rep, text, generated)
        rep.case(key=text, nontrivial=True)
        rep.sample({"mmt": text}, limit=2)
    # ---- models written as .ode text, converted to Myokit
    for i in range(6 if a.tier == "quick" else 60):
        m = gen.model(n_comps=rng.choice([1, 2]), n_inters=rng.choice([1, 2, 3]), p_unused=0.0)
        for b in m["blocks"]:
            # Myokit needs named components, and its names start with a letter and contain no blanks
            b["comps"] = ["comp_" + "".join(ch for ch in c_ if ch.isalnum()) for c_ in (b.get("comps") or ["main"])]
        text = lang.render_model(m)
        if "_p" in lang.model_summary(m)["states"] + lang.model_summary(m)["parameters"] + lang.model_summary(m)["assignments"]:
            continue
        ode, _, err, _ = impl.load_text(text)
        if err is not None:
            continue
        core.guarded(rep, text, back_to_myokit, rep, ode, f".ode text #{i}", None, text)
        rep.case(key=text, nontrivial=True)
    return rep.finish(
        level="proof",
        rule="the shipped example.mmt and noble_1962.cellml (ToRORd in the thorough tier); generated .mmt models with two components, aliases, "
             "variables nested under two different states with the same local names, a second level of nesting with the same local names under two branches of one state, same-named states in two components with same-named nested variables, a clamped state (derivative a literal 0), names that clash with sympy names (beta, gamma, E, I, S, N, ...), "
             "if(...), dot(x) read inside expressions and all operators; .ode-text models (whose intermediates may read state derivatives) converted to Myokit; derivatives compared at the initial state and 2 perturbed states",
        trusted_base=["Coq 8.16.1 kernel (the renaming model is partial)", "Myokit's parser, evaluator (evaluate_derivatives), unit system and sympy writer are oracles"],
        assumptions=["relative tolerance 1e-8 between Myokit's evaluation and the generated numpy rhs"],
    )


if __name__ == "__main__":
    sys.exit(main())
