"""C05 - explicit Euler step equals states + dt * rhs.

 1. theorems of coq/Props/C05.v (Euler = states + dt*rhs slot by slot in every commutative
    carrier; dt = 0 returns the states under the ring laws);
 2. correspondence: the generated explicit_euler and rhs skeletons pass the verified validators
    (valid_euler / valid_rhs, with_dt) against the implementation's slot table;
 3. direct: euler(s,t,dt,p) == s + dt*rhs(t,s,p) bit for bit for dt in {0, 2^-40, 1, -0.5, 2^20,..},
    dt = 0 returns s, inputs are not modified; every accepted scheme name (aliases, requested
    in different histories within the process) yields a function of that name computing the same;
    random argument orders called positionally; numpy always, jax and C on a subsample.
"""
from __future__ import annotations

import random
import sys
import warnings

import numpy as np

import cback
import core
import family
import impl
import lang
import pipeline

from gotranx.codegen.python import PythonCodeGenerator, Format
from gotranx.codegen.base import SchemeArgument, RHSArgument
from gotranx.schemes import get_scheme

ALIASES = ["explicit_euler", "forward_euler", "euler", "forward_explicit_euler"]
DTS = [0.0, 2.0 ** -40, 1.0, -0.5, 2.0 ** 20, 0.0625]


def positional(order, t, st, ps, dt=None):
    m = {"s": np.array(st, dtype=float), "t": t, "p": np.array(ps, dtype=float), "d": dt}
    return [m[ch] for ch in order]


def check_model(rep, drv, gen, rng, m, text, c, with_jax, with_c):
    issue = family.mirror_issue(c, text)
    lay = c.impl_layout()
    n = len(lay["sorted_states"])
    code = family.try_generate(rep, c, text, schemes=["explicit_euler"])
    if isinstance(code, Exception):
        rep.count("generation_raises:" + type(code).__name__)
        return
    fns = impl.export_functions(code)
    ns = impl.exec_module(code)
    if "explicit_euler" not in fns:
        rep.violation(f"get_code(scheme=[explicit_euler]) emits no function explicit_euler (functions: {sorted(fns)})",
                      {"kind": "direct", "text": text, "functions": sorted(fns)})
        return
    structural = None
    if issue is None:
        try:
            v1 = pipeline.validate(drv, "rhs", 1, n, [], impl.body_to_sx(fns["rhs"]["body"]))
            v2 = pipeline.validate(drv, "euler", 1, n, [], impl.body_to_sx(fns["explicit_euler"]["body"]))
            pipeline.check_instance(rep, v1, text, "rhs")
            pipeline.check_instance(rep, v2, text, "euler")
            if not (v1.get("valid") and v2.get("valid")):
                structural = (f"explicit_euler / rhs rejected by the verified validator (rhs {v1}, euler {v2})",
                              {"kind": "validator", "relation": "Valid.valid_euler + valid_rhs", "text": text, "code": code,
                               "failing_input": None})
        except impl.SkeletonError as ex:
            structural = ("explicit_euler has a statement outside the skeleton: " + str(ex),
                          {"kind": "validator", "relation": "skeleton export", "text": text, "failing_input": None})
    failing = None

    def fail(what, pt, **kw):
        nonlocal failing
        if failing is None:
            d = {"kind": "direct", "text": text, "inputs": pt}
            d.update(kw)
            failing = (what, d)

    # --- alias histories: request names in a random order, twice, through the public entry points
    cg = PythonCodeGenerator(c.ode, format=Format.none)
    hist = [rng.choice(ALIASES) for _ in range(4)] + ["explicit_euler"]
    alias_fns = []
    with warnings.catch_warnings():
        warnings.simplefilter("ignore")
        for name in hist:
            order = rng.choice([o.value for o in SchemeArgument])
            try:
                src = cg.scheme(get_scheme(name), order=order)
            except Exception as ex:  # noqa: BLE001
                fail(f"scheme name {name!r} is refused: {ex!r}", None, history=hist)
                break
            sk = impl.export_functions("import numpy\n" + src)
            if name not in sk:
                fail(f"requesting scheme {name!r} (history {hist}) emits function(s) {sorted(sk)}", None, history=hist)
                break
            mod = impl.exec_module("import numpy\n" + src)
            alias_fns.append((name, order, mod[name], sk[name]["args"]))
    rhs_orders = [(o.value) for o in RHSArgument]
    rorder = rng.choice(rhs_orders)
    rsrc = cg.rhs(order=rorder)
    rmod = impl.exec_module("import numpy\n" + rsrc)

    for pt in gen.inputs(m, 3):
        isx, st, ps = pipeline.inputs_sx(lay, pt)
        with np.errstate(all="ignore"):
            try:
                f = np.array(impl.call_numpy(ns["rhs"], fns["rhs"]["args"], pt["t"], st, ps), dtype=float)
            except Exception as ex:  # noqa: BLE001
                rep.count("rhs_raises")
                continue
            if not np.all(np.isfinite(f)):
                rep.count("rhs_nonfinite_points")
                continue
            fr = np.array(rmod["rhs"](*positional(rorder, pt["t"], st, ps)), dtype=float)
            if not family.eq_arrays(f, fr):
                fail(f"rhs generated with argument order {rorder} called positionally differs", pt, order=rorder)
            for dt in DTS:
                s0 = np.array(st, dtype=float); p0 = np.array(ps, dtype=float)
                s1 = s0.copy(); p1 = p0.copy()
                try:
                    e = np.array(ns["explicit_euler"](s1, pt["t"], dt, p1), dtype=float)
                except Exception as ex:  # noqa: BLE001
                    fail(f"explicit_euler raises {ex!r}", pt, dt=dt)
                    break
                want = s0 + dt * f
                if not family.eq_arrays(e, want):
                    fail(f"explicit_euler(dt={dt}) = {e.tolist()} but states + dt*rhs = {want.tolist()}", pt, dt=dt)
                if dt == 0.0 and not family.eq_arrays(e, s0):
                    fail(f"explicit_euler with dt = 0 returns {e.tolist()}, states are {s0.tolist()}", pt, dt=dt)
                if not (family.eq_arrays(s1, s0) and family.eq_arrays(p1, p0)):
                    fail("explicit_euler modifies its inputs", pt, dt=dt)
                if e is s1 or (isinstance(e, np.ndarray) and np.shares_memory(e, s1)):
                    fail("explicit_euler returns (a view of) its input array", pt, dt=dt)
            dt = rng.choice(DTS[1:])
            want = np.array(st, dtype=float) + dt * f
            for name, order, fn, args in alias_fns:
                try:
                    e = np.array(fn(*positional(order, pt["t"], st, ps, dt)), dtype=float)
                except Exception as ex:  # noqa: BLE001
                    fail(f"{name} generated with order {order}, called positionally in that order, raises {ex!r}", pt,
                         order=order, alias=name, dt=dt)
                    continue
                if not family.eq_arrays(e, want):
                    fail(f"{name} (order {order}, positional call) = {e.tolist()} but states + dt*rhs = {want.tolist()}",
                         pt, order=order, alias=name, dt=dt)
        if failing:
            break
    # --- other backends
    if failing is None and with_jax:
        try:
            jcode = impl.gen_python(c.ode, schemes=["explicit_euler"], backend="jax")
            jns = cback.jax_module(jcode)
            jf = impl.export_functions(jcode)
            for pt in gen.inputs(m, 1):
                isx, st, ps = pipeline.inputs_sx(lay, pt)
                with np.errstate(all="ignore"):
                    f = np.array(impl.call_numpy(ns["rhs"], fns["rhs"]["args"], pt["t"], st, ps), dtype=float)
                if not np.all(np.isfinite(f)):
                    continue
                for dt in (0.0, 0.0625, -0.5):
                    e = cback.call_jax(jns["explicit_euler"], jf["explicit_euler"]["args"], pt["t"], st, ps, dt=dt)
                    want = np.array(st) + dt * f
                    if not np.allclose(e, want, rtol=1e-12, atol=1e-12):
                        fail(f"jax explicit_euler(dt={dt}) = {e.tolist()} but states + dt*rhs = {want.tolist()}", pt, dt=dt, backend="jax")
            rep.count("jax_models")
        except Exception as ex:  # noqa: BLE001
            rep.count("jax_backend_raises:" + type(ex).__name__)
    if failing is None and with_c:
        ccode = None
        try:
            ccode = cback.gen_c(c.ode, schemes=["explicit_euler"])
        except Exception as ex:  # noqa: BLE001
            rep.count("c_generation_raises:" + type(ex).__name__)
        if ccode is not None:
            cm = cback.CModule(ccode)
            try:
                if not cm.compile_ok:
                    rep.count("c_does_not_compile")
                else:
                    for pt in gen.inputs(m, 1):
                        isx, st, ps = pipeline.inputs_sx(lay, pt)
                        fC, _, _ = cm.call("rhs", n, t=pt["t"], states=st, params=ps)
                        if not np.all(np.isfinite(fC)):
                            continue
                        for dt in (0.0, 0.0625, -0.5, 2.0 ** 20):
                            e, s_after, p_after = cm.call("explicit_euler", n, t=pt["t"], states=st, params=ps, dt=dt)
                            want = np.array(st) + dt * fC
                            if not family.eq_arrays(e, want):
                                fail(f"C explicit_euler(dt={dt}) = {e.tolist()} but states + dt*rhs = {want.tolist()}", pt, dt=dt, backend="C")
                            if not (family.eq_arrays(s_after, st) and family.eq_arrays(p_after, ps)):
                                fail("C explicit_euler modifies its inputs", pt, dt=dt, backend="C")
                    rep.count("c_models")
            finally:
                cm.close()
    # ---- the same identity for the code generated with remove_unused (the step must write each state's own slot whatever is removed)
    if failing is None:
        code_ru = family.try_generate(rep, c, text, schemes=["explicit_euler"], remove_unused=True)
        if not isinstance(code_ru, Exception):
            ns_ru, fns_ru = impl.exec_module(code_ru), impl.export_functions(code_ru)
            for pt in gen.inputs(m, 1):
                isx, st, ps = pipeline.inputs_sx(lay, pt)
                with np.errstate(all="ignore"):
                    try:
                        f0 = np.array(impl.call_numpy(ns["rhs"], fns["rhs"]["args"], pt["t"], st, ps), dtype=float)
                        for dt in (0.0, 0.125):
                            e = np.array(impl.call_numpy(ns_ru["explicit_euler"], fns_ru["explicit_euler"]["args"], pt["t"], st, ps, dt=dt), dtype=float)
                            want = np.array(st) + dt * f0
                            if np.all(np.isfinite(f0)) and not family.eq_arrays(e, want):
                                fail(f"explicit_euler generated with remove_unused (dt={dt}) = {e.tolist()} but states + dt*rhs = {want.tolist()}", pt, dt=dt, remove_unused=True)
                    except Exception as ex:  # noqa: BLE001
                        fail(f"explicit_euler generated with remove_unused raises {type(ex).__name__}: {str(ex)[:100]}", pt, remove_unused=True)
            rep.count("euler_with_remove_unused_compared")
    family.settle(rep, issue, failing, structural)


def main(argv=None):
    a = core.std_args(argv)
    rep = core.Report("C05", a.tier, a.seed)
    core.props_or_violation(rep)
    drv = core.Driver()
    if a.replay:
        import json as _json
        family.replay_text_case(rep, drv, _json.load(open(a.replay)), check_model, True, True)
        drv.close()
        return rep.finish(level="proof", rule="replay of " + a.replay, trusted_base=["see the full check"])
    rng = random.Random(a.seed)
    gen = lang.Gen(rng, max_depth=3)
    n = a.n or (40 if a.tier == "quick" else 800)
    # ---- directed: unread intermediates whose removal would re-order the derivatives if the statements were sorted again without them
    import textmodel
    for text in ("parameters(a=1.0, b=2.0, c=3.0)\nstates(u=1.0, v=2.0, w=3.0)\nprobe = b\ndu_dt = w\ndv_dt = u\ndw_dt = b\n",
                 "states(x=1, y=2)\nparameters(k=0.5, g=2)\ny_percent = 100*y\ndx_dt = -k*x + g\ndy_dt = k - y\n",
                 "states(x=1, y=2, z=3)\nparameters(p=1, q=2)\nmon1 = z*q\nmon2 = mon1 + y\ndx_dt = y\ndy_dt = z - p\ndz_dt = q - x\n"):
        c_ = pipeline.Case(drv, text)
        m_ = textmodel.model_from_items(c_.captured)
        core.guarded(rep, text, check_model, rep, drv, gen, rng, m_, text, c_, with_jax=False, with_c=False)
        rep.case(key=text, nontrivial=True)
    # ---- directed: more states than one decimal digit counts (slots 10, 11, 12 ... next to 1, 2), each with its own rate; numpy, jax and C
    big = 13
    text = ("states(" + ", ".join(f"s{i}={0.25 * (i + 1)}" for i in range(big)) + ")\nparameters(k=0.5, g=0.1)\n"
            + "total = " + " + ".join(f"s{i}" for i in range(big)) + "\n"
            + "".join(f"ds{i}_dt = -{i + 1}*s{i} + g*s{(i + 1) % big} + k\n" for i in range(big)))
    c_ = pipeline.Case(drv, text)
    m_ = textmodel.model_from_items(c_.captured)
    core.guarded(rep, text, check_model, rep, drv, gen, rng, m_, text, c_, with_jax=True, with_c=True)
    rep.case(key=text, nontrivial=True)
    # ---- directed: a state that no expression reads and whose name the step function uses for itself (the step assigns
    # every state, read or not): the text is either refused or stepped like any other model, with and without remove_unused
    for name in ("dt", "t", "time", "states", "parameters", "values", "acc"):
        text = f"states(x=1.0, {name}=0.3)\nparameters(a=2.0, b=0.5)\nrate = a*x\ndx_dt = -rate\nd{name}_dt = b\n"
        for ru in (False, True):
            for be in ("numpy", "jax") if name in ("dt", "acc") else ("numpy",):
                rep.case(key=("unread", name, ru, be), nontrivial=True)

                def one():
                    ode, _, err, _ = impl.load_text(text)
                    if err is not None:
                        rep.count("unread_reserved_state:refused_at_load")
                        return
                    try:
                        code = impl.gen_python(ode, schemes=["explicit_euler"], remove_unused=ru, backend=be)
                    except Exception:  # noqa: BLE001
                        rep.count("unread_reserved_state:refused_at_generation")
                        return
                    rep.count("unread_reserved_state:generated")
                    ns = cback.jax_module(code) if be == "jax" else impl.exec_module(code)
                    fns = impl.export_functions(code)
                    ss = [s_.name for s_ in ode.sorted_states()]
                    pn = [p_.name for p_ in ode.parameters]
                    st = [{"x": 0.75}.get(s_, 0.375) for s_ in ss]
                    ps = [{"a": 2.0, "b": 0.5}[p_] for p_ in pn]
                    call = cback.call_jax if be == "jax" else impl.call_numpy
                    for dt in (0.0, 0.125):
                        with np.errstate(all="ignore"):
                            rv = np.array(call(ns["rhs"], fns["rhs"]["args"], 0.25, st, ps), dtype=float)
                            ev = np.array(call(ns["explicit_euler"], fns["explicit_euler"]["args"], 0.25, st, ps, dt=dt), dtype=float)
                        want = np.array(st) + dt * rv
                        if not np.allclose(ev, want, rtol=1e-12, atol=0):
                            rep.violation(f"a state called {name!r} that no expression reads ({be}, remove_unused={ru}): explicit_euler with dt = {dt} "
                                          f"returns {ev.tolist()}, states + dt*rhs = {want.tolist()}",
                                          {"kind": "direct", "text": text, "remove_unused": ru, "backend": be, "dt": dt})
                            return
                core.guarded(rep, text, one)
    for i in range(n):
        got = family.new_case(drv, rng, gen, rep)
        if got is None:
            continue
        m, text, c = got
        core.guarded(rep, text, check_model, rep, drv, gen, rng, m, text, c,
                    with_jax=(i % (8 if a.tier == "quick" else 4) == 0),
                    with_c=(i % (4 if a.tier == "quick" else 2) == 0))
        s = lang.model_summary(m)
        rep.case(key=text, nontrivial=len(s["states"]) > 1)
        rep.sample({"text": text}, limit=2)
    drv.close()
    return rep.finish(
        level="proof",
        rule="random accepted models; non-trivial = at least two states (slot order matters); per model 3 points x dt in "
             "{0, 2^-40, 1, -0.5, 2^20, 1/16}; 5 scheme-name requests in random history with random argument orders called "
             "positionally; jax on every 8th and C (gcc) on every 4th model in the quick tier; directed: a model with 13 states (numpy, jax, C); an unread state named dt / t / time / "
             "states / parameters / values, with and without remove_unused (refused, or stepped correctly)",
        trusted_base=["Coq 8.16.1 kernel", "extraction + ocaml/driver.ml", "harness skeleton exporter", "gcc, ctypes, jax as executors"],
        assumptions=["numpy evaluates s + dt*f and dt*f + s identically (IEEE commutativity)"],
    )


if __name__ == "__main__":
    sys.exit(main())
