"""C01 - generated NumPy rhs computes exactly the derivatives the model text defines.

 1. theorems of coq/Props/C01.v are re-checked (validator soundness, uniqueness of the meaning,
    soundness of the reference evaluator);
 2. correspondence: for generated models the loader mirror / layout mirror agree with the
    implementation, the skeleton of the generated rhs and monitor_values passes the verified
    validators, and every let-bound value and every slot equals the extracted reference
    evaluator (float64) at sample inputs;
 3. direct oracle: an instrumented Python evaluation of the harness AST, and Python's own parser
    on the rendered text (precedence / associativity), against the generated rhs.
"""
from __future__ import annotations

import random
import re
import sys

import numpy as np

import core
import family
import impl
import lang
import pipeline
from pipeline import close


def check_model(rep, drv, gen, rng, m, text, c, npts=3, fixed_points=None):
    pipeline.check_parser(rep, drv, text, "model text")
    if not family.mirror_agrees(rep, c, text):
        return
    # the items the parser produced are the items the text was rendered from (grammar contract)
    intended = drv.ask(["load", lang.model_items(m)])
    drv.ask(["load", c.items_sx])
    if intended != c.mirror:
        rep.violation("the parse of the rendered text is not the model it was rendered from",
                      {"kind": "correspondence", "relation": "parse(render(m)) = m", "text": text,
                       "failing_input": None}, failing_input_found=False)
        return
    code = family.try_generate(rep, c, text)
    if isinstance(code, Exception):
        rep.violation(f"code generation raises {type(code).__name__} for an accepted model: {str(code)[:120]}",
                      {"kind": "direct", "text": text, "exception": repr(code)[:300]},
                      finding_key="C01-generation-raises-" + type(code).__name__)
        return
    fns = impl.export_functions(code)
    lay = c.impl_layout()
    try:
        rb = impl.body_to_sx(fns["rhs"]["body"])
        mb = impl.body_to_sx(fns["monitor_values"]["body"])
    except impl.SkeletonError as ex:
        rep.violation("generated function has a statement outside the skeleton: " + str(ex),
                      {"kind": "correspondence", "relation": "skeleton export", "text": text, "code": code,
                       "failing_input": None}, failing_input_found=False)
        return
    v1 = pipeline.validate(drv, "rhs", 0, len(lay["sorted_states"]), [], rb)
    v2 = pipeline.validate(drv, "named", 0, len(lay["order"]), lay["order"], mb)
    structural_ok = v1.get("valid") and v2.get("valid")
    pipeline.check_instance(rep, v1, text, "rhs")
    pipeline.check_instance(rep, v2, text, "named")
    if family.mirror_issue(c, text) is None:
        pipeline.check_mirror_function(rep, drv, text, "rhs", False, "tsp", fns["rhs"]["args"], rb)
        pipeline.check_mirror_function(rep, drv, text, "monitor", False, "tsp", fns["monitor_values"]["args"], mb)
    ns = impl.exec_module(code)
    if fixed_points is not None:
        pts, tried = [], 0
        for pt in fixed_points:
            try:
                ref, S, margin = pipeline.reference_point(m, pt)
                pts.append((pt, ref, S))
            except (lang.Undefined, KeyError):
                pass
    else:
        pts, tried = family.usable_points(gen, m, 12, want=npts)
    rep.count("points_tried", tried)
    rep.count("points_used", len(pts))
    pyns = lang.python_namespace()
    defs, _, _ = lang.model_defs(m)
    failing = None
    branch_log = []
    for pt, ref, S in pts:
        isx, st, ps = pipeline.inputs_sx(lay, pt)
        sv = dict(zip(lay["order"], pipeline.sem_values(drv, 0, isx, lay["order"])))
        with np.errstate(all="ignore"):
            try:
                mv = impl.call_numpy(ns["monitor_values"], fns["monitor_values"]["args"], pt["t"], st, ps)
                rv = impl.call_numpy(ns["rhs"], fns["rhs"]["args"], pt["t"], st, ps)
            except Exception as ex:  # noqa: BLE001
                failing = ("generated code raises " + repr(ex)[:200], pt, None)
                break
        got = dict(zip(lay["order"], [float(x) for x in mv]))
        # (a) model (extracted evaluator) vs harness evaluator: keeps both references honest
        for n in lay["order"]:
            if sv[n] is None or not close(sv[n], ref[n], S):
                failing = (f"reference evaluators disagree on {n}: model {sv[n]} harness {ref[n]}", pt, n)
                break
        if failing:
            break
        # (b) Python's parser on the rendered text: precedence and associativity
        env = dict(pt["states"]); env.update(pt["params"]); env.update(t=pt["t"], time=pt["t"])
        env.update({k: ref[k] for k in ref})
        for n, e in defs.items():
            if "ContinuousConditional" in lang.render(e):
                continue
            try:
                pv = float(eval(lang.render(e), dict(pyns), env))  # noqa: S307
            except Exception:  # noqa: BLE001
                continue
            if not close(pv, ref[n], S):
                failing = (f"rendered text of {n} evaluates to {pv} under Python precedence, AST gives {ref[n]}", pt, n)
                break
        if failing:
            break
        # (c) the implementation
        for n in lay["order"]:
            if not close(got[n], sv[n], S):
                failing = (f"generated code computes {n} = {got[n]!r}, the model text defines {sv[n]!r}", pt, n)
                break
        if failing:
            break
        for i, s in enumerate(lay["sorted_states"]):
            if not close(float(rv[i]), sv[f"d{s}_dt"], S):
                failing = (f"rhs[{i}] = {float(rv[i])!r} but d{s}_dt = {sv[f'd{s}_dt']!r}", pt, f"d{s}_dt")
                break
        if failing:
            break
    if failing is None and pts:
        # the rhs generated with remove_unused computes the same derivatives (what is removed must not be needed)
        code_ru = family.try_generate(rep, c, text, remove_unused=True)
        if isinstance(code_ru, Exception):
            failing = (f"code generation with remove_unused raises {type(code_ru).__name__}: {str(code_ru)[:120]}", pts[0][0], None)
        else:
            ns_ru, fns_ru = impl.exec_module(code_ru), impl.export_functions(code_ru)
            for pt, ref, S in pts:
                isx, st, ps = pipeline.inputs_sx(lay, pt)
                with np.errstate(all="ignore"):
                    try:
                        rv = impl.call_numpy(ns_ru["rhs"], fns_ru["rhs"]["args"], pt["t"], st, ps)
                    except Exception as ex:  # noqa: BLE001
                        failing = ("rhs generated with remove_unused raises " + repr(ex)[:200], pt, None)
                        break
                for i, s_ in enumerate(lay["sorted_states"]):
                    if not close(float(rv[i]), ref[f"d{s_}_dt"], S):
                        failing = (f"rhs generated with remove_unused: rhs[{i}] = {float(rv[i])!r} but d{s_}_dt = {ref[f'd{s_}_dt']!r}", pt, None)
                        break
                if failing:
                    break
            rep.count("rhs_with_remove_unused_compared")
    if failing:
        what, pt, name = failing
        gen_txt = fns["monitor_values"]["lets"].get(name) if name else None
        key = None
        if name and due_to_condition_simplify(c, lay, pt, name, sv.get(name) if isinstance(sv, dict) else None, S):
            # the open finding, identified by its call site: the value is right as soon as sympy.simplify inside
            # gotranx.codegen.base._print_Piecewise leaves the conditions as they are written
            key = "C01-sympy-simplify-rewrites-a-condition"
        rep.violation(what, {"kind": "direct", "text": text, "inputs": pt, "name": name,
                             "definition": None if name is None else lang.render(defs[name]),
                             "generated": gen_txt}, finding_key=key)
    elif not structural_ok:
        rep.violation("generated rhs / monitor_values is rejected by the verified validator "
                      f"(rhs: {v1}, monitor: {v2}) although sampled values agree",
                      {"kind": "validator", "relation": "Valid.valid_rhs / valid_named on the exported skeleton",
                       "text": text, "code": code, "failing_input": None}, failing_input_found=False)
    ops = {}
    for e in defs.values():
        lang.ops_of(e, ops)
    return ops


def due_to_condition_simplify(c, lay, pt, name, want, S):
    """does the generated code compute the documented value of [name] at [pt] once sympy.simplify (called by the
    shared Piecewise printer on the conditions) is replaced by the identity?"""
    if want is None:
        return False
    from unittest import mock
    import sympy as _sympy
    try:
        with mock.patch.object(_sympy, "simplify", lambda e, *a_, **k_: e):
            code2 = impl.gen_python(c.ode)
        ns2 = impl.exec_module(code2)
        fns2 = impl.export_functions(code2)
        isx, st, ps = pipeline.inputs_sx(lay, pt)
        with np.errstate(all="ignore"):
            mv2 = impl.call_numpy(ns2["monitor_values"], fns2["monitor_values"]["args"], pt["t"], st, ps)
        got2 = dict(zip(lay["order"], [float(x) for x in mv2]))
        return name in got2 and close(got2[name], want, S)
    except Exception:  # noqa: BLE001
        return False


# ---------- conditions evaluated exactly on their boundaries ----------
THRESH = [0, 1, 3, 0.5, -1]
GRID = [-1.0, 0.0, 0.5, 1.0, 2.0, 3.0, 4.0]
RELS = {"Lt": lambda a, b: a < b, "Gt": lambda a, b: a > b, "Le": lambda a, b: a <= b, "Ge": lambda a, b: a >= b,
        "Eq": lambda a, b: a == b}


def rand_cond(rng, depth):
    """(text, python function of (x, y, t)) of a condition over the states x, y, the time and literal thresholds"""
    if depth == 0 or rng.random() < 0.3:
        v = rng.choice(["x", "y", "x", "y", "t", "time"]); r = rng.choice(list(RELS)); c = rng.choice(THRESH)
        pick = (lambda x, y, t, v=v: x if v == "x" else y if v == "y" else t)
        if rng.random() < 0.5:
            return f"{r}({v}, {c})", (lambda x, y, t, r=r, c=c, pick=pick: RELS[r](pick(x, y, t), c))
        return f"{r}({c}, {v})", (lambda x, y, t, r=r, c=c, pick=pick: RELS[r](c, pick(x, y, t)))
    k = rng.choice(["Not", "And", "Or", "And", "Or"])
    if k == "Not":
        t_, f = rand_cond(rng, depth - 1)
        return f"Not({t_})", (lambda x, y, t, f=f: not f(x, y, t))
    parts = [rand_cond(rng, depth - 1) for _ in range(rng.choice([2, 2, 3]))]
    txt = f"{k}(" + ", ".join(p[0] for p in parts) + ")"
    if k == "And":
        return txt, (lambda x, y, t, parts=parts: all(p[1](x, y, t) for p in parts))
    return txt, (lambda x, y, t, parts=parts: any(p[1](x, y, t) for p in parts))


TGRID = [-2.0, -1.0, 0.0, 1.0]
XGRID = [-1.0, 0.0, 0.5, 1.0, 3.0]


def boundary_case(rep, drv, rng):
    """conditionals inside arithmetic (the path through the shared Piecewise printer), nested conditionals,
    abs / sign-sensitive uses of the time, evaluated on a grid that contains every threshold and negative
    times: all comparisons are exact"""
    c1, f1 = rand_cond(rng, 2)
    c2, f2 = rand_cond(rng, 2)
    c3, f3 = rand_cond(rng, 1)
    text = ("states(x=1, y=2)\n"
            f"a = 1 + Conditional({c1}, 10, 20)\n"
            f"b = 2*Conditional({c2}, Conditional({c3}, 1, 2), 3) - a\n"
            f"dx_dt = a + Conditional({c3}, x, y) + abs(t)\n"
            f"dy_dt = b*Conditional({c1}, 1, -1) + abs(time - 1)\n")
    c = pipeline.Case(drv, text)
    rep.case(key=text, nontrivial=True)
    if c.err is not None:
        rep.count("boundary_model_rejected:" + str(c.err)[:40])
        return
    code = family.try_generate(rep, c, text)
    if isinstance(code, Exception):
        rep.violation(f"code generation raises {type(code).__name__} for an accepted model: {str(code)[:120]}",
                      {"kind": "direct", "text": text, "exception": repr(code)[:300]})
        return
    ns = impl.exec_module(code)
    fns = impl.export_functions(code)
    lay = c.impl_layout()
    for t in TGRID:
        for x in XGRID:
            for y in XGRID:
                a_ = 1 + (10 if f1(x, y, t) else 20)
                b_ = 2 * ((1 if f3(x, y, t) else 2) if f2(x, y, t) else 3) - a_
                want = {"a": a_, "b": b_, "dx_dt": a_ + (x if f3(x, y, t) else y) + abs(t),
                        "dy_dt": b_ * (1 if f1(x, y, t) else -1) + abs(t - 1)}
                pt = {"t": t, "dt": 0.0, "states": {"x": x, "y": y}, "params": {}}
                isx, st, ps = pipeline.inputs_sx(lay, pt)
                with np.errstate(all="ignore"):
                    mv = impl.call_numpy(ns["monitor_values"], fns["monitor_values"]["args"], t, st, ps)
                got = dict(zip(lay["order"], [float(v) for v in mv]))
                rep.count("boundary_points")
                for nm in lay["order"]:
                    if got[nm] != want[nm]:
                        key = "C01-sympy-simplify-rewrites-a-condition" if due_to_condition_simplify(c, lay, pt, nm, want[nm], 1.0) else None
                        rep.violation(f"generated code computes {nm} = {got[nm]!r} at t = {t}, x = {x}, y = {y} (comparisons exact); the model text defines {want[nm]!r}",
                                      {"kind": "direct", "text": text, "inputs": pt, "name": nm, "generated": fns["monitor_values"]["lets"].get(nm)},
                                      finding_key=key)
                        return


def main(argv=None):
    a = core.std_args(argv)
    rep = core.Report("C01", a.tier, a.seed)
    core.props_or_violation(rep)
    drv = core.Driver()
    if a.replay:
        import json as _json
        family.replay_text_case(rep, drv, _json.load(open(a.replay)), check_model)
        drv.close()
        return rep.finish(level="proof", rule="replay of " + a.replay, trusted_base=["see the full check"])
    rng = random.Random(a.seed)
    gen = lang.Gen(rng)
    n = a.n or (60 if a.tier == "quick" else 1500)
    hist = {}
    # corpus first: minimised / recorded disagreements of earlier runs
    import json, glob, os
    import textmodel
    for f in sorted(glob.glob(str(core.CORPUS / "C01" / "*.ode"))):
        text = open(f).read()
        meta = json.load(open(f[:-4] + ".json")) if os.path.exists(f[:-4] + ".json") else {}
        c = pipeline.Case(drv, text)
        if c.err is not None:
            rep.violation(f"corpus model {os.path.basename(f)} is rejected: {c.err}", {"kind": "direct", "text": text})
            continue
        m = textmodel.model_from_items(c.captured)
        core.guarded(rep, text, check_model, rep, drv, gen, rng, m, text, c, fixed_points=meta.get("inputs"))
        rep.case(key=text, nontrivial=True)
        rep.count("corpus_models")
    for i in range(12 if a.tier == "quick" else 200):
        core.guarded(rep, f"boundary #{i}", boundary_case, rep, drv, rng)
    for i in range(n):
        # vary generator parameters so that depth, conditionals and shapes are all exercised
        gen.max_depth = rng.choice([2, 3, 4, 4, 5, 6])
        got = family.new_case(drv, rng, gen, rep)
        if got is None:
            continue
        m, text, c = got
        ops = core.guarded(rep, text, check_model, rep, drv, gen, rng, m, text, c) or {}
        for k, v in ops.items():
            hist[k] = hist.get(k, 0) + v
        s = lang.model_summary(m)
        rep.case(key=text, nontrivial=len(s["assignments"]) > len(s["states"]))
        rep.count("shape:" + m["shape"])
        rep.sample({"text": text, "shape": m["shape"]}, limit=2)
    drv.close()
    return rep.finish(
        level="proof",
        rule="random accepted models (1-5 states, 0-8 intermediates, 1-3 components, depth 2-6, all operators "
             "of the grammar); non-trivial = has at least one intermediate; distinct by text. Each model: "
             "loader/layout mirror agreement, validator on exported rhs and monitor_values, 3 sample points "
             "(discarded when the reference is undefined or within 1e-6 of a comparison/floor/Mod boundary)",
        trusted_base=["Coq 8.16.1 kernel (coqc), vm_compute for the Examples", "extraction (ExtrOcamlBasic only) + ocaml/driver.ml",
                      "harness: generator, renderer, Python-ast skeleton exporter, numeric rule",
                      "oracle contract checked numerically: each printed right-hand side evaluates to eval of its definition"],
        assumptions=["sympy / its printers / numpy are oracles: their effect on single right-hand sides is compared numerically, not proved",
                     "float64 rounding: tolerance 1e-9*(1+S+|v|), S = largest intermediate magnitude"],
        extra={"operator_histogram": hist},
    )


if __name__ == "__main__":
    sys.exit(main())
