"""C11 - saving a model to .ode and loading it back preserves the model.

 1. theorems of coq/Props/C11.v (the writer's blocks contain exactly the atoms, each under its own
    components; no header-less block follows a headed one; same definitions => same layout; partial:
    the read-back of the blocks and of the printed expressions is checked by execution);
 2. correspondence: the model-level round trip (Save.save_items then Load.load, extracted) gives the
    model back (layout, membership); the items of the real parse of the file the implementation
    saved, fed to the loader mirror, give that same model;
 3. direct: ode.save -> load_ode: the saved file must load; states, parameters, default values,
    units, descriptions and component membership must be the same; rhs, monitored values and scheme
    steps must be numerically equal under the same slot names; generator biased to what sympy
    normalises (exp(1), negated relations, nested conditionals, rational exponents, floor(-x), huge
    and tiny literals, relations used as numbers); the shipped Myokit / CellML models.
"""
from __future__ import annotations

import glob
import os
import random
import shutil
import sys
import tempfile

import numpy as np

import core
import family
import impl
import lang
import pipeline
from pipeline import close

import gotranx

SPECIAL = [
    "exp(1)", "exp(1)*x", "2**0.5", "x**(1/3)", "abs(x)**(2/3)", "floor(-x)", "1e300*x/1e300", "1e-300 + x", "6.02214076e23*1e-23*x",
    "Conditional(Not(Eq(x, p)), 1, 2)", "Conditional(Not(Lt(x, p)), p, x)", "Conditional(Gt(x, 0), Conditional(Lt(x, 1), 1, 2), Conditional(Ge(p, 0), 3, 4))",
    "Conditional(And(Gt(x, 0), Lt(x, 1), Ge(p, 0)), x, -x)", "Conditional(Or(Gt(x, 1), Not(Gt(p, 0))), x*p, p)", "Lt(x, p)*3 + x",
    "-Conditional(Ge(x, 0.5), 1, 0)*p", "sqrt(Conditional(Ge(x, 0.5), 1, 0) + 1)", "Mod(x, 2) + Mod(-x, 3)", "pi*x", "log(abs(x) + 1) - ln(2)",
    "acos(x/(1 + abs(x)))", "ContinuousConditional(Gt(x, 0.5), 1, p, 0.1)", "x/3", "1/3*x", "(x + p)**2", "-(-x)", "x - (p - x)", "x/(p/x + 1)",
    "Conditional(Not(And(Gt(x, 0.2), Lt(x, 2))), 1, 2)", "Conditional(Not(Or(Gt(x, 2), Lt(p, 0))), 1, 2)", "Conditional(Not(Eq(x, x)), 1, 2)",
    "(J_a + (J_b - J_c))*1e-300", "J_a - (J_c - J_b*x)", "Conditional(Eq(x, 1), p, x)", "Abs(x - p)", "exp(-x**2)", "tan(0.25*sin(x))", "atan(x) + asin(x/(2 + abs(x)))", "0.1 + 0.2", "3*0.1", "1e3", "2.5e-1*x",
]


def annotations_view(ode):
    sts = sorted((s.name, float(s.value), s.unit_str, s.description, tuple(s.components)) for s in ode.states)
    prs = sorted((p.name, float(p.value), p.unit_str, p.description, tuple(p.components)) for p in ode.parameters)
    asg = sorted((a.name, tuple(a.components), a.unit_str) for a in ode.intermediates + ode.state_derivatives)
    return sts, prs, asg


def check_ode(rep, drv, rng, ode, text, label, mirror_case=None):
    d = tempfile.mkdtemp(prefix="gxc11_")
    try:
        path = os.path.join(d, "m.ode")
        try:
            ode.save(path)
        except Exception as ex:  # noqa: BLE001
            rep.violation(f"save raises {type(ex).__name__}: {str(ex)[:120]}", {"kind": "direct", "text": text, "label": label})
            return
        saved = open(path).read()
        c2 = pipeline.Case(drv, saved)
        if c2.err is not None and "InconsistentAssumptions" in str(c2.err):
            # sympy's global assumption cache, filled by the hundreds of models this process has loaded before, can hold a fact that
            # contradicts what it derives for an unevaluated 0 - 1*0 of this file (thorough run, seed 91: the same file loads in a
            # fresh process).  The property is about the model, not about this process: judge the load with the cache cleared
            import sympy.core.cache
            sympy.core.cache.clear_cache()
            c2 = pipeline.Case(drv, saved)
            rep.count("reloaded_after_clearing_sympy_cache")
        pipeline.check_parser(rep, drv, saved, "saved file")
        if c2.err is not None:
            rep.violation(f"the saved file is rejected by the loader: {c2.err}: {repr(c2.exc)[:140]}",
                          {"kind": "direct", "text": text, "saved": saved, "label": label})
            return
        o2 = c2.ode
        v1, v2 = annotations_view(ode), annotations_view(o2)
        if v1 != v2:
            diff = [(a, b) for a, b in zip(v1[0] + v1[1] + v1[2], v2[0] + v2[1] + v2[2]) if a != b][:2]
            key = "C11-unit-1-not-saved" if diff and all(a[-1] == "1" and b[-1] is None and a[:-1] == b[:-1] for a, b in diff if len(a) == 3) and \
                all(len(a) == 3 for a, _ in diff) else None
            rep.violation(f"declared atoms differ after save / load: {diff}", {"kind": "direct", "text": text, "saved": saved, "label": label}, finding_key=key)
            return
        # numerics under the same slot names
        try:
            code1 = impl.gen_python(ode, schemes=["explicit_euler", "generalized_rush_larsen"])
            code2 = impl.gen_python(o2, schemes=["explicit_euler", "generalized_rush_larsen"])
        except Exception as ex:  # noqa: BLE001
            rep.count("generation_raises:" + type(ex).__name__)
            return
        n1, n2 = impl.exec_module(code1), impl.exec_module(code2)
        ss = [s.name for s in ode.sorted_states()]
        pn = [p.name for p in ode.parameters]
        order = [a_.name for a_ in ode.sorted_assignments()]
        ss2 = [s.name for s in o2.sorted_states()]
        pn2 = [p.name for p in o2.parameters]
        order2 = [a_.name for a_ in o2.sorted_assignments()]
        if sorted(ss) != sorted(ss2) or pn != pn2 or sorted(order) != sorted(order2):
            rep.violation("names differ after save / load", {"kind": "direct", "text": text, "saved": saved})
            return
        for k_pt in range(4):
            stv = {s: rng.randrange(-12, 13) / 8.0 for s in ss}
            pav = {p: rng.randrange(-12, 13) / 8.0 for p in pn}
            t = rng.choice([0.0, 0.5, 2.0])
            if k_pt == 0:
                # the declared values themselves (huge / tiny constants of a model live in its parameters)
                try:
                    stv = {s.name: float(s.value) for s in ode.states}
                    pav = {p.name: float(p.value) for p in ode.parameters}
                except Exception:  # noqa: BLE001
                    pass
            with np.errstate(all="ignore"):
                try:
                    a1 = dict(zip(order, map(float, n1["monitor_values"](t, np.array([stv[s] for s in ss]), np.array([pav[p] for p in pn])))))
                    a2 = dict(zip(order2, map(float, n2["monitor_values"](t, np.array([stv[s] for s in ss2]), np.array([pav[p] for p in pn2])))))
                    e1 = dict(zip(ss, map(float, n1["explicit_euler"](np.array([stv[s] for s in ss]), t, 0.125, np.array([pav[p] for p in pn])))))
                    e2 = dict(zip(ss2, map(float, n2["explicit_euler"](np.array([stv[s] for s in ss2]), t, 0.125, np.array([pav[p] for p in pn2])))))
                    g1 = dict(zip(ss, map(float, n1["generalized_rush_larsen"](np.array([stv[s] for s in ss]), t, 0.125, np.array([pav[p] for p in pn])))))
                    g2 = dict(zip(ss2, map(float, n2["generalized_rush_larsen"](np.array([stv[s] for s in ss2]), t, 0.125, np.array([pav[p] for p in pn2])))))
                except Exception as ex:  # noqa: BLE001
                    rep.count("execution_raises")
                    continue
            S = max([1.0] + [abs(v) for v in a1.values() if v == v and abs(v) != float("inf")])
            for nm in order:
                if a1[nm] == a1[nm] and abs(a1[nm]) != float("inf") and not close(a2[nm], a1[nm], S, 1e-9):
                    rep.violation(f"after save / load {nm} = {a2[nm]!r}, before {a1[nm]!r}",
                                  {"kind": "direct", "text": text, "saved": saved, "states": stv, "params": pav, "t": t, "label": label})
                    return
            for s in ss:
                for w, (b1, b2) in (("explicit_euler", (e1, e2)), ("generalized_rush_larsen", (g1, g2))):
                    if b1[s] == b1[s] and abs(b1[s]) != float("inf") and not close(b2[s], b1[s], S + abs(b1[s]), 1e-8):
                        rep.violation(f"after save / load {w} for {s} = {b2[s]!r}, before {b1[s]!r}",
                                      {"kind": "direct", "text": text, "saved": saved, "states": stv, "params": pav, "t": t})
                        return
            rep.count("points_compared")
        # mirror: model-level round trip, and the saved file's parse
        if mirror_case is not None and mirror_case.mirror is not None and mirror_case.mirror.get("status") == "ok":
            drv.ask(["load", mirror_case.items_sx])
            rt = drv.ask(["roundtrip"])
            keys = ("status", "sorted_states", "params", "order", "order_ru", "missing")
            base = {k: mirror_case.mirror.get(k) for k in keys}
            memb = sorted((k, v) for k, v in mirror_case.mirror.get("membership", []))
            if {k: rt.get(k) for k in keys} != base or sorted((k, v) for k, v in rt.get("membership", [])) != memb:
                rep.violation("the model-level round trip Save.save_items -> Load.load does not give the model back",
                              {"kind": "correspondence", "relation": "Load.load (Save.save_items o) ~ o", "text": text, "failing_input": None},
                              failing_input_found=False)
            elif c2.mirror is not None and (c2.mirror.get("status") != "ok" or c2.mirror.get("params") != base["params"]
                                            or sorted(c2.mirror.get("sorted_states") or []) != sorted(base["sorted_states"] or [])
                                            or sorted(c2.mirror.get("order") or []) != sorted(base["order"] or [])
                                            or sorted((k, v) for k, v in c2.mirror.get("membership", [])) != memb):
                # (statement order and slot numbers may legitimately change: the printed expressions can have
                #  fewer dependencies than the original text, e.g. Conditional(c, K, K) is saved as K)
                rep.violation("the loader mirror, fed the parse of the saved file, gives a different model",
                              {"kind": "correspondence", "relation": "Load.load (parse (saved file)) ~ model", "text": text, "saved": saved,
                               "failing_input": None}, failing_input_found=False)
    finally:
        shutil.rmtree(d, ignore_errors=True)


def main(argv=None):
    a = core.std_args(argv)
    rep = core.Report("C11", a.tier, a.seed)
    core.props_or_violation(rep)
    drv = core.Driver()
    rng = random.Random(a.seed)
    gen = lang.Gen(rng, max_depth=3, p_cond=0.25)
    core.CASE_SECONDS = 90
    if a.replay:
        import json as _json
        data = _json.load(open(a.replay))
        text = data.get("decorated") or data["text"]
        c = pipeline.Case(drv, text)
        rep.case(key=text, nontrivial=True)
        if c.err is not None:
            rep.violation(f"the recorded model is rejected: {c.err}", {"kind": "direct", "text": text})
        else:
            core.guarded(rep, text, check_ode, rep, drv, rng, c.ode, text, "replay", c)
        drv.close()
        return rep.finish(level="proof", rule="replay of " + a.replay, trusted_base=["see the full check"])
    # ---- directed: constructs sympy normalises
    specials = SPECIAL if a.tier != "quick" else rng.sample(SPECIAL, 14) + ["exp(1)", "(J_a + (J_b - J_c))*1e-300", "Conditional(Not(Eq(x, x)), 1, 2)", "Conditional(Not(And(Gt(x, 0.2), Lt(x, 2))), 1, 2)", "Conditional(Not(Eq(x, p)), 1, 2)", "-Conditional(Ge(x, 0.5), 1, 0)*p", "6.02214076e23*1e-23*x", "1.23456789e-20*x*1e20"]
    for i in range(0, len(specials), 3):
        chunk = specials[i:i + 3]
        lines = [f"s{j} = {e}" for j, e in enumerate(chunk)]
        text = ('states("A", x=0.5)\nstates(y=2)\nparameters("A", p=ScalarParam(1.5, unit="mV", description="a parameter"))\nparameters(q=0.25, N_A=6.02214076e23, tiny=1.23456789012e-30, J_a=1e308, J_b=1e308, J_c=1e308)\n'
                + "\n".join(lines[1:]) + "\ndy_dt = -q*y + N_A*tiny*1e7 + " + " + ".join(f"s{j}" for j in range(len(chunk))) + '\nexpressions("A")\n' + lines[0] + "\ndx_dt = s0 - x*q\n")
        c = pipeline.Case(drv, text)
        rep.case(key=text, nontrivial=True)
        if c.err is not None:
            rep.count("directed_model_rejected:" + c.err)
            continue
        core.guarded(rep, text, check_ode, rep, drv, rng, c.ode, text, "directed", c)
    # ---- annotations and component names outside ASCII, with a backslash, a percent sign (written and read back verbatim)
    text = ('states("R\u00e9ticulum", x=ScalarParam(0.5, unit="\u00b5F", description="Na\u207a conductance \\\\alpha at 37 \u00b0C"))\n'
            'states("B-comp", y=ScalarParam(2, unit="mS/\u00b5F", description="a gate; 50% block"))\n'
            'parameters("R\u00e9ticulum", p=ScalarParam(1.5, unit="mV", description="\u0394V"))\n'
            'expressions("R\u00e9ticulum")\ndx_dt = -p*x\nexpressions("B-comp")\ndy_dt = x - y\n')
    c = pipeline.Case(drv, text)
    rep.case(key=text, nontrivial=True)
    if c.err is not None:
        rep.violation(f"a model with non-ASCII annotations is rejected: {c.err}", {"kind": "direct", "text": text})
    else:
        core.guarded(rep, text, check_ode, rep, drv, rng, c.ode, text, "non-ascii", c)
    # ---- conditions on their boundaries: a saved condition must be the same condition (not an "equivalent" one that differs on a
    #      threshold, outside the first period of a periodic function, or where a root is taken): every monitored value of the reloaded
    #      model equals the original's on a grid that contains every threshold, bit for bit
    import itertools
    import c01 as _c01
    btexts = []
    for _ in range(5 if a.tier == "quick" else 60):
        c1, _f1 = _c01.rand_cond(rng, 2)
        c2, _f2 = _c01.rand_cond(rng, 2)
        btexts.append(("states(x=1, y=2)\n" f"a = 1 + Conditional({c1}, 10, 20)\n" f"b = Conditional({c2}, Conditional({c1}, 1, 2), 3)\n"
                       "dx_dt = a - x\ndy_dt = b - y\n", [(xv, yv, tv) for xv in _c01.XGRID for yv in _c01.XGRID for tv in _c01.TGRID]))
    btexts.append(("states(x=1, y=2)\n"
                   "a = Conditional(Ge(x, -40.0), 1, 2) + Conditional(Ge(x - 10.0, 0), 10, 20) + Conditional(Lt(abs(x - 15), 0.01), 100, 200)\n"
                   "b = Conditional(Gt(sin(x), 0.5), 1, 2) + Conditional(Le(y*2.0, 3.0), 10, 20) + Conditional(Lt(-y, -1*0.25), 100, 200)\n"
                   "dx_dt = a - x\ndy_dt = b - y\n",
                   [(xv, yv, 0.0) for xv in (-40.0, -40.5, 10.0, 9.5, 14.99, 15.01, 15.0, 7.5, -60.3, 0.5235987755982988, 2.0)
                    for yv in (1.5, 0.25, -1.0, 2.0)]))
    for btext, grid in btexts:
        cb = pipeline.Case(drv, btext)
        rep.case(key=btext, nontrivial=True)
        if cb.err is not None:
            rep.count("boundary_model_rejected")
            continue

        def boundary(btext=btext, grid=grid, cb=cb):
            dd = tempfile.mkdtemp(prefix="gxc11b_")
            try:
                pth = os.path.join(dd, "m.ode")
                cb.ode.save(pth)
                saved_b = open(pth).read()
                o2, _, err2, ex2 = impl.load_text(saved_b)
            finally:
                shutil.rmtree(dd, ignore_errors=True)
            if err2 is not None:
                rep.violation(f"the saved file is rejected by the loader: {err2}: {repr(ex2)[:120]}", {"kind": "direct", "text": btext, "saved": saved_b, "label": "boundary"})
                return
            n1, n2 = impl.exec_module(impl.gen_python(cb.ode)), impl.exec_module(impl.gen_python(o2))
            order1 = [x_.name for x_ in cb.ode.sorted_assignments()]
            order2 = [x_.name for x_ in o2.sorted_assignments()]
            s1 = [s_.name for s_ in cb.ode.sorted_states()]
            s2 = [s_.name for s_ in o2.sorted_states()]
            for xv, yv, tv in grid:
                with np.errstate(all="ignore"):
                    m1 = dict(zip(order1, map(float, n1["monitor_values"](tv, np.array([{"x": xv, "y": yv}[k] for k in s1]), np.array([])))))
                    m2 = dict(zip(order2, map(float, n2["monitor_values"](tv, np.array([{"x": xv, "y": yv}[k] for k in s2]), np.array([])))))
                bad = [k for k in m1 if m1[k] != m2.get(k) and not (m1[k] != m1[k] and m2.get(k) != m2.get(k))]
                if bad:
                    rep.violation(f"after save / load {bad[0]} = {m2.get(bad[0])!r} at x = {xv}, y = {yv}, t = {tv}; before {m1[bad[0]]!r}",
                                  {"kind": "direct", "text": btext, "saved": saved_b, "states": {"x": xv, "y": yv}, "params": {}, "t": tv, "label": "boundary"})
                    return
            rep.count("boundary_grids_compared")
        core.guarded(rep, btext, boundary)
    # ---- the known unit "1" finding
    text = "states(x=1)\nparameters(p=2)\na = p*x # 1\ndx_dt = -a\n"
    c = pipeline.Case(drv, text)
    rep.case(key=text, nontrivial=True)
    core.guarded(rep, text, check_ode, rep, drv, rng, c.ode, text, "unit-1", c)
    # ---- dimensionless states and parameters declared with the unit "1" (how gates and fractions come out of CellML / Myokit):
    # declarations keep that unit through save / load (only the writer of assignment lines leaves it out - the finding above)
    text = ('states("Gate", m=ScalarParam(0.05, unit="1", description="activation"), h=ScalarParam(0.6, unit="1"))\n'
            'states("Membrane", V=ScalarParam(-65, unit="mV"))\nparameters("Gate", f=ScalarParam(0.5, unit="1"), tau=ScalarParam(2, unit="ms"))\n'
            'expressions("Gate")\ndm_dt = (f - m)/tau\ndh_dt = -h/tau\nexpressions("Membrane")\ndV_dt = -m*h*V\n')
    c = pipeline.Case(drv, text)
    rep.case(key=text, nontrivial=True)
    core.guarded(rep, text, check_ode, rep, drv, rng, c.ode, text, "unit-1-declarations", c)
    # ---- random models with annotations
    n = a.n or (24 if a.tier == "quick" else 500)
    for i in range(n):
        got = family.new_case(drv, rng, gen, rep, n_comps=rng.choice([1, 2, 3]), decorate=True)
        if got is None:
            continue
        m, text, c = got
        core.guarded(rep, text, check_ode, rep, drv, rng, c.ode, text, "random", c)
        rep.case(key=text, nontrivial=True)
        rep.sample({"text": text[:700]}, limit=2)
    # ---- models imported from Myokit / CellML (shipped files)
    from gotranx.myokit import cellml_to_gotran
    files = sorted(glob.glob(str(core.REPO / "tests" / "cellml_files" / "*.cellml")))
    for f in files if a.tier != "quick" else files[-1:]:
        def imported(f=f):
            ode = cellml_to_gotran(f)
            d = tempfile.mkdtemp(prefix="gxc11_")
            try:
                p = os.path.join(d, "m.ode")
                ode.save(p)
                o1 = gotranx.load_ode(p)      # the documented save-and-reload step
                check_ode(rep, drv, rng, o1, open(p).read(), "cellml:" + os.path.basename(f), None)
            finally:
                shutil.rmtree(d, ignore_errors=True)
        core.guarded(rep, f, imported)
        rep.case(key=f, nontrivial=True)
    drv.close()
    return rep.finish(
        level="proof",
        rule="directed models over 37 expressions that sympy normalises (exp(1), negated relations, nested conditionals, rational exponents, "
             "floor(-x), 1e+-300 literals, relations used as numbers, ...) in a two-component layout with annotated parameters; random models "
             "with unit / description annotations and 1-3 components; the shipped CellML models after the documented save-and-reload step; every "
             "case: save, load, declared atoms, 3 numeric points for monitored values, Euler and generalized RL steps",
        trusted_base=["Coq 8.16.1 kernel", "extraction + ocaml/driver.ml", "sympy StrPrinter + gotranx overrides, Lark (oracles: read-back compared by execution)"],
        assumptions=["ODE.__eq__ is not used: it compares unevaluated sympy trees, which the printer legitimately reorders"],
    )


if __name__ == "__main__":
    sys.exit(main())
