"""cparse.py - the generated C text as data: functions, their statements, and every right-hand side
as a Gallina expr whose numeric literals carry their C type (integer constant vs floating constant),
so that the typed C evaluator of the model (Cback.ceval) can be run on it."""
from __future__ import annotations

import re
from fractions import Fraction

TOK = re.compile(r"\s*(?:(\d+\.\d*(?:[eE][+-]?\d+)?|\.\d+(?:[eE][+-]?\d+)?|\d+[eE][+-]?\d+|\d+)|([A-Za-z_]\w*)|(<=|>=|==|!=|&&|\|\||[-+*/()<>!?:,\[\]]))")


class CParseError(Exception):
    pass


def tokenize(s):
    out, i = [], 0
    s = s.strip()
    while i < len(s):
        m = TOK.match(s, i)
        if not m or m.end() == i:
            raise CParseError("token at " + s[i:i + 20])
        if m.group(1) is not None:
            out.append(("num", m.group(1)))
        elif m.group(2) is not None:
            out.append(("id", m.group(2)))
        else:
            out.append(("op", m.group(3)))
        i = m.end()
    return out


FUNCS = {"exp": "exp", "log": "log", "sqrt": "sqrt", "sin": "sin", "cos": "cos", "tan": "tan", "asin": "asin",
         "acos": "acos", "atan": "atan", "fabs": "abs", "floor": "floor",
         # the C printer emits the integer abs() for arguments sympy knows to be integer valued (e.g. floor(x));
         # on such values it agrees with fabs
         "abs": "abs"}
_ONE, _TWO, _TEN, _FOUR = (["n", str(k), "1", 0] for k in (1, 2, 10, 4))
_E = ["fn", "exp", _ONE]
# the math.h constants sympy's C printer substitutes (C89CodePrinter.math_macros); each is the double nearest
# to the value, which the expression on the right reproduces to within an ulp
MACROS = {
    "M_PI": ["pi"], "M_E": _E,
    "M_PI_2": ["/", ["pi"], _TWO], "M_PI_4": ["/", ["pi"], _FOUR],
    "M_1_PI": ["/", _ONE, ["pi"]], "M_2_PI": ["/", _TWO, ["pi"]],
    "M_2_SQRTPI": ["/", _TWO, ["fn", "sqrt", ["pi"]]],
    "M_SQRT2": ["fn", "sqrt", _TWO], "M_SQRT1_2": ["/", _ONE, ["fn", "sqrt", _TWO]],
    "M_LN2": ["fn", "log", _TWO], "M_LN10": ["fn", "log", _TEN],
    "M_LOG2E": ["/", _ONE, ["fn", "log", _TWO]], "M_LOG10E": ["/", _ONE, ["fn", "log", _TEN]],
}
BINPREC = {"||": 1, "&&": 2, "==": 3, "!=": 3, "<": 4, ">": 4, "<=": 4, ">=": 4, "+": 5, "-": 5, "*": 6, "/": 6}
REL = {"<": "lt", ">": "gt", "<=": "le", ">=": "ge", "==": "eq", "!=": "ne"}


class P:
    def __init__(self, toks):
        self.t = toks
        self.i = 0

    def peek(self):
        return self.t[self.i] if self.i < len(self.t) else (None, None)

    def eat(self, kind=None, val=None):
        k, v = self.peek()
        if (kind and k != kind) or (val is not None and v != val):
            raise CParseError(f"expected {kind} {val}, got {k} {v}")
        self.i += 1
        return v

    def ternary(self):
        c = self.binary(1)
        if self.peek() == ("op", "?"):
            self.eat()
            a = self.ternary()
            self.eat("op", ":")
            b = self.ternary()
            return ["if", c, a, b]
        return c

    def binary(self, minp):
        lhs = self.unary()
        while True:
            k, v = self.peek()
            if k != "op" or v not in BINPREC or BINPREC[v] < minp:
                return lhs
            self.eat()
            rhs = self.binary(BINPREC[v] + 1)
            if v in REL:
                lhs = ["rel", REL[v], lhs, rhs]
            elif v == "&&":
                lhs = ["and", lhs, rhs]
            elif v == "||":
                lhs = ["or", lhs, rhs]
            else:
                lhs = [v, lhs, rhs]

    def unary(self):
        k, v = self.peek()
        if k == "op" and v == "-":
            self.eat()
            return ["neg", self.unary()]
        if k == "op" and v == "+":
            self.eat()
            return self.unary()
        if k == "op" and v == "!":
            self.eat()
            return ["not", self.unary()]
        return self.primary()

    def primary(self):
        k, v = self.peek()
        if k == "num":
            self.eat()
            isint = v.isdigit()
            f = Fraction(v)
            return ["n", str(f.numerator), str(f.denominator), 1 if isint else 0]
        if k == "op" and v == "(":
            self.eat()
            e = self.ternary()
            self.eat("op", ")")
            return e
        if k == "id":
            self.eat()
            if self.peek() == ("op", "("):
                self.eat()
                args = []
                if self.peek() != ("op", ")"):
                    args.append(self.ternary())
                    while self.peek() == ("op", ","):
                        self.eat()
                        args.append(self.ternary())
                self.eat("op", ")")
                if v == "pow" and len(args) == 2:
                    return ["^", args[0], args[1]]
                if v == "fmod" and len(args) == 2:
                    return ["mod", args[0], args[1]]
                if v in ("expm1", "log1p", "exp2", "log2", "log10", "cbrt") and len(args) == 1:
                    # C99 functions an "optimising" printer may substitute (meaning over the reals; the typed evaluator is not bit-exact for them)
                    one, two, ten, three = (["n", str(k), "1", 0] for k in (1, 2, 10, 3))
                    a0 = args[0]
                    return {"expm1": ["-", ["fn", "exp", a0], one], "log1p": ["fn", "log", ["+", one, a0]],
                            "exp2": ["^", two, a0], "log2": ["/", ["fn", "log", a0], ["fn", "log", two]],
                            "log10": ["/", ["fn", "log", a0], ["fn", "log", ten]], "cbrt": ["^", a0, ["/", one, three]]}[v]
                if v in ("fmax", "fmin") and len(args) == 2:
                    # C99 fmax / fmin on non-NaN operands
                    return ["if", ["rel", "gt" if v == "fmax" else "lt", args[0], args[1]], args[0], args[1]]
                if v in FUNCS and len(args) == 1:
                    return ["fn", FUNCS[v], args[0]]
                raise CParseError("call " + v)
            if v in MACROS:
                return MACROS[v]
            return ["v", v]
        raise CParseError(f"primary {k} {v}")


def parse_expr(s):
    p = P(tokenize(s))
    e = p.ternary()
    if p.i != len(p.t):
        raise CParseError("trailing tokens: " + str(p.t[p.i:p.i + 3]))
    return e


FUNC_RE = re.compile(r"^void\s+(\w+)\s*\(([^)]*)\)\s*\{(.*?)^\}", re.S | re.M)


def functions(code):
    """{name: [(kind, target, index|None, expr_text)]}; kind in let / store / unpack"""
    out = {}
    for m in FUNC_RE.finditer(code):
        name, body = m.group(1), m.group(3)
        body = re.sub(r"/\*.*?\*/", "", body, flags=re.S)
        body = re.sub(r"//[^\n]*", "", body)
        stmts = []
        for st in body.split(";"):
            st = " ".join(st.split())
            if not st:
                continue
            mm = re.match(r"^const double (\w+) = (.*)$", st)
            if mm:
                rhs = mm.group(2)
                um = re.match(r"^(states|parameters|missing_variables)\[(\d+)\]$", rhs)
                if um:
                    stmts.append(("unpack", mm.group(1), (um.group(1), int(um.group(2))), rhs))
                else:
                    stmts.append(("let", mm.group(1), None, rhs))
                continue
            mm = re.match(r"^(\w+)\[(\d+)\] = (.*)$", st)
            if mm:
                stmts.append(("store", mm.group(1), int(mm.group(2)), mm.group(3)))
                continue
            stmts.append(("other", None, None, st))
        out[name] = stmts
    return out
