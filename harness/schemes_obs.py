"""schemes_obs.py - observations on generated scheme functions shared by C06 and C07."""
from __future__ import annotations

import math
from fractions import Fraction

import numpy as np

import impl
import pipeline


def contains(sx, head):
    if isinstance(sx, list):
        if sx and sx[0] == head:
            return True
        return any(contains(x, head) for x in sx[1:])
    return False


def reads(sx, name):
    if isinstance(sx, list):
        if len(sx) == 2 and sx[0] == "v" and sx[1] == name:
            return True
        return any(reads(x, name) for x in sx[1:])
    return False


def observed_modes(body_sx, sorted_states):
    """mode of every slot, read off the generated store expression:
    euler (no linearisation read), guard (a numpy.where on it), plain (unguarded formula)"""
    stores = {st[1]: st[2] for st in body_sx if st[0] == "store"}
    modes = []
    for i, s in enumerate(sorted_states):
        e = stores.get(i)
        g = f"d{s}_dt_linearized"
        if e is None or not reads(e, g):
            modes.append("euler")
        elif contains(e, "if"):
            modes.append("guard")
        else:
            modes.append("plain")
    return modes


def delta_q(delta: float):
    f = Fraction(float(delta))
    return str(f.numerator), str(f.denominator)


def validate_scheme(drv, body_sx, sorted_states, modes, stiff, delta):
    dn, dd = delta_q(delta)
    return drv.ask(["validate-scheme", dn, dd, modes, list(stiff), len(sorted_states), body_sx])


def check_mirror_rl(rep, drv, text, args, body_sx, sorted_states, modes, stiff, delta, ru=False, order="stdp"):
    """the generated Rush-Larsen function against the verified mirror generator (MirrorRL.gen_rl) for the modes read
    off the code, statement by statement; and the hypotheses of MirrorRL.mirror_rl_correct on the extended model"""
    import pipeline
    dn, dd = delta_q(delta)
    r = drv.ask(["mirrorrl", "1" if ru else "0", order, dn, dd, modes, list(stiff)])
    if r.get("status") == "ok" and not r.get("wf"):
        rep.count("mirror_rl_hypotheses_fail")
        rep.violation("Rush-Larsen code was generated for a model outside the hypotheses of MirrorRL.mirror_rl_correct "
                      "(names of the model extended with the <d>_linearized helpers not unique / reserved)",
                      {"kind": "correspondence", "relation": "wf of the extended model", "theorem": "MirrorRL.mirror_rl_correct",
                       "text": text, "failing_input": None}, failing_input_found=False)
        return False
    rep.count("mirror_rl_hypotheses_hold")
    return pipeline.check_mirror_function(rep, drv, text, "rl", ru, order, args, body_sx, resp=r)


def spec_update(x, f, g, dt, delta, mode_is_euler=False):
    """the update the property prescribes: x + (f/g)(exp(g dt) - 1), Euler when |g| <= delta"""
    if mode_is_euler or g is None:
        return x + dt * f
    if abs(g) > delta:
        try:
            return x + f / g * (math.exp(g * dt) - 1.0)
        except OverflowError:
            return float("inf") if f / g > 0 else float("-inf")
    return x + dt * f


def fnin_verdicts(ode):
    """the implementation's own fraction_numerator_is_nonzero verdict per state (an oracle that
    is cross-checked numerically), and its is_zero verdict"""
    from gotranx.schemes import fraction_numerator_is_nonzero

    out = {}
    for d in ode.state_derivatives:
        g = d.expr.diff(d.state.symbol)
        out[d.state.name] = {"is_zero": bool(g.is_zero), "nonzero": bool(fraction_numerator_is_nonzero(g)) if not g.is_zero else False}
    return out
