(* Examples.v — a concrete, non-trivial model used to show (by computation inside Coq) that the
   hypotheses of the property theorems are satisfiable: it is loaded by the loader mirror, has
   two components, an unused intermediate, a chain of intermediates, a conditional, and the
   dependency shape that exposed the hash-seed defect (C09). *)
From GX Require Import Base Expr Topo Ode Target Sem Codegen Load Valid Run Carriers.
From Coq Require Import QArith Qcanon.
Close Scope Q_scope.
Open Scope string_scope.
Open Scope list_scope.

Definition lit (z : Z) : expr := ENum (inject_Z z) true.
Definition v (x : string) : expr := EVar x.

Definition ex_items : list item :=
  [ IStates ["A"] [ {| en_name := "a"; en_value := lit 1; en_unit := None; en_desc := None |};
                    {| en_name := "y"; en_value := lit 2; en_unit := Some "mV"; en_desc := None |} ];
    IStates ["B"] [ {| en_name := "z"; en_value := lit 3; en_unit := None; en_desc := None |} ];
    IParams ["A"] [ {| en_name := "p"; en_value := ENum (1 # 2) false; en_unit := None; en_desc := None |};
                    {| en_name := "unused_p"; en_value := lit 7; en_unit := None; en_desc := None |} ];
    IExprs ["A"] [ {| ln_name := "da_dt"; ln_expr := EAdd (v "y") (v "k2"); ln_unit := None; ln_comment := None |};
                   {| ln_name := "k2"; ln_expr := EMul (v "k1") (v "p"); ln_unit := None; ln_comment := None |};
                   {| ln_name := "k1"; ln_expr := ECond (ERel Rlt (v "t") (lit 1)) (v "z") (ENeg (v "z"));
                      ln_unit := None; ln_comment := None |};
                   {| ln_name := "dy_dt"; ln_expr := EDiv (v "y") (lit 4); ln_unit := None; ln_comment := None |};
                   {| ln_name := "dead"; ln_expr := EMul (v "a") (v "a"); ln_unit := None; ln_comment := None |} ];
    IComment "a comment";
    IExprs ["B"] [ {| ln_name := "dz_dt"; ln_expr := ESub (v "z") (v "k1"); ln_unit := None; ln_comment := None |} ] ].

Definition ex_ode : ode :=
  match load ex_items with Ok o => o | Err _ => {| o_states := []; o_params := []; o_inters := []; o_derivs := [] |} end.

Definition ex_ss : list string := match sorted_states ex_ode with Some l => l | None => [] end.

Definition ex_inp : inputs Qc :=
  {| in_t := Q2Qc (1 # 2); in_dt := Q2Qc (1 # 4);
     in_states := map (fun z => Q2Qc (inject_Z z)) [5; 6; 7]%Z;
     in_params := map (fun z => Q2Qc (inject_Z z)) [2; 9]%Z;
     in_missing := [] |}.

Definition ex_rhs (ru : bool) : func :=
  match gen_rhs ex_ode ru "tsp" with Some f => f | None => {| f_name := ""; f_args := []; f_nret := 0; f_body := [] |} end.
Definition ex_euler (ru : bool) : func :=
  match gen_euler ex_ode ru "explicit_euler" "stdp" with Some f => f
  | None => {| f_name := ""; f_args := []; f_nret := 0; f_body := [] |} end.
Definition ex_monitor : func :=
  match gen_monitor ex_ode false "tsp" with Some f => f | None => {| f_name := ""; f_args := []; f_nret := 0; f_body := [] |} end.
Definition ex_monitor_tbl : list string := match sorted_names ex_ode false with Some l => l | None => [] end.

Lemma ex_loaded : exists o, load ex_items = Ok o /\ length (o_inters o) = 3 /\ length (o_derivs o) = 3.
Proof. vm_compute. eexists. split; [reflexivity|]. split; reflexivity. Qed.

Lemma ex_ss_value : ex_ss = ["y"; "z"; "a"].
Proof. vm_compute. reflexivity. Qed.

Lemma ex_sizes : sizes_ok ex_ode ex_ss ex_inp.
Proof. vm_compute. repeat split. Qed.
