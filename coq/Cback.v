(* Cback.v — what a C99 compiler makes of the right-hand sides the C printer emits: numeric
   constants are typed (an integer constant has type int, a floating constant type double),
   + - * / on two ints are integer operations (/ truncates), a mixed operation converts the int to
   double, the <math.h> functions take and return doubles, fmod has the sign of the dividend.
   [ceval] is that typed evaluation; [eval] is the real-valued meaning of the same tree.
   Expressions here are read off the *generated C text* (harness/cparse.py), so an EMod node is a
   call of fmod and ENum _ true an integer constant. *)
From GX Require Import Base Expr.
From Coq Require Import QArith.
Close Scope Q_scope.
Open Scope string_scope.
Open Scope list_scope.

Inductive cval (T : Type) := CI (z : Z) | CD (d : T).
Arguments CI {T}. Arguments CD {T}.

Section CEval.
  Context {T : Type} (N : NumOps T).
  Variable ofZ : Z -> T.           (* conversion int -> double *)
  Variable cfmod : T -> T -> T.    (* fmod of <math.h>: result has the sign of the dividend *)

  Definition to_d (v : cval T) : T := match v with CI z => ofZ z | CD d => d end.

  Definition arith (iop : Z -> Z -> Z) (dop : T -> T -> T) (a b : cval T) : cval T :=
    match a, b with
    | CI x, CI y => CI (iop x y)
    | _, _ => CD (dop (to_d a) (to_d b))
    end.

  Fixpoint ceval (rho : string -> T) (e : expr) : cval T :=
    match e with
    | ENum q true => CI (Qnum q)
    | ENum q false => CD (ofQ N q)
    | EVar x => CD (rho x)
    | EPi => CD (cpi N)
    | EAdd a b => arith Z.add (add N) (ceval rho a) (ceval rho b)
    | ESub a b => arith Z.sub (sub N) (ceval rho a) (ceval rho b)
    | EMul a b => arith Z.mul (mul N) (ceval rho a) (ceval rho b)
    | EDiv a b => arith Z.quot (div N) (ceval rho a) (ceval rho b)     (* C99: truncation toward 0 *)
    | EPow a b => CD (pow N (to_d (ceval rho a)) (to_d (ceval rho b)))  (* double pow(double, double) *)
    | ENeg a => match ceval rho a with CI x => CI (- x) | CD d => CD (neg N d) end
    | EFn f a => CD (fn N f (to_d (ceval rho a)))
    | EMod a b => CD (cfmod (to_d (ceval rho a)) (to_d (ceval rho b)))
    | ERel r a b => CD (rel N r (to_d (ceval rho a)) (to_d (ceval rho b)))
    | ENot a => CD (bnot N (to_d (ceval rho a)))
    | EAnd a b => CD (band N (to_d (ceval rho a)) (to_d (ceval rho b)))
    | EOr a b => CD (bor N (to_d (ceval rho a)) (to_d (ceval rho b)))
    | ECond c a b => CD (select N (to_d (ceval rho c)) (to_d (ceval rho a)) (to_d (ceval rho b)))
    end.

  (* the static type the C compiler gives the expression *)
  Fixpoint is_int (e : expr) : bool :=
    match e with
    | ENum _ i => i
    | EAdd a b | ESub a b | EMul a b | EDiv a b => is_int a && is_int b
    | ENeg a => is_int a
    | _ => false
    end.

  Lemma ceval_type rho e : is_int e = true -> exists z, ceval rho e = CI z.
  Proof.
    induction e; simpl; try discriminate; intros H.
    - subst int_lit. eauto.
    - apply andb_true_iff in H. destruct H as [H1 H2].
      destruct (IHe1 H1) as [z1 ->], (IHe2 H2) as [z2 ->]. simpl. eauto.
    - apply andb_true_iff in H. destruct H as [H1 H2].
      destruct (IHe1 H1) as [z1 ->], (IHe2 H2) as [z2 ->]. simpl. eauto.
    - apply andb_true_iff in H. destruct H as [H1 H2].
      destruct (IHe1 H1) as [z1 ->], (IHe2 H2) as [z2 ->]. simpl. eauto.
    - apply andb_true_iff in H. destruct H as [H1 H2].
      destruct (IHe1 H1) as [z1 ->], (IHe2 H2) as [z2 ->]. simpl. eauto.
    - destruct (IHe H) as [z ->]. eauto.
  Qed.

  (* an expression is "real-valued in C" if no division has two integer operands and fmod is not
     used: then the C value is the documented real value *)
  Fixpoint c_safe (e : expr) : bool :=
    match e with
    | ENum q i => if i then Pos.eqb (Qden q) 1 else true
    | EVar _ | EPi => true
    | EDiv a b => c_safe a && c_safe b && negb (is_int a && is_int b)
    | EMod _ _ => false
    | EAdd a b | ESub a b | EMul a b | EPow a b | ERel _ a b | EAnd a b | EOr a b =>
        c_safe a && c_safe b
    | ENeg a | EFn _ a | ENot a => c_safe a
    | ECond c a b => c_safe c && c_safe a && c_safe b
    end.

  (* int -> double is a ring embedding that agrees with the meaning of integer literals *)
  Record IntEmbedding : Prop := {
    ie_lit : forall z, ofZ z = ofQ N (inject_Z z);
    ie_add : forall a b, ofZ (a + b) = add N (ofZ a) (ofZ b);
    ie_sub : forall a b, ofZ (a - b) = sub N (ofZ a) (ofZ b);
    ie_mul : forall a b, ofZ (a * b) = mul N (ofZ a) (ofZ b);
    ie_neg : forall a, ofZ (- a) = neg N (ofZ a) }.

  Hypothesis IE : IntEmbedding.

  Lemma Qnum_inject q : Pos.eqb (Qden q) 1 = true -> q = inject_Z (Qnum q).
  Proof. destruct q as [n d]. cbn [Qden Qnum]. intros H. apply Pos.eqb_eq in H. subst. reflexivity. Qed.

  Lemma ceval_CI_is_int rho e z : ceval rho e = CI z -> is_int e = true.
  Proof.
    revert z; induction e; simpl; intros z H; try discriminate.
    - destruct int_lit; [reflexivity|discriminate].
    - destruct (ceval rho e1) eqn:A, (ceval rho e2) eqn:B; simpl in H; try discriminate.
      rewrite (IHe1 _ eq_refl), (IHe2 _ eq_refl). reflexivity.
    - destruct (ceval rho e1) eqn:A, (ceval rho e2) eqn:B; simpl in H; try discriminate.
      rewrite (IHe1 _ eq_refl), (IHe2 _ eq_refl). reflexivity.
    - destruct (ceval rho e1) eqn:A, (ceval rho e2) eqn:B; simpl in H; try discriminate.
      rewrite (IHe1 _ eq_refl), (IHe2 _ eq_refl). reflexivity.
    - destruct (ceval rho e1) eqn:A, (ceval rho e2) eqn:B; simpl in H; try discriminate.
      rewrite (IHe1 _ eq_refl), (IHe2 _ eq_refl). reflexivity.
    - destruct (ceval rho e) eqn:A; try discriminate. eapply IHe; eauto.
  Qed.

  Theorem ceval_safe rho e : c_safe e = true -> to_d (ceval rho e) = eval N rho e.
  Proof.
    induction e; simpl; intros H; try reflexivity.
    - destruct int_lit; simpl; [|reflexivity]. rewrite (ie_lit IE). f_equal. symmetry. apply Qnum_inject. exact H.
    - apply andb_true_iff in H. destruct H as [H1 H2]. specialize (IHe1 H1). specialize (IHe2 H2).
      destruct (ceval rho e1), (ceval rho e2); simpl in *; rewrite <- ?IHe1, <- ?IHe2; try reflexivity.
      apply (ie_add IE).
    - apply andb_true_iff in H. destruct H as [H1 H2]. specialize (IHe1 H1). specialize (IHe2 H2).
      destruct (ceval rho e1), (ceval rho e2); simpl in *; rewrite <- ?IHe1, <- ?IHe2; try reflexivity.
      apply (ie_sub IE).
    - apply andb_true_iff in H. destruct H as [H1 H2]. specialize (IHe1 H1). specialize (IHe2 H2).
      destruct (ceval rho e1), (ceval rho e2); simpl in *; rewrite <- ?IHe1, <- ?IHe2; try reflexivity.
      apply (ie_mul IE).
    - apply andb_true_iff in H. destruct H as [H H3]. apply andb_true_iff in H. destruct H as [H1 H2].
      specialize (IHe1 H1). specialize (IHe2 H2).
      destruct (ceval rho e1) eqn:C1, (ceval rho e2) eqn:C2; simpl in *; rewrite <- ?IHe1, <- ?IHe2; try reflexivity.
      exfalso. rewrite (ceval_CI_is_int _ _ _ C1), (ceval_CI_is_int _ _ _ C2) in H3. discriminate.
    - apply andb_true_iff in H. destruct H as [H1 H2]. rewrite (IHe1 H1), (IHe2 H2). reflexivity.
    - specialize (IHe H). destruct (ceval rho e); simpl in *; rewrite <- IHe; [apply (ie_neg IE)|reflexivity].
    - rewrite (IHe H). reflexivity.
    - discriminate.
    - apply andb_true_iff in H. destruct H as [H1 H2]. rewrite (IHe1 H1), (IHe2 H2). reflexivity.
    - rewrite (IHe H). reflexivity.
    - apply andb_true_iff in H. destruct H as [H1 H2]. rewrite (IHe1 H1), (IHe2 H2). reflexivity.
    - apply andb_true_iff in H. destruct H as [H1 H2]. rewrite (IHe1 H1), (IHe2 H2). reflexivity.
    - apply andb_true_iff in H. destruct H as [H H3]. apply andb_true_iff in H. destruct H as [H1 H2].
      rewrite (IHe1 H1), (IHe2 H2), (IHe3 H3). reflexivity.
  Qed.
End CEval.
