(* Theory.v — consequences of validator soundness that the property files cite:
   agreement of two validated programs (C12), Euler = states + dt * rhs and the dt = 0 law (C05),
   index tables and initial-value functions (C04). *)
From GX Require Import Base Expr Topo Ode Target Sem Codegen Valid MirrorValid Carriers.
From Coq Require Import QArith.
Close Scope Q_scope.
Open Scope string_scope.
Open Scope list_scope.

Lemma list_eq_nth {A} (l1 l2 : list A) :
  length l1 = length l2 -> (forall i, i < length l1 -> nth_error l1 i = nth_error l2 i) -> l1 = l2.
Proof.
  revert l2; induction l1 as [|x l1 IH]; intros [|y l2] Hl H; simpl in *; try discriminate; auto.
  f_equal.
  - specialize (H 0 (Nat.lt_0_succ _)). simpl in H. congruence.
  - apply IH; [lia|]. intros i Hi. apply (H (S i)). lia.
Qed.

Section Agree.
  Context {T : Type} (N : NumOps T) (o : ode).
  Variable ss : list string.
  Variable inp : inputs T.
  Variable with_dt : bool.

  (* C12: two validated rhs programs for the same model (e.g. generated with and without
     removal of unused variables) return the same array *)
  Theorem rhs_agree f1 f2 :
    sizes_ok o ss inp -> reserved_free o inp with_dt = true ->
    valid_rhs o ss inp with_dt f1 = true -> valid_rhs o ss inp with_dt f2 = true ->
    exists out, exec N f1 with_dt inp = Some out /\ exec N f2 with_dt inp = Some out
                /\ length out = length ss.
  Proof.
    intros Hsz Hrf H1 H2.
    destruct (rhs_sound N o ss inp with_dt f1 Hsz Hrf H1) as (o1 & E1 & L1 & S1).
    destruct (rhs_sound N o ss inp with_dt f2 Hsz Hrf H2) as (o2 & E2 & L2 & S2).
    exists o1. split; [exact E1|]. split; [|exact L1]. rewrite E2. f_equal.
    apply list_eq_nth; [congruence|]. intros i Hi. rewrite L2 in Hi.
    destruct (nth_error ss i) as [s|] eqn:Es; [|apply nth_error_None in Es; lia].
    destruct (S1 i s Es) as (v1 & Hn1 & Hs1). destruct (S2 i s Es) as (v2 & Hn2 & Hs2).
    rewrite Hn1, Hn2. f_equal. eapply Sem_fun; eauto.
  Qed.

  Theorem named_agree tbl f1 f2 :
    sizes_ok o ss inp -> reserved_free o inp with_dt = true ->
    valid_named o ss inp with_dt tbl f1 = true -> valid_named o ss inp with_dt tbl f2 = true ->
    exists out, exec N f1 with_dt inp = Some out /\ exec N f2 with_dt inp = Some out
                /\ length out = length tbl.
  Proof.
    intros Hsz Hrf H1 H2.
    destruct (named_sound N o ss inp with_dt tbl f1 Hsz Hrf H1) as (o1 & E1 & L1 & S1).
    destruct (named_sound N o ss inp with_dt tbl f2 Hsz Hrf H2) as (o2 & E2 & L2 & S2).
    exists o1. split; [exact E1|]. split; [|exact L1]. rewrite E2. f_equal.
    apply list_eq_nth; [congruence|]. intros i Hi. rewrite L2 in Hi.
    destruct (nth_error tbl i) as [s|] eqn:Es; [|apply nth_error_None in Es; lia].
    destruct (S1 i s Es) as (v1 & Hn1 & Hs1). destruct (S2 i s Es) as (v2 & Hn2 & Hs2).
    rewrite Hn1, Hn2. f_equal. eapply Sem_fun; eauto.
  Qed.

  (* C05: the Euler step is  states + dt * rhs  slot by slot *)
  Theorem euler_is_rhs_step fe fr :
    CommOps N -> with_dt = true ->
    sizes_ok o ss inp -> reserved_free o inp with_dt = true ->
    states_clean o ss inp with_dt = true -> NoDup ss ->
    valid_euler o ss inp with_dt fe = true -> valid_rhs o ss inp with_dt fr = true ->
    exists oe orr,
      exec N fe with_dt inp = Some oe /\ exec N fr with_dt inp = Some orr
      /\ length oe = length ss /\ length orr = length ss
      /\ forall i, i < length ss ->
           exists sv fv, nth_error (in_states inp) i = Some sv /\ nth_error orr i = Some fv
                         /\ nth_error oe i = Some (add N sv (mul N (in_dt inp) fv)).
  Proof.
    intros HC Hdt Hsz Hrf Hcl Hnd He Hr.
    destruct (euler_sound N o ss inp with_dt fe HC Hdt Hsz Hrf Hcl Hnd He) as (oe & Ee & Le & Se).
    destruct (rhs_sound N o ss inp with_dt fr Hsz Hrf Hr) as (orr & Er & Lr & Sr).
    exists oe, orr. repeat split; auto.
    intros i Hi. destruct (nth_error ss i) as [s|] eqn:Es; [|apply nth_error_None in Es; lia].
    destruct (Se i s Es) as (sv & fv & Hsv & Hfv & Hoe).
    destruct (Sr i s Es) as (fv' & Hor & Hfv').
    exists sv, fv'. split; [exact Hsv|]. split; [exact Hor|].
    rewrite Hoe. rewrite (Sem_fun N o ss inp with_dt _ _ Hfv _ Hfv'). reflexivity.
  Qed.

  (* with dt = 0 the Euler step returns the input states (carriers with ring laws: Q, R) *)
  Theorem euler_dt0 fe :
    RingLaws N -> with_dt = true -> in_dt inp = ofQ N 0%Q ->
    sizes_ok o ss inp -> reserved_free o inp with_dt = true ->
    states_clean o ss inp with_dt = true -> NoDup ss ->
    valid_euler o ss inp with_dt fe = true ->
    exec N fe with_dt inp = Some (in_states inp).
  Proof.
    intros HR Hdt H0 Hsz Hrf Hcl Hnd He.
    assert (HC : CommOps N) by (constructor; [apply (rl_add_comm N HR)|apply (rl_mul_comm N HR)]).
    destruct (euler_sound N o ss inp with_dt fe HC Hdt Hsz Hrf Hcl Hnd He) as (oe & Ee & Le & Se).
    rewrite Ee. f_equal. destruct Hsz as (Hs1 & _).
    apply list_eq_nth; [congruence|]. intros i Hi. rewrite Le in Hi.
    destruct (nth_error ss i) as [s|] eqn:Es; [|apply nth_error_None in Es; lia].
    destruct (Se i s Es) as (sv & fv & Hsv & _ & Hoe).
    rewrite Hoe, Hsv, H0. f_equal.
    rewrite (rl_mul_zero N HR). apply (rl_add_zero N HR).
  Qed.
End Agree.

(* ---------- C04: index tables and initial values ---------- *)

(* an index table without repetitions is a bijection between its names and 0..n-1 and refuses
   every other name *)
Theorem index_table_bijective (tbl : list string) :
  NoDup tbl ->
  (forall x i, index_of x tbl = Some i <-> nth_error tbl i = Some x)
  /\ (forall x i, index_of x tbl = Some i -> i < length tbl)
  /\ (forall x y i, index_of x tbl = Some i -> index_of y tbl = Some i -> x = y)
  /\ (forall i, i < length tbl -> exists x, index_of x tbl = Some i)
  /\ (forall x, ~ In x tbl <-> index_of x tbl = None).
Proof.
  intros Hnd. split; [|split; [|split; [|split]]].
  - intros x i. split; [apply index_of_nth | apply NoDup_index_of; exact Hnd].
  - intros x i H. eapply index_of_lt; eauto.
  - intros x y i. apply index_of_inj.
  - intros i Hi. destruct (nth_error tbl i) as [x|] eqn:E; [|apply nth_error_None in E; lia].
    exists x. apply NoDup_index_of; assumption.
  - intros x. split; apply index_of_None.
Qed.

Section InitValues.
  Context {T : Type} (N : NumOps T).

  Lemma set_nth_length (l : list T) i v : length (set_nth l i v) = length l.
  Proof. revert i; induction l as [|x l IH]; intros [|i]; simpl; auto. Qed.

  Lemma set_nth_same (l : list T) i v : i < length l -> nth_error (set_nth l i v) i = Some v.
  Proof.
    revert i; induction l as [|x l IH]; intros [|i] H; simpl in *; try lia; auto.
    apply IH. lia.
  Qed.

  Lemma set_nth_other (l : list T) i j v : i <> j -> nth_error (set_nth l i v) j = nth_error l j.
  Proof.
    revert i j; induction l as [|x l IH]; intros [|i] [|j] H; simpl; auto; try congruence.
  Qed.

  Fixpoint last_override (k : string) (kw : list (string * T)) : option T :=
    match kw with
    | [] => None
    | (k', v) :: kw' =>
        match last_override k kw' with
        | Some w => Some w
        | None => if String.eqb k k' then Some v else None
        end
    end.

  (* the init functions called with keyword overrides kw: every keyword must be a known name (otherwise KeyError = None);
     slot i holds the (last) override given for the name at i, else the default *)
  Theorem apply_overrides_spec (tbl : list string) :
    NoDup tbl ->
    forall kw vals r,
      length vals = length tbl ->
      apply_overrides tbl vals kw = Some r ->
      length r = length tbl
      /\ (forall k v, In (k, v) kw -> In k tbl)
      /\ forall i x, nth_error tbl i = Some x ->
           nth_error r i = match last_override x kw with
                           | Some v => Some v
                           | None => nth_error vals i
                           end.
  Proof.
    intros Hnd kw. induction kw as [|[k v] kw IH]; intros vals r Hl H; simpl in H.
    - injection H as <-. split; [exact Hl|]. split; [intros ? ? []|]. intros; reflexivity.
    - destruct (index_of k tbl) as [j|] eqn:Ej; [|discriminate].
      assert (Hl' : length (set_nth vals j v) = length tbl) by (rewrite set_nth_length; exact Hl).
      destruct (IH _ _ Hl' H) as (Hr & Hk & Hs).
      split; [exact Hr|]. split.
      + intros k' v' [[= <- <-]|Hin]; [|eauto].
        apply index_of_nth in Ej. eapply nth_error_In; eauto.
      + intros i x Hx. rewrite (Hs i x Hx). simpl.
        destruct (last_override x kw) as [w|]; [reflexivity|].
        destruct (String.eqb_spec x k) as [->|Hne].
        * assert (i = j).
          { pose proof (NoDup_index_of _ _ _ Hnd Hx). congruence. }
          subst i. apply set_nth_same. rewrite Hl. eapply index_of_lt; eauto.
        * apply set_nth_other. intros ->. apply index_of_nth in Ej. congruence.
  Qed.

  Theorem apply_overrides_unknown (tbl : list string) (vals : list T) (kw : list (string * T)) k v :
    In (k, v) kw -> ~ In k tbl -> apply_overrides tbl vals kw = None.
  Proof.
    revert vals; induction kw as [|[k' v'] kw IH]; intros vals Hin Hni; [destruct Hin|].
    simpl. destruct Hin as [[= -> ->]|Hin].
    - apply index_of_None in Hni. rewrite Hni. reflexivity.
    - destruct (index_of k' tbl); [|reflexivity]. apply IH; assumption.
  Qed.
End InitValues.

(* the argument-order option changes only the formal parameters of the mirror's functions *)
Theorem gen_rhs_order_only_formals o ru ord1 ord2 f1 f2 :
  gen_rhs o ru ord1 = Some f1 -> gen_rhs o ru ord2 = Some f2 ->
  f_body f1 = f_body f2 /\ f_nret f1 = f_nret f2 /\ f_name f1 = f_name f2.
Proof.
  unfold gen_rhs. destruct (sorted_states o), (sorted_names o ru); try discriminate.
  intros [= <-] [= <-]. simpl. auto.
Qed.

Theorem gen_euler_order_only_formals o ru nm ord1 ord2 f1 f2 :
  gen_euler o ru nm ord1 = Some f1 -> gen_euler o ru nm ord2 = Some f2 ->
  f_body f1 = f_body f2 /\ f_nret f1 = f_nret f2 /\ f_name f1 = f_name f2.
Proof.
  unfold gen_euler. destruct (sorted_states o), (sorted_names o ru); try discriminate.
  intros [= <-] [= <-]. simpl. auto.
Qed.

(* ---------- C13: sub-models ---------- *)
Section SubModel.
  Context {T : Type} (N : NumOps T).
  Variables (ofull osub : ode) (ssf sss : list string) (inpf inps : inputs T) (wd : bool).

  (* the sub-model's assignments are assignments of the full model, under the same names *)
  Hypothesis sub_assigns : forall x a, find_assign osub x = Some a -> find_assign ofull x = Some a.
  (* every name the sub-model does not define (its states, parameters, missing variables, t, dt)
     is fed the value the full model gives that name *)
  Hypothesis fed : forall x v, find_assign osub x = None -> base osub sss inps wd x = Some v ->
                               Sem N ofull ssf inpf wd x v.

  (* then every quantity of the sub-model has the value it has in the full model *)
  Theorem sub_sem_transfer x v : Sem N osub sss inps wd x v -> Sem N ofull ssf inpf wd x v.
  Proof.
    induction 1 as [x v Hf Hb | x a rho Hf Hdeps IH].
    - apply fed; assumption.
    - apply SemDef; [apply sub_assigns; exact Hf|exact IH].
  Qed.
End SubModel.

(* missing variables are exactly the names used but not defined *)
Theorem missing_names_exact o x :
  In x (missing_names o) <->
  (exists a, In a (assigns o) /\ In x (vars (a_expr a))) /\ known_symbol o x = false.
Proof.
  unfold missing_names. rewrite sort_names_In, dedup_In, filter_In, in_flat_map.
  rewrite negb_true_iff. tauto.
Qed.

(* C12 for the mirror compiler: for every well-formed model, the rhs generated with removal of unused
   variables returns the same array as the one generated without *)
Theorem mirror_rhs_removal_invariant {T} (N : NumOps T) (o : ode) order1 order2 ss f1 f2 (inp : inputs T) :
  sorted_states o = Some ss -> wf_gen o ss false = true ->
  gen_rhs o false order1 = Some f1 -> gen_rhs o true order2 = Some f2 ->
  sizes_ok o ss inp ->
  exists out, exec N f1 false inp = Some out /\ exec N f2 false inp = Some out /\ length out = length ss.
Proof.
  intros Hss Hwf H1 H2 Hsz.
  destruct (mirror_rhs_correct N o false order1 ss f1 inp Hss Hwf H1 Hsz) as (V1 & _).
  destruct (mirror_rhs_correct N o true order2 ss f2 inp Hss Hwf H2 Hsz) as (V2 & _).
  exact (rhs_agree N o ss inp false f1 f2 Hsz (wf_reserved_free o ss false inp Hwf) V1 V2).
Qed.
