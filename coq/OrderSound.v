(* OrderSound.v — ODE.sorted_assignments (its mirror, Ode.sorted_names) defines every assignment
   before it is used, for every model for which it returns an order, with and without
   remove_unused; a model whose assignments depend on each other cyclically gets no order at all.
   Built on KahnSound.build_order_sound (soundness of the graphlib mirror). *)
From GX Require Import Base Expr Topo Ode KahnSound.
From Coq Require Import Lia.
Open Scope string_scope.
Open Scope list_scope.

Lemma build_graph_is_build o names : build_graph o names = build (deps_of o) names [].
Proof. reflexivity. Qed.

Lemma NoDup_split_unique {A} (a b a' b' : list A) n :
  NoDup (a ++ n :: b) -> a ++ n :: b = a' ++ n :: b' -> a = a'.
Proof.
  revert a'. induction a as [|x a IH]; intros a' Hnd E.
  - destruct a' as [|y a']; [reflexivity|]. simpl in E. injection E as <- E.
    inversion Hnd as [|? ? Hn _]; subst. exfalso. apply Hn. apply in_elt.
  - destruct a' as [|y a']; simpl in E.
    + injection E as -> E. simpl in Hnd. inversion Hnd as [|? ? Hn _]; subst.
      exfalso. apply Hn. apply in_elt.
    + injection E as <- E. simpl in Hnd. inversion Hnd as [|? ? _ Hnd']; subst.
      f_equal. apply (IH a' Hnd' E).
Qed.

(* dropping names from an order keeps "dependencies come first" for the names that stay *)
Lemma filter_topo (f : string -> bool) (R : string -> string -> Prop) ord0 :
  NoDup ord0 ->
  (forall pre n post, ord0 = pre ++ n :: post -> forall d, R n d -> In d pre) ->
  forall pre n post, filter f ord0 = pre ++ n :: post ->
    forall d, R n d -> f d = true -> In d pre.
Proof.
  intros Hnd H0 pre n post E d HR Hf.
  assert (Hin : In n (filter f ord0)) by (rewrite E; apply in_elt).
  apply filter_In in Hin. destruct Hin as [Hin Hfn].
  apply in_split in Hin. destruct Hin as [pre0 [post0 E0]].
  pose proof (H0 pre0 n post0 E0 d HR) as Hd.
  assert (E1 : filter f ord0 = filter f pre0 ++ n :: filter f post0).
  { rewrite E0, filter_app. simpl. rewrite Hfn. reflexivity. }
  assert (Hnd' : NoDup (filter f ord0)) by (apply NoDup_filter; exact Hnd).
  rewrite E1 in E, Hnd'.
  rewrite <- (NoDup_split_unique _ _ _ _ _ Hnd' E).
  apply (proj2 (filter_In _ _ _)). split; assumption.
Qed.

Lemma deps_are_read o n d :
  In d (deps_of o n) -> exists a, In a (assigns o) /\ a_name a = n /\ In d (vars (a_expr a)).
Proof.
  unfold deps_of, find_assign. destruct (find _ (assigns o)) as [a|] eqn:E; [|intros []].
  apply find_some in E. destruct E as [Ha Hn]. apply String.eqb_eq in Hn.
  intros Hd. unfold adeps in Hd. rewrite sort_names_In, dedup_In in Hd.
  exists a. split; [exact Ha|]. split; [exact Hn|exact Hd].
Qed.

Lemma dep_is_used o n d : In d (deps_of o n) -> used o d = true.
Proof.
  intros H. destruct (deps_are_read o n d H) as (a & Ha & _ & Hd).
  unfold used. apply existsb_exists. exists a. split; [exact Ha|]. apply mem_In. exact Hd.
Qed.

Theorem sorted_names_sound o ru ord :
  sorted_names o ru = Some ord ->
  NoDup ord
  /\ (forall n, In n ord -> In n (all_assign_names o))
  /\ (forall n, In n (all_assign_names o) ->
        ru = false \/ is_inter_name o n = false \/ used o n = true -> In n ord)
  /\ (forall pre n post, ord = pre ++ n :: post ->
        forall d, In d (deps_of o n) -> In d (all_assign_names o) -> In d pre).
Proof.
  unfold sorted_names. set (names := all_assign_names o). rewrite build_graph_is_build.
  destruct (static_order (build (deps_of o) names [])) as [ord0|] eqn:E0; [|discriminate].
  destruct (build_order_sound _ _ _ E0) as (Hnd & Hall & Htopo).
  set (f1 := fun n => mem n names). set (f2 := fun n => negb (is_inter_name o n) || used o n).
  pose (R := fun n d => In n names /\ In d (deps_of o n)).
  assert (H0 : forall pre n post, ord0 = pre ++ n :: post -> forall d, R n d -> In d pre).
  { intros pre n post E d [H1 H2]. exact (Htopo pre n post E H1 d H2). }
  pose proof (filter_topo f1 R ord0 Hnd H0) as H1.
  assert (Hnd1 : NoDup (filter f1 ord0)) by (apply NoDup_filter; exact Hnd).
  intros H. injection H as <-. destruct ru.
  - pose (R1 := fun n d => R n d /\ f1 d = true).
    assert (H1' : forall pre n post, filter f1 ord0 = pre ++ n :: post -> forall d, R1 n d -> In d pre).
    { intros pre n post E d [Ha Hb]. exact (H1 pre n post E d Ha Hb). }
    pose proof (filter_topo f2 R1 (filter f1 ord0) Hnd1 H1') as H2.
    split; [apply NoDup_filter; exact Hnd1|]. split; [|split].
    + intros n Hn. apply filter_In in Hn. destruct Hn as [Hn _]. apply filter_In in Hn.
      destruct Hn as [_ Hn]. apply mem_In. exact Hn.
    + intros n Hn Hc. apply filter_In. split.
      * apply filter_In. split; [exact (Hall n Hn)|apply mem_In; exact Hn].
      * unfold f2. destruct Hc as [Hc|[Hc|Hc]]; [discriminate|rewrite Hc; reflexivity|rewrite Hc; apply orb_true_r].
    + intros pre n post E d Hd Hdn.
      assert (Hn : In n names).
      { assert (Hi : In n (filter f2 (filter f1 ord0))) by (rewrite E; apply in_elt).
        apply filter_In in Hi. destruct Hi as [Hi _]. apply filter_In in Hi. destruct Hi as [_ Hi].
        apply mem_In. exact Hi. }
      apply (H2 pre n post E d).
      * split; [split; assumption|]. apply mem_In. exact Hdn.
      * unfold f2. rewrite (dep_is_used o n d Hd). apply orb_true_r.
  - split; [exact Hnd1|]. split; [|split].
    + intros n Hn. apply filter_In in Hn. destruct Hn as [_ Hn]. apply mem_In. exact Hn.
    + intros n Hn _. apply filter_In. split; [exact (Hall n Hn)|apply mem_In; exact Hn].
    + intros pre n post E d Hd Hdn.
      assert (Hn : In n names).
      { assert (Hi : In n (filter f1 ord0)) by (rewrite E; apply in_elt).
        apply filter_In in Hi. destruct Hi as [_ Hi]. apply mem_In. exact Hi. }
      apply (H1 pre n post E d); [split; assumption|apply mem_In; exact Hdn].
Qed.

(* no assignment in an ordered model reads itself, and two assignments never read each other *)
Corollary sorted_names_acyclic2 o ru ord n m :
  sorted_names o ru = Some ord -> In n ord -> In m ord ->
  In m (deps_of o n) -> In n (deps_of o m) -> False.
Proof.
  intros H Hn Hm Hnm Hmn. destruct (sorted_names_sound o ru ord H) as (Hnd & Hin & _ & Ht).
  apply in_split in Hn. destruct Hn as [pre [post E]].
  pose proof (Ht pre n post E m Hnm (Hin m Hm)) as Hmpre.
  apply in_split in Hmpre. destruct Hmpre as [p1 [p2 Ep]].
  assert (E' : ord = p1 ++ m :: (p2 ++ n :: post)).
  { rewrite E, Ep, <- app_assoc. reflexivity. }
  assert (Hnin : In n ord) by (rewrite E; apply in_elt).
  pose proof (Ht p1 m _ E' n Hmn (Hin n Hnin)) as Hn1.
  rewrite E' in Hnd. destruct (NoDup_app_elim _ _ Hnd) as (_ & _ & Hd).
  apply (Hd n Hn1). right. apply in_elt.
Qed.

(* ---------- completeness: graphlib.CycleError is raised only for cyclic definitions ---------- *)
(* ODE.sorted_assignments returns an order exactly when the assignments can be ranked so that every
   assignment ranks above everything it reads, i.e. exactly when the definitions are acyclic; in
   particular the outcome does not depend on the order in which the assignments were written. *)
Theorem sorted_names_iff_ranked o ru :
  (exists ord, sorted_names o ru = Some ord)
  <-> exists rank : string -> nat,
        forall n d, In n (all_assign_names o) -> In d (deps_of o n) -> rank d < rank n.
Proof.
  rewrite <- (build_order_iff_ranked (deps_of o) (all_assign_names o)).
  unfold sorted_names. rewrite build_graph_is_build.
  destruct (static_order (build (deps_of o) (all_assign_names o) [])) as [ord0|].
  - split; intros _; eexists; reflexivity.
  - split; intros [ord H]; discriminate.
Qed.

(* a model whose assignments only read earlier lines of some listing of them is always ordered *)
Corollary listed_in_dependency_order_is_sorted o ru (listing : list string) :
  NoDup listing ->
  (forall n, In n (all_assign_names o) -> In n listing) ->
  (forall pre n post, listing = pre ++ n :: post -> In n (all_assign_names o) ->
     forall d, In d (deps_of o n) -> In d (all_assign_names o) -> In d pre) ->
  exists ord, sorted_names o ru = Some ord.
Proof.
  intros Hnd Hall Hpre. apply sorted_names_iff_ranked.
  exists (fun x => if mem x (all_assign_names o)
                   then match index_of x listing with Some i => S i | None => 0 end else 0).
  intros n d Hn Hd.
  assert (Hmn : mem n (all_assign_names o) = true) by (apply mem_In; exact Hn).
  rewrite Hmn.
  pose proof (Hall n Hn) as Hin. apply in_split in Hin. destruct Hin as [pre [post E]].
  destruct (index_of n listing) as [j|] eqn:Ej.
  2:{ apply index_of_None in Ej. exfalso. apply Ej. rewrite E. apply in_elt. }
  destruct (mem d (all_assign_names o)) eqn:Emd; [|lia].
  apply mem_In in Emd. pose proof (Hpre pre n post E Hn d Hd Emd) as Hdp.
  destruct (index_of d listing) as [i|] eqn:Ei.
  2:{ apply index_of_None in Ei. exfalso. apply Ei. rewrite E. apply in_or_app. left. exact Hdp. }
  pose proof (index_split_lt listing pre post n d Hnd E Hdp i j Ei Ej). lia.
Qed.
