(* Codegen.v — mirror of gotranx.codegen.base.CodeGenerator: index tables, initial values,
   rhs, monitor_values, missing_values, and the explicit Euler scheme (schemes.py).
   The Rush-Larsen schemes are in Schemes.v. *)
From GX Require Import Base Expr Topo Ode Target.
From Coq Require Import QArith Ascii.
Close Scope Q_scope.
Open Scope string_scope.
Open Scope list_scope.

(* ---------- index tables ---------- *)
Definition state_index_tbl (o : ode) : option (list string) := sorted_states o.
Definition parameter_index_tbl (o : ode) : list string := param_names o.
Definition monitor_index_tbl (o : ode) : option (list string) := sorted_names o false.
Definition missing_index_tbl (o : ode) : list string := missing_names o.

(* ---------- unpacking (CodeGenerator._state_assignments etc.) ---------- *)
Definition unpack_with (mk : string -> nat -> stmt) (keep : string -> bool) (names : list string)
  : list stmt :=
  flat_map (fun ix => if keep (snd ix) then [mk (snd ix) (fst ix)] else []) (enumerate names).

Definition keep_all (_ : string) := true.

(* self._condition: with remove_unused a name is kept iff some assignment mentions it *)
Definition condition (o : ode) (remove_unused : bool) : string -> bool :=
  if remove_unused then used o else keep_all.

Definition prologue (o : ode) (states : list string) (state_keep param_keep : string -> bool)
  : list stmt :=
  unpack_with SUnpackS state_keep states
  ++ unpack_with SUnpackP param_keep (param_names o)
  ++ unpack_with SUnpackM keep_all (missing_names o).

(* ---------- bodies ---------- *)
Definition a_expr_of (o : ode) (n : string) : expr :=
  match find_assign o n with Some a => a_expr a | None => e_zero end.

(* rhs: print every sorted assignment; after a derivative store it in the next slot *)
Fixpoint rhs_body (o : ode) (ord : list string) (idx : nat) : list stmt :=
  match ord with
  | [] => []
  | n :: ord' =>
      if is_deriv_name o n
      then SLet n (a_expr_of o n) :: SStore idx (EVar n) :: rhs_body o ord' (S idx)
      else SLet n (a_expr_of o n) :: rhs_body o ord' idx
  end.

(* monitor_values: every assignment is stored, in sorted order *)
Fixpoint monitor_body (o : ode) (ord : list string) (idx : nat) : list stmt :=
  match ord with
  | [] => []
  | n :: ord' => SLet n (a_expr_of o n) :: SStore idx (EVar n) :: monitor_body o ord' (S idx)
  end.

(* explicit_euler: values[i] = state + dt * derivative *)
Definition euler_update (n : string) : expr :=
  EAdd (EVar (match deriv_state n with Some s => s | None => "" end))
       (EMul (EVar "dt") (EVar n)).

Fixpoint euler_body (o : ode) (ord : list string) (idx : nat) : list stmt :=
  match ord with
  | [] => []
  | n :: ord' =>
      if is_deriv_name o n
      then SLet n (a_expr_of o n) :: SStore idx (euler_update n) :: euler_body o ord' (S idx)
      else SLet n (a_expr_of o n) :: euler_body o ord' idx
  end.

(* missing_values(values): requested states / parameters first, then assignments in sorted
   order, stopping as soon as n >= N requested names have been written (the check sits at
   the end of the loop body, so at least one assignment is always printed). *)
Fixpoint mv_loop (o : ode) (req : list (string * nat)) (ord : list string) (n N : nat)
  : list stmt :=
  match ord with
  | [] => []
  | x :: ord' =>
      let here := SLet x (a_expr_of o x) ::
                  match lookup x req with Some i => [SStore i (EVar x)] | None => [] end in
      let n' := match lookup x req with Some _ => S n | None => n end in
      if Nat.leb N n' then here else here ++ mv_loop o req ord' n' N
  end.

Definition mv_decl_stores (o : ode) (req : list (string * nat)) : list stmt :=
  flat_map (fun x => match lookup x req with Some i => [SStore i (EVar x)] | None => [] end)
           (state_names o ++ param_names o).

Definition mv_body (o : ode) (req : list (string * nat)) (ord : list string) : list stmt :=
  let pre := mv_decl_stores o req in
  pre ++ mv_loop o req ord (length pre) (length req).

(* ---------- argument orders (RHSArgument / SchemeArgument) ---------- *)
Definition arg_name (c : Ascii.ascii) : string :=
  if Ascii.eqb c "s"%char then "states"
  else if Ascii.eqb c "t"%char then "t"
  else if Ascii.eqb c "p"%char then "parameters"
  else if Ascii.eqb c "d"%char then "dt"
  else "?".
Fixpoint arg_list (order : string) : list string :=
  match order with
  | EmptyString => []
  | String c rest => arg_name c :: arg_list rest
  end.
Definition with_missing (o : ode) (args : list string) : list string :=
  match missing_names o with [] => args | _ => args ++ ["missing_variables"] end.

(* ---------- whole functions ---------- *)
Definition gen_rhs (o : ode) (remove_unused : bool) (order : string) : option func :=
  match sorted_states o, sorted_names o remove_unused with
  | Some ss, Some ord =>
      Some {| f_name := "rhs";
              f_args := with_missing o (arg_list order);
              f_nret := length (state_names o);
              f_body := prologue o ss (condition o remove_unused) (condition o remove_unused)
                        ++ rhs_body o ord 0 |}
  | _, _ => None
  end.

Definition gen_monitor (o : ode) (remove_unused : bool) (order : string) : option func :=
  match sorted_states o, sorted_names o false with
  | Some ss, Some ord =>
      Some {| f_name := "monitor_values";
              f_args := with_missing o (arg_list order);
              f_nret := length (o_inters o) + length (o_derivs o);
              f_body := prologue o ss keep_all (condition o remove_unused)
                        ++ monitor_body o ord 0 |}
  | _, _ => None
  end.

Definition gen_missing_values (o : ode) (remove_unused : bool) (req : list (string * nat))
  (order : string) : option func :=
  match sorted_states o, sorted_names o false with
  | Some ss, Some ord =>
      Some {| f_name := "missing_values";
              f_args := with_missing o (arg_list order);
              f_nret := length req;
              (* a requested parameter is unpacked even if no expression uses it (repaired behaviour, fix for C13) *)
              f_body := prologue o ss keep_all (fun x => condition o remove_unused x || mem x (keys req))
                        ++ mv_body o req ord |}
  | _, _ => None
  end.

Definition gen_euler (o : ode) (remove_unused : bool) (name order : string) : option func :=
  match sorted_states o, sorted_names o remove_unused with
  | Some ss, Some ord =>
      Some {| f_name := name;
              f_args := with_missing o (arg_list order);
              f_nret := length (state_names o);
              f_body := prologue o ss keep_all (condition o remove_unused)
                        ++ euler_body o ord 0 |}
  | _, _ => None
  end.

(* ---------- initial values ---------- *)
Definition decl_value (l : list decl) (x : string) : expr :=
  match find_decl l x with Some d => d_value d | None => e_zero end.

Section Init.
  Context {T : Type} (N : NumOps T).
  Definition closed_val (e : expr) : T := eval N (fun _ => tzero N) e.

  Fixpoint set_nth (l : list T) (i : nat) (v : T) : list T :=
    match l, i with
    | [], _ => []
    | _ :: l', O => v :: l'
    | x :: l', S i' => x :: set_nth l' i' v
    end.

  (* init_X_values(kwargs): defaults in table order, then each keyword written at index(key);
     None = KeyError on an unknown name *)
  Fixpoint apply_overrides (tbl : list string) (vals : list T) (kw : list (string * T))
    : option (list T) :=
    match kw with
    | [] => Some vals
    | (k, v) :: kw' =>
        match index_of k tbl with
        | Some i => apply_overrides tbl (set_nth vals i v) kw'
        | None => None
        end
    end.

  Definition init_states (o : ode) (kw : list (string * T)) : option (list T) :=
    match sorted_states o with
    | Some ss => apply_overrides ss (map (fun x => closed_val (decl_value (o_states o) x)) ss) kw
    | None => None
    end.

  Definition init_params (o : ode) (kw : list (string * T)) : option (list T) :=
    let ps := param_names o in
    apply_overrides ps (map (fun x => closed_val (decl_value (o_params o) x)) ps) kw.
End Init.
