(* Line.v — one assignment line of an expressions block, from its characters:

       VARIABLE "=" expression [ "#" rest-of-line ]            (ode.lark: assignment, comment)

   [parse_line] cuts the line at the first "#", the code in front of it at the first "=", reads the left part as one
   name and the right part with Lex.lex / Parse.parse_expr.  No token of an expression contains "#" or "=" (relations
   are written Eq(a, b), Le(a, b), ...), so both cuts are where the grammar puts them.  [comment_is_inert]: the name and
   the expression do not depend on the comment text; [parse_written_line]: the line the printer writes for (name,
   expression, comment) is read back as that triple. *)
From GX Require Import Base Expr Parse Lex.
From Coq Require Import QArith Lia ZifyBool ZifyN Ascii NArith.
Open Scope list_scope.
Open Scope string_scope.
Open Scope nat_scope.

(* cut at the first character of a given code *)
Fixpoint cut_at (k : N) (s : string) : string * option string :=
  match s with
  | EmptyString => (EmptyString, None)
  | String c r => if (code c =? k)%N then (EmptyString, Some r)
                  else let (a, b) := cut_at k r in (String c a, b)
  end.

Definition hash : N := 35.
Definition equals : N := 61.

Definition parse_line (s : string) : option (string * expr * option string) :=
  let (codepart, cm) := cut_at hash s in
  match cut_at equals codepart with
  | (l, Some r) =>
      match lex l, parse_string r with
      | Some [TId x], Some e => if is_keyword x then None else Some (x, e, cm)
      | _, _ => None
      end
  | (_, None) => None
  end.

Definition free_of (k : N) (s : string) : bool := all_chars (fun c => negb (code c =? k)%N) s.

Lemma cut_at_free k s h r : (code h =? k)%N = true -> free_of k s = true -> cut_at k (s ++ String h r) = (s, Some r).
Proof.
  intros Hh H. induction s as [|c s IH]; cbn [append cut_at].
  - rewrite Hh. reflexivity.
  - unfold free_of in H. cbn [all_chars] in H. apply andb_prop in H as [Hc Hs].
    destruct (code c =? k)%N; [discriminate|]. rewrite (IH Hs). reflexivity.
Qed.

Lemma cut_at_none k s : free_of k s = true -> cut_at k s = (s, None).
Proof.
  induction s as [|c s IH]; cbn [cut_at]; intros H; [reflexivity|].
  unfold free_of in H. cbn [all_chars] in H. apply andb_prop in H as [Hc Hs].
  destruct (code c =? k)%N; [discriminate|]. rewrite (IH Hs). reflexivity.
Qed.

(* ---------- the comment is inert ---------- *)
(* for a code part without "#": whatever comment follows, the name and the expression read are those of the bare code *)
Theorem comment_is_inert codepart c :
  free_of hash codepart = true ->
  parse_line (codepart ++ String "#" c)
  = match parse_line codepart with
    | Some (x, e, _) => Some (x, e, Some c)
    | None => None
    end.
Proof.
  intros H. unfold parse_line.
  rewrite (cut_at_free hash codepart "#" c eq_refl H), (cut_at_none hash codepart H).
  destruct (cut_at equals codepart) as [l [r|]]; [|reflexivity].
  destruct (lex l) as [[|[q i|x| | | | | | | |] [|t ts]]|]; try reflexivity.
  destruct (parse_string r); [|reflexivity]. destruct (is_keyword x); reflexivity.
Qed.

Corollary line_comment_text_is_irrelevant codepart c1 c2 :
  free_of hash codepart = true ->
  match parse_line (codepart ++ String "#" c1), parse_line (codepart ++ String "#" c2) with
  | Some (x1, e1, _), Some (x2, e2, _) => x1 = x2 /\ e1 = e2
  | None, None => True
  | _, _ => False
  end.
Proof.
  intros H. rewrite !(comment_is_inert codepart _ H).
  destruct (parse_line codepart) as [[[x e] cm]|]; [split; reflexivity|exact I].
Qed.

(* ---------- what the printer writes is read back ---------- *)
Definition plain (c : ascii) : bool := negb (code c =? hash)%N && negb (code c =? equals)%N.

Lemma all_chars_app p a b : all_chars p (a ++ b) = all_chars p a && all_chars p b.
Proof. induction a as [|c a IH]; cbn [append all_chars]; [reflexivity|]. rewrite IH, andb_assoc. reflexivity. Qed.

Lemma all_chars_impl (p q : ascii -> bool) s : (forall c, p c = true -> q c = true) -> all_chars p s = true -> all_chars q s = true.
Proof.
  intros Hpq. induction s as [|c s IH]; cbn [all_chars]; intros H; [reflexivity|].
  apply andb_prop in H as [Hc Hs]. rewrite (Hpq c Hc), (IH Hs). reflexivity.
Qed.

Lemma digit_plain c : is_digit c = true -> plain c = true.
Proof. unfold is_digit, plain, hash, equals. lia. Qed.
Lemma idchar_plain c : is_id_char c = true -> plain c = true.
Proof. unfold is_id_char, is_id_start, is_digit, plain, hash, equals. lia. Qed.

Lemma good_id_chars s : good_id s = true -> all_chars is_id_char s = true.
Proof.
  destruct s as [|c r]; [discriminate|]. cbn [good_id all_chars]. intros H. apply andb_prop in H as [Hc Hr].
  unfold is_id_char at 1. rewrite Hc, Hr. reflexivity.
Qed.

Lemma render_tok_plain t : good t = true -> all_chars plain (render_tok t) = true.
Proof.
  destruct t as [n|m e|s|t]; cbn [good render_tok]; intros H.
  - apply (all_chars_impl is_digit); [exact digit_plain|apply str_of_N_digits].
  - rewrite !all_chars_app. rewrite (all_chars_impl is_digit plain _ digit_plain (str_of_N_digits m)).
    rewrite (all_chars_impl is_digit plain _ digit_plain (str_of_N_digits e)). reflexivity.
  - apply (all_chars_impl is_id_char); [exact idchar_plain|apply good_id_chars; exact H].
  - destruct t; try discriminate; reflexivity.
Qed.

Lemma render_plain l : Forall (fun t => good t = true) l -> all_chars plain (render l) = true.
Proof.
  induction 1 as [|t l Ht _ IH]; cbn [render]; [reflexivity|].
  rewrite all_chars_app, (render_tok_plain t Ht). cbn [all_chars andb]. exact IH.
Qed.

Lemma plain_free s : all_chars plain s = true -> free_of hash s = true /\ free_of equals s = true.
Proof.
  intros H. split; apply (all_chars_impl plain); try exact H; intros c Hc; unfold plain in Hc;
    apply andb_prop in Hc as [H1 H2]; assumption.
Qed.

(* the line written for a name, an expression and a comment:  <name> = <rendered expression>#<comment> *)
Definition write_line (x : string) (e : expr) (cm : option string) : option string :=
  match render_expr e with
  | Some s => Some (((x ++ " ") ++ String "=" (String " " s))
                      ++ match cm with Some c => String "#" c | None => EmptyString end)
  | None => None
  end.

Lemma lex_name x : good_id x = true -> lex (x ++ " ") = Some [TId x].
Proof.
  intros H. change (x ++ " ") with (render [SId x]).
  rewrite lex_render; [reflexivity|]. constructor; [exact H|constructor].
Qed.

Lemma rendered_plain e s : render_expr e = Some s -> all_chars plain s = true.
Proof.
  unfold render_expr, render_tokens. destruct (spell (print_expr e)) as [l|] eqn:E; [|discriminate]. intros [= <-].
  apply render_plain. apply (spell_ok _ l E).
Qed.

(* a blank in front of the rendered expression (the one behind "=") changes nothing: Lex.lex_layout *)
Lemma lex_lead_render lead l : all_chars is_space lead = true -> Forall (fun t => good t = true) l ->
  lex (lead ++ render l) = Some (map tok_of l).
Proof.
  intros Hl H. rewrite render_layout, lex_layout; [rewrite map_map; reflexivity|exact Hl|].
  apply Forall_map. eapply Forall_impl; [|exact H]. intros t Ht. split; [exact Ht|]. split; [discriminate|reflexivity].
Qed.

Lemma parse_string_lead e s : writable e -> render_expr e = Some s -> parse_string (String " " s) = Some e.
Proof.
  intros W. unfold render_expr, render_tokens. destruct (spell (print_expr e)) as [l|] eqn:E; [|discriminate]. intros [= <-].
  destruct (spell_ok _ l E) as [Hm Hf]. unfold parse_string.
  change (String " " (render l)) with (" " ++ render l).
  rewrite (lex_lead_render " " l eq_refl Hf), Hm. apply parse_print. exact W.
Qed.

Lemma append_nil_r s : s ++ "" = s.
Proof. induction s as [|c s IH]; cbn [append]; [reflexivity|rewrite IH; reflexivity]. Qed.

Theorem parse_written_line x e cm s :
  good_id x = true -> is_keyword x = false -> writable e ->
  write_line x e cm = Some s -> parse_line s = Some (x, e, cm).
Proof.
  intros Hx Hk W. unfold write_line. destruct (render_expr e) as [rs|] eqn:R; [|discriminate]. intros [= <-].
  pose proof (rendered_plain e rs R) as Hrs.
  pose proof (all_chars_impl is_id_char plain x idchar_plain (good_id_chars x Hx)) as Hxp.
  destruct (plain_free rs Hrs) as [Hrs_h _]. destruct (plain_free x Hxp) as [Hx_h Hx_e].
  assert (Hbody : free_of hash ((x ++ " ") ++ String "=" (String " " rs)) = true).
  { unfold free_of in *. rewrite !all_chars_app. rewrite Hx_h. cbn [all_chars]. rewrite Hrs_h. reflexivity. }
  assert (Hname : free_of equals (x ++ " ") = true).
  { unfold free_of in *. rewrite all_chars_app, Hx_e. reflexivity. }
  unfold parse_line.
  assert (Hcut : cut_at hash (((x ++ " ") ++ String "=" (String " " rs)) ++ match cm with Some c => String "#" c | None => "" end)
                 = ((x ++ " ") ++ String "=" (String " " rs), cm)).
  { destruct cm as [c|].
    - apply cut_at_free; [reflexivity|exact Hbody].
    - rewrite append_nil_r. apply cut_at_none. exact Hbody. }
  rewrite Hcut.
  rewrite (cut_at_free equals (x ++ " ") "=" (String " " rs) eq_refl Hname).
  rewrite (lex_name x Hx), (parse_string_lead e rs W R), Hk. reflexivity.
Qed.

(* ---------- the lines of a block ---------- *)
(* the body of an expressions block, one assignment per line: comment lines (first character that is not white space is
   "#") and blank lines are skipped, every other line is an assignment *)
Definition is_comment_line (s : string) : bool :=
  match skip_space s with String c _ => (code c =? hash)%N | EmptyString => false end.
Definition is_blank_line (s : string) : bool :=
  match skip_space s with EmptyString => true | _ => false end.
Definition skipped (s : string) : bool := is_comment_line s || is_blank_line s.

Fixpoint parse_block (ls : list string) : option (list (string * expr * option string)) :=
  match ls with
  | [] => Some []
  | l :: r =>
      if skipped l then parse_block r
      else match parse_line l, parse_block r with
           | Some a, Some b => Some (a :: b)
           | _, _ => None
           end
  end.

(* comment lines and blank lines are inert wherever they stand in the block and whatever the comment says *)
Theorem skipped_lines_are_inert ls1 c ls2 : skipped c = true -> parse_block (ls1 ++ c :: ls2) = parse_block (ls1 ++ ls2).
Proof.
  intros Hc. induction ls1 as [|l r IH]; cbn [List.app parse_block].
  - rewrite Hc. reflexivity.
  - rewrite IH. reflexivity.
Qed.

Lemma comment_line_skipped lead c : all_chars is_space lead = true -> skipped (lead ++ String "#" c) = true.
Proof.
  intros H. unfold skipped, is_comment_line. rewrite (skip_space_all lead (String "#" c) H). reflexivity.
Qed.

Corollary comment_lines_are_inert ls1 lead c ls2 : all_chars is_space lead = true ->
  parse_block (ls1 ++ (lead ++ String "#" c) :: ls2) = parse_block (ls1 ++ ls2).
Proof. intros H. apply skipped_lines_are_inert. apply comment_line_skipped. exact H. Qed.

(* removing every skipped line at once *)
Theorem parse_block_filter ls : parse_block ls = parse_block (filter (fun l => negb (skipped l)) ls).
Proof.
  induction ls as [|l r IH]; [reflexivity|]. cbn [parse_block filter].
  destruct (skipped l) eqn:E; cbn [negb].
  - exact IH.
  - cbn [parse_block]. rewrite E, IH. reflexivity.
Qed.

(* ---------- physical lines and logical lines ---------- *)
(* a line feed ends an assignment only outside parentheses (parser.py: the post-lexer drops NEWLINE between an opening
   parenthesis and its closing one); a "#" starts a comment that runs to the end of the physical line, parentheses
   inside it do not count.  [depth_after d l]: the parenthesis depth behind physical line l when it is d in front *)
Fixpoint depth_after (d : nat) (l : string) : nat :=
  match l with
  | EmptyString => d
  | String c r =>
      if (code c =? hash)%N then d
      else if (code c =? 40)%N then depth_after (S d) r
      else if (code c =? 41)%N then depth_after (Nat.pred d) r
      else depth_after d r
  end.

Definition nl : string := String (ascii_of_nat 10) EmptyString.

(* the last character of a physical line that is neither white space nor part of a comment *)
Fixpoint last_code_char (prev : option ascii) (l : string) : option ascii :=
  match l with
  | EmptyString => prev
  | String c r =>
      if (code c =? hash)%N then prev
      else if is_space c then last_code_char prev r
      else last_code_char (Some c) r
  end.

(* the line ends where an expression cannot end: behind + - * / = , or an opening parenthesis (the parser has no use for a
   NEWLINE token there, so the line feed is white space and the statement goes on) *)
Definition ends_open (l : string) : bool :=
  match last_code_char None l with
  | Some c => ((code c =? 43) || (code c =? 45) || (code c =? 42) || (code c =? 47) || (code c =? 61) || (code c =? 44)
               || (code c =? 40))%N
  | None => false
  end.

Definition blank (l : string) : bool := match skip_space l with EmptyString => true | _ => false end.

(* the state behind a physical line: parenthesis depth, and whether the statement is open for the other reason *)
Definition depth_next (d : nat) (l : string) : nat := depth_after d l.
Definition open_next (op : bool) (l : string) : bool := if blank l then op else ends_open l.
Definition closes (d : nat) (op : bool) (l : string) : bool := Nat.eqb (depth_next d l) 0 && negb (open_next op l).

(* join physical lines into logical ones: acc is the part of the current logical line read so far *)
Fixpoint logical (d : nat) (op : bool) (acc : string) (ls : list string) : list string :=
  match ls with
  | [] => match acc with EmptyString => [] | _ => [acc] end
  | l :: r =>
      if closes d op l then (acc ++ l) :: logical 0 false EmptyString r
      else logical (depth_next d l) (open_next op l) (acc ++ l ++ nl) r
  end.

Definition balanced (l : string) : Prop := depth_after 0 l = 0 /\ ends_open l = false.

Lemma balanced_closes l : balanced l -> closes 0 false l = true.
Proof.
  intros [Hd Ho]. unfold closes, depth_next, open_next. rewrite Hd. cbn [Nat.eqb andb].
  destruct (blank l); [reflexivity|]. rewrite Ho. reflexivity.
Qed.

(* one assignment per physical line: nothing is joined *)
Theorem logical_of_balanced_lines ls : Forall balanced ls -> logical 0 false EmptyString ls = ls.
Proof.
  induction 1 as [|l r Hl _ IH]; cbn [logical]; [reflexivity|].
  rewrite (balanced_closes l Hl). cbn [append]. rewrite IH. reflexivity.
Qed.

(* a statement broken inside parentheses or behind an operator: while no piece closes it the pieces are collected, the
   piece that closes it ends the logical line, and what follows is read on its own *)
Fixpoint pieces_open (d : nat) (op : bool) (ps : list string) : Prop :=
  match ps with
  | [] => True
  | p :: r => closes d op p = false /\ pieces_open (depth_next d p) (open_next op p) r
  end.
Fixpoint state_after (d : nat) (op : bool) (ps : list string) : nat * bool :=
  match ps with [] => (d, op) | p :: r => state_after (depth_next d p) (open_next op p) r end.
Fixpoint glue (ps : list string) : string :=
  match ps with [] => EmptyString | p :: r => p ++ nl ++ glue r end.

Lemma append_assoc3 a b c : (a ++ b) ++ c = a ++ (b ++ c).
Proof. induction a as [|x a IH]; cbn [append]; [reflexivity|rewrite IH; reflexivity]. Qed.

Theorem logical_joins_broken_statement ps : forall d op acc last rest,
  pieces_open d op ps -> closes (fst (state_after d op ps)) (snd (state_after d op ps)) last = true ->
  logical d op acc (ps ++ last :: rest) = (acc ++ glue ps ++ last) :: logical 0 false EmptyString rest.
Proof.
  induction ps as [|p r IH]; intros d op acc last rest Ho Hc; cbn [List.app logical pieces_open state_after glue fst snd] in *.
  - rewrite Hc. reflexivity.
  - destruct Ho as [Hp Hr]. rewrite Hp.
    rewrite (IH (depth_next d p) (open_next op p) (acc ++ p ++ nl) last rest Hr Hc).
    rewrite !append_assoc3. reflexivity.
Qed.

(* the body of a block given as physical lines: logical lines first, then one assignment per logical line *)
Definition parse_body (ls : list string) : option (list (string * expr * option string)) :=
  parse_block (logical 0 false EmptyString ls).

Corollary parse_body_of_balanced_lines ls : Forall balanced ls -> parse_body ls = parse_block ls.
Proof. intros H. unfold parse_body. rewrite (logical_of_balanced_lines ls H). reflexivity. Qed.

(* ---------- examples (computed) ---------- *)
Example line_examples :
  parse_line "i_K = g_K*(V - E_K)  # uA/cm**2"
    = Some ("i_K", EMul (EVar "g_K") (ESub (EVar "V") (EVar "E_K")), Some " uA/cm**2")
  /\ parse_line "flag = Eq(celltype, 1) #" = Some ("flag", ERel Req (EVar "celltype") (ENum 1 true), Some "")
  /\ parse_line "x = 1 # y = 2 # z" = Some ("x", ENum 1 true, Some " y = 2 # z")
  /\ parse_line "sin = 1" = None
  /\ parse_line "a b = 1" = None
  /\ write_line "dV_dt" (ENeg (EVar "i_K")) (Some " note") = Some "dV_dt = - ( i_K ) # note".
Proof. vm_compute. repeat split; reflexivity. Qed.

Example block_example :
  parse_block ["  # the potassium current"; "i_K = g_K*(V - E_K)"; ""; "#"; "dV_dt = -i_K # mV/ms"; "   "]
  = Some [("i_K", EMul (EVar "g_K") (ESub (EVar "V") (EVar "E_K")), None); ("dV_dt", ENeg (EVar "i_K"), Some " mV/ms")].
Proof. vm_compute. reflexivity. Qed.

Example body_example :
  parse_body ["i_K = g_K*("; "    V"; "    - E_K)  # uA/cm**2 (at 37 C"; "# done )"; "dV_dt = -i_K"]
  = Some [("i_K", EMul (EVar "g_K") (ESub (EVar "V") (EVar "E_K")), Some " uA/cm**2 (at 37 C"); ("dV_dt", ENeg (EVar "i_K"), None)]
  /\ logical 0 false "" ["a = (b"; "+ c)"; "d = 1"] = [String.append "a = (b" (String.append nl "+ c)"); "d = 1"]
  /\ parse_body ["w ="; "   a +"; ""; "   b  # sum"; "x = -"; "w"] = Some [("w", EAdd (EVar "a") (EVar "b"), Some " sum"); ("x", ENeg (EVar "w"), None)]
  (* a comment in the middle of a broken statement is not part of the language: the grammar has comments behind expressions only *)
  /\ parse_body ["i_K = g_K*("; "    V   # the potential"; "    - E_K)"] = None.
Proof. vm_compute. repeat split; reflexivity. Qed.
