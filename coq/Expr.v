(* Expr.v — abstract syntax of .ode right-hand sides and their reference semantics,
   generic in the numeric carrier (NumOps T).  The same [eval] is instantiated with OCaml doubles
   (extraction, supplied by the driver as a record value), with exact rationals, with reals and
   with vectors (columns of a batch). *)
From GX Require Import Base.
From Coq Require Import QArith.
Open Scope string_scope.
Open Scope list_scope.

Inductive fn1 := Fexp | Fcos | Fsin | Ftan | Facos | Fasin | Fatan | Flog | Fsqrt | Fabs | Ffloor.
Inductive relop := Rlt | Rgt | Rle | Rge | Req | Rne.

(* One syntactic class: relations and connectives denote 1 / 0 in the carrier, which is what
   expressions.relational_to_piecewise does when a relation is used arithmetically, and what
   numpy.where / the C ternary consume. *)
Inductive expr :=
| ENum (q : Q) (int_lit : bool)       (* scientific: integer / decimal / exponent literal *)
| EVar (x : string)
| EPi
| EAdd (a b : expr)
| ESub (a b : expr)
| EMul (a b : expr)
| EDiv (a b : expr)
| EPow (a b : expr)
| ENeg (a : expr)
| EFn (f : fn1) (a : expr)
| EMod (a b : expr)
| ERel (r : relop) (a b : expr)
| ENot (a : expr)
| EAnd (a b : expr)
| EOr (a b : expr)
| ECond (c a b : expr).

(* every "variable" subtree, in left-to-right order, with repetitions:
   atoms.Expression._find_dependencies collects exactly these into a frozenset *)
Fixpoint vars (e : expr) : list string :=
  match e with
  | ENum _ _ | EPi => []
  | EVar x => [x]
  | EAdd a b | ESub a b | EMul a b | EDiv a b | EPow a b | EMod a b
  | ERel _ a b | EAnd a b | EOr a b => vars a ++ vars b
  | ENeg a | EFn _ a | ENot a => vars a
  | ECond c a b => vars c ++ vars a ++ vars b
  end.

Record NumOps (T : Type) := {
  ofQ : Q -> T;
  cpi : T;
  add : T -> T -> T;
  sub : T -> T -> T;
  mul : T -> T -> T;
  div : T -> T -> T;
  pow : T -> T -> T;
  neg : T -> T;
  fn : fn1 -> T -> T;
  fmod : T -> T -> T;          (* floored modulo: sign of the divisor (sympy Mod, Python %) *)
  rel : relop -> T -> T -> T;  (* 1 if the relation holds, 0 otherwise *)
  bnot : T -> T;
  band : T -> T -> T;
  bor : T -> T -> T;
  select : T -> T -> T -> T    (* select c a b = a if c is true (non-zero), b otherwise *)
}.
Arguments ofQ {T}. Arguments cpi {T}. Arguments add {T}. Arguments sub {T}. Arguments mul {T}.
Arguments div {T}. Arguments pow {T}. Arguments neg {T}. Arguments fn {T}. Arguments fmod {T}.
Arguments rel {T}. Arguments bnot {T}. Arguments band {T}. Arguments bor {T}. Arguments select {T}.

Section Eval.
  Context {T : Type} (N : NumOps T).

  Fixpoint eval (rho : string -> T) (e : expr) : T :=
    match e with
    | ENum q _ => ofQ N q
    | EVar x => rho x
    | EPi => cpi N
    | EAdd a b => add N (eval rho a) (eval rho b)
    | ESub a b => sub N (eval rho a) (eval rho b)
    | EMul a b => mul N (eval rho a) (eval rho b)
    | EDiv a b => div N (eval rho a) (eval rho b)
    | EPow a b => pow N (eval rho a) (eval rho b)
    | ENeg a => neg N (eval rho a)
    | EFn f a => fn N f (eval rho a)
    | EMod a b => fmod N (eval rho a) (eval rho b)
    | ERel r a b => rel N r (eval rho a) (eval rho b)
    | ENot a => bnot N (eval rho a)
    | EAnd a b => band N (eval rho a) (eval rho b)
    | EOr a b => bor N (eval rho a) (eval rho b)
    | ECond c a b => select N (eval rho c) (eval rho a) (eval rho b)
    end.

  (* the value of an expression depends only on the variables that occur in it *)
  Lemma eval_ext rho rho' e :
    (forall x, In x (vars e) -> rho x = rho' x) -> eval rho e = eval rho' e.
  Proof.
    induction e; simpl; intros H; auto;
      try (rewrite IHe1, IHe2; [reflexivity| |]; intros; apply H; apply in_or_app; auto);
      try (rewrite IHe; [reflexivity|]; intros; apply H; auto).
    rewrite IHe1, IHe2, IHe3; [reflexivity| | |]; intros; apply H;
      apply in_or_app; auto; right; apply in_or_app; auto.
  Qed.
End Eval.

(* ---------- literals used by the desugarings ---------- *)
Definition e_int (z : Z) : expr := ENum (inject_Z z) true.
Definition e_one := e_int 1.
Definition e_zero := e_int 0.

(* sympytools.ContinuousConditional(cond, tv, fv, sigma) with cond = rel_op(a, b):
     H = 1 / (1 + exp((a - b) / sigma))
     ">" in rel_op  ->  tv * (1 - H) + fv * H        (Gt, Ge)
     otherwise      ->  tv * H + fv * (1 - H)        (Lt, Le, and - silently - Eq)        *)
Definition mk_ccond (r : relop) (a b tv fv sigma : expr) : expr :=
  let H := EDiv e_one (EAdd e_one (EFn Fexp (EDiv (ESub a b) sigma))) in
  match r with
  | Rgt | Rge => EAdd (EMul tv (ESub e_one H)) (EMul fv H)
  | _ => EAdd (EMul tv H) (EMul fv (ESub e_one H))
  end.

(* substitution of variables by expressions (used by Sympytools.rhs_matrix and by renaming) *)
Fixpoint subst (s : string -> option expr) (e : expr) : expr :=
  match e with
  | ENum _ _ | EPi => e
  | EVar x => match s x with Some e' => e' | None => e end
  | EAdd a b => EAdd (subst s a) (subst s b)
  | ESub a b => ESub (subst s a) (subst s b)
  | EMul a b => EMul (subst s a) (subst s b)
  | EDiv a b => EDiv (subst s a) (subst s b)
  | EPow a b => EPow (subst s a) (subst s b)
  | ENeg a => ENeg (subst s a)
  | EFn f a => EFn f (subst s a)
  | EMod a b => EMod (subst s a) (subst s b)
  | ERel r a b => ERel r (subst s a) (subst s b)
  | ENot a => ENot (subst s a)
  | EAnd a b => EAnd (subst s a) (subst s b)
  | EOr a b => EOr (subst s a) (subst s b)
  | ECond c a b => ECond (subst s c) (subst s a) (subst s b)
  end.

Lemma eval_subst {T} (N : NumOps T) s rho e :
  eval N rho (subst s e) =
  eval N (fun x => match s x with Some e' => eval N rho e' | None => rho x end) e.
Proof.
  induction e; simpl; try congruence.
  destruct (s x); reflexivity.
Qed.

(* structural equality (used where the implementation compares sympy trees) *)
Definition fn1_eqb (f g : fn1) : bool :=
  match f, g with
  | Fexp, Fexp | Fcos, Fcos | Fsin, Fsin | Ftan, Ftan | Facos, Facos | Fasin, Fasin
  | Fatan, Fatan | Flog, Flog | Fsqrt, Fsqrt | Fabs, Fabs | Ffloor, Ffloor => true
  | _, _ => false
  end.
Definition relop_eqb (f g : relop) : bool :=
  match f, g with
  | Rlt, Rlt | Rgt, Rgt | Rle, Rle | Rge, Rge | Req, Req | Rne, Rne => true
  | _, _ => false
  end.
Definition Q_eqb_syn (p q : Q) : bool :=
  Z.eqb (Qnum p) (Qnum q) && Pos.eqb (Qden p) (Qden q).

Fixpoint expr_eqb (e1 e2 : expr) : bool :=
  match e1, e2 with
  | ENum p i, ENum q j => Q_eqb_syn p q && Bool.eqb i j
  | EVar x, EVar y => String.eqb x y
  | EPi, EPi => true
  | EAdd a b, EAdd c d | ESub a b, ESub c d | EMul a b, EMul c d | EDiv a b, EDiv c d
  | EPow a b, EPow c d | EMod a b, EMod c d | EAnd a b, EAnd c d | EOr a b, EOr c d =>
      expr_eqb a c && expr_eqb b d
  | ENeg a, ENeg c | ENot a, ENot c => expr_eqb a c
  | EFn f a, EFn g c => fn1_eqb f g && expr_eqb a c
  | ERel r a b, ERel s c d => relop_eqb r s && expr_eqb a c && expr_eqb b d
  | ECond a b c, ECond d e f => expr_eqb a d && expr_eqb b e && expr_eqb c f
  | _, _ => false
  end.

Lemma expr_eqb_eq e1 e2 : expr_eqb e1 e2 = true -> e1 = e2.
Proof.
  revert e2; induction e1; destruct e2; simpl; try discriminate; intros H;
    repeat match goal with
           | H : _ && _ = true |- _ => apply andb_true_iff in H; destruct H
           end;
    try (f_equal; auto; fail).
  - destruct q as [n d], q0 as [n0 d0]. unfold Q_eqb_syn in *; simpl in *.
    apply andb_true_iff in H. destruct H as [Hn Hd].
    apply Z.eqb_eq in Hn. apply Pos.eqb_eq in Hd. apply Bool.eqb_prop in H0. congruence.
  - apply String.eqb_eq in H. congruence.
  - f_equal; auto. destruct f, f0; simpl in *; congruence.
  - f_equal; auto. destruct r, r0; simpl in *; congruence.
Qed.
