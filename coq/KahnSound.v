(* KahnSound.v — soundness of the mirror of graphlib.TopologicalSorter.static_order (Topo.v):
   every order it returns lists each node after all of its predecessors.  Hence the statement order
   ODE.sorted_assignments produces defines every name before it is used, for every model (C01, C08). *)
From GX Require Import Base Topo.
From Coq Require Import ZArith Lia.
Open Scope string_scope.
Open Scope list_scope.

(* ---------- reading a graph ---------- *)
Definition gsuccs (g : graph) (n : string) : list string :=
  match lookup n g with Some i => succs i | None => [] end.
Definition gnpred (g : graph) (n : string) : Z :=
  match lookup n g with Some i => npred i | None => 0%Z end.

Lemma lookup_g_update g m f n :
  lookup n (g_update g m f) =
  if String.eqb n m then match lookup m g with Some i => Some (f i) | None => None end else lookup n g.
Proof.
  induction g as [|[k i] g IH]; simpl.
  - destruct (String.eqb n m); reflexivity.
  - destruct (String.eqb m k) eqn:Emk; simpl.
    + apply String.eqb_eq in Emk. subst k.
      destruct (String.eqb n m) eqn:Enm; reflexivity.
    + destruct (String.eqb n k) eqn:Enk.
      * apply String.eqb_eq in Enk. subst k.
        destruct (String.eqb n m) eqn:Enm; [|reflexivity].
        apply String.eqb_eq in Enm. subst m. rewrite String.eqb_refl in Emk. discriminate.
      * exact IH.
Qed.

Lemma keys_g_update g m f : keys (g_update g m f) = keys g.
Proof.
  unfold keys. induction g as [|[k i] g IH]; simpl; [reflexivity|].
  destruct (String.eqb m k); simpl; [reflexivity|]. f_equal. exact IH.
Qed.

(* ---------- counting edge occurrences ---------- *)
Fixpoint cnt (x : string) (l : list string) : nat :=
  match l with
  | [] => 0
  | y :: l' => (if String.eqb x y then 1 else 0) + cnt x l'
  end.

Lemma cnt_app x l1 l2 : cnt x (l1 ++ l2) = cnt x l1 + cnt x l2.
Proof. induction l1 as [|y l1 IH]; simpl; [reflexivity|]. rewrite IH. lia. Qed.

Lemma cnt_zero_notin x l : cnt x l = 0 <-> ~ In x l.
Proof.
  induction l as [|y l IH]; simpl; [tauto|].
  destruct (String.eqb_spec x y) as [->|Hne].
  - split; [lia|]. intros H; exfalso; apply H; auto.
  - rewrite IH. split; [intros H [E|E]; [congruence|auto]|tauto].
Qed.

Lemma mem_cons k p D : mem k (p :: D) = if String.eqb k p then true else mem k D.
Proof. reflexivity. Qed.

Local Arguments mem : simpl never.

Lemma filter_skip_notin_gen (p : string) D (l : list string) :
  ~ In p l -> filter (fun k => negb (mem k (p :: D))) l = filter (fun k => negb (mem k D)) l.
Proof.
  intros H. apply filter_ext_in. intros k Hk. rewrite mem_cons.
  destruct (String.eqb_spec k p) as [->|Hne]; [contradiction|reflexivity].
Qed.

Lemma split_gen (S : string -> list string) l D p n :
  NoDup l -> In p l -> mem p D = false ->
  cnt n (flat_map S (filter (fun k => negb (mem k D)) l))
  = cnt n (S p) + cnt n (flat_map S (filter (fun k => negb (mem k (p :: D))) l)).
Proof.
  induction l as [|k l IH]; intros Hnd Hp HpD; [destruct Hp|].
  inversion Hnd as [|? ? Hk Hnd']; subst. simpl. rewrite mem_cons.
  destruct (String.eqb_spec k p) as [->|Hne].
  - rewrite HpD. simpl. rewrite cnt_app. rewrite (filter_skip_notin_gen p D l Hk). reflexivity.
  - destruct Hp as [E|Hp]; [congruence|].
    destruct (mem k D); simpl; [apply IH; assumption|].
    rewrite !cnt_app. rewrite (IH Hnd' Hp HpD). lia.
Qed.

Lemma In_cnt_pos x l : In x l -> 1 <= cnt x l.
Proof. intros H. destruct (cnt x l) eqn:E; [apply cnt_zero_notin in E; contradiction|lia]. Qed.

Lemma NoDup_app_intro {A} (l1 l2 : list A) :
  NoDup l1 -> NoDup l2 -> (forall x, In x l1 -> ~ In x l2) -> NoDup (l1 ++ l2).
Proof.
  induction l1 as [|a l1 IH]; intros H1 H2 Hd; simpl; [exact H2|].
  inversion H1 as [|? ? Ha H1']; subst. constructor.
  - intros Hc. apply in_app_or in Hc. destruct Hc as [Hc|Hc]; [contradiction|].
    apply (Hd a (or_introl eq_refl) Hc).
  - apply IH; [exact H1'|exact H2|]. intros x Hx. apply Hd. right. exact Hx.
Qed.

Lemma NoDup_app_elim {A} (l1 l2 : list A) :
  NoDup (l1 ++ l2) -> NoDup l1 /\ NoDup l2 /\ (forall x, In x l1 -> ~ In x l2).
Proof.
  induction l1 as [|a l1 IH]; simpl; intros H.
  - split; [constructor|]. split; [exact H|]. intros x [].
  - inversion H as [|? ? Ha H']; subst. destruct (IH H') as (H1 & H2 & Hd).
    split; [constructor; [|exact H1]; intros Hc; apply Ha; apply in_or_app; left; exact Hc|].
    split; [exact H2|]. intros x [<-|Hx]; [intros Hc; apply Ha; apply in_or_app; right; exact Hc|apply Hd; exact Hx].
Qed.

Lemma app_split_cases {A} (l1 l2 pre : list A) n post :
  l1 ++ l2 = pre ++ n :: post ->
  (exists post', l1 = pre ++ n :: post' /\ post = post' ++ l2)
  \/ (exists pre', pre = l1 ++ pre' /\ l2 = pre' ++ n :: post).
Proof.
  revert pre; induction l1 as [|a l1 IH]; intros pre E; simpl in E.
  - right. exists pre. split; [reflexivity|exact E].
  - destruct pre as [|b pre]; simpl in E.
    + injection E as -> E. left. exists l1. split; [reflexivity|symmetry; exact E].
    + injection E as -> E. destruct (IH pre E) as [[post' [H1 H2]]|[pre' [H1 H2]]].
      * left. exists post'. split; [simpl; rewrite H1; reflexivity|exact H2].
      * right. exists pre'. split; [simpl; rewrite H1; reflexivity|exact H2].
Qed.

Lemma mem_ext k l l' : (forall x, In x l <-> In x l') -> mem k l = mem k l'.
Proof.
  intros H. destruct (mem k l) eqn:E1, (mem k l') eqn:E2; try reflexivity.
  - apply mem_In in E1. apply mem_false_In in E2. exfalso. apply E2, H, E1.
  - apply mem_In in E2. apply mem_false_In in E1. exfalso. apply E1, H, E2.
Qed.

Lemma lookup_NoDup_In {A} k (i : A) g : NoDup (keys g) -> In (k, i) g -> lookup k g = Some i.
Proof.
  unfold keys. induction g as [|[k' i'] g IH]; simpl; intros Hnd Hin; [destruct Hin|].
  inversion Hnd as [|? ? Hk Hnd']; subst.
  destruct Hin as [E|Hin].
  - injection E as -> ->. rewrite String.eqb_refl. reflexivity.
  - destruct (String.eqb_spec k k') as [->|Hne]; [|apply IH; assumption].
    exfalso. apply Hk. apply (in_map fst) in Hin. exact Hin.
Qed.

Lemma NoDup_keys_filter {A} (f : string * A -> bool) g : NoDup (keys g) -> NoDup (keys (filter f g)).
Proof.
  unfold keys. induction g as [|ki g IH]; simpl; intros Hnd; [constructor|].
  inversion Hnd as [|? ? Hk Hnd']; subst.
  destruct (f ki); simpl; [|apply IH; exact Hnd'].
  constructor; [|apply IH; exact Hnd']. intros Hc. apply Hk.
  apply in_map_iff in Hc. destruct Hc as [x [Hx1 Hx2]]. apply filter_In in Hx2.
  apply in_map_iff. exists x. tauto.
Qed.

Section Kahn.
  Variable g0 : graph.
  Let ks := keys g0.
  Hypothesis ks_nodup : NoDup ks.
  (* every successor is a node of the graph *)
  Hypothesis closed : forall p s, In s (gsuccs g0 p) -> In s ks.

  Definition undone (D : list string) : list string := filter (fun k => negb (mem k D)) ks.
  (* number of edge occurrences into n whose source is not in D *)
  Definition indeg (D : list string) (n : string) : nat := cnt n (flat_map (gsuccs g0) (undone D)).

  (* the in-degree counters of the initial graph are the numbers of incoming edges *)
  Hypothesis npred_ok : forall n, In n ks -> gnpred g0 n = Z.of_nat (indeg [] n).

  Lemma indeg_ext D D' n : (forall k, mem k D = mem k D') -> indeg D n = indeg D' n.
  Proof.
    intros H. unfold indeg, undone. f_equal. f_equal.
    apply filter_ext. intros k. rewrite H. reflexivity.
  Qed.

  (* taking p out of the undone sources removes exactly p's edges *)
  Lemma indeg_split D p n :
    In p ks -> mem p D = false -> indeg D n = cnt n (gsuccs g0 p) + indeg (p :: D) n.
  Proof. intros Hp HpD. unfold indeg, undone. apply split_gen; assumption. Qed.

  Lemma indeg_mono D p n : indeg (p :: D) n <= indeg D n.
  Proof.
    destruct (mem p D) eqn:E.
    - rewrite (indeg_ext (p :: D) D); [lia|]. intros k. rewrite mem_cons.
      destruct (String.eqb_spec k p) as [->|]; [symmetry; exact E|reflexivity].
    - destruct (in_dec string_dec p ks) as [Hp|Hp].
      + rewrite (indeg_split D p n Hp E). lia.
      + unfold indeg, undone. rewrite (filter_skip_notin_gen p D ks Hp). lia.
  Qed.

  Lemma indeg_mono_app L D n : indeg (L ++ D) n <= indeg D n.
  Proof.
    induction L as [|p L IH]; simpl; [lia|]. pose proof (indeg_mono (L ++ D) p n). lia.
  Qed.

  (* in-degree 0 with respect to D: every source of an edge into n is in D *)
  Lemma indeg_zero_src D n p :
    indeg D n = 0 -> In p ks -> In n (gsuccs g0 p) -> mem p D = true.
  Proof.
    intros H Hp Hn. destruct (mem p D) eqn:E; [reflexivity|].
    rewrite (indeg_split D p n Hp E) in H.
    assert (cnt n (gsuccs g0 p) = 0) by lia.
    apply cnt_zero_notin in H0. contradiction.
  Qed.

  (* ---------- the state of the sorter ---------- *)
  Definition Inv (g : graph) (D : list string) : Prop :=
    keys g = ks
    /\ (forall n, gsuccs g n = gsuccs g0 n)
    /\ (forall n, In n ks -> gnpred g n = Z.of_nat (indeg D n)).

  Lemma in_keys_lookup (g : graph) n : In n (keys g) -> exists i, lookup n g = Some i.
  Proof.
    intros H. destruct (lookup n g) eqn:E; [eauto|]. apply lookup_None_keys in E. contradiction.
  Qed.

  (* processing the successor list of p, occurrence by occurrence *)
  Definition Mid (g : graph) (D : list string) (seen : list string) : Prop :=
    keys g = ks
    /\ (forall n, gsuccs g n = gsuccs g0 n)
    /\ (forall n, In n ks -> gnpred g n = (Z.of_nat (indeg D n) - Z.of_nat (cnt n seen))%Z).

  Lemma done_succ_step g ready D seen s :
    Mid g D seen -> In s ks ->
    let '(g', ready') := done_succ (g, ready) s in
    Mid g' D (seen ++ [s])
    /\ (ready' = ready \/ (ready' = ready ++ [s] /\ indeg D s = cnt s (seen ++ [s]))).
  Proof.
    intros (Hk & Hs & Hn) Hin. unfold done_succ.
    set (g' := g_update g s (fun j => {| npred := npred j - 1; succs := succs j |})).
    assert (Hs_key : In s (keys g)) by (rewrite Hk; exact Hin).
    destruct (in_keys_lookup g s Hs_key) as [i Hi].
    assert (Hl : lookup s g' = Some {| npred := npred i - 1; succs := succs i |}).
    { unfold g'. rewrite lookup_g_update, String.eqb_refl, Hi. reflexivity. }
    rewrite Hl. simpl.
    assert (HM : Mid g' D (seen ++ [s])).
    { split; [unfold g'; rewrite keys_g_update; exact Hk|]. split.
      - intros n. unfold gsuccs, g'. rewrite lookup_g_update.
        destruct (String.eqb_spec n s) as [->|Hne]; [|apply Hs].
        rewrite Hi. simpl. specialize (Hs s). unfold gsuccs in Hs. rewrite Hi in Hs. exact Hs.
      - intros n Hnk. unfold gnpred, g'. rewrite lookup_g_update, cnt_app. simpl.
        destruct (String.eqb_spec n s) as [->|Hne].
        + rewrite Hi. simpl. specialize (Hn s Hnk). unfold gnpred in Hn. rewrite Hi in Hn. lia.
        + specialize (Hn n Hnk). unfold gnpred in Hn. rewrite Hn. lia. }
    destruct (Z.eqb_spec (npred i - 1) 0) as [E|E]; (split; [exact HM|]).
    - right. split; [reflexivity|].
      destruct HM as (_ & _ & Hn'). specialize (Hn' s Hin). unfold gnpred in Hn'. rewrite Hl in Hn'. simpl in Hn'.
      lia.
    - left. reflexivity.
  Qed.

  (* the whole successor list *)
  Lemma done_succs_fold l : forall g ready D seen,
    Mid g D seen -> (forall s, In s l -> In s ks) ->
    (forall n, cnt n (seen ++ l) <= indeg D n) ->
    let '(g', ready') := fold_left done_succ l (g, ready) in
    Mid g' D (seen ++ l)
    /\ exists added, ready' = ready ++ added /\ NoDup added
       /\ forall s, In s added -> In s l /\ indeg D s = cnt s (seen ++ l).
  Proof.
    induction l as [|s l IH]; intros g ready D seen HM Hl Hle; cbn [fold_left].
    - rewrite app_nil_r. split; [exact HM|]. exists []. rewrite app_nil_r.
      split; [reflexivity|]. split; [constructor|]. intros s [].
    - pose proof (done_succ_step g ready D seen s HM (Hl s (or_introl eq_refl))) as Hstep.
      destruct (done_succ (g, ready) s) as [g1 ready1].
      destruct Hstep as [HM1 Hr1].
      assert (Hle1 : forall n, cnt n ((seen ++ [s]) ++ l) <= indeg D n).
      { intros n. rewrite <- app_assoc. exact (Hle n). }
      specialize (IH g1 ready1 D (seen ++ [s]) HM1 (fun x Hx => Hl x (or_intror Hx)) Hle1).
      destruct (fold_left done_succ l (g1, ready1)) as [g2 ready2].
      destruct IH as [HM2 (added & Ha & Hnd & Hadd)].
      rewrite <- app_assoc in HM2. simpl in HM2.
      cbv beta iota. split; [exact HM2|].
      destruct Hr1 as [->|[-> Hz]].
      + exists added. split; [exact Ha|]. split; [exact Hnd|].
        intros x Hx. destruct (Hadd x Hx) as [Hx1 Hx2]. split; [right; exact Hx1|].
        rewrite <- app_assoc in Hx2. exact Hx2.
      + exists (s :: added). split; [rewrite Ha, <- app_assoc; reflexivity|].
        rewrite cnt_app in Hz. simpl in Hz. rewrite String.eqb_refl in Hz.
        assert (Hs_l : cnt s l = 0).
        { pose proof (Hle s) as H1. rewrite cnt_app in H1. simpl in H1. rewrite String.eqb_refl in H1. lia. }
        split.
        * constructor; [|exact Hnd]. intros Hc. destruct (Hadd s Hc) as [Hc1 _].
          apply In_cnt_pos in Hc1. lia.
        * intros x [<-|Hx].
          -- split; [left; reflexivity|]. rewrite cnt_app. simpl. rewrite String.eqb_refl. lia.
          -- destruct (Hadd x Hx) as [Hx1 Hx2]. split; [right; exact Hx1|].
             rewrite <- app_assoc in Hx2. exact Hx2.
  Qed.

  (* ---------- "all predecessors are in D" ---------- *)
  Definition allpreds (D : list string) (n : string) : Prop :=
    forall p, In p ks -> In n (gsuccs g0 p) -> In p D.

  Lemma indeg_zero_iff D n : indeg D n = 0 <-> allpreds D n.
  Proof.
    split.
    - intros H p Hp Hn. apply mem_In. exact (indeg_zero_src D n p H Hp Hn).
    - intros H. unfold indeg. apply cnt_zero_notin. intros Hc.
      apply in_flat_map in Hc. destruct Hc as [p [Hp Hn]].
      unfold undone in Hp. apply filter_In in Hp. destruct Hp as [Hp1 Hp2].
      specialize (H p Hp1 Hn). apply mem_In in H. rewrite H in Hp2. discriminate.
  Qed.

  Lemma allpreds_mono D D' n : incl D D' -> allpreds D n -> allpreds D' n.
  Proof. intros Hi H p Hp Hn. apply Hi. exact (H p Hp Hn). Qed.

  (* TopologicalSorter.done(p) for one node *)
  Lemma done_one_step g nr D p :
    Inv g D -> In p ks -> mem p D = false ->
    let '(g', nr') := done_one (g, nr) p in
    Inv g' (p :: D)
    /\ exists added, nr' = nr ++ added /\ NoDup added
       /\ forall s, In s added -> In s ks /\ allpreds (p :: D) s /\ ~ allpreds D s.
  Proof.
    intros (Hk & Hs & Hn) Hp HpD. unfold done_one. simpl fst.
    assert (Hp_key : In p (keys g)) by (rewrite Hk; exact Hp).
    destruct (in_keys_lookup g p Hp_key) as [i Hi]. rewrite Hi.
    assert (Hsi : succs i = gsuccs g0 p).
    { rewrite <- Hs. unfold gsuccs. rewrite Hi. reflexivity. }
    assert (HM : Mid g D []).
    { split; [exact Hk|]. split; [exact Hs|]. intros n Hnk. rewrite (Hn n Hnk). simpl. lia. }
    assert (Hl : forall s, In s (succs i) -> In s ks).
    { intros s Hin. rewrite Hsi in Hin. exact (closed p s Hin). }
    assert (Hle : forall n, cnt n ([] ++ succs i) <= indeg D n).
    { intros n. simpl. rewrite Hsi, (indeg_split D p n Hp HpD). lia. }
    pose proof (done_succs_fold (succs i) g nr D [] HM Hl Hle) as H.
    destruct (fold_left done_succ (succs i) (g, nr)) as [g' nr'].
    destruct H as [(Hk' & Hs' & Hn') (added & Ha & Hnd & Hadd)].
    split.
    - split; [exact Hk'|]. split; [exact Hs'|]. intros n Hnk.
      rewrite (Hn' n Hnk). simpl. rewrite Hsi, (indeg_split D p n Hp HpD). lia.
    - exists added. split; [exact Ha|]. split; [exact Hnd|].
      intros s Hin. destruct (Hadd s Hin) as [Hs1 Hs2]. simpl in Hs2.
      pose proof (indeg_split D p s Hp HpD) as Hsp. rewrite <- Hsi in Hsp.
      pose proof (In_cnt_pos s (succs i) Hs1) as Hpos.
      split; [exact (Hl s Hs1)|]. split.
      + apply indeg_zero_iff. lia.
      + intros Hc. apply indeg_zero_iff in Hc. lia.
  Qed.

  (* TopologicalSorter.done( *group ) *)
  Lemma done_all_fold G : forall g nr D,
    Inv g D -> (forall p, In p G -> In p ks) -> NoDup G -> (forall p, In p G -> ~ In p D) ->
    let '(g', nr') := fold_left done_one G (g, nr) in
    Inv g' (rev G ++ D)
    /\ exists added, nr' = nr ++ added /\ NoDup added
       /\ forall s, In s added -> In s ks /\ allpreds (rev G ++ D) s /\ ~ allpreds D s.
  Proof.
    induction G as [|p G IH]; intros g nr D HI Hks Hnd Hdis; cbn [fold_left].
    - simpl. split; [exact HI|]. exists []. rewrite app_nil_r. split; [reflexivity|]. split; [constructor|]. intros s [].
    - inversion Hnd as [|? ? HpG Hnd']; subst.
      assert (HpD : mem p D = false) by (apply mem_false_In; apply Hdis; left; reflexivity).
      pose proof (done_one_step g nr D p HI (Hks p (or_introl eq_refl)) HpD) as H1.
      destruct (done_one (g, nr) p) as [g1 nr1].
      destruct H1 as [HI1 (added1 & Ha1 & Hnd1 & Hadd1)].
      assert (Hdis1 : forall q, In q G -> ~ In q (p :: D)).
      { intros q Hq [E|Hc]; [subst q; contradiction|]. apply (Hdis q (or_intror Hq) Hc). }
      specialize (IH g1 nr1 (p :: D) HI1 (fun q Hq => Hks q (or_intror Hq)) Hnd' Hdis1).
      destruct (fold_left done_one G (g1, nr1)) as [g2 nr2].
      destruct IH as [HI2 (added2 & Ha2 & Hnd2 & Hadd2)].
      cbn [rev]. rewrite <- app_assoc. simpl.
      split; [exact HI2|].
      exists (added1 ++ added2). split; [rewrite Ha2, Ha1, app_assoc; reflexivity|].
      split.
      + apply NoDup_app_intro; [exact Hnd1|exact Hnd2|].
        intros x Hx1 Hx2. destruct (Hadd1 x Hx1) as (_ & Hy & _). destruct (Hadd2 x Hx2) as (_ & _ & Hn2).
        contradiction.
      + intros s Hin. apply in_app_or in Hin. destruct Hin as [Hin|Hin].
        * destruct (Hadd1 s Hin) as (H1 & H2 & H3). split; [exact H1|]. split; [|exact H3].
          apply (allpreds_mono (p :: D)); [apply incl_appr, incl_refl|exact H2].
        * destruct (Hadd2 s Hin) as (H1 & H2 & H3). split; [exact H1|]. split; [exact H2|].
          intros Hc. apply H3. apply (allpreds_mono D); [apply incl_tl, incl_refl|exact Hc].
  Qed.

  (* ---------- the generations loop ---------- *)
  Definition topo (L : list string) : Prop :=
    forall pre n post, L = pre ++ n :: post -> In n ks /\ allpreds pre n.

  Lemma topo_in L n : topo L -> In n L -> In n ks /\ allpreds L n.
  Proof.
    intros HT Hin. apply in_split in Hin. destruct Hin as [pre [post E]].
    destruct (HT pre n post E) as [H1 H2]. split; [exact H1|].
    apply (allpreds_mono pre); [|exact H2]. rewrite E. apply incl_appl, incl_refl.
  Qed.

  Lemma topo_app L1 L2 :
    topo L1 -> (forall n, In n L2 -> In n ks /\ allpreds L1 n) -> topo (L1 ++ L2).
  Proof.
    intros H1 H2 pre n post E. apply app_split_cases in E.
    destruct E as [[post' [E1 _]]|[pre' [E1 E2]]].
    - exact (H1 pre n post' E1).
    - assert (Hn : In n L2) by (rewrite E2; apply in_elt).
      destruct (H2 n Hn) as [Ha Hb]. split; [exact Ha|].
      apply (allpreds_mono L1); [|exact Hb]. rewrite E1. apply incl_appl, incl_refl.
  Qed.

  Lemma Inv_ext g D D' : (forall x, In x D <-> In x D') -> Inv g D -> Inv g D'.
  Proof.
    intros H (Hk & Hs & Hn). split; [exact Hk|]. split; [exact Hs|]. intros n Hnk.
    rewrite (Hn n Hnk). f_equal. apply indeg_ext. intros k. apply mem_ext. exact H.
  Qed.

  Definition K (g : graph) (ready out : list string) : Prop :=
    Inv g out /\ NoDup (out ++ ready)
    /\ (forall n, In n ready -> In n ks /\ allpreds out n) /\ topo out.

  Lemma kahn_sound fuel : forall g ready out res,
    K g ready out -> kahn fuel g ready out = Some res -> NoDup res /\ topo res.
  Proof.
    induction fuel as [|f IH]; intros g ready out res (HI & Hnd & Hr & HT) Hk.
    - destruct ready as [|r ready]; simpl in Hk; [|discriminate].
      injection Hk as <-. rewrite app_nil_r in Hnd. split; assumption.
    - destruct ready as [|r ready]; [simpl in Hk; injection Hk as <-; rewrite app_nil_r in Hnd; split; assumption|].
      remember (r :: ready) as G eqn:EG.
      assert (Hk' : (let '(g', ready') := done_all g G in kahn f g' ready' (out ++ G)) = Some res).
      { subst G. exact Hk. }
      clear Hk. unfold done_all in Hk'.
      destruct (NoDup_app_elim _ _ Hnd) as (Hnd_out & Hnd_G & Hdis).
      assert (Hdis' : forall p, In p G -> ~ In p out).
      { intros p Hp Hc. exact (Hdis p Hc Hp). }
      pose proof (done_all_fold G g [] out HI (fun p Hp => proj1 (Hr p Hp)) Hnd_G Hdis') as H.
      destruct (fold_left done_one G (g, [])) as [g' nr'].
      destruct H as [HI' (added & Ha & Hnda & Hadd)]. simpl in Ha. subst nr'.
      apply (IH g' added (out ++ G) res); [|exact Hk'].
      split.
      { apply (Inv_ext g' (rev G ++ out)); [|exact HI'].
        intros x. rewrite !in_app_iff, <- in_rev. tauto. }
      split.
      { apply NoDup_app_intro; [exact Hnd|exact Hnda|].
        intros x Hx Hc. destruct (Hadd x Hc) as (_ & _ & Hno). apply Hno.
        apply in_app_or in Hx. destruct Hx as [Hx|Hx].
        - exact (proj2 (topo_in out x HT Hx)).
        - exact (proj2 (Hr x Hx)). }
      split.
      { intros n Hn. destruct (Hadd n Hn) as (H1 & H2 & _). split; [exact H1|].
        apply (allpreds_mono (rev G ++ out)); [|exact H2].
        intros x Hx. apply in_app_or in Hx. apply in_or_app. rewrite <- in_rev in Hx. tauto. }
      apply topo_app; [exact HT|exact Hr].
  Qed.

  (* ---------- completeness: the sorter never stops before every node whose predecessors are all out ---------- *)
  Lemma cnt_pos_In x l : 1 <= cnt x l -> In x l.
  Proof.
    intros H. destruct (in_dec string_dec x l) as [Hi|Hi]; [exact Hi|].
    apply cnt_zero_notin in Hi. lia.
  Qed.

  Lemma allpreds_dec D n : allpreds D n \/ ~ allpreds D n.
  Proof.
    destruct (Nat.eq_dec (indeg D n) 0) as [E|E].
    - left. apply indeg_zero_iff. exact E.
    - right. intros Hc. apply indeg_zero_iff in Hc. contradiction.
  Qed.

  Lemma done_succ_mono g ready s x : In x ready -> In x (snd (done_succ (g, ready) s)).
  Proof.
    intros Hx. unfold done_succ.
    destruct (lookup s _) as [j|]; [|exact Hx].
    destruct (npred j =? 0)%Z; simpl; [apply in_or_app; left; exact Hx|exact Hx].
  Qed.

  Lemma done_succs_mono l : forall g ready x, In x ready -> In x (snd (fold_left done_succ l (g, ready))).
  Proof.
    induction l as [|s l IH]; intros g ready x Hx; cbn [fold_left]; [exact Hx|].
    pose proof (done_succ_mono g ready s x Hx) as H1.
    destruct (done_succ (g, ready) s) as [g1 r1]. apply IH. exact H1.
  Qed.

  (* the occurrence of s that brings its counter to 0 puts s on the ready list *)
  Lemma done_succs_complete l : forall g ready D seen,
    Mid g D seen -> (forall s, In s l -> In s ks) ->
    (forall n, cnt n (seen ++ l) <= indeg D n) ->
    forall s, In s l -> indeg D s = cnt s (seen ++ l) ->
    In s (snd (fold_left done_succ l (g, ready))).
  Proof.
    induction l as [|s' l IH]; intros g ready D seen HM Hl Hle s Hin Heq; [destruct Hin|].
    cbn [fold_left].
    pose proof (done_succ_step g ready D seen s' HM (Hl s' (or_introl eq_refl))) as Hstep.
    destruct (done_succ (g, ready) s') as [g1 ready1] eqn:Eds.
    destruct Hstep as [HM1 Hr1].
    assert (Hle1 : forall n, cnt n ((seen ++ [s']) ++ l) <= indeg D n).
    { intros n. rewrite <- app_assoc. exact (Hle n). }
    destruct (in_dec string_dec s l) as [Hsl|Hsl].
    - apply (IH g1 ready1 D (seen ++ [s']) HM1 (fun x Hx => Hl x (or_intror Hx)) Hle1 s Hsl).
      rewrite <- app_assoc. exact Heq.
    - destruct Hin as [->|Hin]; [|contradiction].
      apply done_succs_mono.
      (* s is the last occurrence: its counter is now 0 *)
      apply cnt_zero_notin in Hsl.
      assert (Hc : indeg D s = cnt s (seen ++ [s])).
      { rewrite Heq, !cnt_app. simpl. rewrite String.eqb_refl. lia. }
      destruct HM1 as (Hk1 & _ & Hn1).
      assert (Hsk : In s ks) by (apply Hl; left; reflexivity).
      pose proof (Hn1 s Hsk) as Hz. rewrite Hc in Hz.
      unfold done_succ in Eds.
      set (g' := g_update g s (fun j => {| npred := npred j - 1; succs := succs j |})) in *.
      assert (Hkey : In s (keys g')).
      { unfold g'. rewrite keys_g_update. destruct HM as (Hk & _). rewrite Hk. exact Hsk. }
      destruct (in_keys_lookup g' s Hkey) as [j Hj]. rewrite Hj in Eds.
      assert (Hg1 : g1 = g').
      { destruct (npred j =? 0)%Z; injection Eds as <- _; reflexivity. }
      unfold gnpred in Hz. rewrite Hg1, Hj in Hz.
      assert (Hj0 : (npred j =? 0)%Z = true) by (apply Z.eqb_eq; lia).
      rewrite Hj0 in Eds. injection Eds as _ <-. apply in_or_app. right. left. reflexivity.
  Qed.

  Lemma done_one_mono g nr p x : In x nr -> In x (snd (done_one (g, nr) p)).
  Proof.
    intros Hx. unfold done_one. simpl fst. destruct (lookup p g) as [i|]; [|exact Hx].
    apply done_succs_mono. exact Hx.
  Qed.

  Lemma done_all_mono G : forall g nr x, In x nr -> In x (snd (fold_left done_one G (g, nr))).
  Proof.
    induction G as [|p G IH]; intros g nr x Hx; cbn [fold_left]; [exact Hx|].
    pose proof (done_one_mono g nr p x Hx) as H1.
    destruct (done_one (g, nr) p) as [g1 r1]. apply IH. exact H1.
  Qed.

  Lemma done_one_complete g nr D p s :
    Inv g D -> In p ks -> mem p D = false ->
    In s ks -> allpreds (p :: D) s -> ~ allpreds D s ->
    In s (snd (done_one (g, nr) p)).
  Proof.
    intros (Hk & Hs & Hn) Hp HpD Hsk Ha Hna. unfold done_one. simpl fst.
    assert (Hp_key : In p (keys g)) by (rewrite Hk; exact Hp).
    destruct (in_keys_lookup g p Hp_key) as [i Hi]. rewrite Hi.
    assert (Hsi : succs i = gsuccs g0 p).
    { rewrite <- Hs. unfold gsuccs. rewrite Hi. reflexivity. }
    assert (HM : Mid g D []).
    { split; [exact Hk|]. split; [exact Hs|]. intros n Hnk. rewrite (Hn n Hnk). simpl. lia. }
    assert (Hl : forall x, In x (succs i) -> In x ks).
    { intros x Hin. rewrite Hsi in Hin. exact (closed p x Hin). }
    assert (Hle : forall n, cnt n ([] ++ succs i) <= indeg D n).
    { intros n. simpl. rewrite Hsi, (indeg_split D p n Hp HpD). lia. }
    apply indeg_zero_iff in Ha.
    assert (Hnz : indeg D s <> 0) by (intros Hc; apply Hna, indeg_zero_iff; exact Hc).
    pose proof (indeg_split D p s Hp HpD) as Hsp. rewrite <- Hsi in Hsp.
    apply (done_succs_complete (succs i) g nr D [] HM Hl Hle s).
    - apply cnt_pos_In. lia.
    - simpl. lia.
  Qed.

  Lemma done_all_complete G : forall g nr D,
    Inv g D -> (forall p, In p G -> In p ks) -> NoDup G -> (forall p, In p G -> ~ In p D) ->
    forall s, In s ks -> allpreds (rev G ++ D) s -> ~ allpreds D s ->
    In s (snd (fold_left done_one G (g, nr))).
  Proof.
    induction G as [|p G IH]; intros g nr D HI Hks Hnd Hdis s Hsk Ha Hna; cbn [fold_left].
    - simpl in Ha. contradiction.
    - inversion Hnd as [|? ? HpG Hnd']; subst.
      assert (HpD : mem p D = false) by (apply mem_false_In; apply Hdis; left; reflexivity).
      pose proof (done_one_step g nr D p HI (Hks p (or_introl eq_refl)) HpD) as H1.
      pose proof (done_one_complete g nr D p s HI (Hks p (or_introl eq_refl)) HpD Hsk) as H2.
      destruct (done_one (g, nr) p) as [g1 nr1].
      destruct H1 as [HI1 _]. simpl snd in H2.
      destruct (allpreds_dec (p :: D) s) as [Hp|Hp].
      + apply done_all_mono. exact (H2 Hp Hna).
      + assert (Hdis1 : forall q, In q G -> ~ In q (p :: D)).
        { intros q Hq [E|Hc]; [subst q; contradiction|]. apply (Hdis q (or_intror Hq) Hc). }
        apply (IH g1 nr1 (p :: D) HI1 (fun q Hq => Hks q (or_intror Hq)) Hnd' Hdis1 s Hsk); [|exact Hp].
        cbn [rev] in Ha. rewrite <- app_assoc in Ha. exact Ha.
  Qed.

  (* K plus: nothing that is ready has been forgotten *)
  Definition Kc (g : graph) (ready out : list string) : Prop :=
    K g ready out /\ forall n, In n ks -> allpreds out n -> In n (out ++ ready).

  Lemma kahn_complete fuel : forall g ready out,
    Kc g ready out -> length ks < fuel + length out ->
    exists res, kahn fuel g ready out = Some res
                /\ forall n, In n ks -> allpreds res n -> In n res.
  Proof.
    induction fuel as [|f IH]; intros g ready out [(HI & Hnd & Hr & HT) Hc] Hfuel.
    - (* no fuel: out already holds more names than there are nodes *)
      exfalso.
      assert (Hincl : incl (out ++ ready) ks).
      { intros x Hx. apply in_app_or in Hx. destruct Hx as [Hx|Hx];
          [exact (proj1 (topo_in out x HT Hx))|exact (proj1 (Hr x Hx))]. }
      pose proof (NoDup_incl_length Hnd Hincl) as Hlen. rewrite app_length in Hlen. simpl in Hfuel. lia.
    - destruct ready as [|r ready].
      + simpl. exists out. split; [reflexivity|]. intros n Hn Ha.
        specialize (Hc n Hn Ha). rewrite app_nil_r in Hc. exact Hc.
      + remember (r :: ready) as G eqn:EG.
        assert (Hunf : kahn (S f) g G out = (let '(g', ready') := done_all g G in kahn f g' ready' (out ++ G))).
        { subst G. reflexivity. }
        rewrite Hunf. clear Hunf. unfold done_all.
        destruct (NoDup_app_elim _ _ Hnd) as (Hnd_out & Hnd_G & Hdis).
        assert (Hdis' : forall p, In p G -> ~ In p out).
        { intros p Hp Hcc. exact (Hdis p Hcc Hp). }
        pose proof (done_all_fold G g [] out HI (fun p Hp => proj1 (Hr p Hp)) Hnd_G Hdis') as H.
        pose proof (done_all_complete G g [] out HI (fun p Hp => proj1 (Hr p Hp)) Hnd_G Hdis') as Hcomp.
        destruct (fold_left done_one G (g, [])) as [g' nr'].
        destruct H as [HI' (added & Ha & Hnda & Hadd)]. simpl in Ha. subst nr'. simpl snd in Hcomp.
        assert (Hincl : incl (out ++ G) ks).
        { intros x Hx. apply in_app_or in Hx. destruct Hx as [Hx|Hx];
            [exact (proj1 (topo_in out x HT Hx))|exact (proj1 (Hr x Hx))]. }
        apply (IH g' added (out ++ G)).
        * split.
          { split.
            { apply (Inv_ext g' (rev G ++ out)); [|exact HI'].
              intros x. rewrite !in_app_iff, <- in_rev. tauto. }
            split.
            { apply NoDup_app_intro; [exact Hnd|exact Hnda|].
              intros x Hx Hcc. destruct (Hadd x Hcc) as (_ & _ & Hno). apply Hno.
              apply in_app_or in Hx. destruct Hx as [Hx|Hx].
              - exact (proj2 (topo_in out x HT Hx)).
              - exact (proj2 (Hr x Hx)). }
            split.
            { intros n Hn. destruct (Hadd n Hn) as (H1 & H2 & _). split; [exact H1|].
              apply (allpreds_mono (rev G ++ out)); [|exact H2].
              intros x Hx. apply in_app_or in Hx. apply in_or_app. rewrite <- in_rev in Hx. tauto. }
            apply topo_app; [exact HT|exact Hr]. }
          intros n Hn Han.
          destruct (allpreds_dec out n) as [Ho|Ho].
          -- apply in_or_app. left. exact (Hc n Hn Ho).
          -- apply in_or_app. right. apply (Hcomp n Hn); [|exact Ho].
             apply (allpreds_mono (out ++ G)); [|exact Han].
             intros x Hx. apply in_app_or in Hx. apply in_or_app. rewrite <- in_rev. tauto.
        * rewrite app_length. subst G. simpl. simpl in Hfuel. lia.
  Qed.

  Lemma undone_nil : undone [] = ks.
  Proof.
    unfold undone. generalize ks. intros l. induction l as [|k l IH]; [reflexivity|].
    cbn [filter]. change (mem k []) with false. cbn [negb]. rewrite IH. reflexivity.
  Qed.

  (* graphlib's static_order: a complete order of the nodes in which every edge goes forward *)
  Theorem static_order_sound res :
    static_order g0 = Some res ->
    NoDup res /\ (forall n, In n res <-> In n ks)
    /\ forall pre n post, res = pre ++ n :: post ->
         forall p, In p ks -> In n (gsuccs g0 p) -> In p pre.
  Proof.
    unfold static_order. intros H.
    destruct (kahn (S (length g0)) g0 (ready0 g0) []) as [out|] eqn:Ek; [|discriminate].
    destruct (Nat.eqb_spec (length out) (length g0)) as [El|]; [|discriminate].
    injection H as <-.
    assert (HK : K g0 (ready0 g0) []).
    { split; [split; [reflexivity|split; [reflexivity|exact npred_ok]]|].
      split; [simpl; apply (NoDup_keys_filter _ g0 ks_nodup)|].
      split; [|intros pre n post E; destruct pre; discriminate].
      intros n Hn. unfold ready0 in Hn. apply in_map_iff in Hn. destruct Hn as [[k i] [E Hin]].
      simpl in E. subst k. apply filter_In in Hin. destruct Hin as [Hin Hz]. simpl in Hz.
      assert (Hnk : In n ks) by (apply (in_map fst) in Hin; exact Hin).
      split; [exact Hnk|]. apply indeg_zero_iff.
      pose proof (npred_ok n Hnk) as Hnp. unfold gnpred in Hnp.
      rewrite (lookup_NoDup_In n i g0 ks_nodup Hin) in Hnp. apply Z.eqb_eq in Hz. lia. }
    destruct (kahn_sound _ _ _ _ _ HK Ek) as [Hnd HT].
    assert (Hincl : incl out ks).
    { intros x Hx. exact (proj1 (topo_in out x HT Hx)). }
    split; [exact Hnd|]. split.
    - intros n. split; [apply Hincl|]. intros Hn.
      apply (@NoDup_length_incl _ out ks Hnd); [|exact Hincl|exact Hn].
      unfold ks, keys. rewrite map_length, El. apply le_n.
    - intros pre n post E p Hp Hn. exact (proj2 (HT pre n post E) p Hp Hn).
  Qed.
  (* the converse: when the edges admit a ranking (the graph is acyclic) graphlib never raises CycleError *)
  Theorem static_order_complete (rank : string -> nat) :
    (forall p n, In p ks -> In n (gsuccs g0 p) -> rank p < rank n) ->
    exists res, static_order g0 = Some res.
  Proof.
    intros Hrank.
    assert (HK : K g0 (ready0 g0) []).
    { split; [split; [reflexivity|split; [reflexivity|exact npred_ok]]|].
      split; [simpl; apply (NoDup_keys_filter _ g0 ks_nodup)|].
      split; [|intros pre n post E; destruct pre; discriminate].
      intros n Hn. unfold ready0 in Hn. apply in_map_iff in Hn. destruct Hn as [[k i] [E Hin]].
      simpl in E. subst k. apply filter_In in Hin. destruct Hin as [Hin Hz]. simpl in Hz.
      assert (Hnk : In n ks) by (apply (in_map fst) in Hin; exact Hin).
      split; [exact Hnk|]. apply indeg_zero_iff.
      pose proof (npred_ok n Hnk) as Hnp. unfold gnpred in Hnp.
      rewrite (lookup_NoDup_In n i g0 ks_nodup Hin) in Hnp. apply Z.eqb_eq in Hz. lia. }
    assert (HKc : Kc g0 (ready0 g0) []).
    { split; [exact HK|]. intros n Hn Ha. simpl.
      apply indeg_zero_iff in Ha. pose proof (npred_ok n Hn) as Hnp. rewrite Ha in Hnp.
      destruct (in_keys_lookup g0 n Hn) as [i Hi]. unfold gnpred in Hnp. rewrite Hi in Hnp.
      unfold ready0. apply in_map_iff. exists (n, i). split; [reflexivity|].
      apply filter_In. split; [apply lookup_Some_In; exact Hi|]. simpl. apply Z.eqb_eq. exact Hnp. }
    assert (Hfuel : length ks < S (length g0) + length (@nil string)).
    { unfold ks, keys. rewrite map_length. simpl. lia. }
    destruct (kahn_complete (S (length g0)) g0 (ready0 g0) [] HKc Hfuel) as [out [Ek Hall]].
    destruct (kahn_sound _ _ _ _ _ HK Ek) as [Hnd HT].
    (* every node is out, by induction on its rank *)
    assert (Hevery : forall k n, rank n < k -> In n ks -> In n out).
    { induction k as [|k IHk]; intros n Hlt Hn; [lia|].
      apply (Hall n Hn). intros p Hp Hpn. apply (IHk p); [|exact Hp].
      pose proof (Hrank p n Hp Hpn). lia. }
    unfold static_order. rewrite Ek.
    assert (Hlen : length out = length g0).
    { assert (Hincl : incl out ks) by (intros x Hx; exact (proj1 (topo_in out x HT Hx))).
      assert (Hincl' : incl ks out) by (intros x Hx; exact (Hevery (S (rank x)) x (Nat.lt_succ_diag_r _) Hx)).
      pose proof (NoDup_incl_length Hnd Hincl). pose proof (NoDup_incl_length ks_nodup Hincl').
      unfold ks, keys in *. rewrite map_length in *. lia. }
    rewrite Hlen, Nat.eqb_refl. exists out. reflexivity.
  Qed.
End Kahn.

(* ---------- graphs built by TopologicalSorter.add satisfy the hypotheses ---------- *)
Definition total_in (g : graph) (n : string) : nat := cnt n (flat_map (gsuccs g) (keys g)).

(* [e n]: predecessors of n already counted in npred whose edge has not been recorded yet *)
Definition Good (e : string -> nat) (g : graph) : Prop :=
  NoDup (keys g)
  /\ (forall p s, In s (gsuccs g p) -> In s (keys g))
  /\ (forall n, In n (keys g) -> gnpred g n = Z.of_nat (total_in g n + e n)).

Lemma Good_ext e e' g : (forall n, e n = e' n) -> Good e g -> Good e' g.
Proof.
  intros H (H1 & H2 & H3). split; [exact H1|]. split; [exact H2|].
  intros n Hn. rewrite <- H. exact (H3 n Hn).
Qed.

Lemma gsuccs_notin g k : ~ In k (keys g) -> gsuccs g k = [].
Proof. intros H. apply lookup_None_keys in H. unfold gsuccs. rewrite H. reflexivity. Qed.

Lemma gnpred_notin g k : ~ In k (keys g) -> gnpred g k = 0%Z.
Proof. intros H. apply lookup_None_keys in H. unfold gnpred. rewrite H. reflexivity. Qed.

Lemma touch_old g n : In n (keys g) -> g_touch g n = g.
Proof.
  intros H. unfold g_touch. destruct (lookup n g) eqn:E; [reflexivity|].
  apply lookup_None_keys in E. contradiction.
Qed.

Lemma touch_new g n : ~ In n (keys g) -> g_touch g n = g ++ [(n, {| npred := 0; succs := [] |})].
Proof. intros H. apply lookup_None_keys in H. unfold g_touch. rewrite H. reflexivity. Qed.

Lemma keys_touch g n k : In k (keys (g_touch g n)) <-> In k (keys g) \/ k = n.
Proof.
  destruct (in_dec string_dec n (keys g)) as [Hin|Hni].
  - rewrite (touch_old g n Hin). split; [tauto|]. intros [H| ->]; assumption.
  - rewrite (touch_new g n Hni). unfold keys. rewrite map_app, in_app_iff. simpl.
    split; [intros [H|[H|[]]]; auto|intros [H|H]; auto].
Qed.

Lemma gsuccs_touch g n k : gsuccs (g_touch g n) k = gsuccs g k.
Proof.
  destruct (in_dec string_dec n (keys g)) as [Hin|Hni].
  - rewrite (touch_old g n Hin). reflexivity.
  - rewrite (touch_new g n Hni). unfold gsuccs. rewrite lookup_app. simpl.
    destruct (lookup k g); [reflexivity|]. destruct (String.eqb k n); reflexivity.
Qed.

Lemma gnpred_touch g n k : gnpred (g_touch g n) k = gnpred g k.
Proof.
  destruct (in_dec string_dec n (keys g)) as [Hin|Hni].
  - rewrite (touch_old g n Hin). reflexivity.
  - rewrite (touch_new g n Hni). unfold gnpred. rewrite lookup_app. simpl.
    destruct (lookup k g); [reflexivity|]. destruct (String.eqb k n); reflexivity.
Qed.

Lemma total_in_ext_keys S S' (l : list string) n :
  (forall k, S k = S' k) -> cnt n (flat_map S l) = cnt n (flat_map S' l).
Proof. intros H. f_equal. apply flat_map_ext. exact H. Qed.

Lemma total_zero_notin g n :
  (forall p s, In s (gsuccs g p) -> In s (keys g)) -> ~ In n (keys g) -> total_in g n = 0.
Proof.
  intros Hc Hn. unfold total_in. apply cnt_zero_notin. intros H.
  apply in_flat_map in H. destruct H as [p [_ Hp]]. apply Hn. exact (Hc p n Hp).
Qed.

Lemma touch_good e g n : Good e g -> e n = 0 \/ In n (keys g) -> Good e (g_touch g n).
Proof.
  intros HG He. destruct (in_dec string_dec n (keys g)) as [Hin|Hni].
  - rewrite (touch_old g n Hin). exact HG.
  - destruct He as [He|He]; [|contradiction].
    destruct HG as (H1 & H2 & H3).
    assert (Hk : keys (g_touch g n) = keys g ++ [n]).
    { rewrite (touch_new g n Hni). unfold keys. rewrite map_app. reflexivity. }
    assert (Ht : forall k, total_in (g_touch g n) k = total_in g k).
    { intros k. unfold total_in. rewrite Hk, flat_map_app, cnt_app. simpl.
      rewrite app_nil_r, gsuccs_touch, (gsuccs_notin g n Hni). simpl.
      rewrite (total_in_ext_keys (gsuccs (g_touch g n)) (gsuccs g)); [lia|].
      intros x. apply gsuccs_touch. }
    split.
    + rewrite Hk. apply NoDup_app_intro; [exact H1|constructor; [intros []|constructor]|].
      intros x Hx [<-|[]]. contradiction.
    + split.
      * intros p s Hs. rewrite gsuccs_touch in Hs. apply keys_touch. left. exact (H2 p s Hs).
      * intros k Hkk. rewrite gnpred_touch, Ht. apply keys_touch in Hkk.
        destruct Hkk as [Hkk| ->]; [exact (H3 k Hkk)|].
        rewrite (gnpred_notin g n Hni), (total_zero_notin g n H2 Hni), He. reflexivity.
Qed.

Lemma gsuccs_update g m f k :
  gsuccs (g_update g m f) k =
  if String.eqb k m then match lookup m g with Some i => succs (f i) | None => [] end else gsuccs g k.
Proof.
  unfold gsuccs. rewrite lookup_g_update. destruct (String.eqb k m); [|reflexivity].
  destruct (lookup m g); reflexivity.
Qed.

Lemma gnpred_update g m f k :
  gnpred (g_update g m f) k =
  if String.eqb k m then match lookup m g with Some i => npred (f i) | None => 0%Z end else gnpred g k.
Proof.
  unfold gnpred. rewrite lookup_g_update. destruct (String.eqb k m); [|reflexivity].
  destruct (lookup m g); reflexivity.
Qed.

(* nodeinfo.npredecessors += len(predecessors) *)
Lemma bump_good e g node len :
  Good e g ->
  Good (fun k => e k + if String.eqb k node then len else 0)
       (g_update g node (fun i => {| npred := npred i + Z.of_nat len; succs := succs i |})).
Proof.
  intros (H1 & H2 & H3).
  set (g' := g_update g node _).
  assert (Hk : keys g' = keys g) by apply keys_g_update.
  assert (Hs : forall k, gsuccs g' k = gsuccs g k).
  { intros k. unfold g'. rewrite gsuccs_update. destruct (String.eqb_spec k node) as [->|]; [|reflexivity].
    unfold gsuccs. destruct (lookup node g); reflexivity. }
  assert (Ht : forall k, total_in g' k = total_in g k).
  { intros k. unfold total_in. rewrite Hk. apply total_in_ext_keys. exact Hs. }
  split; [rewrite Hk; exact H1|]. split.
  - intros p s Hin. rewrite Hk. rewrite Hs in Hin. exact (H2 p s Hin).
  - intros k Hkk. rewrite Hk in Hkk. rewrite Ht. unfold g'. rewrite gnpred_update.
    specialize (H3 k Hkk). destruct (String.eqb_spec k node) as [->|Hne].
    + unfold gnpred in H3. destruct (lookup node g) eqn:El; simpl; [lia|].
      apply lookup_None_keys in El. contradiction.
    + rewrite H3. f_equal. lia.
Qed.

Lemma cnt_flat_map_append S S' (p node n : string) l :
  NoDup l -> (forall k, S' k = if String.eqb k p then S k ++ [node] else S k) ->
  cnt n (flat_map S' l)
  = cnt n (flat_map S l) + (if mem p l then (if String.eqb n node then 1 else 0) else 0).
Proof.
  intros Hnd HS. induction l as [|k l IH]; [reflexivity|].
  inversion Hnd as [|? ? Hk Hnd']; subst. cbn [flat_map]. rewrite !cnt_app, (IH Hnd'), HS, mem_cons.
  destruct (String.eqb_spec k p) as [->|Hne].
  - rewrite String.eqb_refl. apply mem_false_In in Hk. rewrite Hk, cnt_app. simpl. lia.
  - destruct (String.eqb_spec p k) as [E|_]; [congruence|]. lia.
Qed.

(* pred_info.successors.append(node) *)
Lemma append_good e g p node :
  In p (keys g) -> In node (keys g) ->
  Good (fun k => e k + if String.eqb k node then 1 else 0) g ->
  Good e (g_update g p (fun i => {| npred := npred i; succs := succs i ++ [node] |})).
Proof.
  intros Hp Hnode (H1 & H2 & H3).
  set (g' := g_update g p _).
  assert (Hk : keys g' = keys g) by apply keys_g_update.
  destruct (lookup p g) as [ip|] eqn:Elp; [|apply lookup_None_keys in Elp; contradiction].
  assert (Hs : forall k, gsuccs g' k = if String.eqb k p then gsuccs g k ++ [node] else gsuccs g k).
  { intros k. unfold g'. rewrite gsuccs_update, Elp. destruct (String.eqb_spec k p) as [->|]; [|reflexivity].
    unfold gsuccs. rewrite Elp. reflexivity. }
  assert (Hn : forall k, gnpred g' k = gnpred g k).
  { intros k. unfold g'. rewrite gnpred_update, Elp. destruct (String.eqb_spec k p) as [->|]; [|reflexivity].
    unfold gnpred. rewrite Elp. reflexivity. }
  assert (Ht : forall k, total_in g' k = total_in g k + if String.eqb k node then 1 else 0).
  { intros k. unfold total_in. rewrite Hk, (cnt_flat_map_append (gsuccs g) (gsuccs g') p node k (keys g) H1 Hs).
    apply mem_In in Hp. rewrite Hp. reflexivity. }
  split; [rewrite Hk; exact H1|]. split.
  - intros q s Hin. rewrite Hk. rewrite Hs in Hin. destruct (String.eqb q p).
    + apply in_app_or in Hin. destruct Hin as [Hin|[<-|[]]]; [exact (H2 q s Hin)|exact Hnode].
    + exact (H2 q s Hin).
  - intros k Hkk. rewrite Hk in Hkk. rewrite Hn, Ht, (H3 k Hkk). f_equal. lia.
Qed.

(* for pred in predecessors: pred_info = _get_nodeinfo(pred); pred_info.successors.append(node) *)
Definition add_pred (node : string) (g : graph) (p : string) : graph :=
  g_update (g_touch g p) p (fun i => {| npred := npred i; succs := succs i ++ [node] |}).

Lemma g_add_eq g node preds :
  g_add g node preds =
  fold_left (add_pred node) preds
    (g_update (g_touch g node) node
       (fun i => {| npred := npred i + Z.of_nat (length preds); succs := succs i |})).
Proof. reflexivity. Qed.

Lemma keys_add_pred node g p k : In k (keys (add_pred node g p)) <-> In k (keys g) \/ k = p.
Proof. unfold add_pred. rewrite keys_g_update. apply keys_touch. Qed.

Lemma gsuccs_add_pred node g p q :
  gsuccs (add_pred node g p) q = if String.eqb q p then gsuccs g q ++ [node] else gsuccs g q.
Proof.
  unfold add_pred. rewrite gsuccs_update.
  destruct (String.eqb_spec q p) as [->|Hne]; [|apply gsuccs_touch].
  assert (Hp : In p (keys (g_touch g p))) by (apply keys_touch; right; reflexivity).
  destruct (lookup p (g_touch g p)) as [i|] eqn:E; [|apply lookup_None_keys in E; contradiction].
  simpl. rewrite <- (gsuccs_touch g p p). unfold gsuccs. rewrite E. reflexivity.
Qed.

Lemma add_preds_good node : forall preds g,
  In node (keys g) ->
  Good (fun k => if String.eqb k node then length preds else 0) g ->
  Good (fun _ => 0) (fold_left (add_pred node) preds g).
Proof.
  induction preds as [|p preds IH]; intros g Hnode HG; simpl.
  - apply (Good_ext _ _ g) with (2 := HG). intros n. destruct (String.eqb n node); reflexivity.
  - apply IH.
    + apply keys_add_pred. left. exact Hnode.
    + unfold add_pred. apply append_good.
      * apply keys_touch. right. reflexivity.
      * apply keys_touch. left. exact Hnode.
      * apply touch_good.
        -- apply (Good_ext _ _ g) with (2 := HG). intros n. simpl. destruct (String.eqb n node); lia.
        -- destruct (String.eqb_spec p node) as [->|Hne]; [right; exact Hnode|left; lia].
Qed.

Lemma keys_add_preds node : forall preds g k,
  In k (keys (fold_left (add_pred node) preds g)) <-> In k (keys g) \/ In k preds.
Proof.
  induction preds as [|p preds IH]; intros g k; simpl; [tauto|].
  rewrite IH, keys_add_pred. split; [intros [[H|H]|H]; auto|intros [H|[H|H]]; auto].
Qed.

Lemma gsuccs_add_preds node : forall preds g q n,
  In n (gsuccs (fold_left (add_pred node) preds g) q) <-> In n (gsuccs g q) \/ (n = node /\ In q preds).
Proof.
  induction preds as [|p preds IH]; intros g q n; simpl; [tauto|].
  rewrite IH, gsuccs_add_pred. destruct (String.eqb_spec q p) as [->|Hne].
  - rewrite in_app_iff. simpl. split.
    + intros [[H|[H|[]]]|[H1 H2]]; auto.
    + intros [H|[H1 [H2|H2]]]; auto.
  - split; [intros [H|[H1 H2]]; auto|]. intros [H|[H1 [H2|H2]]]; auto. congruence.
Qed.

(* TopologicalSorter.add keeps the graph consistent *)
Lemma g_add_good g node preds : Good (fun _ => 0) g -> Good (fun _ => 0) (g_add g node preds).
Proof.
  intros HG. rewrite g_add_eq. apply add_preds_good.
  - rewrite keys_g_update. apply keys_touch. right. reflexivity.
  - apply (Good_ext (fun k => 0 + if String.eqb k node then length preds else 0)); [reflexivity|].
    apply bump_good. apply touch_good; [exact HG|left; reflexivity].
Qed.

Lemma keys_g_add g node preds k :
  In k (keys (g_add g node preds)) <-> In k (keys g) \/ k = node \/ In k preds.
Proof.
  rewrite g_add_eq, keys_add_preds, keys_g_update, keys_touch. tauto.
Qed.

Lemma gsuccs_g_add g node preds q n :
  In n (gsuccs (g_add g node preds) q) <-> In n (gsuccs g q) \/ (n = node /\ In q preds).
Proof.
  rewrite g_add_eq, gsuccs_add_preds.
  assert (E : gsuccs (g_update (g_touch g node) node
                 (fun i => {| npred := npred i + Z.of_nat (length preds); succs := succs i |})) q = gsuccs g q).
  { rewrite gsuccs_update. destruct (String.eqb_spec q node) as [->|]; [|apply gsuccs_touch].
    rewrite <- (gsuccs_touch g node node). unfold gsuccs. destruct (lookup node (g_touch g node)); reflexivity. }
  rewrite E. tauto.
Qed.

(* sorter = TopologicalSorter(); for n in names: sorter.add(n, *deps(n)) *)
Definition build (dp : string -> list string) (names : list string) (g : graph) : graph :=
  fold_left (fun g n => g_add g n (dp n)) names g.

Lemma build_cons dp m names g : build dp (m :: names) g = build dp names (g_add g m (dp m)).
Proof. reflexivity. Qed.

Lemma build_good dp : forall names g, Good (fun _ => 0) g -> Good (fun _ => 0) (build dp names g).
Proof.
  induction names as [|n names IH]; intros g HG; [exact HG|].
  rewrite build_cons. apply IH. apply g_add_good. exact HG.
Qed.

Lemma keys_build dp : forall names g k,
  In k (keys (build dp names g)) <-> In k (keys g) \/ In k names \/ exists n, In n names /\ In k (dp n).
Proof.
  induction names as [|m names IH]; intros g k.
  - simpl. split; [tauto|]. intros [H|[[]|[n [[] _]]]]. exact H.
  - rewrite build_cons, IH, keys_g_add. simpl. split.
    + intros [[H|[H|H]]|[H|[n [H1 H2]]]]; auto.
      * right. right. exists m. auto.
      * right. right. exists n. auto.
    + intros [H|[[H|H]|[n [[H1|H1] H2]]]]; auto.
      * subst n. auto.
      * right. right. exists n. auto.
Qed.

Lemma gsuccs_build dp : forall names g q n,
  In n (gsuccs (build dp names g) q) <-> In n (gsuccs g q) \/ (In n names /\ In q (dp n)).
Proof.
  induction names as [|m names IH]; intros g q n; [simpl; tauto|].
  rewrite build_cons, IH, gsuccs_g_add. simpl. split.
  - intros [[H|[H1 H2]]|[H1 H2]]; auto. subst n. auto.
  - intros [H|[[H1|H1] H2]]; auto. subst m. auto.
Qed.

Lemma Good_nil : Good (fun _ => 0) [].
Proof.
  split; [constructor|]. split; [intros p s []|intros n []].
Qed.

(* ---------- the order graphlib returns for such a graph ---------- *)
Theorem build_order_sound dp names ord :
  static_order (build dp names []) = Some ord ->
  NoDup ord
  /\ (forall n, In n names -> In n ord)
  /\ (forall pre n post, ord = pre ++ n :: post -> In n names ->
        forall d, In d (dp n) -> In d pre).
Proof.
  intros H. set (g := build dp names []) in *.
  destruct (build_good dp names [] Good_nil) as (H1 & H2 & H3). fold g in H1, H2, H3.
  assert (Hnp : forall n, In n (keys g) -> gnpred g n = Z.of_nat (indeg g [] n)).
  { intros n Hn. rewrite (H3 n Hn). unfold indeg, total_in. rewrite undone_nil, Nat.add_0_r. reflexivity. }
  destruct (static_order_sound g H1 H2 Hnp ord H) as (Ha & Hb & Hc).
  split; [exact Ha|]. split.
  - intros n Hn. apply Hb. unfold g. apply keys_build. right. left. exact Hn.
  - intros pre n post E Hn d Hd. apply (Hc pre n post E d).
    + unfold g. apply keys_build. right. right. exists n. split; assumption.
    + unfold g. apply gsuccs_build. right. split; assumption.
Qed.

(* the converse for graphs built by add: dependencies that admit a ranking are always ordered *)
Theorem build_order_complete dp names (rank : string -> nat) :
  (forall n d, In n names -> In d (dp n) -> rank d < rank n) ->
  exists ord, static_order (build dp names []) = Some ord.
Proof.
  intros Hrank. set (g := build dp names []).
  destruct (build_good dp names [] Good_nil) as (H1 & H2 & H3). fold g in H1, H2, H3.
  assert (Hnp : forall n, In n (keys g) -> gnpred g n = Z.of_nat (indeg g [] n)).
  { intros n Hn. rewrite (H3 n Hn). unfold indeg, total_in. rewrite undone_nil, Nat.add_0_r. reflexivity. }
  apply (static_order_complete g H1 H2 Hnp rank).
  intros p n _ Hn. unfold g in Hn. apply gsuccs_build in Hn. destruct Hn as [Hn|[Hn Hd]].
  - unfold gsuccs in Hn. simpl in Hn. destruct Hn.
  - exact (Hrank n p Hn Hd).
Qed.

(* graphlib raises CycleError exactly for the dependency relations without a ranking *)
Lemma index_split_lt (ord pre post : list string) n d :
  NoDup ord -> ord = pre ++ n :: post -> In d pre ->
  forall i j, index_of d ord = Some i -> index_of n ord = Some j -> i < j.
Proof.
  intros Hnd E Hd i j Hi Hj.
  apply in_split in Hd. destruct Hd as [p1 [p2 Ep]].
  assert (Ed : ord = p1 ++ d :: (p2 ++ n :: post)).
  { rewrite E, Ep, <- app_assoc. reflexivity. }
  assert (Hi' : index_of d ord = Some (length p1)).
  { apply NoDup_index_of; [exact Hnd|]. rewrite Ed, nth_error_app2, Nat.sub_diag; [reflexivity|lia]. }
  assert (Hj' : index_of n ord = Some (length pre)).
  { apply NoDup_index_of; [exact Hnd|]. rewrite E, nth_error_app2, Nat.sub_diag; [reflexivity|lia]. }
  rewrite Hi in Hi'. rewrite Hj in Hj'. injection Hi' as ->. injection Hj' as ->.
  rewrite Ep, app_length. simpl. lia.
Qed.

Theorem build_order_iff_ranked dp names :
  (exists ord, static_order (build dp names []) = Some ord)
  <-> exists rank : string -> nat, forall n d, In n names -> In d (dp n) -> rank d < rank n.
Proof.
  split.
  - intros [ord H]. destruct (build_order_sound dp names ord H) as (Hnd & Hall & Hpre).
    exists (fun x => match index_of x ord with Some i => i | None => 0 end).
    intros n d Hn Hd.
    pose proof (Hall n Hn) as Hin. apply in_split in Hin. destruct Hin as [pre [post E]].
    pose proof (Hpre pre n post E Hn d Hd) as Hdp.
    destruct (index_of d ord) as [i|] eqn:Ei.
    2:{ apply index_of_None in Ei. exfalso. apply Ei. rewrite E. apply in_or_app. left. exact Hdp. }
    destruct (index_of n ord) as [j|] eqn:Ej.
    2:{ apply index_of_None in Ej. exfalso. apply Ej. rewrite E. apply in_elt. }
    exact (index_split_lt ord pre post n d Hnd E Hdp i j Ei Ej).
  - intros [rank Hr]. exact (build_order_complete dp names rank Hr).
Qed.

(* a cycle among the nodes makes static_order fail (graphlib.CycleError) *)
Corollary build_order_no_self_dep dp names ord n :
  static_order (build dp names []) = Some ord -> In n names -> ~ In n (dp n).
Proof.
  intros H Hn Hd. destruct (build_order_sound dp names ord H) as (Ha & Hb & Hc).
  pose proof (Hb n Hn) as Hin. apply in_split in Hin. destruct Hin as [pre [post E]].
  pose proof (Hc pre n post E Hn n Hd) as Hp. subst ord.
  apply NoDup_remove_2 in Ha. apply Ha. apply in_or_app. left. exact Hp.
Qed.
