(* ParseItems.v — the item list of a model text with every right-hand side and every declared value as a token
   sequence (what the lexer hands to the grammar), the step from such a text to the items the loader receives
   ([parse_items], by Parse.parse_expr), and the writer's counterpart [print_items].  Reading what was written gives
   the items back, so the loader theorems (LoadSound, LoadPerm, SaveLoad) hold one level closer to the file: for the
   token text of the saved model. *)
From GX Require Import Base Expr Parse Topo Ode Target Sem Codegen Load Save Perm LoadPerm SaveLoad.
Open Scope string_scope.
Open Scope list_scope.

Record tentry := { te_name : string; te_value : list tok; te_unit : option string; te_desc : option string }.
Record tline := { tl_name : string; tl_expr : list tok; tl_unit : option string; tl_comment : option string }.
Inductive titem :=
| TStates (comps : list string) (es : list tentry)
| TParams (comps : list string) (es : list tentry)
| TExprs (comps : list string) (ls : list tline)
| TComment (s : string).

Fixpoint all_some {A} (l : list (option A)) : option (list A) :=
  match l with
  | [] => Some []
  | Some x :: l' => match all_some l' with Some r => Some (x :: r) | None => None end
  | None :: _ => None
  end.

Definition parse_entry (e : tentry) : option entry :=
  match parse_expr (te_value e) with
  | Some v => Some {| en_name := te_name e; en_value := v; en_unit := te_unit e; en_desc := te_desc e |}
  | None => None
  end.
Definition parse_line (l : tline) : option line :=
  match parse_expr (tl_expr l) with
  | Some v => Some {| ln_name := tl_name l; ln_expr := v; ln_unit := tl_unit l; ln_comment := tl_comment l |}
  | None => None
  end.
Definition parse_item (i : titem) : option item :=
  match i with
  | TStates c es => match all_some (map parse_entry es) with Some r => Some (IStates c r) | None => None end
  | TParams c es => match all_some (map parse_entry es) with Some r => Some (IParams c r) | None => None end
  | TExprs c ls => match all_some (map parse_line ls) with Some r => Some (IExprs c r) | None => None end
  | TComment s => Some (IComment s)
  end.
(* None = a syntax error in some expression *)
Definition parse_items (l : list titem) : option (list item) := all_some (map parse_item l).

Definition print_entry (e : entry) : tentry :=
  {| te_name := en_name e; te_value := print_expr (en_value e); te_unit := en_unit e; te_desc := en_desc e |}.
Definition print_line (l : line) : tline :=
  {| tl_name := ln_name l; tl_expr := print_expr (ln_expr l); tl_unit := ln_unit l; tl_comment := ln_comment l |}.
Definition print_item (i : item) : titem :=
  match i with
  | IStates c es => TStates c (map print_entry es)
  | IParams c es => TParams c (map print_entry es)
  | IExprs c ls => TExprs c (map print_line ls)
  | IComment s => TComment s
  end.
Definition print_items (l : list item) : list titem := map print_item l.

Definition writable_item (i : item) : Prop :=
  match i with
  | IStates _ es | IParams _ es => forall e, In e es -> writable (en_value e)
  | IExprs _ ls => forall l, In l ls -> writable (ln_expr l)
  | IComment _ => True
  end.

Lemma all_some_map {A B} (f : A -> option B) (g : A -> B) l :
  (forall x, In x l -> f x = Some (g x)) -> all_some (map f l) = Some (map g l).
Proof.
  induction l as [|x l IH]; intros H; [reflexivity|].
  cbn [map all_some]. rewrite (H x (or_introl eq_refl)), IH; [reflexivity|].
  intros y Hy. apply H. right. exact Hy.
Qed.

Lemma parse_print_entry e : writable (en_value e) -> parse_entry (print_entry e) = Some e.
Proof. intros W. unfold parse_entry, print_entry. cbn. rewrite (parse_print _ W). destruct e; reflexivity. Qed.

Lemma parse_print_line l : writable (ln_expr l) -> parse_line (print_line l) = Some l.
Proof. intros W. unfold parse_line, print_line. cbn. rewrite (parse_print _ W). destruct l; reflexivity. Qed.

Lemma parse_print_item i : writable_item i -> parse_item (print_item i) = Some i.
Proof.
  destruct i as [c es|c es|c ls|s]; cbn [print_item parse_item writable_item]; intros W.
  - rewrite map_map, (all_some_map _ (fun e => e)); [rewrite map_id; reflexivity|].
    intros e He. apply parse_print_entry. exact (W e He).
  - rewrite map_map, (all_some_map _ (fun e => e)); [rewrite map_id; reflexivity|].
    intros e He. apply parse_print_entry. exact (W e He).
  - rewrite map_map, (all_some_map _ (fun l => l)); [rewrite map_id; reflexivity|].
    intros l Hl. apply parse_print_line. exact (W l Hl).
  - reflexivity.
Qed.

(* reading the token text of an item list gives the item list *)
Theorem parse_print_items items :
  (forall i, In i items -> writable_item i) -> parse_items (print_items items) = Some items.
Proof.
  intros W. unfold parse_items, print_items. rewrite map_map.
  rewrite (all_some_map _ (fun i => i)); [rewrite map_id; reflexivity|].
  intros i Hi. apply parse_print_item. exact (W i Hi).
Qed.

(* the loader on token texts *)
Definition load_tokens (l : list titem) : option (result ode) :=
  match parse_items l with Some items => Some (load items) | None => None end.

Corollary load_tokens_print items :
  (forall i, In i items -> writable_item i) -> load_tokens (print_items items) = Some (load items).
Proof. intros W. unfold load_tokens. rewrite (parse_print_items items W). reflexivity. Qed.

(* save -> token text -> load: for every loaded model whose saved items are writable (no name is a keyword of the
   expression grammar), the token text of the saved model loads to an equivalent model *)
Theorem save_print_load items o :
  load items = Ok o ->
  (forall i, In i (save_items (o_states o) (o_params o) (assigns o)) -> writable_item i) ->
  exists o', load_tokens (print_items (save_items (o_states o) (o_params o) (assigns o))) = Some (Ok o') /\ ode_equiv o o'.
Proof.
  intros HL W. destruct (save_then_load items o HL) as [o' [H1 H2]].
  exists o'. split; [|exact H2]. rewrite (load_tokens_print _ W), H1. reflexivity.
Qed.
