(* Schemes.v — the Rush-Larsen schemes (schemes.py): symbolic derivative with respect to the own
   state, the helper definitions  <d>_linearized, the shapes of the slot updates, and the
   validators / soundness theorems for generalized and hybrid Rush-Larsen.

     generalized_rush_larsen, per state derivative  n = d<s>_dt  with expression e:
        g := diff(e, s)                       (all other names held fixed)
        g is_zero          ->  values[i] = s + dt*n                                   (MEuler)
        otherwise  n_linearized = g ; and
          fraction_numerator_is_nonzero(g) ->  values[i] = s + n/g_lin*(exp(g_lin*dt) - 1)   (MPlain)
          else  values[i] = s + Conditional(abs(g_lin) > delta, n/g_lin*(exp(g_lin*dt)-1), dt*n)  (MGuard)
     hybrid_rush_larsen: the same for states listed as stiff, the Euler update for the others. *)
From GX Require Import Base Expr Topo Ode Target Sem Valid.
From Coq Require Import QArith.
Close Scope Q_scope.
Open Scope string_scope.
Open Scope list_scope.

(* ---------- differentiation with respect to one name ---------- *)
Definition e_num (z : Z) : expr := ENum (inject_Z z) true.

(* sign(a) as sympy defines it for real a *)
Definition e_sign (a : expr) : expr :=
  ECond (ERel Rgt a (e_num 0)) (e_num 1) (ECond (ERel Rlt a (e_num 0)) (ENeg (e_num 1)) (e_num 0)).

Fixpoint D (x : string) (e : expr) : expr :=
  match e with
  | ENum _ _ | EPi => e_num 0
  | EVar y => if String.eqb x y then e_num 1 else e_num 0
  | EAdd a b => EAdd (D x a) (D x b)
  | ESub a b => ESub (D x a) (D x b)
  | EMul a b => EAdd (EMul (D x a) b) (EMul a (D x b))
  | EDiv a b => EDiv (ESub (EMul (D x a) b) (EMul a (D x b))) (EMul b b)
  | EPow a b =>
      if mem x (vars b)
      then (* a^b * (b' * ln a + b * a' / a) *)
        EMul (EPow a b) (EAdd (EMul (D x b) (EFn Flog a)) (EDiv (EMul b (D x a)) a))
      else (* b * a^(b-1) * a' *)
        EMul (EMul b (EPow a (ESub b (e_num 1)))) (D x a)
  | ENeg a => ENeg (D x a)
  | EFn f a =>
      let da := D x a in
      match f with
      | Fexp => EMul (EFn Fexp a) da
      | Fsin => EMul (EFn Fcos a) da
      | Fcos => EMul (ENeg (EFn Fsin a)) da
      | Ftan => EMul (EAdd (e_num 1) (EMul (EFn Ftan a) (EFn Ftan a))) da
      | Fasin => EDiv da (EFn Fsqrt (ESub (e_num 1) (EMul a a)))
      | Facos => ENeg (EDiv da (EFn Fsqrt (ESub (e_num 1) (EMul a a))))
      | Fatan => EDiv da (EAdd (e_num 1) (EMul a a))
      | Flog => EDiv da a
      | Fsqrt => EDiv da (EMul (e_num 2) (EFn Fsqrt a))
      | Fabs => EMul (e_sign a) da
      | Ffloor => e_num 0
      end
  | EMod a b => D x a          (* piecewise: d/dx (a - b*floor(a/b)) for b free of x *)
  | ERel _ _ _ | ENot _ | EAnd _ _ | EOr _ _ => e_num 0
  | ECond c a b => ECond c (D x a) (D x b)
  end.

Lemma D_vars x e : forall y, In y (vars (D x e)) -> In y (vars e).
Proof.
  induction e; simpl; intros y H; try contradiction; auto.
  - destruct (String.eqb x x0); simpl in H; contradiction.
  - apply in_app_or in H. apply in_or_app. destruct H; auto.
  - apply in_app_or in H. apply in_or_app. destruct H; auto.
  - repeat (apply in_app_or in H; destruct H as [H|H]); apply in_or_app; auto.
  - repeat (apply in_app_or in H; destruct H as [H|H]); apply in_or_app; auto.
  - destruct (mem x (vars e2)); simpl in H;
      repeat (apply in_app_or in H; destruct H as [H|H]); try contradiction; apply in_or_app; auto.
  - destruct f; simpl in H;
      repeat (apply in_app_or in H; destruct H as [H|H]); try contradiction; auto.
  - apply in_or_app. auto.
  - repeat (apply in_app_or in H; destruct H as [H|H]); apply in_or_app; auto;
      right; apply in_or_app; auto.
Qed.

(* ---------- "is identically zero", decided conservatively ---------- *)
Fixpoint const_val (e : expr) : option Q :=
  match e with
  | ENum q _ => Some q
  | EAdd a b => match const_val a, const_val b with Some p, Some q => Some (p + q)%Q | _, _ => None end
  | ESub a b => match const_val a, const_val b with Some p, Some q => Some (p - q)%Q | _, _ => None end
  | EMul a b =>
      match const_val a, const_val b with
      | Some p, Some q => Some (p * q)%Q
      | Some p, None => if Qeq_bool p 0 then Some 0%Q else None
      | None, Some q => if Qeq_bool q 0 then Some 0%Q else None
      | None, None => None
      end
  | EDiv a b =>
      match const_val a with
      | Some p => if Qeq_bool p 0 then Some 0%Q
                  else match const_val b with
                       | Some q => if Qeq_bool q 0 then None else Some (p / q)%Q
                       | None => None
                       end
      | None => None
      end
  | ENeg a => match const_val a with Some p => Some (- p)%Q | None => None end
  | ECond _ a b =>
      match const_val a, const_val b with
      | Some p, Some q => if Qeq_bool p q then Some p else None
      | _, _ => None
      end
  | _ => None
  end.

Definition is_zero_expr (e : expr) : bool :=
  match const_val e with Some q => Qeq_bool q 0 | None => false end.

(* ---------- the model extended with the linearisation helpers ---------- *)
Definition lin_name (n : string) : string := String.append n "_linearized".

Definition lin_assign (a : assign) : assign :=
  {| a_name := lin_name (a_name a);
     a_expr := D (match deriv_state (a_name a) with Some s => s | None => "" end) (a_expr a);
     a_comps := a_comps a; a_unit := None; a_comment := None |}.

Definition extend_lin (o : ode) : ode :=
  {| o_states := o_states o; o_params := o_params o;
     o_inters := o_inters o ++ map lin_assign (o_derivs o);
     o_derivs := o_derivs o |}.

(* ---------- shapes of the slot updates ---------- *)
Inductive mode := MEuler | MGuard | MPlain.

Definition mode_eqb (a b : mode) : bool :=
  match a, b with MEuler, MEuler | MGuard, MGuard | MPlain, MPlain => true | _, _ => false end.

Definition is_num (q : Q) (e : expr) : bool :=
  match e with ENum p _ => Q_eqb_syn p q | _ => false end.

Definition is_mul2 (pa pb : expr -> bool) (e : expr) : bool :=
  match e with EMul a b => (pa a && pb b) || (pb a && pa b) | _ => false end.

(* exp(g*dt) - 1 *)
Definition is_expm1 (g : string) (e : expr) : bool :=
  match e with
  | ESub (EFn Fexp m) one => is_mul2 (is_var g) (is_var "dt") m && is_num 1 one
  | _ => false
  end.

(* n/g*(exp(g*dt) - 1)  in any of the association / commutation variants a printer may choose *)
Definition is_rl_term (n g : string) (e : expr) : bool :=
  match e with
  | EDiv m (EVar g') => String.eqb g g' && is_mul2 (is_var n) (is_expm1 g) m
  | EMul a b =>
      let is_ng := fun e => match e with EDiv (EVar n') (EVar g') => String.eqb n n' && String.eqb g g' | _ => false end in
      let is_eg := fun e => match e with EDiv m (EVar g') => String.eqb g g' && is_expm1 g m | _ => false end in
      (is_ng a && is_expm1 g b) || (is_expm1 g a && is_ng b)
      || (is_var n a && is_eg b) || (is_eg a && is_var n b)
  | _ => false
  end.

(* abs(g) > delta, also in the form sympy.simplify gives it for a real g:  Or(g > delta, g < -delta) *)
Definition is_gt_delta (g : string) (delta : Q) (c : expr) : bool :=
  match c with ERel Rgt (EVar g') d => String.eqb g g' && is_num delta d | _ => false end.
Definition is_lt_mdelta (g : string) (delta : Q) (c : expr) : bool :=
  match c with
  | ERel Rlt (EVar g') (ENeg d) => String.eqb g g' && is_num delta d
  | ERel Rlt (EVar g') (ENum z _) => String.eqb g g' && Q_eqb_syn z 0 && Q_eqb_syn delta 0  (* -0 printed as 0 *)
  | _ => false
  end.

Definition is_guard (g : string) (delta : Q) (c : expr) : bool :=
  match c with
  | ERel Rgt (EFn Fabs (EVar g')) d => String.eqb g g' && is_num delta d
  | EOr a b => (is_gt_delta g delta a && is_lt_mdelta g delta b)
               || (is_lt_mdelta g delta a && is_gt_delta g delta b)
  | _ => false
  end.

Definition is_add2 (pa pb : expr -> bool) (e : expr) : bool :=
  match e with EAdd a b => (pa a && pb b) || (pb a && pa b) | _ => false end.

Definition is_guarded_term (n g : string) (delta : Q) (e : expr) : bool :=
  match e with
  | ECond c a b => is_guard g delta c && is_rl_term n g a && is_dt_mul n b
  | _ => false
  end.

Definition is_update (md : mode) (delta : Q) (s : string) (e : expr) : bool :=
  let n := deriv_name_of s in
  let g := lin_name n in
  match md with
  | MEuler => is_euler s e
  | MGuard => is_add2 (is_var s) (is_guarded_term n g delta) e
  | MPlain => is_add2 (is_var s) (is_rl_term n g) e
  end.

(* the slot table: state i uses mode modes[i] if it is stiff, the Euler update otherwise *)
Definition slot_mode (modes : list mode) (stiff : string -> bool) (i : nat) (s : string) : mode :=
  if stiff s then nth i modes MEuler else MEuler.

Definition ok_scheme (o : ode) (ss : list string) (modes : list mode) (stiff : string -> bool)
  (delta : Q) (i : nat) (e : expr) : bool :=
  match nth_error ss i with
  | Some s => is_update (slot_mode modes stiff i s) delta s e && is_deriv_name o (deriv_name_of s)
  | None => false
  end.

(* the mirror's prediction of the mode of each state (is_zero / fraction_numerator_is_nonzero are
   sympy-side decisions; [nonzero] is the exported verdict of the latter) *)
Definition predict_mode (o : ode) (nonzero : string -> bool) (s : string) : mode :=
  match find_assign o (deriv_name_of s) with
  | Some a => if is_zero_expr (D s (a_expr a)) then MEuler
              else if nonzero s then MPlain else MGuard
  | None => MEuler
  end.

Local Arguments String.eqb : simpl never.
Local Arguments deriv_name_of : simpl never.
Local Arguments lin_name : simpl never.

Section SchemeSound.
  Context {T : Type} (N : NumOps T) (o : ode).
  Variable ss : list string.
  Variable inp : inputs T.

  Let o' := extend_lin o.
  Notation SemX := (Sem N o' ss inp true).
  Notation SemEX := (SemE N o' ss inp true).

  Record FieldLaws : Prop := {
    fl_add_comm : forall a b : T, add N a b = add N b a;
    fl_mul_comm : forall a b : T, mul N a b = mul N b a;
    fl_mul_div_l : forall a b c : T, div N (mul N a b) c = mul N (div N a c) b;
    fl_mul_div_r : forall a b c : T, mul N a (div N b c) = mul N (div N a c) b;
    fl_bor_comm : forall a b : T, bor N a b = bor N b a;
    fl_neg_zero : neg N (ofQ N 0%Q) = ofQ N 0%Q;
    fl_abs_gt : forall g d : T,
        bor N (rel N Rgt g d) (rel N Rlt g (neg N d)) = rel N Rgt (fn N Fabs g) d }.

  Definition valid_scheme (modes : list mode) (stiff : string -> bool) (delta : Q) (f : func) : bool :=
    Nat.eqb (f_nret f) (length ss)
    && valid_fun o' ss inp true f (ok_scheme o ss modes stiff delta).

  (* the value the property prescribes for a slot, as a function of the meanings of the state,
     its derivative f, its linearisation g, and dt *)
  Definition one : T := ofQ N 1%Q.
  Definition rl_value (fv gv dtv : T) : T :=
    mul N (div N fv gv) (sub N (fn N Fexp (mul N gv dtv)) one).
  Definition slot_value (md : mode) (delta : Q) (sv fv gv dtv : T) : T :=
    match md with
    | MEuler => add N sv (mul N dtv fv)
    | MPlain => add N sv (rl_value fv gv dtv)
    | MGuard => add N sv (select N (rel N Rgt (fn N Fabs gv) (ofQ N delta)) (rl_value fv gv dtv) (mul N dtv fv))
    end.

  (* ---------- inversion of SemE over the constructors the shapes use ---------- *)
  Ltac semE_inv H :=
    let rho := fresh "rho" in let Hr := fresh "Hr" in
    destruct H as (rho & Hr & ->); simpl;
    repeat match goal with
    | |- exists _, _ => eexists
    end.

  Lemma SemEX_bin (mk : expr -> expr -> expr) (op : T -> T -> T) a b v :
    (forall rho, eval N rho (mk a b) = op (eval N rho a) (eval N rho b)) ->
    (forall y, In y (vars a) \/ In y (vars b) -> In y (vars (mk a b))) ->
    SemEX (mk a b) v -> exists va vb, SemEX a va /\ SemEX b vb /\ v = op va vb.
  Proof.
    intros He Hv (rho & Hr & ->). exists (eval N rho a), (eval N rho b).
    split; [|split; [|apply He]]; exists rho; (split; [|reflexivity]); intros y Hy; apply Hr, Hv; auto.
  Qed.

  Lemma SemEX_mul a b v : SemEX (EMul a b) v ->
    exists va vb, SemEX a va /\ SemEX b vb /\ v = mul N va vb.
  Proof. apply (SemEX_bin EMul (mul N)); [reflexivity|]. intros y H; simpl; apply in_or_app; exact H. Qed.
  Lemma SemEX_div a b v : SemEX (EDiv a b) v ->
    exists va vb, SemEX a va /\ SemEX b vb /\ v = div N va vb.
  Proof. apply (SemEX_bin EDiv (div N)); [reflexivity|]. intros y H; simpl; apply in_or_app; exact H. Qed.
  Lemma SemEX_sub a b v : SemEX (ESub a b) v ->
    exists va vb, SemEX a va /\ SemEX b vb /\ v = sub N va vb.
  Proof. apply (SemEX_bin ESub (sub N)); [reflexivity|]. intros y H; simpl; apply in_or_app; exact H. Qed.
  Lemma SemEX_add a b v : SemEX (EAdd a b) v ->
    exists va vb, SemEX a va /\ SemEX b vb /\ v = add N va vb.
  Proof. apply (SemEX_bin EAdd (add N)); [reflexivity|]. intros y H; simpl; apply in_or_app; exact H. Qed.
  Lemma SemEX_rel r a b v : SemEX (ERel r a b) v ->
    exists va vb, SemEX a va /\ SemEX b vb /\ v = rel N r va vb.
  Proof. apply (SemEX_bin (ERel r) (rel N r)); [reflexivity|]. intros y H; simpl; apply in_or_app; exact H. Qed.

  Lemma SemEX_fn f a v : SemEX (EFn f a) v -> exists va, SemEX a va /\ v = fn N f va.
  Proof.
    intros (rho & Hr & ->). exists (eval N rho a). split; [|reflexivity].
    exists rho. split; [|reflexivity]. exact Hr.
  Qed.

  Lemma SemEX_cond c a b v : SemEX (ECond c a b) v ->
    exists vc va vb, SemEX c vc /\ SemEX a va /\ SemEX b vb /\ v = select N vc va vb.
  Proof.
    intros (rho & Hr & ->). exists (eval N rho c), (eval N rho a), (eval N rho b).
    repeat split; try (exists rho; split; [|reflexivity]; intros y Hy; apply Hr; simpl;
      apply in_or_app; auto; right; apply in_or_app; auto).
  Qed.

  Lemma SemEX_num q i v : SemEX (ENum q i) v -> v = ofQ N q.
  Proof. intros (rho & _ & ->). reflexivity. Qed.

  Lemma SemEX_var_inv x v : SemEX (EVar x) v -> SemX x v.
  Proof. apply SemE_var. Qed.

  Lemma Q_eqb_syn_eq p q : Q_eqb_syn p q = true -> p = q.
  Proof.
    destruct p as [pn pd], q as [qn qd]. unfold Q_eqb_syn; simpl. intros H.
    apply andb_true_iff in H. destruct H as [H1 H2].
    apply Z.eqb_eq in H1. apply Pos.eqb_eq in H2. congruence.
  Qed.

  Lemma is_num_sem q e v : is_num q e = true -> SemEX e v -> v = ofQ N q.
  Proof.
    destruct e; simpl; try discriminate. intros H Hs. apply Q_eqb_syn_eq in H. subst q0.
    eapply SemEX_num; eauto.
  Qed.

  Hypothesis HF : FieldLaws.

  Lemma is_mul2_vars_sem a b e v va vb :
    is_mul2 (is_var a) (is_var b) e = true -> SemEX e v -> SemX a va -> SemX b vb ->
    v = mul N va vb.
  Proof.
    destruct e; simpl; try discriminate. intros H Hs Ha Hb.
    destruct (SemEX_mul _ _ _ Hs) as (v1 & v2 & H1 & H2 & ->).
    apply orb_true_iff in H. destruct H as [H|H]; apply andb_true_iff in H; destruct H as [P Q];
      apply is_var_eq in P; apply is_var_eq in Q; subst; apply SemE_var in H1; apply SemE_var in H2.
    - rewrite (Sem_fun N o' ss inp true _ _ H1 _ Ha), (Sem_fun N o' ss inp true _ _ H2 _ Hb). reflexivity.
    - rewrite (Sem_fun N o' ss inp true _ _ H1 _ Hb), (Sem_fun N o' ss inp true _ _ H2 _ Ha).
      apply (fl_mul_comm HF).
  Qed.

  Lemma is_expm1_sem g e v gv dtv :
    is_expm1 g e = true -> SemEX e v -> SemX g gv -> SemX "dt" dtv ->
    v = sub N (fn N Fexp (mul N gv dtv)) one.
  Proof.
    destruct e; simpl; try discriminate. destruct e1; try discriminate. destruct f; try discriminate.
    intros H Hs Hg Hdt. apply andb_true_iff in H. destruct H as [Hm Hn].
    destruct (SemEX_sub _ _ _ Hs) as (v1 & v2 & H1 & H2 & ->).
    destruct (SemEX_fn _ _ _ H1) as (vm & Hvm & ->).
    rewrite (is_mul2_vars_sem _ _ _ _ _ _ Hm Hvm Hg Hdt).
    rewrite (is_num_sem _ _ _ Hn H2). reflexivity.
  Qed.

  Lemma is_rl_term_sem n g e v fv gv dtv :
    is_rl_term n g e = true -> SemEX e v -> SemX n fv -> SemX g gv -> SemX "dt" dtv ->
    v = rl_value fv gv dtv.
  Proof.
    unfold rl_value. intros H Hs Hn Hg Hdt. destruct e; simpl in H; try discriminate.
    - (* EMul a b *)
      destruct (SemEX_mul _ _ _ Hs) as (v1 & v2 & H1 & H2 & ->).
      repeat (apply orb_true_iff in H; destruct H as [H|H]); apply andb_true_iff in H; destruct H as [P Q].
      + (* (n/g) * expm1 *)
        destruct e1; try discriminate. destruct e1_1; try discriminate. destruct e1_2; try discriminate.
        apply andb_true_iff in P. destruct P as [Pn Pg]. apply String.eqb_eq in Pn, Pg. subst.
        destruct (SemEX_div _ _ _ H1) as (a1 & a2 & A1 & A2 & ->).
        apply SemE_var in A1. apply SemE_var in A2.
        rewrite (Sem_fun N o' ss inp true _ _ A1 _ Hn), (Sem_fun N o' ss inp true _ _ A2 _ Hg).
        rewrite (is_expm1_sem _ _ _ _ _ Q H2 Hg Hdt). reflexivity.
      + (* expm1 * (n/g) *)
        destruct e2; try discriminate. destruct e2_1; try discriminate. destruct e2_2; try discriminate.
        apply andb_true_iff in Q. destruct Q as [Pn Pg]. apply String.eqb_eq in Pn, Pg. subst.
        destruct (SemEX_div _ _ _ H2) as (a1 & a2 & A1 & A2 & ->).
        apply SemE_var in A1. apply SemE_var in A2.
        rewrite (Sem_fun N o' ss inp true _ _ A1 _ Hn), (Sem_fun N o' ss inp true _ _ A2 _ Hg).
        rewrite (is_expm1_sem _ _ _ _ _ P H1 Hg Hdt). apply (fl_mul_comm HF).
      + (* n * (expm1/g) *)
        apply is_var_eq in P. subst e1. apply SemE_var in H1.
        rewrite (Sem_fun N o' ss inp true _ _ H1 _ Hn).
        destruct e2; try discriminate. destruct e2_2; try discriminate.
        apply andb_true_iff in Q. destruct Q as [Pg Pe]. apply String.eqb_eq in Pg. subst.
        destruct (SemEX_div _ _ _ H2) as (a1 & a2 & A1 & A2 & ->).
        apply SemE_var in A2. rewrite (Sem_fun N o' ss inp true _ _ A2 _ Hg).
        rewrite (is_expm1_sem _ _ _ _ _ Pe A1 Hg Hdt). apply (fl_mul_div_r HF).
      + (* (expm1/g) * n *)
        apply is_var_eq in Q. subst e2. apply SemE_var in H2.
        rewrite (Sem_fun N o' ss inp true _ _ H2 _ Hn).
        destruct e1; try discriminate. destruct e1_2; try discriminate.
        apply andb_true_iff in P. destruct P as [Pg Pe]. apply String.eqb_eq in Pg. subst.
        destruct (SemEX_div _ _ _ H1) as (a1 & a2 & A1 & A2 & ->).
        apply SemE_var in A2. rewrite (Sem_fun N o' ss inp true _ _ A2 _ Hg).
        rewrite (is_expm1_sem _ _ _ _ _ Pe A1 Hg Hdt).
        rewrite (fl_mul_comm HF). apply (fl_mul_div_r HF).
    - (* EDiv m (EVar g) *)
      destruct e2; try discriminate. apply andb_true_iff in H. destruct H as [Pg Pm].
      apply String.eqb_eq in Pg. subst.
      destruct (SemEX_div _ _ _ Hs) as (v1 & v2 & H1 & H2 & ->).
      apply SemE_var in H2. rewrite (Sem_fun N o' ss inp true _ _ H2 _ Hg).
      destruct e1; simpl in Pm; try discriminate.
      destruct (SemEX_mul _ _ _ H1) as (m1 & m2 & M1 & M2 & ->).
      apply orb_true_iff in Pm. destruct Pm as [Pm|Pm]; apply andb_true_iff in Pm; destruct Pm as [P Q].
      + apply is_var_eq in P. subst. apply SemE_var in M1.
        rewrite (Sem_fun N o' ss inp true _ _ M1 _ Hn).
        rewrite (is_expm1_sem _ _ _ _ _ Q M2 Hg Hdt). apply (fl_mul_div_l HF).
      + apply is_var_eq in Q. subst. apply SemE_var in M2.
        rewrite (Sem_fun N o' ss inp true _ _ M2 _ Hn).
        rewrite (is_expm1_sem _ _ _ _ _ P M1 Hg Hdt).
        rewrite (fl_mul_comm HF). apply (fl_mul_div_l HF).
  Qed.


  Lemma is_dt_mul_semX n e v dtv fv :
    is_dt_mul n e = true -> SemEX e v -> SemX "dt" dtv -> SemX n fv -> v = mul N dtv fv.
  Proof.
    intros H Hs Hdt Hf.
    apply (is_mul2_vars_sem "dt" n e v dtv fv); auto.
  Qed.

  Lemma is_add2_state_sem s (p : expr -> bool) e v sv :
    is_add2 (is_var s) p e = true -> SemEX e v -> SemX s sv ->
    exists e' v', p e' = true /\ SemEX e' v' /\ v = add N sv v'.
  Proof.
    destruct e; simpl; try discriminate. intros H Hs Hsv.
    destruct (SemEX_add _ _ _ Hs) as (v1 & v2 & H1 & H2 & ->).
    apply orb_true_iff in H. destruct H as [H|H]; apply andb_true_iff in H; destruct H as [P Q].
    - apply is_var_eq in P. subst. apply SemE_var in H1.
      rewrite (Sem_fun N o' ss inp true _ _ H1 _ Hsv). eauto.
    - apply is_var_eq in Q. subst. apply SemE_var in H2.
      rewrite (Sem_fun N o' ss inp true _ _ H2 _ Hsv). exists e1, v1. split; [exact P|].
      split; [exact H1|]. apply (fl_add_comm HF).
  Qed.

  Lemma is_rl_term_reads n g e : is_rl_term n g e = true -> In n (vars e) /\ In g (vars e).
  Proof.
    intros H. destruct e; simpl in H; try discriminate.
    - repeat (apply orb_true_iff in H; destruct H as [H|H]); apply andb_true_iff in H; destruct H as [P Q].
      + destruct e1; try discriminate. destruct e1_1; try discriminate. destruct e1_2; try discriminate.
        apply andb_true_iff in P. destruct P as [Pn Pg]. apply String.eqb_eq in Pn, Pg. subst.
        simpl. auto.
      + destruct e2; try discriminate. destruct e2_1; try discriminate. destruct e2_2; try discriminate.
        apply andb_true_iff in Q. destruct Q as [Pn Pg]. apply String.eqb_eq in Pn, Pg. subst.
        simpl. split; apply in_or_app; right; simpl; auto.
      + apply is_var_eq in P. subst. destruct e2; try discriminate. destruct e2_2; try discriminate.
        apply andb_true_iff in Q. destruct Q as [Pg _]. apply String.eqb_eq in Pg. subst.
        simpl. split; [auto|]. right. apply in_or_app. right. simpl; auto.
      + apply is_var_eq in Q. subst. destruct e1; try discriminate. destruct e1_2; try discriminate.
        apply andb_true_iff in P. destruct P as [Pg _]. apply String.eqb_eq in Pg. subst.
        simpl. split; apply in_or_app; [right; simpl; auto|left; apply in_or_app; right; simpl; auto].
    - destruct e2; try discriminate. apply andb_true_iff in H. destruct H as [Pg Pm].
      apply String.eqb_eq in Pg. subst. simpl. split; [|apply in_or_app; right; simpl; auto].
      apply in_or_app. left. destruct e1; simpl in Pm; try discriminate.
      apply orb_true_iff in Pm. destruct Pm as [Pm|Pm]; apply andb_true_iff in Pm; destruct Pm as [P Q].
      + apply is_var_eq in P. subst. simpl. auto.
      + apply is_var_eq in Q. subst. simpl. apply in_or_app. right. simpl; auto.
  Qed.

  Lemma SemEX_or a b v : SemEX (EOr a b) v ->
    exists va vb, SemEX a va /\ SemEX b vb /\ v = bor N va vb.
  Proof. apply (SemEX_bin EOr (bor N)); [reflexivity|]. intros y H; simpl; apply in_or_app; exact H. Qed.

  Lemma SemEX_neg a v : SemEX (ENeg a) v -> exists va, SemEX a va /\ v = neg N va.
  Proof.
    intros (rho & Hr & ->). exists (eval N rho a). split; [|reflexivity].
    exists rho. split; [|reflexivity]. exact Hr.
  Qed.

  Lemma is_gt_delta_sem g delta c v gv :
    is_gt_delta g delta c = true -> SemEX c v -> SemX g gv -> v = rel N Rgt gv (ofQ N delta).
  Proof.
    destruct c; simpl; try discriminate. destruct r; try discriminate. destruct c1; try discriminate.
    intros H Hs Hg. apply andb_true_iff in H. destruct H as [P Q]. apply String.eqb_eq in P. subst.
    destruct (SemEX_rel _ _ _ _ Hs) as (w1 & w2 & C1 & C2 & ->). apply SemE_var in C1.
    rewrite (Sem_fun N o' ss inp true _ _ C1 _ Hg), (is_num_sem _ _ _ Q C2). reflexivity.
  Qed.

  Lemma is_lt_mdelta_sem g delta c v gv :
    is_lt_mdelta g delta c = true -> SemEX c v -> SemX g gv -> v = rel N Rlt gv (neg N (ofQ N delta)).
  Proof.
    destruct c; simpl; try discriminate. destruct r; try discriminate. destruct c1; try discriminate.
    destruct c2; try discriminate.
    - intros H Hs Hg. apply andb_true_iff in H. destruct H as [H Qd]. apply andb_true_iff in H.
      destruct H as [P Qz]. apply String.eqb_eq in P. subst.
      apply Q_eqb_syn_eq in Qz. apply Q_eqb_syn_eq in Qd. subst.
      destruct (SemEX_rel _ _ _ _ Hs) as (w1 & w3 & C1 & C2 & ->). apply SemE_var in C1.
      rewrite (Sem_fun N o' ss inp true _ _ C1 _ Hg), (SemEX_num _ _ _ C2), (fl_neg_zero HF). reflexivity.
    - intros H Hs Hg. apply andb_true_iff in H. destruct H as [P Q]. apply String.eqb_eq in P. subst.
      destruct (SemEX_rel _ _ _ _ Hs) as (w1 & w3 & C1 & C2 & ->). apply SemE_var in C1.
      destruct (SemEX_neg _ _ C2) as (w4 & C4 & ->).
      rewrite (Sem_fun N o' ss inp true _ _ C1 _ Hg), (is_num_sem _ _ _ Q C4). reflexivity.
  Qed.

  Lemma is_guard_sem g delta c v gv :
    is_guard g delta c = true -> SemEX c v -> SemX g gv ->
    v = rel N Rgt (fn N Fabs gv) (ofQ N delta).
  Proof.
    intros H Hs Hg. destruct c; simpl in H; try discriminate.
    - destruct r; try discriminate. destruct c1; try discriminate. destruct f; try discriminate.
      destruct c1; try discriminate.
      apply andb_true_iff in H. destruct H as [P Q]. apply String.eqb_eq in P. subst.
      destruct (SemEX_rel _ _ _ _ Hs) as (w1 & w3 & C1 & C2 & ->).
      destruct (SemEX_fn _ _ _ C1) as (w4 & C4 & ->). apply SemE_var in C4.
      rewrite (Sem_fun N o' ss inp true _ _ C4 _ Hg), (is_num_sem _ _ _ Q C2). reflexivity.
    - destruct (SemEX_or _ _ _ Hs) as (va & vb & A & B & ->).
      apply orb_true_iff in H. destruct H as [H|H]; apply andb_true_iff in H; destruct H as [P Q].
      + rewrite (is_gt_delta_sem _ _ _ _ _ P A Hg), (is_lt_mdelta_sem _ _ _ _ _ Q B Hg).
        apply (fl_abs_gt HF).
      + rewrite (is_lt_mdelta_sem _ _ _ _ _ P A Hg), (is_gt_delta_sem _ _ _ _ _ Q B Hg).
        rewrite (fl_bor_comm HF). apply (fl_abs_gt HF).
  Qed.

  (* the value of an accepted slot update *)
  Lemma is_update_sem md delta s e v sv dtv :
    is_update md delta s e = true -> SemEX e v ->
    SemX s sv -> SemX "dt" dtv ->
    exists fv gv,
      SemX (deriv_name_of s) fv
      /\ (md = MEuler \/ SemX (lin_name (deriv_name_of s)) gv)
      /\ v = slot_value md delta sv fv gv dtv.
  Proof.
    intros H Hs Hsv Hdt. destruct md; simpl in H.
    - (* Euler *)
      assert (Hr : In (deriv_name_of s) (vars e)) by (apply is_euler_reads; exact H).
      destruct Hs as (rho & Hrho & ->).
      exists (rho (deriv_name_of s)), (rho (deriv_name_of s)).
      split; [apply Hrho; exact Hr|]. split; [left; reflexivity|].
      simpl. apply (is_euler_sem N o' ss inp true s e _ sv dtv (rho (deriv_name_of s))).
      + constructor; [apply (fl_add_comm HF)|apply (fl_mul_comm HF)].
      + exact H.
      + exists rho. split; [exact Hrho|reflexivity].
      + exact Hsv.
      + exact Hdt.
      + apply Hrho. exact Hr.
    - (* guarded *)
      destruct (is_add2_state_sem _ _ _ _ _ H Hs Hsv) as (e' & v' & Hp & Hs' & ->).
      destruct e'; simpl in Hp; try discriminate.
      apply andb_true_iff in Hp. destruct Hp as [Hp Hb]. apply andb_true_iff in Hp. destruct Hp as [Hc Ha].
      destruct (SemEX_cond _ _ _ _ Hs') as (vc & va & vb & Sc & Sa & Sb & ->).
      destruct (is_rl_term_reads _ _ _ Ha) as [Rn Rg].
      destruct Sa as (rho & Hrho & Eva).
      pose proof (Hrho _ Rn) as Hfn. pose proof (Hrho _ Rg) as Hgn.
      exists (rho (deriv_name_of s)), (rho (lin_name (deriv_name_of s))).
      split; [exact Hfn|]. split; [right; exact Hgn|].
      simpl. f_equal.
      assert (Sa : SemEX e'2 va) by (exists rho; split; [exact Hrho|exact Eva]).
      rewrite (is_rl_term_sem _ _ _ _ _ _ _ Ha Sa Hfn Hgn Hdt).
      rewrite (is_dt_mul_semX _ _ _ _ _ Hb Sb Hdt Hfn).
      f_equal.
      (* the guard *)
      apply (is_guard_sem _ _ _ _ _ Hc Sc Hgn).
    - (* plain *)
      destruct (is_add2_state_sem _ _ _ _ _ H Hs Hsv) as (e' & v' & Hp & Hs' & ->).
      destruct (is_rl_term_reads _ _ _ Hp) as [Rn Rg].
      destruct Hs' as (rho & Hrho & Eva).
      pose proof (Hrho _ Rn) as Hfn. pose proof (Hrho _ Rg) as Hgn.
      exists (rho (deriv_name_of s)), (rho (lin_name (deriv_name_of s))).
      split; [exact Hfn|]. split; [right; exact Hgn|].
      simpl. f_equal.
      assert (Sa : SemEX e' v') by (exists rho; split; [exact Hrho|exact Eva]).
      apply (is_rl_term_sem _ _ _ _ _ _ _ Hp Sa Hfn Hgn Hdt).
  Qed.

  (* C06 / C07: a validated scheme program runs to completion and slot state_index(s) holds the
     prescribed update of s: generalized Rush-Larsen in the mode of s for a stiff s, explicit Euler
     otherwise *)
  Theorem scheme_sound modes stiff delta f :
    sizes_ok o' ss inp -> reserved_free o' inp true = true ->
    states_clean o' ss inp true = true -> NoDup ss ->
    valid_scheme modes stiff delta f = true ->
    exists out,
      exec N f true inp = Some out
      /\ length out = length ss
      /\ forall i s, nth_error ss i = Some s ->
           exists sv fv gv,
             nth_error (in_states inp) i = Some sv
             /\ SemX (deriv_name_of s) fv
             /\ (slot_mode modes stiff i s = MEuler \/ SemX (lin_name (deriv_name_of s)) gv)
             /\ nth_error out i = Some (slot_value (slot_mode modes stiff i s) delta sv fv gv (in_dt inp)).
  Proof.
    intros Hsz Hrf Hcl Hnd Hv. unfold valid_scheme in Hv.
    apply andb_true_iff in Hv. destruct Hv as [Hn Hv]. apply Nat.eqb_eq in Hn.
    destruct (fun_sound N o' ss inp true f _ Hsz Hrf Hv) as (out & Hex & Hlen & Hsl).
    exists out. split; [exact Hex|]. split; [congruence|].
    intros i s Hs. assert (Hi : i < f_nret f).
    { rewrite Hn. apply nth_error_Some. congruence. }
    destruct (Hsl i Hi) as (e & v & Hok & Hse & Hnth).
    unfold ok_scheme in Hok. rewrite Hs in Hok. apply andb_true_iff in Hok. destruct Hok as [Hok _].
    destruct Hsz as (Hs1 & Hs2).
    assert (Hlt : i < length (in_states inp)).
    { rewrite Hs1. apply nth_error_Some. congruence. }
    destruct (nth_error (in_states inp) i) as [sv|] eqn:Esv;
      [|apply nth_error_None in Esv; lia].
    pose proof (Sem_state N o' ss inp true i s sv Hcl Hnd Hs Esv) as Hsem_s.
    pose proof (Sem_dt N o' ss inp true eq_refl Hrf) as Hsem_dt.
    destruct (is_update_sem _ _ _ _ _ _ _ Hok Hse Hsem_s Hsem_dt) as (fv & gv & Hf & Hg & ->).
    exists sv, fv, gv. auto.
  Qed.

End SchemeSound.

(* ---------- C07: the hybrid scheme is slot-wise the generalized scheme on the stiff states and
   explicit Euler on the others ---------- *)
Section Hybrid.
  Context {T : Type} (N : NumOps T) (o : ode).
  Variable ss : list string.
  Variable inp : inputs T.
  Hypothesis HF : FieldLaws N.

  Definition all_stiff (_ : string) := true.
  Definition none_stiff (_ : string) := false.

  Theorem hybrid_slotwise modes stiff delta fh fg fe :
    sizes_ok (extend_lin o) ss inp -> reserved_free (extend_lin o) inp true = true ->
    states_clean (extend_lin o) ss inp true = true -> NoDup ss ->
    valid_scheme o ss inp modes stiff delta fh = true ->
    valid_scheme o ss inp modes all_stiff delta fg = true ->
    valid_scheme o ss inp modes none_stiff delta fe = true ->
    exists oh og oe,
      exec N fh true inp = Some oh /\ exec N fg true inp = Some og /\ exec N fe true inp = Some oe
      /\ length oh = length ss /\ length og = length ss /\ length oe = length ss
      /\ forall i s, nth_error ss i = Some s ->
           nth_error oh i = if stiff s then nth_error og i else nth_error oe i.
  Proof.
    intros Hsz Hrf Hcl Hnd Hh Hg He.
    destruct (scheme_sound N o ss inp HF modes stiff delta fh Hsz Hrf Hcl Hnd Hh) as (oh & Eh & Lh & Sh).
    destruct (scheme_sound N o ss inp HF modes all_stiff delta fg Hsz Hrf Hcl Hnd Hg) as (og & Eg & Lg & Sg).
    destruct (scheme_sound N o ss inp HF modes none_stiff delta fe Hsz Hrf Hcl Hnd He) as (oe & Ee & Le & Se).
    exists oh, og, oe. repeat split; auto.
    intros i s Hs.
    destruct (Sh i s Hs) as (sv & fv & gv & Hsv & Hf & Hgm & Hoh).
    destruct (Sg i s Hs) as (sv1 & fv1 & gv1 & Hsv1 & Hf1 & Hgm1 & Hog).
    destruct (Se i s Hs) as (sv2 & fv2 & gv2 & Hsv2 & Hf2 & Hgm2 & Hoe).
    assert (sv1 = sv) by congruence. assert (sv2 = sv) by congruence. subst sv1 sv2.
    pose proof (Sem_fun N _ ss inp true _ _ Hf1 _ Hf). pose proof (Sem_fun N _ ss inp true _ _ Hf2 _ Hf).
    subst fv1 fv2.
    rewrite Hoh, Hog, Hoe. unfold slot_mode, all_stiff, none_stiff in *.
    destruct (stiff s).
    - f_equal. destruct (nth i modes MEuler) eqn:Em; simpl; try reflexivity.
      + destruct Hgm as [Hgm|Hgm]; [discriminate|]. destruct Hgm1 as [Hgm1|Hgm1]; [discriminate|].
        rewrite (Sem_fun N _ ss inp true _ _ Hgm1 _ Hgm). reflexivity.
      + destruct Hgm as [Hgm|Hgm]; [discriminate|]. destruct Hgm1 as [Hgm1|Hgm1]; [discriminate|].
        rewrite (Sem_fun N _ ss inp true _ _ Hgm1 _ Hgm). reflexivity.
    - reflexivity.
  Qed.

  (* with no stiff state the hybrid scheme is explicit Euler, with every state stiff it is the
     generalized scheme; names that are not states do not matter ([stiff] is only ever applied to
     states) *)
  Corollary hybrid_depends_on_states_only modes stiff stiff' delta f :
    (forall s, In s ss -> stiff s = stiff' s) ->
    valid_scheme o ss inp modes stiff delta f = valid_scheme o ss inp modes stiff' delta f.
  Proof.
    intros H. unfold valid_scheme. f_equal. unfold valid_fun. f_equal.
    unfold slots_ok. induction (seq 0 (f_nret f)) as [|i l IH]; simpl; [reflexivity|].
    rewrite IH. f_equal.
    destruct (stores_at i (f_body f)) as [|e [|e2 l']]; try reflexivity.
    unfold ok_scheme. destruct (nth_error ss i) as [s|] eqn:E; [|reflexivity].
    unfold slot_mode. rewrite (H s (nth_error_In _ _ E)). reflexivity.
  Qed.
End Hybrid.
