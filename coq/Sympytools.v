(* Sympytools.v — mirror of sympytools.rhs_matrix / states_matrix / jacobi_matrix:
     expanded = {}
     for x in sorted_assignments: expanded[x] = x.expr.xreplace(expanded)   (intermediates and state derivatives)
     rhs = [d.expr for d in sorted_state_derivatives]
     while any(rhs.has(k) for k in expanded) and tries < max_tries: rhs = rhs.xreplace(expanded)
     if tries == max_tries: raise
   (xreplace substitutes all definitions simultaneously, once per round; the expansion of the
   definitions in dependency order is the repaired behaviour, fix for C20; state derivatives are definitions
   too because an intermediate may read one - second fix for C20), and the Jacobian as the
   symbolic derivative D of every entry with respect to every state. *)
From GX Require Import Base Expr Topo Ode Target Sem Schemes.
Open Scope string_scope.
Open Scope list_scope.

Definition inter_subst (o : ode) (x : string) : option expr :=
  match find_assign o x with
  | Some a => Some (a_expr a)
  | None => None
  end.

(* a name with a definition: intermediate or state derivative *)
Definition is_assigned (o : ode) (x : string) : bool := mem x (map a_name (assigns o)).
Definition mentions_assigned (o : ode) (e : expr) : bool := existsb (is_assigned o) (vars e).

(* the dictionary of expanded intermediates, built in the order of sorted_assignments *)
Definition expand_step (o : ode) (acc : list (string * expr)) (n : string) : list (string * expr) :=
  match find_assign o n with
  | Some a => acc ++ [(n, subst (fun y => lookup y acc) (a_expr a))]
  | None => acc
  end.
Definition expanded (o : ode) (ord : list string) : list (string * expr) :=
  fold_left (expand_step o) ord [].
Definition exp_subst (o : ode) (ord : list string) (x : string) : option expr :=
  lookup x (expanded o ord).

Fixpoint rhs_loop (fuel : nat) (o : ode) (sb : string -> option expr) (es : list expr) (tries : nat)
  : list expr * nat :=
  match fuel with
  | O => (es, tries)
  | S f => if existsb (mentions_assigned o) es
           then rhs_loop f o sb (map (subst sb) es) (S tries)
           else (es, tries)
  end.

Definition rhs_init (o : ode) (ord : list string) : list expr :=
  map (fun n => match find_assign o n with Some a => a_expr a | None => e_zero end)
      (filter (is_deriv_name o) ord).

(* None = RuntimeError("Maximum number of tries used") *)
Definition rhs_matrix (o : ode) (max_tries : nat) : option (list expr) :=
  match sorted_names o false with
  | Some ord =>
      let '(es, n) := rhs_loop max_tries o (exp_subst o ord) (rhs_init o ord) 0 in
      if Nat.eqb n max_tries then None else Some es
  | None => None
  end.

(* the repaired default: number of definitions + 1 rounds *)
Definition default_tries (o : ode) : nat := S (length (assigns o)).

Definition jacobian (o : ode) (max_tries : nat) : option (list (list expr)) :=
  match rhs_matrix o max_tries, sorted_states o with
  | Some es, Some ss => Some (map (fun e => map (fun s => D s e) ss) es)
  | _, _ => None
  end.

(* ---------- substitution rounds preserve the meaning ---------- *)
Section Meaning.
  Context {T : Type} (N : NumOps T) (o : ode).
  Variable rho : string -> T.
  (* rho gives every assigned name the value of its defining expression (the documented meaning) *)
  Hypothesis consistent : forall x a, find_assign o x = Some a -> rho x = eval N rho (a_expr a).

  (* a substitution whose entries have the value of the name they replace *)
  Definition sound_subst (sb : string -> option expr) : Prop :=
    forall x e, sb x = Some e -> rho x = eval N rho e.

  Lemma subst_round_preserves sb e : sound_subst sb -> eval N rho (subst sb e) = eval N rho e.
  Proof.
    intros H. rewrite eval_subst. apply eval_ext. intros x _.
    destruct (sb x) as [e'|] eqn:E; [|reflexivity]. symmetry. apply H. exact E.
  Qed.

  Lemma inter_subst_sound : sound_subst (inter_subst o).
  Proof.
    intros x e H. unfold inter_subst in H.
    destruct (find_assign o x) as [a|] eqn:E; [|discriminate].
    injection H as <-. apply consistent. exact E.
  Qed.

  Lemma expanded_sound ord : sound_subst (exp_subst o ord).
  Proof.
    unfold exp_subst, expanded.
    assert (G : forall acc, sound_subst (fun x => lookup x acc) ->
                            sound_subst (fun x => lookup x (fold_left (expand_step o) ord acc))).
    { induction ord as [|n ord IH]; intros acc Hacc; [exact Hacc|]. simpl. apply IH.
      unfold expand_step.
      destruct (find_assign o n) as [a|] eqn:E; [|exact Hacc].
      intros x e Hl. rewrite lookup_app in Hl. destruct (lookup x acc) as [e0|] eqn:E0.
      - injection Hl as <-. apply Hacc. exact E0.
      - simpl in Hl. destruct (String.eqb_spec x n) as [->|]; [|discriminate]. injection Hl as <-.
        rewrite (subst_round_preserves _ _ Hacc). apply consistent. exact E. }
    apply G. intros x e H. discriminate.
  Qed.

  Lemma rhs_loop_preserves sb fuel : sound_subst sb -> forall es tries,
    map (eval N rho) (fst (rhs_loop fuel o sb es tries)) = map (eval N rho) es.
  Proof.
    intros Hsb. induction fuel as [|f IH]; intros es tries; simpl; [reflexivity|].
    destruct (existsb (mentions_assigned o) es); [|reflexivity].
    rewrite IH, map_map. apply map_ext. intros e. apply subst_round_preserves. exact Hsb.
  Qed.

  (* every entry of the symbolic right-hand side has the value of the derivative's own expression *)
  Theorem rhs_matrix_meaning max_tries es ord :
    sorted_names o false = Some ord ->
    rhs_matrix o max_tries = Some es ->
    map (eval N rho) es = map (eval N rho) (rhs_init o ord).
  Proof.
    unfold rhs_matrix. intros -> H.
    destruct (rhs_loop max_tries o (exp_subst o ord) (rhs_init o ord) 0) as [es' n] eqn:E.
    destruct (Nat.eqb n max_tries); [discriminate|]. injection H as <-.
    pose proof (rhs_loop_preserves (exp_subst o ord) max_tries (expanded_sound ord) (rhs_init o ord) 0) as P.
    rewrite E in P. exact P.
  Qed.
End Meaning.

(* when the loop stops before the bound, no defined name is left: every intermediate and derivative is expanded *)
Lemma rhs_loop_tries fuel o sb : forall es tries, tries <= snd (rhs_loop fuel o sb es tries) <= tries + fuel.
Proof.
  induction fuel as [|f IH]; intros es tries; simpl; [lia|].
  destruct (existsb (mentions_assigned o) es); simpl; [|lia].
  specialize (IH (map (subst sb) es) (S tries)). lia.
Qed.

Lemma rhs_loop_done fuel o sb : forall es tries,
  snd (rhs_loop fuel o sb es tries) < tries + fuel ->
  existsb (mentions_assigned o) (fst (rhs_loop fuel o sb es tries)) = false.
Proof.
  induction fuel as [|f IH]; intros es tries H; simpl in *; [lia|].
  destruct (existsb (mentions_assigned o) es) eqn:E; simpl in *; [|exact E].
  apply IH. lia.
Qed.

Theorem rhs_matrix_fully_expanded o max_tries es :
  rhs_matrix o max_tries = Some es -> existsb (mentions_assigned o) es = false.
Proof.
  unfold rhs_matrix. destruct (sorted_names o false) as [ord|]; [|discriminate].
  destruct (rhs_loop max_tries o (exp_subst o ord) (rhs_init o ord) 0) as [es' n] eqn:E.
  destruct (Nat.eqb_spec n max_tries) as [|Hne]; [discriminate|]. intros [= <-].
  pose proof (rhs_loop_done max_tries o (exp_subst o ord) (rhs_init o ord) 0) as P.
  pose proof (rhs_loop_tries max_tries o (exp_subst o ord) (rhs_init o ord) 0) as Q.
  rewrite E in P, Q. simpl in *. apply P. lia.
Qed.
