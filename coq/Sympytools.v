(* Sympytools.v — mirror of sympytools.rhs_matrix / states_matrix / jacobi_matrix:
     rhs = [d.expr for d in sorted_state_derivatives]
     while any(rhs.has(k) for k in intermediates) and tries < max_tries: rhs = rhs.xreplace(intermediates)
     if tries == max_tries: raise
   (xreplace substitutes all intermediates simultaneously, once per round), and the Jacobian as the
   symbolic derivative D of every entry with respect to every state. *)
From GX Require Import Base Expr Topo Ode Target Sem Schemes.
Open Scope string_scope.
Open Scope list_scope.

Definition inter_subst (o : ode) (x : string) : option expr :=
  match find (fun a => String.eqb (a_name a) x) (o_inters o) with
  | Some a => Some (a_expr a)
  | None => None
  end.

Definition mentions_inter (o : ode) (e : expr) : bool := existsb (is_inter_name o) (vars e).

Fixpoint rhs_loop (fuel : nat) (o : ode) (es : list expr) (tries : nat) : list expr * nat :=
  match fuel with
  | O => (es, tries)
  | S f => if existsb (mentions_inter o) es
           then rhs_loop f o (map (subst (inter_subst o)) es) (S tries)
           else (es, tries)
  end.

Definition rhs_init (o : ode) (ord : list string) : list expr :=
  map (fun n => match find_assign o n with Some a => a_expr a | None => e_zero end)
      (filter (is_deriv_name o) ord).

(* None = RuntimeError("Maximum number of tries used") *)
Definition rhs_matrix (o : ode) (max_tries : nat) : option (list expr) :=
  match sorted_names o false with
  | Some ord =>
      let '(es, n) := rhs_loop max_tries o (rhs_init o ord) 0 in
      if Nat.eqb n max_tries then None else Some es
  | None => None
  end.

(* the repaired default: number of intermediates + 1 rounds *)
Definition default_tries (o : ode) : nat := S (length (o_inters o)).

Definition jacobian (o : ode) (max_tries : nat) : option (list (list expr)) :=
  match rhs_matrix o max_tries, sorted_states o with
  | Some es, Some ss => Some (map (fun e => map (fun s => D s e) ss) es)
  | _, _ => None
  end.

(* ---------- substitution rounds preserve the meaning ---------- *)
Section Meaning.
  Context {T : Type} (N : NumOps T) (o : ode).
  Variable rho : string -> T.
  (* rho gives every assigned name the value of its defining expression (the documented meaning) *)
  Hypothesis consistent : forall x a, find (fun a => String.eqb (a_name a) x) (o_inters o) = Some a ->
                                       rho x = eval N rho (a_expr a).

  Lemma subst_round_preserves e : eval N rho (subst (inter_subst o) e) = eval N rho e.
  Proof.
    rewrite eval_subst. apply eval_ext. intros x _. unfold inter_subst.
    destruct (find (fun a => String.eqb (a_name a) x) (o_inters o)) as [a|] eqn:E; [|reflexivity].
    symmetry. apply consistent. exact E.
  Qed.

  Lemma rhs_loop_preserves fuel : forall es tries,
    map (eval N rho) (fst (rhs_loop fuel o es tries)) = map (eval N rho) es.
  Proof.
    induction fuel as [|f IH]; intros es tries; simpl; [reflexivity|].
    destruct (existsb (mentions_inter o) es); [|reflexivity].
    rewrite IH, map_map. apply map_ext. apply subst_round_preserves.
  Qed.

  (* every entry of the symbolic right-hand side has the value of the derivative's own expression *)
  Theorem rhs_matrix_meaning max_tries es ord :
    sorted_names o false = Some ord ->
    rhs_matrix o max_tries = Some es ->
    map (eval N rho) es = map (eval N rho) (rhs_init o ord).
  Proof.
    unfold rhs_matrix. intros -> H.
    destruct (rhs_loop max_tries o (rhs_init o ord) 0) as [es' n] eqn:E.
    destruct (Nat.eqb n max_tries); [discriminate|]. injection H as <-.
    pose proof (rhs_loop_preserves max_tries (rhs_init o ord) 0) as P. rewrite E in P. exact P.
  Qed.
End Meaning.

(* when the loop stops before the bound, no intermediate is left: every intermediate is expanded *)
Lemma rhs_loop_tries fuel o : forall es tries, tries <= snd (rhs_loop fuel o es tries) <= tries + fuel.
Proof.
  induction fuel as [|f IH]; intros es tries; simpl; [lia|].
  destruct (existsb (mentions_inter o) es); simpl; [|lia].
  specialize (IH (map (subst (inter_subst o)) es) (S tries)). lia.
Qed.

Lemma rhs_loop_done fuel o : forall es tries,
  snd (rhs_loop fuel o es tries) < tries + fuel ->
  existsb (mentions_inter o) (fst (rhs_loop fuel o es tries)) = false.
Proof.
  induction fuel as [|f IH]; intros es tries H; simpl in *; [lia|].
  destruct (existsb (mentions_inter o) es) eqn:E; simpl in *; [|exact E].
  apply IH. lia.
Qed.

Theorem rhs_matrix_fully_expanded o max_tries es :
  rhs_matrix o max_tries = Some es -> existsb (mentions_inter o) es = false.
Proof.
  unfold rhs_matrix. destruct (sorted_names o false) as [ord|]; [|discriminate].
  destruct (rhs_loop max_tries o (rhs_init o ord) 0) as [es' n] eqn:E.
  destruct (Nat.eqb_spec n max_tries) as [|Hne]; [discriminate|]. intros [= <-].
  pose proof (rhs_loop_done max_tries o (rhs_init o ord) 0) as P.
  pose proof (rhs_loop_tries max_tries o (rhs_init o ord) 0) as Q.
  rewrite E in P, Q. simpl in *. apply P. lia.
Qed.
