
type __ = Obj.t

val negb : bool -> bool

type nat =
| O
| S of nat

val fst : ('a1 * 'a2) -> 'a1

val snd : ('a1 * 'a2) -> 'a2

val length : 'a1 list -> nat

val app : 'a1 list -> 'a1 list -> 'a1 list

type comparison =
| Eq
| Lt
| Gt

val add : nat -> nat -> nat

val sub : nat -> nat -> nat

val eqb : bool -> bool -> bool

module type TotalLeBool' =
 sig
  type t

  val leb : t -> t -> bool
 end

module Nat :
 sig
  val eqb : nat -> nat -> bool

  val leb : nat -> nat -> bool

  val ltb : nat -> nat -> bool
 end

type positive =
| XI of positive
| XO of positive
| XH

type n =
| N0
| Npos of positive

type z =
| Z0
| Zpos of positive
| Zneg of positive

module Pos :
 sig
  val succ : positive -> positive

  val add : positive -> positive -> positive

  val add_carry : positive -> positive -> positive

  val pred_double : positive -> positive

  val mul : positive -> positive -> positive

  val compare_cont : comparison -> positive -> positive -> comparison

  val compare : positive -> positive -> comparison

  val eqb : positive -> positive -> bool

  val of_succ_nat : nat -> positive
 end

module N :
 sig
  val add : n -> n -> n

  val mul : n -> n -> n

  val compare : n -> n -> comparison
 end

val nth_error : 'a1 list -> nat -> 'a1 option

val map : ('a1 -> 'a2) -> 'a1 list -> 'a2 list

val flat_map : ('a1 -> 'a2 list) -> 'a1 list -> 'a2 list

val fold_left : ('a1 -> 'a2 -> 'a1) -> 'a2 list -> 'a1 -> 'a1

val existsb : ('a1 -> bool) -> 'a1 list -> bool

val forallb : ('a1 -> bool) -> 'a1 list -> bool

val filter : ('a1 -> bool) -> 'a1 list -> 'a1 list

val find : ('a1 -> bool) -> 'a1 list -> 'a1 option

val seq : nat -> nat -> nat list

module Z :
 sig
  val double : z -> z

  val succ_double : z -> z

  val pred_double : z -> z

  val pos_sub : positive -> positive -> z

  val add : z -> z -> z

  val opp : z -> z

  val sub : z -> z -> z

  val eqb : z -> z -> bool

  val of_nat : nat -> z
 end

type ascii =
| Ascii of bool * bool * bool * bool * bool * bool * bool * bool

val eqb0 : ascii -> ascii -> bool

val n_of_digits : bool list -> n

val n_of_ascii : ascii -> n

val compare0 : ascii -> ascii -> comparison

type string =
| EmptyString
| String of ascii * string

val eqb1 : string -> string -> bool

val compare1 : string -> string -> comparison

val leb0 : string -> string -> bool

val append : string -> string -> string

val length0 : string -> nat

val substring : nat -> nat -> string -> string

type q = { qnum : z; qden : positive }

val inject_Z : z -> q

module Sort :
 functor (X:TotalLeBool') ->
 sig
  val merge : X.t list -> X.t list -> X.t list

  val merge_list_to_stack :
    X.t list option list -> X.t list -> X.t list option list

  val merge_stack : X.t list option list -> X.t list

  val iter_merge : X.t list option list -> X.t list -> X.t list

  val sort : X.t list -> X.t list

  val flatten_stack : X.t list option list -> X.t list
 end

val mem : string -> string list -> bool

val lookup : string -> (string * 'a1) list -> 'a1 option

val keys : (string * 'a1) list -> string list

val index_of : string -> string list -> nat option

module StringOrder :
 sig
  type t = string

  val leb : string -> string -> bool
 end

module StringSort :
 sig
  val merge : string list -> string list -> string list

  val merge_list_to_stack :
    string list option list -> string list -> string list option list

  val merge_stack : string list option list -> string list

  val iter_merge : string list option list -> string list -> string list

  val sort : string list -> string list

  val flatten_stack : string list option list -> string list
 end

val sort_names : string list -> string list

val dedup : string list -> string list

val enum_from : nat -> 'a1 list -> (nat * 'a1) list

val enumerate : 'a1 list -> (nat * 'a1) list

type fn1 =
| Fexp
| Fcos
| Fsin
| Ftan
| Facos
| Fasin
| Fatan
| Flog
| Fsqrt
| Fabs
| Ffloor

type relop =
| Rlt
| Rgt
| Rle
| Rge
| Req
| Rne

type expr =
| ENum of q * bool
| EVar of string
| EPi
| EAdd of expr * expr
| ESub of expr * expr
| EMul of expr * expr
| EDiv of expr * expr
| EPow of expr * expr
| ENeg of expr
| EFn of fn1 * expr
| EMod of expr * expr
| ERel of relop * expr * expr
| ENot of expr
| EAnd of expr * expr
| EOr of expr * expr
| ECond of expr * expr * expr

val vars : expr -> string list

type 't numOps = { ofQ : (q -> 't); cpi : 't; add0 : ('t -> 't -> 't);
                   sub0 : ('t -> 't -> 't); mul0 : ('t -> 't -> 't);
                   div : ('t -> 't -> 't); pow : ('t -> 't -> 't);
                   neg : ('t -> 't); fn : (fn1 -> 't -> 't);
                   fmod : ('t -> 't -> 't); rel : (relop -> 't -> 't -> 't);
                   bnot : ('t -> 't); band : ('t -> 't -> 't);
                   bor : ('t -> 't -> 't); select : ('t -> 't -> 't -> 't) }

val eval : 'a1 numOps -> (string -> 'a1) -> expr -> 'a1

val e_int : z -> expr

val e_zero : expr

val fn1_eqb : fn1 -> fn1 -> bool

val relop_eqb : relop -> relop -> bool

val q_eqb_syn : q -> q -> bool

val expr_eqb : expr -> expr -> bool

type ninfo = { npred : z; succs : string list }

type graph = (string * ninfo) list

val g_update : graph -> string -> (ninfo -> ninfo) -> graph

val g_touch : graph -> string -> graph

val g_add : graph -> string -> string list -> graph

val done_succ : (graph * string list) -> string -> graph * string list

val done_one : (graph * string list) -> string -> graph * string list

val done_all : graph -> string list -> graph * string list

val kahn : nat -> graph -> string list -> string list -> string list option

val ready0 : graph -> string list

val static_order : graph -> string list option

val topo_ok_aux :
  (string -> string list) -> string list -> string list -> string list -> bool

val is_topological :
  (string -> string list) -> string list -> string list -> bool

type decl = { d_name : string; d_value : expr; d_comps : string list;
              d_unit : string option; d_desc : string option }

type assign = { a_name : string; a_expr : expr; a_comps : string list;
                a_unit : string option; a_comment : string option }

type ode = { o_states : decl list; o_params : decl list;
             o_inters : assign list; o_derivs : assign list }

val suffix_dt : string -> bool

val deriv_state : string -> string option

val deriv_name_of : string -> string

val assigns : ode -> assign list

val find_assign : ode -> string -> assign option

val find_decl : decl list -> string -> decl option

val state_names : ode -> string list

val param_names : ode -> string list

val inter_names : ode -> string list

val deriv_names : ode -> string list

val is_deriv_name : ode -> string -> bool

val is_inter_name : ode -> string -> bool

val adeps : assign -> string list

val deps_of : ode -> string -> string list

val used : ode -> string -> bool

val build_graph : ode -> string list -> graph

val all_assign_names : ode -> string list

val sorted_names : ode -> bool -> string list option

val sorted_states : ode -> string list option

val known_symbol : ode -> string -> bool

val missing_names : ode -> string list

type stmt =
| SUnpackS of string * nat
| SUnpackP of string * nat
| SUnpackM of string * nat
| SLet of string * expr
| SStore of nat * expr

type func = { f_name : string; f_args : string list; f_nret : nat;
              f_body : stmt list }

type 't inputs = { in_t : 't; in_dt : 't; in_states : 't list;
                   in_params : 't list; in_missing : 't list }

val tzero : 'a1 numOps -> 'a1

type 't env = (string * 't) list

val env_fun : 'a1 numOps -> 'a1 env -> string -> 'a1

val bound : 'a1 env -> expr -> bool

val env0 : 'a1 inputs -> bool -> 'a1 env

val step :
  'a1 numOps -> nat -> 'a1 inputs -> ('a1 env * (nat * 'a1) list) -> stmt ->
  ('a1 env * (nat * 'a1) list) option

val run :
  'a1 numOps -> nat -> 'a1 inputs -> ('a1 env * (nat * 'a1) list) -> stmt
  list -> ('a1 env * (nat * 'a1) list) option

val lookup_nat : nat -> (nat * 'a1) list -> 'a1 option

val result : 'a1 numOps -> nat -> (nat * 'a1) list -> 'a1 list

val exec : 'a1 numOps -> func -> bool -> 'a1 inputs -> 'a1 list option

val exec_env : 'a1 numOps -> func -> bool -> 'a1 inputs -> 'a1 env option

val reserved : 'a1 inputs -> bool -> string list

val base : ode -> string list -> 'a1 inputs -> bool -> string -> 'a1 option

val is_assign : ode -> string -> bool

val opt_nat_eqb : nat option -> nat -> bool

val ok_stmt :
  ode -> string list -> 'a1 inputs -> bool -> nat -> string list -> stmt ->
  bool

val binds : stmt -> string list

val valid_body :
  ode -> string list -> 'a1 inputs -> bool -> nat -> string list -> stmt list
  -> bool

type 't sizes_ok = __

val reserved_free : ode -> 'a1 inputs -> bool -> bool

val unpack_with :
  (string -> nat -> stmt) -> (string -> bool) -> string list -> stmt list

val keep_all : string -> bool

val condition : ode -> bool -> string -> bool

val prologue :
  ode -> string list -> (string -> bool) -> (string -> bool) -> stmt list

val a_expr_of : ode -> string -> expr

val rhs_body : ode -> string list -> nat -> stmt list

val monitor_body : ode -> string list -> nat -> stmt list

val euler_update : string -> expr

val euler_body : ode -> string list -> nat -> stmt list

val mv_loop :
  ode -> (string * nat) list -> string list -> nat -> nat -> stmt list

val mv_decl_stores : ode -> (string * nat) list -> stmt list

val mv_body : ode -> (string * nat) list -> string list -> stmt list

val arg_name : ascii -> string

val arg_list : string -> string list

val with_missing : ode -> string list -> string list

val gen_rhs : ode -> bool -> string -> func option

val gen_monitor : ode -> bool -> string -> func option

val gen_missing_values :
  ode -> bool -> (string * nat) list -> string -> func option

val gen_euler : ode -> bool -> string -> string -> func option

val decl_value : decl list -> string -> expr

val closed_val : 'a1 numOps -> expr -> 'a1

val set_nth : 'a1 list -> nat -> 'a1 -> 'a1 list

val apply_overrides :
  string list -> 'a1 list -> (string * 'a1) list -> 'a1 list option

val init_states : 'a1 numOps -> ode -> (string * 'a1) list -> 'a1 list option

val init_params : 'a1 numOps -> ode -> (string * 'a1) list -> 'a1 list option

type entry = { en_name : string; en_value : expr; en_unit : string option;
               en_desc : string option }

type line = { ln_name : string; ln_expr : expr; ln_unit : string option;
              ln_comment : string option }

type item =
| IStates of string list * entry list
| IParams of string list * entry list
| IExprs of string list * line list
| IComment of string

type lerr =
| LDuplicate of string
| LStateNotFound of string * string
| LNotComplete of string
| LMissingSymbol of string

type 'a result0 =
| Ok of 'a
| Err of lerr

val bind : 'a1 result0 -> ('a1 -> 'a2 result0) -> 'a2 result0

val opt_str_eqb : string option -> string option -> bool

val list_str_eqb : string list -> string list -> bool

val decl_eqb : decl -> decl -> bool

val assign_eqb : assign -> assign -> bool

val set_eqb : string list -> string list -> bool

val assign_key_eqb : assign -> assign -> bool

type comp = { c_name : string; c_states : decl list; c_params : decl list;
              c_assigns : assign list }

val empty_comp : string -> comp

val add_decl : decl list -> decl -> decl list

val add_assign : assign list -> assign -> assign list result0

val upd_comp :
  comp list -> string -> (comp -> comp result0) -> comp list result0

val decl_of : string list -> entry -> decl

val assign_of : string list -> line -> assign

val add_state : decl -> comp -> comp result0

val add_param : decl -> comp -> comp result0

val add_assignment : assign -> comp -> comp result0

val add_to_comps :
  comp list -> string list -> (comp -> comp result0) -> comp list result0

val add_atoms :
  comp list -> string list -> ('a1 -> comp -> comp result0) -> 'a1 list ->
  comp list result0

val add_item : comp list -> item -> comp list result0

val transform : comp list -> item list -> comp list result0

val is_deriv : assign -> bool

val comp_derivs : comp -> assign list

val comp_inters : comp -> assign list

val has_state : comp -> string -> bool

val first_missing_state : comp -> assign list -> string option

val handle_assignments : comp list -> unit result0

val state_has_derivative : comp -> decl -> bool

val complete : comp -> bool

val check_components : comp list -> unit result0

type atom =
| AParam of decl
| AState of decl
| AInter of assign
| ADeriv of assign

val atom_name : atom -> string

val atom_eqb : atom -> atom -> bool

val comp_atoms : comp -> atom list

val all_atoms : comp list -> atom list

val clashes : atom -> atom -> bool

val first_dup : atom list -> string option

val symbols : comp list -> string list

val first_missing_symbol : string list -> string list -> string option

val all_assigns : comp list -> assign list

val resolve : comp list -> unit result0

val dedup_decl : decl list -> decl list

val dedup_assign : assign list -> assign list

val ode_of : comp list -> ode

val load_comps : item list -> comp list result0

val load : item list -> ode result0

val membership : comp list -> (string * string list) list

val stores_at : nat -> stmt list -> expr list

val slots_ok : nat -> (nat -> expr -> bool) -> stmt list -> bool

val valid_fun :
  ode -> string list -> 'a1 inputs -> bool -> func -> (nat -> expr -> bool)
  -> bool

val is_var : string -> expr -> bool

val ok_name : string list -> nat -> expr -> bool

val ok_rhs : ode -> string list -> nat -> expr -> bool

val valid_rhs : ode -> string list -> 'a1 inputs -> bool -> func -> bool

val valid_named :
  ode -> string list -> 'a1 inputs -> bool -> string list -> func -> bool

val states_clean : ode -> string list -> 'a1 inputs -> bool -> bool

val is_dt_mul : string -> expr -> bool

val is_euler : string -> expr -> bool

val ok_euler : ode -> string list -> nat -> expr -> bool

val valid_euler : ode -> string list -> 'a1 inputs -> bool -> func -> bool

val ap1 : ('a1 -> 'a1) -> 'a1 option -> 'a1 option

val ap2 : ('a1 -> 'a1 -> 'a1) -> 'a1 option -> 'a1 option -> 'a1 option

val ap3 :
  ('a1 -> 'a1 -> 'a1 -> 'a1) -> 'a1 option -> 'a1 option -> 'a1 option -> 'a1
  option

val evalo : 'a1 numOps -> (string -> 'a1 option) -> expr -> 'a1 option

val sem_eval :
  'a1 numOps -> ode -> string list -> 'a1 inputs -> bool -> nat -> string ->
  'a1 option

val sem_eval_expr :
  'a1 numOps -> ode -> string list -> 'a1 inputs -> bool -> nat -> expr ->
  'a1 option

type kstmt =
| KUnS of string * nat
| KUnP of string * nat
| KUnM of string * nat
| KLet of string * string list
| KStore of nat * expr

val fill_stmt : ode -> kstmt -> stmt option

val fill_body : ode -> kstmt list -> stmt list option

val first_bad :
  ode -> string list -> 'a1 inputs -> bool -> nat -> string list -> stmt list
  -> nat -> nat option
