(* Capture.v — identifiers (C19).  A validated body binds every name exactly once, never a name the
   function uses for itself (its scalar formals: dt, t, time), and renaming identifiers consistently
   does not change the value of an expression. *)
From GX Require Import Base Expr Topo Ode Target Sem.
Open Scope string_scope.
Open Scope list_scope.

Lemma NoDup_app_intro {A} (l1 l2 : list A) :
  NoDup l1 -> NoDup l2 -> (forall x, In x l1 -> In x l2 -> False) -> NoDup (l1 ++ l2).
Proof.
  induction l1 as [|a l1 IH]; intros H1 H2 Hd; simpl; [exact H2|].
  inversion H1 as [|? ? Ha H1']; subst. constructor.
  - intros Hin. apply in_app_or in Hin. destruct Hin as [Hin|Hin]; [contradiction|].
    apply (Hd a); [left; reflexivity|exact Hin].
  - apply IH; auto. intros x Hx Hx'. apply (Hd x); [right; exact Hx|exact Hx'].
Qed.

Section Capture.
  Context {T : Type} (o : ode) (ss : list string) (inp : inputs T) (wd : bool).

  Definition bound_names (body : list stmt) : list string := flat_map binds body.

  (* every statement of a validated body binds a fresh name: no model name is bound twice, none
     shadows a name bound earlier *)
  Lemma valid_body_fresh nret : forall body defined,
    valid_body o ss inp wd nret defined body = true ->
    NoDup (bound_names body) /\ forall x, In x (bound_names body) -> ~ In x defined.
  Proof.
    induction body as [|s body IH]; intros defined H; simpl.
    - split; [constructor|intros x []].
    - simpl in H. apply andb_true_iff in H. destruct H as [Hok Hrest].
      destruct (IH _ Hrest) as [Hnd Hfresh].
      assert (Hs : forall x, In x (binds s) -> ~ In x defined).
      { intros x Hx. destruct s as [y i|y i|y i|y e|i e]; simpl in Hx; try contradiction;
          destruct Hx as [<-|[]]; simpl in Hok;
          repeat (apply andb_true_iff in Hok; destruct Hok as [Hok ?]);
          match goal with H : negb (mem _ defined) = true |- _ =>
            apply negb_true_iff, mem_false_In in H; exact H end. }
      split.
      + unfold bound_names in *. simpl. apply NoDup_app_intro; auto.
        * destruct s; simpl; repeat constructor; auto.
        * intros x Hx Hx'. apply (Hfresh x Hx'). apply in_or_app. left; exact Hx.
      + intros x Hx. apply in_app_or in Hx. destruct Hx as [Hx|Hx]; [apply Hs; exact Hx|].
        intros Hd. apply (Hfresh x Hx). apply in_or_app. right; exact Hd.
  Qed.

  (* a validated function never binds one of its own formals (dt, t, time) *)
  Theorem valid_body_does_not_capture_formals nret body x :
    valid_body o ss inp wd nret (reserved inp wd) body = true ->
    In x (bound_names body) -> ~ In x (reserved inp wd).
  Proof. intros H Hx. destruct (valid_body_fresh nret body _ H) as [_ Hf]. apply Hf. exact Hx. Qed.

  Theorem valid_body_binds_each_name_once nret body :
    valid_body o ss inp wd nret (reserved inp wd) body = true -> NoDup (bound_names body).
  Proof. intros H. destruct (valid_body_fresh nret body _ H) as [Hn _]. exact Hn. Qed.
End Capture.

(* consistent renaming of identifiers *)
Fixpoint rename (r : string -> string) (e : expr) : expr :=
  match e with
  | ENum _ _ | EPi => e
  | EVar x => EVar (r x)
  | EAdd a b => EAdd (rename r a) (rename r b)
  | ESub a b => ESub (rename r a) (rename r b)
  | EMul a b => EMul (rename r a) (rename r b)
  | EDiv a b => EDiv (rename r a) (rename r b)
  | EPow a b => EPow (rename r a) (rename r b)
  | ENeg a => ENeg (rename r a)
  | EFn f a => EFn f (rename r a)
  | EMod a b => EMod (rename r a) (rename r b)
  | ERel c a b => ERel c (rename r a) (rename r b)
  | ENot a => ENot (rename r a)
  | EAnd a b => EAnd (rename r a) (rename r b)
  | EOr a b => EOr (rename r a) (rename r b)
  | ECond c a b => ECond (rename r c) (rename r a) (rename r b)
  end.

Theorem eval_rename {T} (N : NumOps T) r rho e :
  eval N rho (rename r e) = eval N (fun x => rho (r x)) e.
Proof. induction e; simpl; congruence. Qed.

Theorem vars_rename r e : vars (rename r e) = map r (vars e).
Proof.
  induction e; simpl; try reflexivity; rewrite ?map_app; congruence.
Qed.

(* ---------- C15: substituting unique names for references ---------- *)
(* a renaming that sends every reference to the referent's unique name preserves the meaning, when the
   target environment gives the unique name the value the source environment gives the reference *)
Theorem eval_rename_transport {T} (N : NumOps T) (r : string -> string) (rho rho' : string -> T) e :
  (forall x, In x (vars e) -> rho' (r x) = rho x) ->
  eval N rho' (rename r e) = eval N rho e.
Proof.
  intros H. rewrite eval_rename. apply eval_ext. exact H.
Qed.

(* successive substitution passes compose *)
Theorem rename_compose r1 r2 e : rename r2 (rename r1 e) = rename (fun x => r2 (r1 x)) e.
Proof. induction e; simpl; congruence. Qed.

(* a pass that matches nothing (e.g. one keyed by strings where the expression holds symbols) is the
   identity: every reference keeps its local name *)
Theorem rename_id e : rename (fun x => x) e = e.
Proof. induction e; simpl; congruence. Qed.
