(* Load.v — mirror of the loader: what gotranx does between the Lark parse tree and the ODE object
   (transformer.py: TreeToODE.ode; ode_component.py: Component._handle_assignments;
    ode.py: check_components, gather_atoms, make_ode, resolve_expressions, ODE.__init__).

   Input: the list of items TreeToODE.ode receives (states blocks, parameters blocks, expressions
   blocks with their component header, comment lines).  The harness obtains this list from the real
   Lark parse of every text, so the lexer / LALR engine stay outside the model.

   The mirror follows the code stage by stage, so that it predicts *which* exception is raised:
     (a) atoms are collected into per-component sets; equal atoms collapse (attrs equality; an
         Assignment compares by name, dependency set, components, unit and comment - not by its
         tree), and two equal assignments with different trees are a DuplicateSymbolError;
     (b) Component construction classifies d<state>_dt assignments and looks the state up in the
         same component (StateNotFoundInComponent);
     (c) check_components (ComponentNotCompleteError);
     (d) gather_atoms: two atoms with one name must be one and the same definition
         (DuplicateSymbolError);
     (e) resolve_expressions (MissingSymbolError);
   (f) = (c)+(d) again in ODE.__init__ adds no new outcome on this abstraction.
   Cycles are detected later, by the topological sort at code generation (Ode.sorted_names). *)
From GX Require Import Base Expr Topo Ode.
Open Scope string_scope.
Open Scope list_scope.

Record entry := { en_name : string; en_value : expr; en_unit : option string; en_desc : option string }.
Record line := { ln_name : string; ln_expr : expr; ln_unit : option string; ln_comment : option string }.

Inductive item :=
| IStates (comps : list string) (es : list entry)
| IParams (comps : list string) (es : list entry)
| IExprs (comps : list string) (ls : list line)
| IComment (s : string).

Inductive lerr :=
| LDuplicate (n : string)
| LStateNotFound (s c : string)
| LNotComplete (c : string)
| LMissingSymbol (s : string).

Inductive result (A : Type) := Ok (a : A) | Err (e : lerr).
Arguments Ok {A}. Arguments Err {A}.

Definition bind {A B} (r : result A) (f : A -> result B) : result B :=
  match r with Ok a => f a | Err e => Err e end.

(* ---------- equality of atoms ---------- *)
Definition opt_str_eqb (a b : option string) : bool :=
  match a, b with
  | Some x, Some y => String.eqb x y
  | None, None => true
  | _, _ => false
  end.

Fixpoint list_str_eqb (a b : list string) : bool :=
  match a, b with
  | [], [] => true
  | x :: a', y :: b' => String.eqb x y && list_str_eqb a' b'
  | _, _ => false
  end.

Definition decl_eqb (a b : decl) : bool :=
  String.eqb (d_name a) (d_name b) && expr_eqb (d_value a) (d_value b)
  && list_str_eqb (d_comps a) (d_comps b)
  && opt_str_eqb (d_unit a) (d_unit b) && opt_str_eqb (d_desc a) (d_desc b).

Definition assign_eqb (a b : assign) : bool :=
  String.eqb (a_name a) (a_name b) && expr_eqb (a_expr a) (a_expr b)
  && list_str_eqb (a_comps a) (a_comps b)
  && opt_str_eqb (a_unit a) (a_unit b) && opt_str_eqb (a_comment a) (a_comment b).

Definition set_eqb (a b : list string) : bool :=
  forallb (fun x => mem x b) a && forallb (fun x => mem x a) b.

(* attrs-generated __eq__ of atoms.Assignment before resolution: the tree is excluded
   (atoms.py: tree = attr.ib(cmp=False)), expr is still 0 *)
Definition assign_key_eqb (a b : assign) : bool :=
  String.eqb (a_name a) (a_name b) && set_eqb (vars (a_expr a)) (vars (a_expr b))
  && list_str_eqb (a_comps a) (a_comps b)
  && opt_str_eqb (a_unit a) (a_unit b) && opt_str_eqb (a_comment a) (a_comment b).

(* ---------- (a) TreeToODE.ode ---------- *)
Record comp := {
  c_name : string;
  c_states : list decl;
  c_params : list decl;
  c_assigns : list assign }.

Definition empty_comp (n : string) : comp :=
  {| c_name := n; c_states := []; c_params := []; c_assigns := [] |}.

Definition add_decl (l : list decl) (d : decl) : list decl :=
  if existsb (decl_eqb d) l then l else l ++ [d].

Definition add_assign (l : list assign) (a : assign) : result (list assign) :=
  match find (assign_key_eqb a) l with
  | Some b => if assign_eqb a b then Ok l else Err (LDuplicate (a_name a))
  | None => Ok (l ++ [a])
  end.

Fixpoint upd_comp (cs : list comp) (n : string) (f : comp -> result comp) : result (list comp) :=
  match cs with
  | [] => bind (f (empty_comp n)) (fun c => Ok [c])
  | c :: cs' =>
      if String.eqb (c_name c) n then bind (f c) (fun c' => Ok (c' :: cs'))
      else bind (upd_comp cs' n f) (fun cs'' => Ok (c :: cs''))
  end.

Definition decl_of (comps : list string) (e : entry) : decl :=
  {| d_name := en_name e; d_value := en_value e; d_comps := comps;
     d_unit := en_unit e; d_desc := en_desc e |}.
Definition assign_of (comps : list string) (l : line) : assign :=
  {| a_name := ln_name l; a_expr := ln_expr l; a_comps := comps;
     a_unit := ln_unit l; a_comment := ln_comment l |}.

Definition add_state (d : decl) (c : comp) : result comp :=
  Ok {| c_name := c_name c; c_states := add_decl (c_states c) d;
        c_params := c_params c; c_assigns := c_assigns c |}.
Definition add_param (d : decl) (c : comp) : result comp :=
  Ok {| c_name := c_name c; c_states := c_states c;
        c_params := add_decl (c_params c) d; c_assigns := c_assigns c |}.
Definition add_assignment (a : assign) (c : comp) : result comp :=
  bind (add_assign (c_assigns c) a)
       (fun l => Ok {| c_name := c_name c; c_states := c_states c;
                       c_params := c_params c; c_assigns := l |}).

(* for component in atom.components: components[component][kind].add(atom) *)
Fixpoint add_to_comps (cs : list comp) (comps : list string) (f : comp -> result comp)
  : result (list comp) :=
  match comps with
  | [] => Ok cs
  | n :: comps' => bind (upd_comp cs n f) (fun cs' => add_to_comps cs' comps' f)
  end.

Fixpoint add_atoms {A} (cs : list comp) (comps : list string) (mk : A -> comp -> result comp)
  (l : list A) : result (list comp) :=
  match l with
  | [] => Ok cs
  | x :: l' => bind (add_to_comps cs comps (mk x)) (fun cs' => add_atoms cs' comps mk l')
  end.

Definition add_item (cs : list comp) (it : item) : result (list comp) :=
  match it with
  | IStates comps es => add_atoms cs comps (fun e => add_state (decl_of comps e)) es
  | IParams comps es => add_atoms cs comps (fun e => add_param (decl_of comps e)) es
  | IExprs comps ls => add_atoms cs comps (fun l => add_assignment (assign_of comps l)) ls
  | IComment _ => Ok cs
  end.

Fixpoint transform (cs : list comp) (items : list item) : result (list comp) :=
  match items with
  | [] => Ok cs
  | it :: items' => bind (add_item cs it) (fun cs' => transform cs' items')
  end.

(* ---------- (b) Component._handle_assignments ---------- *)
Definition is_deriv (a : assign) : bool :=
  match deriv_state (a_name a) with Some _ => true | None => false end.
Definition comp_derivs (c : comp) : list assign := filter is_deriv (c_assigns c).
Definition comp_inters (c : comp) : list assign := filter (fun a => negb (is_deriv a)) (c_assigns c).

Definition has_state (c : comp) (s : string) : bool :=
  existsb (fun d => String.eqb (d_name d) s) (c_states c).

Fixpoint first_missing_state (c : comp) (l : list assign) : option string :=
  match l with
  | [] => None
  | a :: l' =>
      match deriv_state (a_name a) with
      | Some s => if has_state c s then first_missing_state c l' else Some s
      | None => first_missing_state c l'
      end
  end.

Fixpoint handle_assignments (cs : list comp) : result unit :=
  match cs with
  | [] => Ok tt
  | c :: cs' =>
      match first_missing_state c (c_assigns c) with
      | Some s => Err (LStateNotFound s (c_name c))
      | None => handle_assignments cs'
      end
  end.

(* ---------- (c) check_components: states_with_derivatives == states ---------- *)

(* find_state returns the (a) state of that name; the derivative's state must be this very atom *)
Definition state_has_derivative (c : comp) (d : decl) : bool :=
  existsb (fun a => match deriv_state (a_name a) with
                    | Some s => String.eqb s (d_name d)
                                && match find_decl (c_states c) s with
                                   | Some d' => decl_eqb d' d
                                   | None => false
                                   end
                    | None => false
                    end) (c_assigns c).

Definition complete (c : comp) : bool := forallb (state_has_derivative c) (c_states c).

Fixpoint check_components (cs : list comp) : result unit :=
  match cs with
  | [] => Ok tt
  | c :: cs' => if complete c then check_components cs' else Err (LNotComplete (c_name c))
  end.

(* ---------- (d) gather_atoms + duplicate test ---------- *)
Inductive atom := AParam (d : decl) | AState (d : decl) | AInter (a : assign) | ADeriv (a : assign).

Definition atom_name (x : atom) : string :=
  match x with AParam d | AState d => d_name d | AInter a | ADeriv a => a_name a end.

Definition atom_eqb (x y : atom) : bool :=
  match x, y with
  | AParam a, AParam b | AState a, AState b => decl_eqb a b
  | AInter a, AInter b | ADeriv a, ADeriv b => assign_eqb a b
  | _, _ => false
  end.

Definition comp_atoms (c : comp) : list atom :=
  map AParam (c_params c) ++ map AState (c_states c)
  ++ map AInter (comp_inters c) ++ map ADeriv (comp_derivs c).

Definition all_atoms (cs : list comp) : list atom := flat_map comp_atoms cs.

Definition clashes (x y : atom) : bool :=
  String.eqb (atom_name x) (atom_name y) && negb (atom_eqb x y).

Fixpoint first_dup (l : list atom) : option string :=
  match l with
  | [] => None
  | x :: l' => if existsb (clashes x) l' then Some (atom_name x) else first_dup l'
  end.

(* ---------- (e) resolve_expressions ---------- *)
Definition symbols (cs : list comp) : list string := map atom_name (all_atoms cs) ++ ["time"; "t"].

Fixpoint first_missing_symbol (syms : list string) (l : list string) : option string :=
  match l with
  | [] => None
  | x :: l' => if mem x syms then first_missing_symbol syms l' else Some x
  end.

Definition all_assigns (cs : list comp) : list assign := flat_map c_assigns cs.

Definition resolve (cs : list comp) : result unit :=
  match first_missing_symbol (symbols cs) (flat_map (fun a => vars (a_expr a)) (all_assigns cs)) with
  | Some s => Err (LMissingSymbol s)
  | None => Ok tt
  end.

(* ---------- the ODE: set unions over components ---------- *)
Fixpoint dedup_decl (l : list decl) : list decl :=
  match l with
  | [] => []
  | d :: l' => if existsb (decl_eqb d) l' then dedup_decl l' else d :: dedup_decl l'
  end.
Fixpoint dedup_assign (l : list assign) : list assign :=
  match l with
  | [] => []
  | a :: l' => if existsb (assign_eqb a) l' then dedup_assign l' else a :: dedup_assign l'
  end.

Definition ode_of (cs : list comp) : ode :=
  {| o_states := dedup_decl (flat_map c_states cs);
     o_params := dedup_decl (flat_map c_params cs);
     o_inters := dedup_assign (flat_map comp_inters cs);
     o_derivs := dedup_assign (flat_map comp_derivs cs) |}.

Definition load_comps (items : list item) : result (list comp) :=
  bind (transform [] items) (fun cs =>
  bind (handle_assignments cs) (fun _ =>
  bind (check_components cs) (fun _ =>
  match first_dup (all_atoms cs) with
  | Some n => Err (LDuplicate n)
  | None => bind (resolve cs) (fun _ => Ok cs)
  end))).

Definition load (items : list item) : result ode :=
  bind (load_comps items) (fun cs => Ok (ode_of cs)).

(* component membership of every definition (C10 / C17 observe it) *)
Definition membership (cs : list comp) : list (string * list string) :=
  map (fun c => (c_name c,
                 sort_names (map d_name (c_states c) ++ map d_name (c_params c)
                             ++ map a_name (c_assigns c)))) cs.

(* ---------- component split (ode_component.to_ode, ODE.__sub__) ---------- *)
Definition to_ode (c : comp) : ode := ode_of [c].
Definition minus (cs : list comp) (n : string) : ode :=
  ode_of (filter (fun c => negb (String.eqb (c_name c) n)) cs).
