(* JaxNames.v — the slot variables of the jax backend.  codegen/jax.py prints the statement
     values[i] = e      as      _values_i = e
   and the function ends with  return numpy.array([_values_0, ..., _values_{n-1}]).  The slot variables
   live in the same namespace as the model's names, so a model name of the form _values_<digits> could
   capture a slot or be captured by one; the generators therefore refuse every such name
   (CodeGenerator.reserved_pattern = ^_values_\d+$).  This file proves that the refusal is sufficient:
   when no name the body binds or reads is a slot name, running the renamed body (lets only) and reading
   the slot variables off the final environment returns exactly what the array semantics returns - for
   any number of slots, in particular for monitor_values and missing_values, which use more slots than
   there are states.  [slot] is any injective naming of the slots; [slot_name] is the concrete one. *)
From GX Require Import Base Expr Topo Ode Target Sem Valid Jax Carriers.
From Coq Require Import Qcanon.
From Coq Require Import DecimalString DecimalNat Decimal.
Open Scope string_scope.
Open Scope list_scope.

Section SlotNames.
  Context {T : Type} (N : NumOps T).
  Variable slot : nat -> string.
  Hypothesis slot_inj : forall i j, slot i = slot j -> i = j.

  Definition jax_stmt (s : stmt) : stmt :=
    match s with
    | SStore i e => SLet (slot i) e
    | _ => s
    end.
  Definition jax_body (body : list stmt) : list stmt := map jax_stmt body.

  (* numpy.array([_values_0, ..., _values_{n-1}]): a NameError if one of them was never assigned *)
  Definition jax_return (nret : nat) (rho : env T) : option (list T) :=
    if forallb (fun i => match lookup (slot i) rho with Some _ => true | None => false end) (seq 0 nret)
    then Some (map (fun i => env_fun N rho (slot i)) (seq 0 nret))
    else None.

  Definition exec_jax_names (f : func) (with_dt : bool) (inp : inputs T) : option (list T) :=
    match run N (f_nret f) inp (env0 inp with_dt, []) (jax_body (f_body f)) with
    | Some (rho, _) => jax_return (f_nret f) rho
    | None => None
    end.

  (* the names a statement binds or reads *)
  Definition stmt_names (s : stmt) : list string :=
    match s with
    | SUnpackS x _ | SUnpackP x _ | SUnpackM x _ => [x]
    | SLet x e => x :: vars e
    | SStore _ e => vars e
    end.
  Definition not_slot (x : string) : Prop := forall i, x <> slot i.
  Definition slot_free (body : list stmt) : Prop :=
    forall s x, In s body -> In x (stmt_names s) -> not_slot x.

  (* the renamed run carries the array in its environment *)
  Definition Sim (rho : env T) (vals : list (nat * T)) (rho' : env T) : Prop :=
    (forall x, not_slot x -> lookup x rho' = lookup x rho)
    /\ (forall i, lookup (slot i) rho' = lookup_nat i vals).

  Lemma bound_sim rho vals rho' e :
    Sim rho vals rho' -> (forall x, In x (vars e) -> not_slot x) -> bound rho' e = bound rho e.
  Proof.
    intros [H1 _] Hv. unfold bound. generalize (vars e), Hv. intros l Hl. induction l as [|x l IH]; [reflexivity|].
    cbn [forallb]. rewrite (H1 x (Hl x (or_introl eq_refl))), IH; [reflexivity|]. intros y Hy. apply Hl. right. exact Hy.
  Qed.

  Lemma eval_sim rho vals rho' e :
    Sim rho vals rho' -> (forall x, In x (vars e) -> not_slot x) ->
    eval N (env_fun N rho') e = eval N (env_fun N rho) e.
  Proof.
    intros [H1 _] Hv. apply eval_ext. intros x Hx. unfold env_fun. rewrite (H1 x (Hv x Hx)). reflexivity.
  Qed.

  Lemma sim_bind rho vals rho' x v :
    not_slot x -> Sim rho vals rho' -> Sim ((x, v) :: rho) vals ((x, v) :: rho').
  Proof.
    intros Hx [H1 H2]. split.
    - intros y Hy. cbn [lookup]. destruct (String.eqb y x); [reflexivity|apply H1; exact Hy].
    - intros i. cbn [lookup]. destruct (String.eqb_spec (slot i) x) as [E|_]; [|apply H2].
      exfalso. exact (Hx i (eq_sym E)).
  Qed.

  Lemma sim_store rho vals rho' i v :
    Sim rho vals rho' -> Sim rho ((i, v) :: vals) ((slot i, v) :: rho').
  Proof.
    intros [H1 H2]. split.
    - intros y Hy. cbn [lookup]. destruct (String.eqb_spec y (slot i)) as [E|_]; [|apply H1; exact Hy].
      exfalso. exact (Hy i E).
    - intros j. cbn [lookup lookup_nat].
      destruct (String.eqb_spec (slot j) (slot i)) as [E|Hne].
      + apply slot_inj in E. subst j. rewrite Nat.eqb_refl. reflexivity.
      + destruct (Nat.eqb_spec j i) as [->|_]; [contradiction|apply H2].
  Qed.

  Lemma step_sim nret inp rho vals rho' vals' s rho1 vals1 :
    (forall x, In x (stmt_names s) -> not_slot x) ->
    Sim rho vals rho' ->
    step N nret inp (rho, vals) s = Some (rho1, vals1) ->
    exists rho1', step N nret inp (rho', vals') (jax_stmt s) = Some (rho1', vals') /\ Sim rho1 vals1 rho1'.
  Proof.
    intros Hn HS Hstep. destruct s as [x i|x i|x i|x e|i e]; cbn [step jax_stmt] in *.
    - destruct (nth_error (in_states inp) i) as [v|]; [|discriminate]. injection Hstep as <- <-.
      eexists. split; [reflexivity|]. apply sim_bind; [apply Hn; left; reflexivity|exact HS].
    - destruct (nth_error (in_params inp) i) as [v|]; [|discriminate]. injection Hstep as <- <-.
      eexists. split; [reflexivity|]. apply sim_bind; [apply Hn; left; reflexivity|exact HS].
    - destruct (nth_error (in_missing inp) i) as [v|]; [|discriminate]. injection Hstep as <- <-.
      eexists. split; [reflexivity|]. apply sim_bind; [apply Hn; left; reflexivity|exact HS].
    - assert (Hv : forall y, In y (vars e) -> not_slot y) by (intros y Hy; apply Hn; right; exact Hy).
      rewrite (bound_sim rho vals rho' e HS Hv), (eval_sim rho vals rho' e HS Hv).
      destruct (bound rho e); [|discriminate]. injection Hstep as <- <-.
      eexists. split; [reflexivity|]. apply sim_bind; [apply Hn; left; reflexivity|exact HS].
    - assert (Hv : forall y, In y (vars e) -> not_slot y) by (intros y Hy; apply Hn; exact Hy).
      rewrite (bound_sim rho vals rho' e HS Hv), (eval_sim rho vals rho' e HS Hv).
      destruct (bound rho e); [|discriminate]. cbn [andb] in Hstep.
      destruct (Nat.ltb i nret); [|discriminate]. injection Hstep as <- <-.
      eexists. split; [reflexivity|]. apply sim_store. exact HS.
  Qed.

  Lemma run_sim nret inp body : forall rho vals rho' vals' rho2 vals2,
    slot_free body -> Sim rho vals rho' ->
    run N nret inp (rho, vals) body = Some (rho2, vals2) ->
    exists rho2', run N nret inp (rho', vals') (jax_body body) = Some (rho2', vals') /\ Sim rho2 vals2 rho2'.
  Proof.
    induction body as [|s body IH]; intros rho vals rho' vals' rho2 vals2 Hf HS Hrun; cbn [run jax_body map] in *.
    - injection Hrun as <- <-. eexists. split; [reflexivity|exact HS].
    - destruct (step N nret inp (rho, vals) s) as [[rho1 vals1]|] eqn:Es; [|discriminate].
      destruct (step_sim nret inp rho vals rho' vals' s rho1 vals1
                  (fun x Hx => Hf s x (or_introl eq_refl) Hx) HS Es) as (rho1' & Es' & HS1).
      rewrite Es'. apply (IH rho1 vals1 rho1' vals' rho2 vals2); [|exact HS1|exact Hrun].
      intros s0 x Hs0 Hx. exact (Hf s0 x (or_intror Hs0) Hx).
  Qed.

  Lemma return_sim nret rho vals rho' :
    Sim rho vals rho' -> all_assigned nret vals = true -> jax_return nret rho' = Some (result N nret vals).
  Proof.
    intros [_ H2] Ha. unfold jax_return, all_assigned in *.
    assert (Hb : forallb (fun i => match lookup (slot i) rho' with Some _ => true | None => false end) (seq 0 nret) = true).
    { rewrite forallb_forall in *. intros i Hi. rewrite (H2 i). exact (Ha i Hi). }
    rewrite Hb. f_equal. unfold result. apply map_ext. intros i. unfold env_fun. rewrite (H2 i). reflexivity.
  Qed.

  (* the function with slot variables returns what the function with an output array returns *)
  Theorem jax_slot_variables_are_the_array f wd inp out :
    slot_free (f_body f) ->
    (forall i, lookup (slot i) (env0 inp wd) = None) ->
    exec_jax N f wd inp = Some out -> exec_jax_names f wd inp = Some out.
  Proof.
    intros Hf H0 He. unfold exec_jax in He. unfold exec_jax_names.
    destruct (run N (f_nret f) inp (env0 inp wd, []) (f_body f)) as [[rho vals]|] eqn:Er; [|discriminate].
    destruct (all_assigned (f_nret f) vals) eqn:Ea; [|discriminate]. injection He as <-.
    assert (HS0 : Sim (env0 inp wd) [] (env0 inp wd)).
    { split; [reflexivity|]. intros i. rewrite (H0 i). reflexivity. }
    destruct (run_sim (f_nret f) inp (f_body f) _ _ _ [] rho vals Hf HS0 Er) as (rho' & Er' & HS).
    rewrite Er'. apply (return_sim (f_nret f) rho vals rho' HS Ea).
  Qed.
End SlotNames.

(* ---------- the concrete slot names ---------- *)
Definition slot_name (i : nat) : string := String.append "_values_" (NilEmpty.string_of_uint (Nat.to_uint i)).

Lemma append_inj_l (p a b : string) : String.append p a = String.append p b -> a = b.
Proof. induction p as [|c p IH]; simpl; intros H; [exact H|]. injection H as H. exact (IH H). Qed.

Lemma slot_name_inj i j : slot_name i = slot_name j -> i = j.
Proof.
  unfold slot_name. intros H. apply append_inj_l in H.
  assert (E : Some (Nat.to_uint i) = Some (Nat.to_uint j)).
  { rewrite <- (NilEmpty.usu (Nat.to_uint i)), <- (NilEmpty.usu (Nat.to_uint j)), H. reflexivity. }
  injection E as E. rewrite <- (DecimalNat.Unsigned.of_to i), <- (DecimalNat.Unsigned.of_to j), E. reflexivity.
Qed.

Lemma slot_name_not_formal {T} (inp : inputs T) wd i : lookup (slot_name i) (env0 inp wd) = None.
Proof. unfold env0. destruct wd; reflexivity. Qed.

Example slot_names : slot_name 0 = "_values_0" /\ slot_name 12 = "_values_12" /\ slot_name 105 = "_values_105".
Proof. repeat split. Qed.

(* a validated function whose names avoid the pattern _values_<digits> returns, with slot variables, the array of
   the declared length that the numpy function returns *)
Theorem jax_names_equal_numpy {T} (N : NumOps T) (o : ode) (ss : list string) (inp : inputs T) (wd : bool) f ok :
  sizes_ok o ss inp -> reserved_free o inp wd = true ->
  valid_fun o ss inp wd f ok = true ->
  slot_free slot_name (f_body f) ->
  exists out, exec_jax_names N slot_name f wd inp = Some out /\ exec N f wd inp = Some out /\ length out = f_nret f.
Proof.
  intros Hsz Hrf Hv Hf.
  destruct (jax_equals_numpy N o ss inp wd f ok Hsz Hrf Hv) as (out & Hj & Hn & Hl).
  exists out. split; [|split; assumption].
  apply (jax_slot_variables_are_the_array N slot_name slot_name_inj f wd inp out Hf).
  - intros i. apply slot_name_not_formal.
  - exact Hj.
Qed.

(* and the pattern is needed: a body that binds a slot name is captured (here slot 1 of a two-slot function is
   overwritten by the model's own "_values_1") *)
Example a_model_name_of_that_form_is_captured :
  let body := [SLet "a" (e_int 5); SStore 1 (EVar "a"); SLet "_values_1" (e_int 7); SStore 0 (EVar "_values_1")] in
  let f := {| f_name := "g"; f_args := []; f_nret := 2; f_body := body |} in
  let inp := {| in_t := 0%Qc; in_dt := 0%Qc; in_states := []; in_params := []; in_missing := [] |} in
  exec_jax QcOps f false inp = Some [Q2Qc (QArith_base.inject_Z 7); Q2Qc (QArith_base.inject_Z 5)]
  /\ exec_jax_names QcOps slot_name f false inp = Some [Q2Qc (QArith_base.inject_Z 7); Q2Qc (QArith_base.inject_Z 7)].
Proof. vm_compute. split; reflexivity. Qed.
