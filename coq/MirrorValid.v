(* MirrorValid.v — the mirror of the code generator (Codegen.gen_rhs) is a verified compiler:
   for every well-formed model for which an order exists, the function it generates passes the
   validator (Valid.valid_rhs), hence (Valid.rhs_sound) runs to completion and returns, in slot
   state_index(X), the documented meaning of dX_dt.  With and without remove_unused.
   The hypotheses are the boolean well-formedness facts [wf_gen], evaluated by the harness on the
   mirror of every model the implementation's loader accepted. *)
From GX Require Import Base Expr Topo KahnSound Ode OrderSound Target Sem Codegen Valid.
From Coq Require Import Lia Permutation.
Open Scope string_scope.
Open Scope list_scope.

Lemma expr_eqb_refl e : expr_eqb e e = true.
Proof.
  induction e; simpl; rewrite ?IHe, ?IHe1, ?IHe2, ?IHe3; simpl; try reflexivity.
  all: try (unfold Q_eqb_syn; rewrite Z.eqb_refl, Pos.eqb_refl; destruct int_lit; reflexivity).
  all: try apply String.eqb_refl.
  all: try (destruct f; reflexivity).
  all: try (destruct r; reflexivity).
Qed.

Lemma forallb_ext' {A} (f g : A -> bool) l : (forall x, f x = g x) -> forallb f l = forallb g l.
Proof. intros H. induction l as [|x l IH]; simpl; [reflexivity|]. rewrite H, IH. reflexivity. Qed.

Section Generic.
  Context {T : Type} (o : ode) (ss : list string) (inp : inputs T) (wd : bool).
  Notation vb := (valid_body o ss inp wd).
  Notation oks := (ok_stmt o ss inp wd).

  Definition defs_after (b : list stmt) (d : list string) : list string :=
    fold_left (fun d s => binds s ++ d) b d.

  Lemma valid_body_app nret b1 : forall d b2,
    vb nret d (b1 ++ b2) = vb nret d b1 && vb nret (defs_after b1 d) b2.
  Proof.
    induction b1 as [|s b1 IH]; intros d b2; simpl; [reflexivity|].
    rewrite IH, andb_assoc. reflexivity.
  Qed.

  Lemma defs_after_In b : forall d x,
    In x (defs_after b d) <-> In x d \/ exists s, In s b /\ In x (binds s).
  Proof.
    induction b as [|s b IH]; intros d x; simpl.
    - split; [tauto|]. intros [H|[s [[] _]]]. exact H.
    - unfold defs_after in IH. rewrite IH, in_app_iff. split.
      + intros [[H|H]|[s' [H1 H2]]]; auto.
        * right. exists s. auto.
        * right. exists s'. auto.
      + intros [H|[s' [[<-|H1] H2]]]; auto. right. exists s'. auto.
  Qed.

  (* membership is all the validator looks at *)
  Lemma ok_stmt_ext nret d d' s :
    (forall x, In x d <-> In x d') -> oks nret d s = oks nret d' s.
  Proof.
    intros H. assert (Hm : forall x, mem x d = mem x d') by (intros x; apply mem_ext, H).
    destruct s; simpl; rewrite ?Hm, ?(forallb_ext' (fun y => mem y d) (fun y => mem y d') _ Hm); reflexivity.
  Qed.

  Lemma valid_body_ext nret b : forall d d',
    (forall x, In x d <-> In x d') -> vb nret d b = vb nret d' b.
  Proof.
    induction b as [|s b IH]; intros d d' H; simpl; [reflexivity|].
    rewrite (ok_stmt_ext nret d d' s H). f_equal. apply IH.
    intros x. rewrite !in_app_iff, H. tauto.
  Qed.

  (* one block of unpacking statements *)
  Definition block (mk : string -> nat -> stmt) (keep : string -> bool) (l : list (nat * string)) :=
    flat_map (fun ix => if keep (snd ix) then [mk (snd ix) (fst ix)] else []) l.

  Lemma block_valid nret mk keep :
    (forall x i, binds (mk x i) = [x]) ->
    forall l d,
      NoDup (map snd l) ->
      (forall i x, In (i, x) l -> ~ In x d) ->
      (forall i x d', In (i, x) l -> ~ In x d' -> oks nret d' (mk x i) = true) ->
      vb nret d (block mk keep l) = true.
  Proof.
    intros Hb. induction l as [|[i x] l IH]; intros d Hnd Hdis Hok; [reflexivity|].
    simpl in Hnd. inversion Hnd as [|? ? Hx Hnd']; subst.
    unfold block. cbn [flat_map snd fst]. fold (block mk keep l).
    assert (Htail : forall d', (forall j y, In (j, y) l -> ~ In y d') -> vb nret d' (block mk keep l) = true).
    { intros d' Hd'. apply IH; [exact Hnd'|exact Hd'|].
      intros j y d'' Hj. apply Hok. right. exact Hj. }
    destruct (keep x).
    - cbn [app valid_body]. rewrite (Hok i x d (or_introl eq_refl) (Hdis i x (or_introl eq_refl))), Hb.
      cbn [andb app]. apply Htail. intros j y Hj [E|Hc].
      + subst y. apply Hx. apply (in_map snd) in Hj. exact Hj.
      + exact (Hdis j y (or_intror Hj) Hc).
    - cbn [app]. apply Htail. intros j y Hj. apply (Hdis j y). right. exact Hj.
  Qed.

  Lemma block_defs mk keep :
    (forall x i, binds (mk x i) = [x]) ->
    forall l d y, In y (defs_after (block mk keep l) d) <-> In y d \/ (keep y = true /\ exists i, In (i, y) l).
  Proof.
    intros Hb l d y. rewrite defs_after_In. split.
    - intros [H|[s [Hs Hy]]]; [left; exact H|right].
      unfold block in Hs. apply in_flat_map in Hs. destruct Hs as [[i x] [Hin Hs]]. cbn [snd fst] in Hs.
      destruct (keep x) eqn:Ek; [|destruct Hs]. destruct Hs as [<-|[]].
      rewrite Hb in Hy. destruct Hy as [<-|[]]. split; [exact Ek|]. exists i. exact Hin.
    - intros [H|[Hk [i Hin]]]; [left; exact H|right]. exists (mk y i). split.
      + unfold block. apply in_flat_map. exists (i, y). split; [exact Hin|]. cbn [snd fst]. rewrite Hk. left. reflexivity.
      + rewrite Hb. left. reflexivity.
  Qed.

  Lemma block_no_store mk keep l j :
    (forall x i, match mk x i with SStore _ _ => False | _ => True end) ->
    stores_at j (block mk keep l) = [].
  Proof.
    intros Hm. unfold stores_at, block. induction l as [|[i x] l IH]; [reflexivity|].
    cbn [flat_map snd fst]. rewrite flat_map_app, IH, app_nil_r.
    destruct (keep x); [|reflexivity]. cbn [flat_map]. specialize (Hm x i).
    destruct (mk x i); try reflexivity. destruct Hm.
  Qed.
End Generic.

(* ---------- small facts about the model queries ---------- *)
Lemma map_snd_enum_from {A} (l : list A) : forall n, map snd (enum_from n l) = l.
Proof. induction l as [|x l IH]; intros n; simpl; [reflexivity|]. rewrite IH. reflexivity. Qed.

Lemma filter_filter_absorb {A} (p q : A -> bool) l :
  (forall x, p x = true -> q x = true) -> filter p (filter q l) = filter p l.
Proof.
  intros H. induction l as [|x l IH]; simpl; [reflexivity|].
  destruct (q x) eqn:Eq; simpl.
  - destruct (p x); [rewrite IH|]; auto.
  - destruct (p x) eqn:Ep; [rewrite (H x Ep) in Eq; discriminate|exact IH].
Qed.

Lemma NoDup_map_inj_on {A B} (f : A -> B) l :
  (forall x y, In x l -> In y l -> f x = f y -> x = y) -> NoDup l -> NoDup (map f l).
Proof.
  intros Hinj Hnd. induction l as [|x l IH]; simpl; [constructor|].
  inversion Hnd as [|? ? Hx Hnd']; subst. constructor.
  - intros Hc. apply in_map_iff in Hc. destruct Hc as [y [Hy1 Hy2]].
    assert (y = x) by (apply Hinj; [right; exact Hy2|left; reflexivity|exact Hy1]). subst y. contradiction.
  - apply IH; [|exact Hnd']. intros a b Ha Hb. apply Hinj; right; assumption.
Qed.

Lemma find_assign_Some o n :
  In n (map a_name (assigns o)) -> exists a, find_assign o n = Some a /\ a_name a = n /\ In a (assigns o).
Proof.
  unfold find_assign. intros H. apply in_map_iff in H. destruct H as [a0 [E H]].
  destruct (find (fun a => String.eqb (a_name a) n) (assigns o)) as [a|] eqn:Ef.
  - apply find_some in Ef. destruct Ef as [Ha Hn]. apply String.eqb_eq in Hn. exists a. auto.
  - exfalso. pose proof (find_none _ _ Ef a0 H) as Hc. simpl in Hc. rewrite E, String.eqb_refl in Hc. discriminate.
Qed.

Lemma find_assign_None o n : ~ In n (map a_name (assigns o)) -> find_assign o n = None.
Proof.
  unfold find_assign. intros H.
  destruct (find (fun a => String.eqb (a_name a) n) (assigns o)) as [a|] eqn:Ef; [|reflexivity].
  apply find_some in Ef. destruct Ef as [Ha Hn]. apply String.eqb_eq in Hn. exfalso. apply H.
  apply in_map_iff. exists a. auto.
Qed.

Lemma all_assign_names_In o n : In n (all_assign_names o) <-> In n (map a_name (assigns o)).
Proof.
  unfold all_assign_names, inter_names, deriv_names, assigns.
  rewrite map_app, !in_app_iff, !sort_names_In. tauto.
Qed.

Lemma missing_names_spec o x :
  In x (missing_names o) <->
  (exists a, In a (assigns o) /\ In x (vars (a_expr a))) /\ known_symbol o x = false.
Proof.
  unfold missing_names. rewrite sort_names_In, dedup_In, filter_In, in_flat_map.
  rewrite negb_true_iff. tauto.
Qed.

Lemma sorted_names_true o :
  sorted_names o true =
  match sorted_names o false with
  | Some l => Some (filter (fun n => negb (is_inter_name o n) || used o n) l)
  | None => None
  end.
Proof. unfold sorted_names. destruct (static_order _); reflexivity. Qed.

Definition st_of (n : string) : string := match deriv_state n with Some s => s | None => "" end.

Lemma sorted_states_eq o :
  sorted_states o =
  match sorted_names o false with
  | Some l => Some (map st_of (filter (is_deriv_name o) l))
  | None => None
  end.
Proof. reflexivity. Qed.

Definition resv (wd : bool) (x : string) : bool := (wd && String.eqb x "dt") || reserved_time x.

Lemma reserved_mem {T} (inp : inputs T) wd x : mem x (reserved inp wd) = resv wd x.
Proof.
  unfold reserved, resv, reserved_time.
  destruct wd; cbn; destruct (String.eqb x "dt"), (String.eqb x "t"), (String.eqb x "time"); reflexivity.
Qed.

Lemma keep_used o ru' n a y :
  find_assign o n = Some a -> In y (vars (a_expr a)) -> condition o ru' y = true.
Proof.
  intros Hfa Hy. unfold condition. destruct ru'; [|reflexivity].
  unfold used. apply existsb_exists. exists a. split.
  - unfold find_assign in Hfa. apply find_some in Hfa. exact (proj1 Hfa).
  - apply mem_In. exact Hy.
Qed.

(* the three bodies are one loop: a let per name, and a store for the selected ones *)
Fixpoint gen_body (o : ode) (sel : string -> bool) (upd : string -> expr) (l : list string) (idx : nat)
  : list stmt :=
  match l with
  | [] => []
  | n :: l' =>
      if sel n then SLet n (a_expr_of o n) :: SStore idx (upd n) :: gen_body o sel upd l' (S idx)
      else SLet n (a_expr_of o n) :: gen_body o sel upd l' idx
  end.

Lemma rhs_body_gen o l : forall idx, rhs_body o l idx = gen_body o (is_deriv_name o) EVar l idx.
Proof. induction l as [|n l IH]; intros idx; simpl; [reflexivity|]. rewrite !IH. reflexivity. Qed.
Lemma euler_body_gen o l : forall idx, euler_body o l idx = gen_body o (is_deriv_name o) euler_update l idx.
Proof. induction l as [|n l IH]; intros idx; simpl; [reflexivity|]. rewrite !IH. reflexivity. Qed.
Lemma monitor_body_gen o l : forall idx, monitor_body o l idx = gen_body o (fun _ => true) EVar l idx.
Proof. induction l as [|n l IH]; intros idx; simpl; [reflexivity|]. rewrite !IH. reflexivity. Qed.

Lemma gen_body_stores o sel upd : forall l idx i,
  stores_at i (gen_body o sel upd l idx) =
  if Nat.leb idx i && Nat.ltb i (idx + length (filter sel l))
  then [upd (nth (i - idx) (filter sel l) "")] else [].
Proof.
  induction l as [|n l IH]; intros idx i.
  - simpl. rewrite Nat.add_0_r. destruct (Nat.leb_spec idx i), (Nat.ltb_spec i idx); simpl; try reflexivity; lia.
  - cbn [gen_body filter]. destruct (sel n).
    + unfold stores_at in *. cbn [flat_map]. rewrite IH. cbn [app length].
      destruct (Nat.eqb_spec i idx) as [->|Hne].
      * replace (idx - idx) with 0 by lia. cbn [nth].
        destruct (Nat.leb_spec idx idx), (Nat.ltb_spec idx (idx + S (length (filter sel l)))); try lia.
        destruct (Nat.leb_spec (S idx) idx); try lia. reflexivity.
      * destruct (Nat.leb_spec idx i), (Nat.ltb_spec i (idx + S (length (filter sel l)))),
                 (Nat.leb_spec (S idx) i), (Nat.ltb_spec i (S idx + length (filter sel l)));
          simpl; try reflexivity; try lia.
        replace (i - idx) with (S (i - S idx)) by lia. reflexivity.
    + unfold stores_at in *. cbn [flat_map]. rewrite IH. reflexivity.
Qed.

Section PP.
  (* the part that needs only the slot table: names unique, none reserved, slots = states, no slot twice *)
  Context {T : Type} (o : ode) (wd : bool) (ss : list string) (inp : inputs T).
  Hypothesis W1 : NoDup (all_names o).
  Hypothesis W2 : forall x, In x (all_names o) -> resv wd x = false.
  Hypothesis W3 : forall s, In s ss <-> In s (map d_name (o_states o)).
  Hypothesis ss_nodup : NoDup ss.
  Hypothesis W5 : forall x, In x (missing_names o) -> resv wd x = false.

  Let snames := map d_name (o_states o).
  Let pnames := map d_name (o_params o).
  Let anames := map a_name (assigns o).

  Lemma all_names_eq_g : all_names o = snames ++ pnames ++ anames.
  Proof. reflexivity. Qed.

  Lemma nd_parts_g :
    NoDup snames /\ NoDup pnames /\ NoDup anames
    /\ (forall x, In x snames -> ~ In x pnames) /\ (forall x, In x snames -> ~ In x anames)
    /\ (forall x, In x pnames -> ~ In x anames).
  Proof.
    pose proof W1 as H. rewrite all_names_eq_g in H.
    destruct (NoDup_app_elim _ _ H) as (H1 & H2 & H3).
    destruct (NoDup_app_elim _ _ H2) as (H4 & H5 & H6).
    repeat split; try assumption.
    - intros x Hx Hc. apply (H3 x Hx). apply in_or_app. left. exact Hc.
    - intros x Hx Hc. apply (H3 x Hx). apply in_or_app. right. exact Hc.
  Qed.

  Notation vb := (valid_body o ss inp wd).
  Notation oks := (ok_stmt o ss inp wd).
  Notation d0 := (reserved inp wd).
  Notation nret := (length (state_names o)).

  Lemma in_all_s_g x : In x snames -> In x (all_names o).
  Proof. intros H. rewrite all_names_eq_g. apply in_or_app. left. exact H. Qed.
  Lemma in_all_p_g x : In x pnames -> In x (all_names o).
  Proof. intros H. rewrite all_names_eq_g. apply in_or_app. right. apply in_or_app. left. exact H. Qed.
  Lemma in_all_a_g x : In x anames -> In x (all_names o).
  Proof. intros H. rewrite all_names_eq_g. apply in_or_app. right. apply in_or_app. right. exact H. Qed.

  Lemma not_reserved_g x : In x (all_names o) -> mem x d0 = false.
  Proof. intros H. rewrite reserved_mem. exact (W2 x H). Qed.

  Lemma is_assign_false_g x : ~ In x anames -> is_assign o x = false.
  Proof. intros H. unfold is_assign. rewrite (find_assign_None o x H). reflexivity. Qed.

  Lemma okS_g nr i x d' : In (i, x) (enumerate ss) -> ~ In x d' -> oks nr d' (SUnpackS x i) = true.
  Proof.
    intros Hin Hd. apply enumerate_nth in Hin.
    assert (Hxs : In x snames) by (apply W3; eapply nth_error_In; eauto).
    destruct nd_parts_g as (_ & _ & _ & _ & Hsa & _).
    unfold ok_stmt. rewrite (proj2 (mem_false_In x d') Hd), (not_reserved_g x (in_all_s_g x Hxs)),
      (is_assign_false_g x (Hsa x Hxs)), (NoDup_index_of ss i x ss_nodup Hin).
    simpl. apply Nat.eqb_refl.
  Qed.

  Lemma okP_g nr i x d' : In (i, x) (enumerate (param_names o)) -> ~ In x d' -> oks nr d' (SUnpackP x i) = true.
  Proof.
    intros Hin Hd. apply enumerate_nth in Hin.
    assert (Hxp : In x pnames).
    { apply nth_error_In in Hin. unfold param_names in Hin. rewrite sort_names_In in Hin. exact Hin. }
    destruct nd_parts_g as (_ & Hnp & _ & Hsp & _ & Hpa).
    assert (Hns : mem x ss = false).
    { apply mem_false_In. intros Hc. apply W3 in Hc. exact (Hsp x Hc Hxp). }
    assert (Hndp : NoDup (param_names o)) by (apply sort_names_NoDup; exact Hnp).
    unfold ok_stmt. rewrite (proj2 (mem_false_In x d') Hd), (not_reserved_g x (in_all_p_g x Hxp)),
      (is_assign_false_g x (Hpa x Hxp)), Hns, (NoDup_index_of _ i x Hndp Hin).
    simpl. apply Nat.eqb_refl.
  Qed.

  Lemma missing_unknown_g x : In x (missing_names o) ->
    ~ In x pnames /\ ~ In x snames /\ ~ In x anames /\ reserved_time x = false.
  Proof.
    intros H. apply missing_names_spec in H. destruct H as [_ H]. unfold known_symbol in H.
    repeat (apply orb_false_iff in H; destruct H as [H ?]).
    repeat split; try (apply mem_false_In; assumption).
    unfold reserved_time. rewrite H0, H1. reflexivity.
  Qed.

  Lemma okM_g nr i x d' : In (i, x) (enumerate (missing_names o)) -> ~ In x d' -> oks nr d' (SUnpackM x i) = true.
  Proof.
    intros Hin Hd. apply enumerate_nth in Hin.
    destruct (missing_unknown_g x (nth_error_In _ _ Hin)) as (Hp & Hs & Ha & Hr).
    assert (Hns : mem x ss = false).
    { apply mem_false_In. intros Hc. apply W3 in Hc. contradiction. }
    assert (Hnp : mem x (param_names o) = false).
    { apply mem_false_In. intros Hc. unfold param_names in Hc. rewrite sort_names_In in Hc. contradiction. }
    assert (Hndm : NoDup (missing_names o)) by (apply sort_names_NoDup, dedup_NoDup).
    unfold ok_stmt. rewrite (proj2 (mem_false_In x d') Hd), reserved_mem, (W5 x (nth_error_In _ _ Hin)),
      (is_assign_false_g x Ha), Hns, Hnp, (NoDup_index_of _ i x Hndm Hin).
    simpl. apply Nat.eqb_refl.
  Qed.

  Section Prologue.
    Variables sk pk : string -> bool.
    Let bS := block SUnpackS sk (enumerate ss).
    Let bP := block SUnpackP pk (enumerate (param_names o)).
    Let bM := block SUnpackM keep_all (enumerate (missing_names o)).

    Lemma prologue_eq_g : prologue o ss sk pk = bS ++ bP ++ bM.
    Proof. reflexivity. Qed.

    Lemma in_enum_g {A} (l : list A) y : (exists i, In (i, y) (enumerate l)) <-> In y l.
    Proof.
      split.
      - intros [i H]. apply enumerate_nth in H. eapply nth_error_In; eauto.
      - intros H. apply In_nth_error in H. destruct H as [i H]. exists i. apply enumerate_nth. exact H.
    Qed.

    Lemma prologue_defs_g y :
      In y (defs_after (prologue o ss sk pk) d0) <->
      resv wd y = true \/ (sk y = true /\ In y ss) \/ (pk y = true /\ In y (param_names o))
      \/ In y (missing_names o).
    Proof.
      rewrite prologue_eq_g. unfold defs_after. rewrite !fold_left_app.
      fold (defs_after bS d0). fold (defs_after bP (defs_after bS d0)).
      fold (defs_after bM (defs_after bP (defs_after bS d0))).
      unfold bM, bP, bS. rewrite !block_defs by reflexivity. rewrite !in_enum_g.
      rewrite <- (mem_In y d0), reserved_mem. unfold keep_all. tauto.
    Qed.

    Lemma prologue_valid_g nr : vb nr d0 (prologue o ss sk pk) = true.
    Proof.
      rewrite prologue_eq_g, !valid_body_app. repeat (apply andb_true_iff; split).
      - unfold bS. apply block_valid; [reflexivity| | |exact (okS_g nr)].
        + unfold enumerate. rewrite map_snd_enum_from. exact ss_nodup.
        + intros i x Hin. apply mem_false_In. apply not_reserved_g, in_all_s_g, W3.
          apply enumerate_nth in Hin. eapply nth_error_In; eauto.
      - unfold bP. apply block_valid; [reflexivity| | |exact (okP_g nr)].
        + unfold enumerate. rewrite map_snd_enum_from. apply sort_names_NoDup. exact (proj1 (proj2 nd_parts_g)).
        + intros i x Hin Hc. apply enumerate_nth in Hin. apply nth_error_In in Hin.
          unfold param_names in Hin. rewrite sort_names_In in Hin. fold pnames in Hin.
          unfold bS in Hc. rewrite block_defs in Hc by reflexivity. destruct Hc as [Hc|[_ Hc]].
          * apply mem_In in Hc. rewrite (not_reserved_g x (in_all_p_g x Hin)) in Hc. discriminate.
          * apply in_enum_g, W3 in Hc. destruct nd_parts_g as (_ & _ & _ & Hsp & _). exact (Hsp x Hc Hin).
      - unfold bM. apply block_valid; [reflexivity| | |exact (okM_g nr)].
        + unfold enumerate. rewrite map_snd_enum_from. apply sort_names_NoDup, dedup_NoDup.
        + intros i x Hin Hc. apply enumerate_nth in Hin. apply nth_error_In in Hin.
          destruct (missing_unknown_g x Hin) as (Hp & Hs & Ha & Hr).
          unfold bP, bS in Hc. rewrite !block_defs in Hc by reflexivity.
          destruct Hc as [[Hc|[_ Hc]]|[_ Hc]].
          * apply mem_In in Hc. rewrite reserved_mem, (W5 x Hin) in Hc. discriminate.
          * apply in_enum_g, W3 in Hc. contradiction.
          * apply in_enum_g in Hc. unfold param_names in Hc. rewrite sort_names_In in Hc. contradiction.
    Qed.

    Lemma prologue_no_store_g j : stores_at j (prologue o ss sk pk) = [].
    Proof.
      rewrite prologue_eq_g. unfold stores_at. rewrite !flat_map_app.
      fold (stores_at j bS). fold (stores_at j bP). fold (stores_at j bM).
      unfold bS, bP, bM. rewrite !block_no_store; [reflexivity| | |]; intros; exact I.
    Qed.
  End Prologue.

End PP.

Section Mirror.
  Context {T : Type} (o : ode) (ru wd : bool) (ss ord : list string) (inp : inputs T).
  Hypothesis Hss : sorted_states o = Some ss.
  Hypothesis Hord : sorted_names o ru = Some ord.
  (* well-formedness of the loaded model *)
  Hypothesis W1 : NoDup (all_names o).
  Hypothesis W2 : forall x, In x (all_names o) -> resv wd x = false.
  Hypothesis W3 : forall s, In s ss <-> In s (map d_name (o_states o)).
  Hypothesis W4 : forall n, In n (map a_name (o_derivs o)) -> deriv_name_of (st_of n) = n.
  Hypothesis W5 : forall x, In x (missing_names o) -> resv wd x = false.

  Let snames := map d_name (o_states o).
  Let pnames := map d_name (o_params o).
  Let anames := map a_name (assigns o).
  Let isd := is_deriv_name o.
  Let dl := filter isd ord.
  Notation nd_parts := (nd_parts_g o W1).
  Notation in_all_s := (in_all_s_g o).
  Notation in_all_p := (in_all_p_g o).
  Notation in_all_a := (in_all_a_g o).
  Notation missing_unknown := (missing_unknown_g o).
  Notation is_assign_false := (is_assign_false_g o).
  Notation all_names_eq := (all_names_eq_g o).

  Lemma inter_deriv_disjoint x : In x (map a_name (o_derivs o)) -> is_inter_name o x = false.
  Proof.
    intros Hx. destruct nd_parts as (_ & _ & Ha & _). unfold anames, assigns in Ha. rewrite map_app in Ha.
    destruct (NoDup_app_elim _ _ Ha) as (_ & _ & Hd).
    unfold is_inter_name. apply mem_false_In. intros Hc. exact (Hd x Hc Hx).
  Qed.

  Lemma ss_eq : ss = map st_of dl.
  Proof.
    pose proof Hss as H1. pose proof Hord as H2. rewrite sorted_states_eq in H1. unfold dl, isd.
    destruct ru eqn:Eru.
    - rewrite sorted_names_true in H2. destruct (sorted_names o false) as [l|]; [|discriminate].
      injection H2 as <-. injection H1 as <-. rewrite filter_filter_absorb; [reflexivity|].
      intros x Hx. unfold is_deriv_name in Hx. apply mem_In in Hx.
      rewrite (inter_deriv_disjoint x Hx). reflexivity.
    - rewrite H2 in H1. injection H1 as <-. reflexivity.
  Qed.

  Lemma ord_sound :
    NoDup ord
    /\ (forall n, In n ord -> In n anames)
    /\ (forall n, In n anames -> ru = false \/ is_inter_name o n = false \/ used o n = true -> In n ord)
    /\ (forall pre n post, ord = pre ++ n :: post ->
          forall d, In d (deps_of o n) -> In d anames -> In d pre).
  Proof.
    destruct (sorted_names_sound o ru ord Hord) as (H1 & H2 & H3 & H4).
    split; [exact H1|]. split; [|split].
    - intros n Hn. apply all_assign_names_In. exact (H2 n Hn).
    - intros n Hn. apply H3. apply all_assign_names_In. exact Hn.
    - intros pre n post E d Hd Hda. apply (H4 pre n post E d Hd). apply all_assign_names_In. exact Hda.
  Qed.

  Lemma dl_derivs n : In n dl <-> In n (map a_name (o_derivs o)).
  Proof.
    unfold dl, isd. rewrite filter_In. unfold is_deriv_name. rewrite mem_In.
    destruct ord_sound as (_ & H2 & H3 & _). split; [tauto|]. intros H. split; [|exact H].
    apply H3.
    - unfold anames, assigns. rewrite map_app. apply in_or_app. right. exact H.
    - right. left. apply inter_deriv_disjoint. exact H.
  Qed.

  Lemma dl_nodup : NoDup dl.
  Proof. unfold dl. apply NoDup_filter. exact (proj1 ord_sound). Qed.

  Lemma ss_nodup : NoDup ss.
  Proof.
    rewrite ss_eq. apply NoDup_map_inj_on; [|exact dl_nodup].
    intros x y Hx Hy E. apply dl_derivs in Hx. apply dl_derivs in Hy.
    rewrite <- (W4 x Hx), <- (W4 y Hy), E. reflexivity.
  Qed.

  Lemma ss_length : length ss = length (state_names o).
  Proof.
    unfold state_names. rewrite sort_names_length. fold snames.
    apply Permutation_length. apply NoDup_Permutation; [exact ss_nodup|exact (proj1 nd_parts)|exact W3].
  Qed.

  Lemma dl_length : length dl = length ss.
  Proof. rewrite ss_eq, map_length. reflexivity. Qed.

  Notation vb := (valid_body o ss inp wd).
  Notation oks := (ok_stmt o ss inp wd).
  Notation d0 := (reserved inp wd).
  Notation nret := (length (state_names o)).
  Notation prologue_valid := (prologue_valid_g o wd ss inp W1 W2 W3 ss_nodup W5).
  Notation prologue_defs := (prologue_defs_g o wd ss inp).
  Notation prologue_no_store := (prologue_no_store_g o ss).
  (* ---------- the statements of the body ---------- *)
  Lemma a_expr_of_eq n a : find_assign o n = Some a -> a_expr_of o n = a_expr a.
  Proof. intros H. unfold a_expr_of. rewrite H. reflexivity. Qed.

  Lemma gen_body_valid sel upd nr : forall l D idx,
    NoDup l -> (forall n, In n l -> In n anames /\ ~ In n D) ->
    (forall pre n post, l = pre ++ n :: post ->
       forall y, In y (vars (a_expr_of o n)) -> In y D \/ In y pre) ->
    (forall n y, In n l -> sel n = true -> In y (vars (upd n)) -> y = n \/ In y D) ->
    idx + length (filter sel l) <= nr ->
    vb nr D (gen_body o sel upd l idx) = true.
  Proof.
    induction l as [|n l IH]; intros D idx Hnd Hin Hdeps Hupd Hlen; [reflexivity|].
    inversion Hnd as [|? ? Hn Hnd']; subst.
    destruct (Hin n (or_introl eq_refl)) as [Hna HnD].
    destruct (find_assign_Some o n Hna) as (a & Hfa & _ & _).
    assert (Hlet : oks nr D (SLet n (a_expr_of o n)) = true).
    { unfold ok_stmt. rewrite (proj2 (mem_false_In n D) HnD), Hfa, (a_expr_of_eq n a Hfa), expr_eqb_refl.
      simpl. apply forallb_forall. intros y Hy. apply mem_In.
      rewrite <- (a_expr_of_eq n a Hfa) in Hy.
      destruct (Hdeps [] n l eq_refl y Hy) as [H|[]]. exact H. }
    assert (Htail : forall idx', idx' + length (filter sel l) <= nr ->
                                 vb nr (n :: D) (gen_body o sel upd l idx') = true).
    { intros idx' Hl. apply IH; [exact Hnd'| | | |exact Hl].
      - intros m Hm. split; [exact (proj1 (Hin m (or_intror Hm)))|].
        intros [E|Hc]; [subst m; contradiction|]. exact (proj2 (Hin m (or_intror Hm)) Hc).
      - intros pre m post E y Hy.
        destruct (Hdeps (n :: pre) m post (f_equal (cons n) E) y Hy) as [H|[H|H]].
        + left. right. exact H.
        + left. left. exact H.
        + right. exact H.
      - intros m y Hm Hs Hy. destruct (Hupd m y (or_intror Hm) Hs Hy) as [H|H]; [left; exact H|right; right; exact H]. }
    cbn [gen_body]. cbn [filter] in Hlen. destruct (sel n) eqn:En.
    - cbn [length] in Hlen. cbn [valid_body binds app]. rewrite Hlet. cbn [andb].
      assert (Hst : oks nr (n :: D) (SStore idx (upd n)) = true).
      { unfold ok_stmt. apply andb_true_iff. split.
        - apply forallb_forall. intros y Hy. apply mem_In.
          destruct (Hupd n y (or_introl eq_refl) En Hy) as [->|H]; [left; reflexivity|right; exact H].
        - apply Nat.ltb_lt. lia. }
      rewrite Hst. cbn [andb]. apply Htail. lia.
    - cbn [valid_body binds app]. rewrite Hlet. cbn [andb]. apply Htail. exact Hlen.
  Qed.

  (* what the prologue leaves defined is enough for every assignment of the order *)
  Section Body.
    Variables sk pk : string -> bool.
    Hypothesis sk_ok : forall n a y, find_assign o n = Some a -> In y (vars (a_expr a)) -> sk y = true.
    Hypothesis pk_ok : forall n a y, find_assign o n = Some a -> In y (vars (a_expr a)) -> pk y = true.
    Notation D := (defs_after (prologue o ss sk pk) d0).

    Lemma ord_fresh n : In n ord -> In n anames /\ ~ In n D.
    Proof.
      destruct ord_sound as (_ & Oin & _). destruct nd_parts as (_ & _ & _ & _ & Hsa & Hpa).
      intros Hn. pose proof (Oin n Hn) as Hna. split; [exact Hna|]. intros Hc. apply prologue_defs in Hc.
      destruct Hc as [Hc|[[_ Hc]|[[_ Hc]|Hc]]].
      - rewrite (W2 n (in_all_a n Hna)) in Hc. discriminate.
      - apply W3 in Hc. exact (Hsa n Hc Hna).
      - unfold param_names in Hc. rewrite sort_names_In in Hc. exact (Hpa n Hc Hna).
      - destruct (missing_unknown n Hc) as (_ & _ & Ha & _). contradiction.
    Qed.

    Lemma ord_deps pre n post :
      ord = pre ++ n :: post -> forall y, In y (vars (a_expr_of o n)) -> In y D \/ In y pre.
    Proof.
      destruct ord_sound as (_ & Oin & _ & Otopo). intros E y Hy.
      assert (Hn : In n ord) by (rewrite E; apply in_elt).
      destruct (find_assign_Some o n (Oin n Hn)) as (a & Hfa & _ & Haa).
      rewrite (a_expr_of_eq n a Hfa) in Hy.
      destruct (known_symbol o y) eqn:Ek.
      - unfold known_symbol in Ek.
        destruct (mem y (map a_name (assigns o))) eqn:Ea.
        + right. apply mem_In in Ea. apply (Otopo pre n post E y); [|exact Ea].
          unfold deps_of. rewrite Hfa. unfold adeps. rewrite sort_names_In, dedup_In. exact Hy.
        + left. apply prologue_defs. rewrite orb_false_r in Ek.
          apply orb_true_iff in Ek. destruct Ek as [Ek|Et].
          * apply orb_true_iff in Ek. destruct Ek as [Ek|Etime].
            -- apply orb_true_iff in Ek. destruct Ek as [Ep|Es].
               ++ right. right. left. split; [exact (pk_ok n a y Hfa Hy)|].
                  apply mem_In in Ep. unfold param_names. rewrite sort_names_In. exact Ep.
               ++ right. left. split; [exact (sk_ok n a y Hfa Hy)|]. apply W3. apply mem_In. exact Es.
            -- left. unfold resv, reserved_time. rewrite Etime, !orb_true_r. reflexivity.
          * left. unfold resv, reserved_time. rewrite Et, !orb_true_r. reflexivity.
      - left. apply prologue_defs. right. right. right. apply missing_names_spec.
        split; [exists a; split; assumption|exact Ek].
    Qed.

    Lemma whole_body_valid sel upd nr :
      (forall n y, In n ord -> sel n = true -> In y (vars (upd n)) -> y = n \/ In y D) ->
      length (filter sel ord) <= nr ->
      vb nr d0 (prologue o ss sk pk ++ gen_body o sel upd ord 0) = true.
    Proof.
      intros Hupd Hlen. rewrite valid_body_app, (prologue_valid sk pk nr). cbn [andb].
      apply gen_body_valid; [exact (proj1 ord_sound)|exact ord_fresh|exact ord_deps|exact Hupd|exact Hlen].
    Qed.

    Lemma whole_body_slot sel upd i :
      i < length (filter sel ord) ->
      stores_at i (prologue o ss sk pk ++ gen_body o sel upd ord 0) = [upd (nth i (filter sel ord) "")].
    Proof.
      intros Hi. unfold stores_at. rewrite flat_map_app. fold (stores_at i (prologue o ss sk pk)).
      fold (stores_at i (gen_body o sel upd ord 0)). rewrite prologue_no_store, gen_body_stores. cbn [app].
      destruct (Nat.leb_spec 0 i) as [_|]; [|lia].
      destruct (Nat.ltb_spec i (0 + length (filter sel ord))) as [_|]; [|lia].
      cbn [andb]. rewrite Nat.sub_0_r. reflexivity.
    Qed.
  End Body.

  Lemma nth_dl i : i < length dl ->
    In (nth i dl "") (map a_name (o_derivs o)) /\ nth_error ss i = Some (st_of (nth i dl "")).
  Proof.
    intros Hi. split; [apply dl_derivs, nth_In; exact Hi|].
    rewrite ss_eq, nth_error_map, (nth_error_nth' dl "" Hi). reflexivity.
  Qed.

  (* ---------- rhs ---------- *)
  Theorem gen_rhs_valid order f :
    gen_rhs o ru order = Some f -> valid_rhs o ss inp wd f = true.
  Proof.
    unfold gen_rhs. rewrite Hss, Hord. intros H. injection H as <-.
    unfold valid_rhs, valid_fun. cbn [f_nret f_body]. rewrite rhs_body_gen. fold isd.
    repeat (apply andb_true_iff; split).
    - apply Nat.eqb_eq. symmetry. exact ss_length.
    - apply whole_body_valid; try (intros n a y; apply keep_used).
      + intros n y _ _ [<-|[]]. left. reflexivity.
      + fold dl. rewrite dl_length, ss_length. apply le_n.
    - unfold slots_ok. apply forallb_forall. intros i Hi. apply in_seq in Hi.
      assert (Hidl : i < length dl) by (rewrite dl_length, ss_length; lia).
      rewrite whole_body_slot by exact Hidl. fold dl.
      destruct (nth_dl i Hidl) as [Hd Hs].
      unfold ok_rhs. rewrite Hs, (W4 _ Hd). cbn [is_var]. rewrite String.eqb_refl. cbn [andb].
      unfold is_deriv_name. apply mem_In. exact Hd.
  Qed.

  (* ---------- explicit Euler ---------- *)
  Theorem gen_euler_valid name order f :
    wd = true -> gen_euler o ru name order = Some f -> valid_euler o ss inp wd f = true.
  Proof.
    intros Hwd. unfold gen_euler. rewrite Hss, Hord. intros H. injection H as <-.
    unfold valid_euler, valid_fun. cbn [f_nret f_body]. rewrite euler_body_gen. fold isd.
    repeat (apply andb_true_iff; split).
    - apply Nat.eqb_eq. symmetry. exact ss_length.
    - apply whole_body_valid; try (intros n a y; apply keep_used); try (intros; reflexivity).
      + intros n y Hn Hsel Hy. unfold euler_update in Hy. cbn [vars app] in Hy.
        fold (st_of n) in Hy. destruct Hy as [<-|[<-|[<-|[]]]].
        * right. apply prologue_defs. right. left. split; [reflexivity|].
          assert (Hnd : In n dl) by (unfold dl; apply filter_In; split; assumption).
          rewrite ss_eq. apply in_map. exact Hnd.
        * right. apply prologue_defs. left. unfold resv. rewrite Hwd. reflexivity.
        * left. reflexivity.
      + fold dl. rewrite dl_length, ss_length. apply le_n.
    - unfold slots_ok. apply forallb_forall. intros i Hi. apply in_seq in Hi.
      assert (Hidl : i < length dl) by (rewrite dl_length, ss_length; lia).
      rewrite whole_body_slot by exact Hidl. fold dl.
      destruct (nth_dl i Hidl) as [Hd Hs].
      unfold ok_euler. rewrite Hs. unfold euler_update. fold (st_of (nth i dl "")).
      cbn [is_euler is_var is_dt_mul]. rewrite (W4 _ Hd), !String.eqb_refl. cbn [andb orb].
      unfold is_deriv_name. apply mem_In. exact Hd.
  Qed.

  (* ---------- monitor_values ---------- *)
  Lemma filter_all (l : list string) : filter (fun _ => true) l = l.
  Proof. induction l as [|x l IH]; simpl; [reflexivity|]. rewrite IH. reflexivity. Qed.

  Lemma ord_length : ru = false -> length ord = length (o_inters o) + length (o_derivs o).
  Proof.
    intros Hru. destruct ord_sound as (Ond & Oin & Oall & _). destruct nd_parts as (_ & _ & Ha & _).
    rewrite <- app_length. fold (assigns o). rewrite <- (map_length a_name (assigns o)). fold anames.
    apply Permutation_length. apply NoDup_Permutation; [exact Ond|exact Ha|].
    intros n. split; [apply Oin|]. intros Hn. apply Oall; [exact Hn|left; exact Hru].
  Qed.

  Theorem gen_monitor_valid ru' order f :
    ru = false -> gen_monitor o ru' order = Some f -> valid_named o ss inp wd ord f = true.
  Proof.
    intros Hru. pose proof Hord as H0. rewrite Hru in H0.
    unfold gen_monitor. rewrite Hss, H0. intros H. injection H as <-.
    unfold valid_named, valid_fun. cbn [f_nret f_body]. rewrite monitor_body_gen.
    repeat (apply andb_true_iff; split).
    - apply Nat.eqb_eq. symmetry. exact (ord_length Hru).
    - apply whole_body_valid; try (intros n a y; apply keep_used); try (intros; reflexivity).
      + intros n y _ _ [<-|[]]. left. reflexivity.
      + rewrite filter_all, (ord_length Hru). apply le_n.
    - unfold slots_ok. apply forallb_forall. intros i Hi. apply in_seq in Hi.
      assert (Hio : i < length ord) by (rewrite (ord_length Hru); lia).
      rewrite whole_body_slot by (rewrite filter_all; exact Hio). rewrite filter_all.
      unfold ok_name. rewrite (nth_error_nth' ord "" Hio). cbn [is_var]. apply String.eqb_refl.
  Qed.

  (* ---------- missing_values ---------- *)
  Section Missing.
    Variable req : list (string * nat).
    Variable ru' : bool.
    Variable tbl : list string.
    Hypothesis Hru : ru = false.
    Hypothesis R1 : NoDup (keys req).
    Hypothesis R2 : forall x i, lookup x req = Some i -> i < length req.
    Hypothesis R3 : forall x y i, lookup x req = Some i -> lookup y req = Some i -> x = y.
    Hypothesis R4 : forall x, In x (keys req) -> In x snames \/ In x pnames \/ In x anames.
    Hypothesis T1 : length tbl = length req.
    Hypothesis T2 : forall i x, nth_error tbl i = Some x -> lookup x req = Some i.

    Notation NN := (length req).
    Let pkm := fun x => condition o ru' x || mem x (keys req).
    Notation Dm := (defs_after (prologue o ss keep_all pkm) d0).

    Definition rq_store (x : string) : list stmt :=
      match lookup x req with Some i => [SStore i (EVar x)] | None => [] end.
    Definition mv_full (l : list string) : list stmt :=
      flat_map (fun x => SLet x (a_expr_of o x) :: rq_store x) l.

    Lemma lookup_keys x i : lookup x req = Some i -> In x (keys req).
    Proof.
      intros H. destruct (in_dec string_dec x (keys req)) as [Hi|Hn]; [exact Hi|].
      apply lookup_None_keys in Hn. congruence.
    Qed.

    (* the loop emits a prefix of the full body *)
    Lemma mv_loop_prefix : forall l n, exists rest, mv_full l = mv_loop o req l n NN ++ rest.
    Proof.
      induction l as [|x l IH]; intros n; [exists []; reflexivity|].
      cbn [mv_loop mv_full flat_map]. unfold rq_store at 1.
      set (here := SLet x (a_expr_of o x) :: match lookup x req with Some i => [SStore i (EVar x)] | None => [] end).
      set (n' := match lookup x req with Some _ => S n | None => n end).
      fold (mv_full l). destruct (Nat.leb NN n').
      - exists (mv_full l). reflexivity.
      - destruct (IH n') as [rest E]. exists rest. rewrite E, app_assoc. reflexivity.
    Qed.

    Lemma rq_store_ok D x : In x D -> vb NN D (rq_store x) = true.
    Proof.
      intros Hx. unfold rq_store. destruct (lookup x req) as [i|] eqn:E; [|reflexivity].
      cbn [valid_body ok_stmt vars forallb]. rewrite (proj2 (mem_In x D) Hx). cbn [andb binds app].
      rewrite (proj2 (Nat.ltb_lt i NN) (R2 x i E)). reflexivity.
    Qed.

    Lemma rq_store_defs D x : defs_after (rq_store x) D = D.
    Proof. unfold rq_store. destruct (lookup x req); reflexivity. Qed.

    Lemma mv_full_valid : forall l D,
      NoDup l -> (forall n, In n l -> In n anames /\ ~ In n D) ->
      (forall pre n post, l = pre ++ n :: post ->
         forall y, In y (vars (a_expr_of o n)) -> In y D \/ In y pre) ->
      vb NN D (mv_full l) = true.
    Proof.
      induction l as [|n l IH]; intros D Hnd Hin Hdeps; [reflexivity|].
      inversion Hnd as [|? ? Hn Hnd']; subst.
      destruct (Hin n (or_introl eq_refl)) as [Hna HnD].
      destruct (find_assign_Some o n Hna) as (a & Hfa & _ & _).
      assert (Hlet : oks NN D (SLet n (a_expr_of o n)) = true).
      { unfold ok_stmt. rewrite (proj2 (mem_false_In n D) HnD), Hfa, (a_expr_of_eq n a Hfa), expr_eqb_refl.
        simpl. apply forallb_forall. intros y Hy. apply mem_In.
        rewrite <- (a_expr_of_eq n a Hfa) in Hy.
        destruct (Hdeps [] n l eq_refl y Hy) as [H|[]]. exact H. }
      cbn [mv_full flat_map]. fold (mv_full l). cbn [app valid_body binds]. rewrite Hlet. cbn [andb].
      rewrite valid_body_app, (rq_store_ok (n :: D) n (or_introl eq_refl)), rq_store_defs. cbn [andb].
      apply IH; [exact Hnd'| |].
      - intros m Hm. split; [exact (proj1 (Hin m (or_intror Hm)))|].
        intros [E|Hc]; [subst m; contradiction|]. exact (proj2 (Hin m (or_intror Hm)) Hc).
      - intros pre m post E y Hy.
        destruct (Hdeps (n :: pre) m post (f_equal (cons n) E) y Hy) as [H|[H|H]].
        + left. right. exact H.
        + left. left. exact H.
        + right. exact H.
    Qed.

    (* ---------- how far the loop runs ---------- *)
    Definition isreq (x : string) : bool := match lookup x req with Some _ => true | None => false end.
    Definition creq (l : list string) : nat := length (filter isreq l).

    Lemma isreq_keys x : isreq x = true <-> In x (keys req).
    Proof.
      unfold isreq. destruct (lookup x req) as [i|] eqn:E.
      - split; [intros _; exact (lookup_keys x i E)|reflexivity].
      - split; [discriminate|]. intros H. apply lookup_None_keys in E. contradiction.
    Qed.

    Lemma mv_loop_shape : forall l n, exists P rest,
      l = P ++ rest /\ mv_loop o req l n NN = mv_full P /\ (rest = [] \/ NN <= n + creq P).
    Proof.
      induction l as [|x l IH]; intros n.
      - exists [], []. split; [reflexivity|]. split; [reflexivity|left; reflexivity].
      - cbn [mv_loop].
        set (here := SLet x (a_expr_of o x) :: match lookup x req with Some i => [SStore i (EVar x)] | None => [] end).
        set (n' := match lookup x req with Some _ => S n | None => n end).
        assert (Hn' : n' = n + creq [x]).
        { unfold n', creq, isreq. simpl. destruct (lookup x req); simpl; lia. }
        assert (Hhere : here = mv_full [x]).
        { unfold mv_full, here, rq_store. simpl. rewrite app_nil_r. reflexivity. }
        destruct (Nat.leb_spec NN n') as [Hle|Hgt].
        + exists [x], l. split; [reflexivity|]. split; [exact Hhere|right; lia].
        + destruct (IH n') as (P & rest & E & EL & Hc). exists (x :: P), rest.
          split; [simpl; rewrite E; reflexivity|]. split.
          * rewrite EL, Hhere. unfold mv_full. simpl. rewrite app_nil_r. reflexivity.
          * destruct Hc as [Hc|Hc]; [left; exact Hc|right].
            unfold creq in *. simpl. simpl in Hn'. destruct (isreq x); simpl in *; lia.
    Qed.

    Lemma creq_app l1 l2 : creq (l1 ++ l2) = creq l1 + creq l2.
    Proof. unfold creq. rewrite filter_app, app_length. reflexivity. Qed.

    (* every requested name occurs in a duplicate-free list of all names exactly once *)
    Lemma creq_total L : NoDup L -> (forall x, In x (keys req) -> In x L) -> creq L = NN.
    Proof.
      intros Hnd Hall. unfold creq. rewrite <- (map_length fst req). fold (keys req).
      apply Permutation_length. apply NoDup_Permutation; [apply NoDup_filter; exact Hnd|exact R1|].
      intros x. rewrite filter_In, isreq_keys. split; [tauto|]. intros H. split; [apply Hall; exact H|exact H].
    Qed.

    (* ---------- which statement writes slot i ---------- *)
    Lemma rq_store_at i x y : lookup x req = Some i ->
      stores_at i (rq_store y) = if String.eqb y x then [EVar x] else [].
    Proof.
      intros Hx. unfold rq_store, stores_at. destruct (lookup y req) as [j|] eqn:Ey; simpl.
      - destruct (Nat.eqb_spec i j) as [->|Hne].
        + rewrite (R3 y x j Ey Hx), String.eqb_refl. reflexivity.
        + destruct (String.eqb_spec y x) as [->|_]; [congruence|reflexivity].
      - destruct (String.eqb_spec y x) as [->|_]; [congruence|reflexivity].
    Qed.

    Lemma stores_at_app i b1 b2 : stores_at i (b1 ++ b2) = stores_at i b1 ++ stores_at i b2.
    Proof. unfold stores_at. apply flat_map_app. Qed.

    Lemma stores_flat (f : string -> list stmt) i x L :
      lookup x req = Some i -> NoDup L ->
      (forall y, stores_at i (f y) = stores_at i (rq_store y)) ->
      stores_at i (flat_map f L) = if mem x L then [EVar x] else [].
    Proof.
      intros Hx Hnd Hf. induction L as [|y L IH]; [reflexivity|].
      inversion Hnd as [|? ? Hy Hnd']; subst. cbn [flat_map]. rewrite stores_at_app, Hf, (rq_store_at i x y Hx), (IH Hnd'), mem_cons.
      destruct (String.eqb_spec y x) as [->|Hne].
      - rewrite String.eqb_refl. rewrite (proj2 (mem_false_In x L) Hy). reflexivity.
      - destruct (String.eqb_spec x y) as [E|_]; [congruence|]. reflexivity.
    Qed.

    Lemma decl_names_nodup : NoDup (state_names o ++ param_names o).
    Proof.
      destruct nd_parts as (Hs & Hp & _ & Hsp & _).
      apply NoDup_app_intro; [apply sort_names_NoDup; exact Hs|apply sort_names_NoDup; exact Hp|].
      intros x Hx Hy. unfold state_names in Hx. unfold param_names in Hy.
      rewrite sort_names_In in Hx, Hy. exact (Hsp x Hx Hy).
    Qed.

    Lemma pkm_ok n a y : find_assign o n = Some a -> In y (vars (a_expr a)) -> pkm y = true.
    Proof. intros H1 H2. unfold pkm. rewrite (keep_used o ru' n a y H1 H2). reflexivity. Qed.

    Lemma keep_all_ok n a y : find_assign o n = Some a -> In y (vars (a_expr a)) -> keep_all y = true.
    Proof. reflexivity. Qed.

    Theorem gen_missing_valid order f :
      gen_missing_values o ru' req order = Some f -> valid_named o ss inp wd tbl f = true.
    Proof.
      pose proof Hord as H0. rewrite Hru in H0.
      unfold gen_missing_values. rewrite Hss, H0. intros H. injection H as <-.
      unfold valid_named, valid_fun. cbn [f_nret f_body]. fold pkm.
      destruct ord_sound as (Ond & Oin & Oall & _).
      destruct nd_parts as (Hnds & Hndp & _ & Hsp & Hsa & Hpa).
      set (pre := mv_decl_stores o req).
      assert (Hpre_len : length pre = creq (state_names o ++ param_names o)).
      { unfold pre, mv_decl_stores, creq, isreq. induction (state_names o ++ param_names o) as [|x l IH]; [reflexivity|].
        simpl. rewrite app_length, IH. destruct (lookup x req); reflexivity. }
      assert (Hpre_valid : vb NN Dm pre = true /\ defs_after pre Dm = Dm).
      { unfold pre, mv_decl_stores.
        change (fun x : string => match lookup x req with Some i => [SStore i (EVar x)] | None => [] end) with rq_store.
        assert (Gd : forall l, defs_after (flat_map rq_store l) Dm = Dm).
        { induction l as [|x l IH]; [reflexivity|]. cbn [flat_map]. unfold defs_after. rewrite fold_left_app.
          fold (defs_after (rq_store x) Dm). rewrite rq_store_defs. exact IH. }
        split; [|apply Gd].
        assert (G : forall l, (forall x, In x l -> In x (state_names o ++ param_names o)) -> vb NN Dm (flat_map rq_store l) = true).
        { induction l as [|x l IH]; intros Hl; [reflexivity|].
          cbn [flat_map]. rewrite valid_body_app, rq_store_defs, (IH (fun y Hy => Hl y (or_intror Hy))), andb_true_r.
          specialize (Hl x (or_introl eq_refl)). destruct (lookup x req) as [i|] eqn:E.
          - apply rq_store_ok. apply prologue_defs. apply in_app_or in Hl. destruct Hl as [Hl|Hl].
            + right. left. split; [reflexivity|]. apply W3. unfold state_names in Hl. rewrite sort_names_In in Hl. exact Hl.
            + right. right. left. split; [|exact Hl]. unfold pkm. rewrite (proj2 (mem_In x (keys req)) (lookup_keys x i E)). apply orb_true_r.
          - unfold rq_store. rewrite E. reflexivity. }
        apply G. auto. }
      destruct Hpre_valid as [Hpv Hpd].
      destruct (mv_loop_shape ord (length pre)) as (P & rest & EP & EL & Hstop).
      repeat (apply andb_true_iff; split).
      - apply Nat.eqb_eq. symmetry. exact T1.
      - unfold mv_body. fold pre. rewrite valid_body_app, (prologue_valid keep_all pkm NN). cbn [andb].
        rewrite valid_body_app, Hpv, Hpd. cbn [andb].
        destruct (mv_loop_prefix ord (length pre)) as [rest' Epre].
        assert (Hfull : vb NN Dm (mv_full ord) = true).
        { apply mv_full_valid; [exact Ond|apply (ord_fresh keep_all pkm)|apply (ord_deps keep_all pkm keep_all_ok pkm_ok)]. }
        rewrite Epre, valid_body_app in Hfull. apply andb_true_iff in Hfull. exact (proj1 Hfull).
      - unfold slots_ok. apply forallb_forall. intros i Hi. apply in_seq in Hi.
        assert (Hit : i < length tbl) by (rewrite T1; lia).
        destruct (nth_error tbl i) as [x|] eqn:Ex; [|apply nth_error_None in Ex; lia].
        pose proof (T2 i x Ex) as Hx.
        unfold mv_body. fold pre. rewrite !stores_at_app, prologue_no_store, EL. cbn [app].
        assert (S1 : stores_at i pre = if mem x (state_names o ++ param_names o) then [EVar x] else []).
        { unfold pre, mv_decl_stores. apply (stores_flat _ i x _ Hx decl_names_nodup). intros y. reflexivity. }
        assert (HndP : NoDup P).
        { rewrite EP in Ond. apply NoDup_app_elim in Ond. exact (proj1 Ond). }
        assert (S2 : stores_at i (mv_full P) = if mem x P then [EVar x] else []).
        { unfold mv_full. apply (stores_flat _ i x _ Hx HndP). intros y.
          change (SLet y (a_expr_of o y) :: rq_store y) with ([SLet y (a_expr_of o y)] ++ rq_store y).
          rewrite stores_at_app. reflexivity. }
        rewrite S1, S2. unfold ok_name. rewrite Ex.
        destruct (R4 x (lookup_keys x i Hx)) as [Hs|[Hp|Ha]].
        + assert (M1 : mem x (state_names o ++ param_names o) = true).
          { apply mem_In, in_or_app. left. unfold state_names. rewrite sort_names_In. exact Hs. }
          assert (M2 : mem x P = false).
          { apply mem_false_In. intros Hc. apply (Hsa x Hs). apply Oin. rewrite EP. apply in_or_app. left. exact Hc. }
          rewrite M1, M2. cbn [app is_var]. apply String.eqb_refl.
        + assert (M1 : mem x (state_names o ++ param_names o) = true).
          { apply mem_In, in_or_app. right. unfold param_names. rewrite sort_names_In. exact Hp. }
          assert (M2 : mem x P = false).
          { apply mem_false_In. intros Hc. apply (Hpa x Hp). apply Oin. rewrite EP. apply in_or_app. left. exact Hc. }
          rewrite M1, M2. cbn [app is_var]. apply String.eqb_refl.
        + assert (M1 : mem x (state_names o ++ param_names o) = false).
          { apply mem_false_In. intros Hc. apply in_app_or in Hc. destruct Hc as [Hc|Hc].
            - unfold state_names in Hc. rewrite sort_names_In in Hc. exact (Hsa x Hc Ha).
            - unfold param_names in Hc. rewrite sort_names_In in Hc. exact (Hpa x Hc Ha). }
          assert (HxO : In x ord) by (apply Oall; [exact Ha|left; exact Hru]).
          assert (M2 : mem x P = true).
          { apply mem_In. rewrite EP in HxO. apply in_app_or in HxO. destruct HxO as [HxP|HxR]; [exact HxP|].
            exfalso. destruct Hstop as [->|Hge]; [destruct HxR|].
            (* all requested names have been written when the loop stops *)
            assert (Htot : creq ((state_names o ++ param_names o) ++ ord) = NN).
            { apply creq_total.
              - apply NoDup_app_intro; [exact decl_names_nodup|exact Ond|].
                intros y Hy Hyo. apply in_app_or in Hy. pose proof (Oin y Hyo) as Hya. destruct Hy as [Hy|Hy].
                + unfold state_names in Hy. rewrite sort_names_In in Hy. exact (Hsa y Hy Hya).
                + unfold param_names in Hy. rewrite sort_names_In in Hy. exact (Hpa y Hy Hya).
              - intros y Hy. apply in_or_app. destruct (R4 y Hy) as [H1|[H1|H1]].
                + left. apply in_or_app. left. unfold state_names. rewrite sort_names_In. exact H1.
                + left. apply in_or_app. right. unfold param_names. rewrite sort_names_In. exact H1.
                + right. apply Oall; [exact H1|left; exact Hru]. }
            rewrite EP in Htot. rewrite (creq_app (state_names o ++ param_names o)), (creq_app P rest), <- Hpre_len in Htot.
            assert (Hr0 : creq rest = 0) by lia.
            unfold creq in Hr0. apply length_zero_iff_nil in Hr0.
            assert (Hin : In x (filter isreq rest)).
            { apply filter_In. split; [exact HxR|]. apply isreq_keys. exact (lookup_keys x i Hx). }
            rewrite Hr0 in Hin. destruct Hin. }
          rewrite M1, M2. cbn [app is_var]. apply String.eqb_refl.
    Qed.
  End Missing.
End Mirror.

(* ---------- the well-formedness facts as one boolean, evaluated per model ---------- *)
Definition wf_gen (o : ode) (ss : list string) (wd : bool) : bool :=
  nodupb (all_names o)
  && forallb (fun x => negb (resv wd x)) (all_names o)
  && forallb (fun s => mem s (map d_name (o_states o))) ss
  && forallb (fun s => mem s ss) (map d_name (o_states o))
  && forallb (fun n => String.eqb (deriv_name_of (st_of n)) n) (map a_name (o_derivs o))
  && forallb (fun x => negb (resv wd x)) (missing_names o).

Lemma dedup_length_le l : length (dedup l) <= length l.
Proof. induction l as [|x l IH]; simpl; [lia|]. destruct (mem x l); simpl; lia. Qed.

Lemma nodupb_NoDup l : nodupb l = true -> NoDup l.
Proof.
  unfold nodupb. induction l as [|x l IH]; simpl; intros H; [constructor|].
  destruct (mem x l) eqn:E.
  - apply Nat.eqb_eq in H. pose proof (dedup_length_le l). lia.
  - simpl in H. constructor; [apply mem_false_In; exact E|apply IH; exact H].
Qed.

Lemma wf_gen_spec o ss wd :
  wf_gen o ss wd = true ->
  NoDup (all_names o)
  /\ (forall x, In x (all_names o) -> resv wd x = false)
  /\ (forall s, In s ss <-> In s (map d_name (o_states o)))
  /\ (forall n, In n (map a_name (o_derivs o)) -> deriv_name_of (st_of n) = n)
  /\ (forall x, In x (missing_names o) -> resv wd x = false).
Proof.
  unfold wf_gen. intros H. repeat (apply andb_true_iff in H; destruct H as [H ?]).
  rewrite forallb_forall in *. split; [apply nodupb_NoDup; exact H|]. split; [|split; [|split]].
  - intros x Hx. apply negb_true_iff. auto.
  - intros s. split; intros Hs; apply mem_In; auto.
  - intros n Hn. apply String.eqb_eq. auto.
  - intros x Hx. apply negb_true_iff. auto.
Qed.

Lemma wf_reserved_free {T} o ss wd (inp : inputs T) : wf_gen o ss wd = true -> reserved_free o inp wd = true.
Proof.
  intros Hwf. destruct (wf_gen_spec o ss wd Hwf) as (_ & W2 & _).
  unfold reserved_free. apply forallb_forall. intros r Hr. apply negb_true_iff.
  unfold is_assign. rewrite find_assign_None; [reflexivity|]. intros Hc.
  assert (Hrt : resv wd r = true) by (rewrite <- reserved_mem with (inp := inp); apply mem_In; exact Hr).
  rewrite (W2 r) in Hrt; [discriminate|]. unfold all_names. apply in_or_app. right. apply in_or_app. right. exact Hc.
Qed.

(* ---------- the mirror compiles every well-formed model correctly ---------- *)
Theorem mirror_rhs_correct {T} (N : NumOps T) (o : ode) ru order ss f (inp : inputs T) :
  sorted_states o = Some ss -> wf_gen o ss false = true ->
  gen_rhs o ru order = Some f ->
  sizes_ok o ss inp ->
  valid_rhs o ss inp false f = true
  /\ exists out,
      exec N f false inp = Some out
      /\ length out = length ss
      /\ forall i s, nth_error ss i = Some s ->
           exists v, nth_error out i = Some v /\ Sem N o ss inp false (deriv_name_of s) v.
Proof.
  intros Hss Hwf Hgen Hsz. destruct (wf_gen_spec o ss false Hwf) as (W1 & W2 & W3 & W4 & W5).
  assert (Hord : exists ord, sorted_names o ru = Some ord).
  { unfold gen_rhs in Hgen. rewrite Hss in Hgen. destruct (sorted_names o ru) as [ord|]; [eauto|discriminate]. }
  destruct Hord as [ord Hord].
  pose proof (gen_rhs_valid o ru false ss ord inp Hss Hord W1 W2 W3 W4 W5 order f Hgen) as Hv.
  split; [exact Hv|]. apply (rhs_sound N o ss inp false f Hsz); [|exact Hv].
  exact (wf_reserved_free o ss false inp Hwf).
Qed.

Theorem mirror_monitor_correct {T} (N : NumOps T) (o : ode) ru order ss ord f (inp : inputs T) :
  sorted_states o = Some ss -> sorted_names o false = Some ord -> wf_gen o ss false = true ->
  gen_monitor o ru order = Some f ->
  sizes_ok o ss inp ->
  valid_named o ss inp false ord f = true
  /\ exists out,
      exec N f false inp = Some out
      /\ length out = length ord
      /\ forall i n, nth_error ord i = Some n ->
           exists v, nth_error out i = Some v /\ Sem N o ss inp false n v.
Proof.
  intros Hss Hord Hwf Hgen Hsz. destruct (wf_gen_spec o ss false Hwf) as (W1 & W2 & W3 & W4 & W5).
  pose proof (gen_monitor_valid o false false ss ord inp Hss Hord W1 W2 W3 W4 W5 ru order f eq_refl Hgen) as Hv.
  split; [exact Hv|]. apply (named_sound N o ss inp false ord f Hsz); [|exact Hv].
  exact (wf_reserved_free o ss false inp Hwf).
Qed.

Theorem mirror_euler_correct {T} (N : NumOps T) (o : ode) ru name order ss f (inp : inputs T) :
  CommOps N ->
  sorted_states o = Some ss -> wf_gen o ss true = true ->
  gen_euler o ru name order = Some f ->
  sizes_ok o ss inp ->
  valid_euler o ss inp true f = true
  /\ exists out,
      exec N f true inp = Some out
      /\ length out = length ss
      /\ forall i s, nth_error ss i = Some s ->
           exists sv fv,
             nth_error (in_states inp) i = Some sv
             /\ Sem N o ss inp true (deriv_name_of s) fv
             /\ nth_error out i = Some (add N sv (mul N (in_dt inp) fv)).
Proof.
  intros HC Hss Hwf Hgen Hsz. destruct (wf_gen_spec o ss true Hwf) as (W1 & W2 & W3 & W4 & W5).
  assert (Hord : exists ord, sorted_names o ru = Some ord).
  { unfold gen_euler in Hgen. rewrite Hss in Hgen. destruct (sorted_names o ru) as [ord|]; [eauto|discriminate]. }
  destruct Hord as [ord Hord].
  pose proof (gen_euler_valid o ru true ss ord inp Hss Hord W1 W2 W3 W4 W5 name order f eq_refl Hgen) as Hv.
  split; [exact Hv|].
  apply (euler_sound N o ss inp true f HC eq_refl Hsz (wf_reserved_free o ss true inp Hwf)); [| |exact Hv].
  - (* states_clean *)
    unfold states_clean. apply forallb_forall. intros s Hs. apply andb_true_iff.
    assert (Hsn : In s (map d_name (o_states o))) by (apply W3; exact Hs).
    assert (Hall : In s (all_names o)) by (unfold all_names; apply in_or_app; left; exact Hsn).
    split; apply negb_true_iff.
    + unfold is_assign. rewrite find_assign_None; [reflexivity|]. intros Hc.
      unfold all_names in W1. destruct (NoDup_app_elim _ _ W1) as (_ & _ & Hd).
      apply (Hd s Hsn). apply in_or_app. right. exact Hc.
    + rewrite reserved_mem. exact (W2 s Hall).
  - eapply ss_nodup; eassumption.
Qed.

(* missing_values: the requested names - states, parameters or assignments - in the requested slots *)
Theorem mirror_missing_correct {T} (N : NumOps T) (o : ode) ru order ss ord req tbl f (inp : inputs T) :
  sorted_states o = Some ss -> sorted_names o false = Some ord -> wf_gen o ss false = true ->
  NoDup (keys req) ->
  (forall x i, lookup x req = Some i -> i < length req) ->
  (forall x y i, lookup x req = Some i -> lookup y req = Some i -> x = y) ->
  (forall x, In x (keys req) -> In x (all_names o)) ->
  length tbl = length req ->
  (forall i x, nth_error tbl i = Some x -> lookup x req = Some i) ->
  gen_missing_values o ru req order = Some f ->
  sizes_ok o ss inp ->
  valid_named o ss inp false tbl f = true
  /\ exists out,
      exec N f false inp = Some out
      /\ length out = length tbl
      /\ forall i n, nth_error tbl i = Some n ->
           exists v, nth_error out i = Some v /\ Sem N o ss inp false n v.
Proof.
  intros Hss Hord Hwf R1 R2 R3 R4 T1 T2 Hgen Hsz.
  destruct (wf_gen_spec o ss false Hwf) as (W1 & W2 & W3 & W4 & W5).
  assert (R4' : forall x, In x (keys req) -> In x (map d_name (o_states o)) \/ In x (map d_name (o_params o)) \/ In x (map a_name (assigns o))).
  { intros x Hx. specialize (R4 x Hx). unfold all_names in R4. apply in_app_or in R4. destruct R4 as [H|H]; [auto|].
    apply in_app_or in H. tauto. }
  pose proof (gen_missing_valid o false false ss ord inp Hss Hord W1 W2 W3 W4 W5 req ru tbl eq_refl R1 R2 R3 R4' T1 T2 order f Hgen) as Hv.
  split; [exact Hv|]. apply (named_sound N o ss inp false tbl f Hsz); [|exact Hv].
  exact (wf_reserved_free o ss false inp Hwf).
Qed.

Print Assumptions mirror_rhs_correct.
Print Assumptions mirror_euler_correct.
