(* Save.v — block structure of the .ode writer (save.py, codegen/ode.py: print_states,
   print_parameters, print_assignments): atoms are grouped by their component tuple in a dict
   (first-appearance order of the name-sorted atoms), one block per group; the group without a
   component is written without header and - after the repair - first among the expression blocks. *)
From GX Require Import Base Expr Topo Ode Load.
From Coq Require Import Permutation.
Open Scope string_scope.
Open Scope list_scope.

Section Group.
  Context {A : Type} (key : A -> list string).

  Fixpoint insert_group (k : list string) (a : A) (g : list (list string * list A)) : list (list string * list A) :=
    match g with
    | [] => [(k, [a])]
    | (k', l) :: g' => if list_str_eqb k k' then (k', l ++ [a]) :: g' else (k', l) :: insert_group k a g'
    end.

  Definition group_by (l : list A) : list (list string * list A) :=
    fold_left (fun g a => insert_group (key a) a g) l [].

  Lemma list_str_eqb_eq a b : list_str_eqb a b = true <-> a = b.
  Proof.
    revert b; induction a as [|x a IH]; intros [|y b]; simpl; split; intros H; try discriminate; auto.
    - apply andb_true_iff in H. destruct H as [H1 H2]. apply String.eqb_eq in H1. apply IH in H2. congruence.
    - injection H as -> ->. rewrite String.eqb_refl. apply IH. reflexivity.
  Qed.

  Lemma insert_group_perm k a g :
    Permutation (flat_map snd (insert_group k a g)) (flat_map snd g ++ [a]).
  Proof.
    induction g as [|[k' l] g IH]; simpl; [reflexivity|].
    destruct (list_str_eqb k k'); simpl.
    - rewrite <- !app_assoc. apply Permutation_app_head. apply Permutation_app_comm.
    - rewrite <- app_assoc. apply Permutation_app_head. exact IH.
  Qed.

  (* grouping loses and invents nothing *)
  Theorem group_by_perm l : Permutation (flat_map snd (group_by l)) l.
  Proof.
    unfold group_by.
    assert (H : forall g, Permutation (flat_map snd (fold_left (fun g a => insert_group (key a) a g) l g)) (flat_map snd g ++ l)).
    { induction l as [|a l IH]; intros g; simpl; [rewrite app_nil_r; reflexivity|].
      eapply Permutation_trans; [apply IH|].
      eapply Permutation_trans; [apply Permutation_app_tail, insert_group_perm|].
      rewrite <- app_assoc. reflexivity. }
    apply (H []).
  Qed.

  Definition keyed (g : list (list string * list A)) : Prop :=
    forall k l a, In (k, l) g -> In a l -> key a = k.

  Lemma insert_group_keyed a g : keyed g -> keyed (insert_group (key a) a g).
  Proof.
    induction g as [|[k' l] g IH]; intros Hk k0 l0 a0 Hin Ha; simpl in Hin.
    - destruct Hin as [[= <- <-]|[]]. destruct Ha as [<-|[]]. reflexivity.
    - destruct (list_str_eqb (key a) k') eqn:E.
      + destruct Hin as [[= <- <-]|Hin].
        * apply in_app_or in Ha. destruct Ha as [Ha|[<-|[]]].
          -- apply (Hk k' l a0); [left; reflexivity|exact Ha].
          -- apply list_str_eqb_eq in E. exact E.
        * apply (Hk k0 l0 a0); [right; exact Hin|exact Ha].
      + destruct Hin as [[= <- <-]|Hin].
        * apply (Hk k' l a0); [left; reflexivity|exact Ha].
        * apply (IH (fun k1 l1 a1 H1 H2 => Hk k1 l1 a1 (or_intror H1) H2) k0 l0 a0 Hin Ha).
  Qed.

  (* every atom is written in the block of its own component tuple *)
  Theorem group_by_keyed l : keyed (group_by l).
  Proof.
    unfold group_by.
    assert (H : forall g, keyed g -> keyed (fold_left (fun g a => insert_group (key a) a g) l g)).
    { induction l as [|a l IH]; intros g Hg; simpl; [exact Hg|]. apply IH, insert_group_keyed, Hg. }
    apply H. intros k l0 a [].
  Qed.
End Group.

(* the order in which the expression groups are written: the unnamed group first (repaired) *)
Definition is_unnamed (k : list string) : bool := list_str_eqb k [""].
Definition unnamed_first {A} (g : list (list string * list A)) : list (list string * list A) :=
  filter (fun kl => is_unnamed (fst kl)) g ++ filter (fun kl => negb (is_unnamed (fst kl))) g.

Lemma unnamed_first_perm {A} (g : list (list string * list A)) : Permutation (unnamed_first g) g.
Proof.
  unfold unnamed_first. induction g as [|x g IH]; simpl; [reflexivity|].
  destruct (is_unnamed (fst x)); simpl.
  - apply perm_skip. exact IH.
  - eapply Permutation_trans; [apply Permutation_sym, Permutation_middle|]. apply perm_skip. exact IH.
Qed.

(* after an unnamed block only named blocks follow, and no unnamed block follows a named one *)
Theorem unnamed_never_after_named {A} (g : list (list string * list A)) l1 x l2 :
  unnamed_first g = l1 ++ x :: l2 -> is_unnamed (fst x) = true ->
  forall y, In y l1 -> is_unnamed (fst y) = true.
Proof.
  unfold unnamed_first. intros E Hx y Hy.
  set (U := filter (fun kl => is_unnamed (fst kl)) g) in *.
  set (Nn := filter (fun kl => negb (is_unnamed (fst kl))) g) in *.
  assert (HN : forall z, In z Nn -> is_unnamed (fst z) = false).
  { intros z Hz. apply filter_In in Hz. destruct Hz as [_ Hz]. apply negb_true_iff in Hz. exact Hz. }
  assert (HU : forall z, In z U -> is_unnamed (fst z) = true).
  { intros z Hz. apply filter_In in Hz. tauto. }
  (* x is unnamed, so it lies in U; everything before it lies in U as well *)
  revert l1 E Hy. induction U as [|u U IH]; intros l1 E Hy.
  - simpl in E. assert (In x Nn) by (rewrite E; apply in_or_app; right; left; reflexivity).
    rewrite (HN x H) in Hx. discriminate.
  - destruct l1 as [|z l1]; [destruct Hy|]. simpl in E. injection E as <- E.
    destruct Hy as [<-|Hy]; [apply HU; left; reflexivity|].
    apply (IH (fun z Hz => HU z (or_intror Hz)) l1 E Hy).
Qed.

(* the items the writer produces for a model *)
Definition entry_of_decl (d : decl) : entry :=
  {| en_name := d_name d; en_value := d_value d; en_unit := d_unit d; en_desc := d_desc d |}.
Definition line_of_assign (a : assign) : line :=
  {| ln_name := a_name a; ln_expr := a_expr a; ln_unit := a_unit a; ln_comment := a_comment a |}.

Definition save_items (states params : list decl) (assigns : list assign) : list item :=
  map (fun kl => IStates (fst kl) (map entry_of_decl (snd kl))) (group_by d_comps states)
  ++ map (fun kl => IParams (fst kl) (map entry_of_decl (snd kl))) (group_by d_comps params)
  ++ map (fun kl => IExprs (fst kl) (map line_of_assign (snd kl))) (unnamed_first (group_by a_comps assigns)).
