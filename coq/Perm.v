(* Perm.v — the model is a *set* of definitions: everything code generation computes from the
   loaded model is invariant under any permutation of the lists the model is made of.
   This is the common core of C09 (the iteration order of Python sets / frozensets, which
   varies with PYTHONHASHSEED, is exactly such a permutation) and C10 (the textual order of
   blocks, entries and lines only permutes those lists). *)
From GX Require Import Base Expr Topo Ode Target Sem Codegen.
From Coq Require Import Sorting.Mergesort Sorting.Sorted Permutation NArith RelationClasses.
Open Scope string_scope.
Open Scope list_scope.

(* ---------- String.leb is a total order ---------- *)
Lemma ascii_compare_trans_lt a b c :
  Ascii.compare a b = Lt -> Ascii.compare b c = Lt -> Ascii.compare a c = Lt.
Proof.
  unfold Ascii.compare. rewrite !N.compare_lt_iff. apply N.lt_trans.
Qed.

Lemma string_leb_trans a b c : String.leb a b = true -> String.leb b c = true -> String.leb a c = true.
Proof.
  unfold String.leb.
  revert b c; induction a as [|x a IH]; intros [|y b] [|z c]; simpl; intros H1 H2;
    try reflexivity; try discriminate.
  destruct (Ascii.compare x y) eqn:Exy.
  - apply Ascii.compare_eq_iff in Exy. subst y.
    destruct (Ascii.compare x z) eqn:Exz.
    + apply IH with b; assumption.
    + reflexivity.
    + discriminate H2.
  - destruct (Ascii.compare y z) eqn:Eyz.
    + apply Ascii.compare_eq_iff in Eyz. subst z. rewrite Exy. reflexivity.
    + rewrite (ascii_compare_trans_lt _ _ _ Exy Eyz). reflexivity.
    + discriminate H2.
  - discriminate H1.
Qed.

(* ---------- a sorted list is determined by its multiset ---------- *)
Lemma sorted_perm_unique (l l' : list string) :
  StronglySorted (fun a b => String.leb a b = true) l ->
  StronglySorted (fun a b => String.leb a b = true) l' ->
  Permutation l l' -> l = l'.
Proof.
  revert l'; induction l as [|x l IH]; intros l' Hs Hs' Hp.
  - apply Permutation_nil in Hp. subst. reflexivity.
  - destruct l' as [|y l']; [apply Permutation_sym, Permutation_nil in Hp; discriminate|].
    inversion Hs as [|? ? Hsl Hx]; subst. inversion Hs' as [|? ? Hsl' Hy]; subst.
    assert (x = y).
    { assert (Hxin : In x (y :: l')) by (eapply Permutation_in; [exact Hp|left; reflexivity]).
      assert (Hyin : In y (x :: l)) by (eapply Permutation_in; [apply Permutation_sym; exact Hp|left; reflexivity]).
      destruct Hxin as [->|Hxin]; [reflexivity|]. destruct Hyin as [->|Hyin]; [reflexivity|].
      rewrite Forall_forall in Hx, Hy. apply String.leb_antisym; auto. }
    subst y. f_equal. apply IH; auto. eapply Permutation_cons_inv; eauto.
Qed.

Lemma sort_names_sorted l : StronglySorted (fun a b => String.leb a b = true) (sort_names l).
Proof.
  unfold sort_names.
  pose proof (StringSort.StronglySorted_sort l) as H.
  assert (Ht : Transitive (fun x y => is_true (StringOrder.leb x y))).
  { intros a b c. unfold is_true, StringOrder.leb. apply string_leb_trans. }
  specialize (H Ht). clear Ht.
  induction H; constructor; auto.
Qed.

Theorem sort_names_perm_eq l l' : Permutation l l' -> sort_names l = sort_names l'.
Proof.
  intros H. apply sorted_perm_unique; try apply sort_names_sorted.
  eapply Permutation_trans; [apply Permutation_sym, sort_names_perm|].
  eapply Permutation_trans; [exact H|apply sort_names_perm].
Qed.

(* ---------- membership-level facts are permutation invariant ---------- *)
Lemma mem_perm x l l' : Permutation l l' -> mem x l = mem x l'.
Proof.
  intros H. destruct (mem x l) eqn:E; symmetry.
  - apply mem_In. eapply Permutation_in; [exact H|]. apply mem_In. exact E.
  - apply mem_false_In. intros Hc. apply mem_false_In in E. apply E.
    eapply Permutation_in; [apply Permutation_sym; exact H|exact Hc].
Qed.

Lemma existsb_perm {A} (f : A -> bool) l l' : Permutation l l' -> existsb f l = existsb f l'.
Proof.
  induction 1; simpl; auto.
  - rewrite IHPermutation. reflexivity.
  - destruct (f x), (f y); reflexivity.
  - congruence.
Qed.

Lemma find_perm_unique (l l' : list assign) x :
  NoDup (map a_name l) -> Permutation l l' ->
  find (fun a => String.eqb (a_name a) x) l = find (fun a => String.eqb (a_name a) x) l'.
Proof.
  intros Hnd Hp. induction Hp; simpl in *; auto.
  - inversion Hnd; subst. destruct (String.eqb (a_name x0) x); auto.
  - inversion Hnd as [|? ? Hy Hnd']; subst. inversion Hnd' as [|? ? Hx0 _]; subst.
    destruct (String.eqb_spec (a_name y) x) as [Ey|Ny], (String.eqb_spec (a_name x0) x) as [Ex|Nx]; auto.
    exfalso. apply Hy. left. congruence.
  - rewrite IHHp1 by assumption. apply IHHp2.
    eapply Permutation_NoDup; [apply Permutation_map; exact Hp1|exact Hnd].
Qed.

Lemma NoDup_dedup_id (l : list string) : NoDup l -> dedup l = l.
Proof.
  induction 1 as [|x l Hx Hnd IH]; simpl; [reflexivity|].
  apply mem_false_In in Hx. rewrite Hx, IH. reflexivity.
Qed.

Lemma dedup_perm l l' : Permutation l l' -> Permutation (dedup l) (dedup l').
Proof.
  intros H. apply NoDup_Permutation; try apply dedup_NoDup.
  intros x. rewrite !dedup_In. split; intros Hx.
  - eapply Permutation_in; [exact H|exact Hx].
  - eapply Permutation_in; [apply Permutation_sym; exact H|exact Hx].
Qed.

Lemma filter_perm {A} (f : A -> bool) l l' : Permutation l l' -> Permutation (filter f l) (filter f l').
Proof.
  induction 1; simpl; auto.
  - destruct (f x); auto.
  - destruct (f x), (f y); auto. apply perm_swap.
  - eapply Permutation_trans; eauto.
Qed.

Lemma flat_map_perm {A B} (f : A -> list B) l l' :
  Permutation l l' -> Permutation (flat_map f l) (flat_map f l').
Proof.
  induction 1; simpl; auto.
  - apply Permutation_app_head. exact IHPermutation.
  - rewrite !app_assoc. apply Permutation_app_tail. apply Permutation_app_comm.
  - eapply Permutation_trans; eauto.
Qed.

(* ---------- two presentations of the same set of definitions ---------- *)
Record ode_equiv (o o' : ode) : Prop := {
  eq_states : Permutation (o_states o) (o_states o');
  eq_params : Permutation (o_params o) (o_params o');
  eq_inters : Permutation (o_inters o) (o_inters o');
  eq_derivs : Permutation (o_derivs o) (o_derivs o') }.

Definition unique_assign_names (o : ode) : Prop := NoDup (map a_name (assigns o)).

Section Invariance.
  Variables o o' : ode.
  Hypothesis E : ode_equiv o o'.
  Hypothesis U : unique_assign_names o.

  Lemma assigns_perm : Permutation (assigns o) (assigns o').
  Proof. unfold assigns. apply Permutation_app; [apply (eq_inters _ _ E)|apply (eq_derivs _ _ E)]. Qed.

  Lemma find_assign_inv x : find_assign o x = find_assign o' x.
  Proof. unfold find_assign. apply find_perm_unique; [exact U|apply assigns_perm]. Qed.

  Lemma state_names_inv : state_names o = state_names o'.
  Proof. apply sort_names_perm_eq, Permutation_map, (eq_states _ _ E). Qed.
  Lemma param_names_inv : param_names o = param_names o'.
  Proof. apply sort_names_perm_eq, Permutation_map, (eq_params _ _ E). Qed.
  Lemma inter_names_inv : inter_names o = inter_names o'.
  Proof. apply sort_names_perm_eq, Permutation_map, (eq_inters _ _ E). Qed.
  Lemma deriv_names_inv : deriv_names o = deriv_names o'.
  Proof. apply sort_names_perm_eq, Permutation_map, (eq_derivs _ _ E). Qed.

  Lemma is_deriv_name_inv x : is_deriv_name o x = is_deriv_name o' x.
  Proof. apply mem_perm, Permutation_map, (eq_derivs _ _ E). Qed.
  Lemma is_inter_name_inv x : is_inter_name o x = is_inter_name o' x.
  Proof. apply mem_perm, Permutation_map, (eq_inters _ _ E). Qed.

  Lemma used_inv x : used o x = used o' x.
  Proof. apply existsb_perm, assigns_perm. Qed.

  Lemma deps_of_inv x : deps_of o x = deps_of o' x.
  Proof. unfold deps_of. rewrite find_assign_inv. reflexivity. Qed.

  Lemma build_graph_inv names : build_graph o names = build_graph o' names.
  Proof.
    unfold build_graph. generalize (@nil (string * ninfo)).
    induction names as [|n names IH]; intros g; simpl; [reflexivity|].
    rewrite deps_of_inv. apply IH.
  Qed.

  Lemma all_assign_names_inv : all_assign_names o = all_assign_names o'.
  Proof. unfold all_assign_names. rewrite inter_names_inv, deriv_names_inv. reflexivity. Qed.

  Lemma filter_ext_in' {A} (f g : A -> bool) l : (forall x, f x = g x) -> filter f l = filter g l.
  Proof. intros H. induction l as [|x l IH]; simpl; [reflexivity|]. rewrite H, IH. reflexivity. Qed.

  Theorem sorted_names_inv ru : sorted_names o ru = sorted_names o' ru.
  Proof.
    unfold sorted_names. rewrite all_assign_names_inv, build_graph_inv.
    destruct (static_order _); [|reflexivity]. f_equal.
    destruct ru; [|reflexivity].
    apply filter_ext_in'. intros n. rewrite is_inter_name_inv, used_inv. reflexivity.
  Qed.

  Theorem sorted_states_inv : sorted_states o = sorted_states o'.
  Proof.
    unfold sorted_states. rewrite sorted_names_inv. destruct (sorted_names o' false); [|reflexivity].
    f_equal. f_equal. apply filter_ext_in'. apply is_deriv_name_inv.
  Qed.

  Lemma known_symbol_inv x : known_symbol o x = known_symbol o' x.
  Proof.
    unfold known_symbol.
    rewrite (mem_perm x _ _ (Permutation_map d_name (eq_params _ _ E))).
    rewrite (mem_perm x _ _ (Permutation_map d_name (eq_states _ _ E))).
    rewrite (mem_perm x _ _ (Permutation_map a_name assigns_perm)). reflexivity.
  Qed.

  Theorem missing_names_inv : missing_names o = missing_names o'.
  Proof.
    unfold missing_names. apply sort_names_perm_eq, dedup_perm.
    rewrite (filter_ext_in' _ (fun x => negb (known_symbol o' x))) by (intros; rewrite known_symbol_inv; reflexivity).
    apply filter_perm, flat_map_perm, assigns_perm.
  Qed.

  Lemma a_expr_of_inv n : a_expr_of o n = a_expr_of o' n.
  Proof. unfold a_expr_of. rewrite find_assign_inv. reflexivity. Qed.

  Lemma rhs_body_inv ord i : rhs_body o ord i = rhs_body o' ord i.
  Proof.
    revert i; induction ord as [|n ord IH]; intros i; simpl; [reflexivity|].
    rewrite is_deriv_name_inv, a_expr_of_inv, !IH. reflexivity.
  Qed.
  Lemma monitor_body_inv ord i : monitor_body o ord i = monitor_body o' ord i.
  Proof.
    revert i; induction ord as [|n ord IH]; intros i; simpl; [reflexivity|].
    rewrite a_expr_of_inv, IH. reflexivity.
  Qed.
  Lemma euler_body_inv ord i : euler_body o ord i = euler_body o' ord i.
  Proof.
    revert i; induction ord as [|n ord IH]; intros i; simpl; [reflexivity|].
    rewrite is_deriv_name_inv, a_expr_of_inv, !IH. reflexivity.
  Qed.

  Lemma unpack_with_ext mk (k k' : string -> bool) names :
    (forall x, k x = k' x) -> unpack_with mk k names = unpack_with mk k' names.
  Proof.
    intros H. unfold unpack_with. induction (enumerate names) as [|[i x] l IH]; simpl; [reflexivity|].
    rewrite H, IH. reflexivity.
  Qed.

  Lemma condition_inv ru x : condition o ru x = condition o' ru x.
  Proof. unfold condition. destruct ru; [apply used_inv|reflexivity]. Qed.

  Lemma prologue_inv ss k1 k2 k1' k2' :
    (forall x, k1 x = k1' x) -> (forall x, k2 x = k2' x) ->
    prologue o ss k1 k2 = prologue o' ss k1' k2'.
  Proof.
    intros H1 H2. unfold prologue. rewrite param_names_inv, missing_names_inv.
    rewrite (unpack_with_ext SUnpackS k1 k1' ss H1), (unpack_with_ext SUnpackP k2 k2' _ H2). reflexivity.
  Qed.

  Lemma with_missing_inv args : with_missing o args = with_missing o' args.
  Proof. unfold with_missing. rewrite missing_names_inv. reflexivity. Qed.

  Lemma state_names_length_inv : length (state_names o) = length (state_names o').
  Proof. rewrite state_names_inv. reflexivity. Qed.

  (* every generated function is the same, whatever order the sets were traversed in *)
  Theorem gen_rhs_inv ru order : gen_rhs o ru order = gen_rhs o' ru order.
  Proof.
    unfold gen_rhs. rewrite sorted_states_inv, sorted_names_inv.
    destruct (sorted_states o'), (sorted_names o' ru); try reflexivity.
    rewrite with_missing_inv, state_names_length_inv, rhs_body_inv.
    rewrite (prologue_inv l _ _ (condition o' ru) (condition o' ru)) by apply condition_inv.
    reflexivity.
  Qed.

  Theorem gen_euler_inv ru name order : gen_euler o ru name order = gen_euler o' ru name order.
  Proof.
    unfold gen_euler. rewrite sorted_states_inv, sorted_names_inv.
    destruct (sorted_states o'), (sorted_names o' ru); try reflexivity.
    rewrite with_missing_inv, state_names_length_inv, euler_body_inv.
    rewrite (prologue_inv l _ _ keep_all (condition o' ru)) by (try apply condition_inv; reflexivity).
    reflexivity.
  Qed.

  Theorem gen_monitor_inv ru order : gen_monitor o ru order = gen_monitor o' ru order.
  Proof.
    unfold gen_monitor. rewrite sorted_states_inv, sorted_names_inv.
    destruct (sorted_states o'), (sorted_names o' false); try reflexivity.
    rewrite with_missing_inv, monitor_body_inv.
    rewrite (Permutation_length (eq_inters _ _ E)), (Permutation_length (eq_derivs _ _ E)).
    rewrite (prologue_inv l _ _ keep_all (condition o' ru)) by (try apply condition_inv; reflexivity).
    reflexivity.
  Qed.
End Invariance.
