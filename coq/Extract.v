(* Extract.v — extraction of the executable model to OCaml for the correspondence check.
   Only ExtrOcamlBasic is used: bool, option, unit, list, prod, sumbool, sumor map to the OCaml
   types and andb / orb are inlined; nat, positive, Z, Q, ascii, string stay the extracted
   inductive types.  No Extract Constant / Extract Inductive of our own. *)
From GX Require Import Base Expr Parse Lex Line Topo Ode Target Sem Codegen Load Valid Run Schemes Cback Sympytools Save MirrorValid MirrorRL.
Require Extraction.
Require Import ExtrOcamlBasic.
Extraction Language OCaml.
Extraction "../build/gx.ml"
  load load_comps membership ode_of
  sorted_states param_names state_names inter_names deriv_names sorted_names missing_names
  all_assign_names deriv_state deriv_name_of used
  gen_rhs gen_monitor gen_euler gen_missing_values
  exec exec_env sem_eval sem_eval_expr
  fill_body first_bad valid_fun valid_rhs valid_named valid_euler states_clean reserved_free
  reserved init_states init_params
  is_topological expr_eqb
  D extend_lin is_zero_expr predict_mode valid_scheme lin_name slot_mode
  to_ode minus ceval c_safe is_int
  rhs_matrix jacobian default_tries mentions_assigned base
  save_items find_decl wf_gen gen_rl all_names resv
  parse_expr print_expr lex parse_string render_expr parse_line write_line parse_block parse_body logical skipped.
