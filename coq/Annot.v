(* Annot.v — unit / description / comment annotations carry no numerical meaning (C17): two loaded
   models that agree on names and expressions have the same layout tables, whatever their
   annotations and component tags. *)
From GX Require Import Base Expr Topo Ode Perm.
Open Scope string_scope.
Open Scope list_scope.

Definition acore (a : assign) : string * expr := (a_name a, a_expr a).
Definition dcore (d : decl) : string := d_name d.

Record same_core (o o' : ode) : Prop := {
  sc_states : map dcore (o_states o) = map dcore (o_states o');
  sc_params : map dcore (o_params o) = map dcore (o_params o');
  sc_inters : map acore (o_inters o) = map acore (o_inters o');
  sc_derivs : map acore (o_derivs o) = map acore (o_derivs o') }.

Lemma map_acore_names l l' : map acore l = map acore l' -> map a_name l = map a_name l'.
Proof.
  revert l'; induction l as [|a l IH]; intros [|b l'] H; simpl in *; try discriminate; auto.
  injection H as Hn He Hl. f_equal; auto.
Qed.

Lemma find_core (l l' : list assign) x :
  map acore l = map acore l' ->
  match find (fun a => String.eqb (a_name a) x) l, find (fun a => String.eqb (a_name a) x) l' with
  | Some a, Some b => a_expr a = a_expr b
  | None, None => True
  | _, _ => False
  end.
Proof.
  revert l'; induction l as [|a l IH]; intros [|b l'] H; simpl in *; try discriminate; auto.
  injection H as Hn He Hl. rewrite Hn. destruct (String.eqb (a_name b) x); [exact He|].
  apply IH. exact Hl.
Qed.

Section SameCore.
  Variables o o' : ode.
  Hypothesis E : same_core o o'.

  Lemma assigns_core : map acore (assigns o) = map acore (assigns o').
  Proof. unfold assigns. rewrite !map_app, (sc_inters _ _ E), (sc_derivs _ _ E). reflexivity. Qed.

  Lemma a_expr_find x :
    match find_assign o x, find_assign o' x with
    | Some a, Some b => a_expr a = a_expr b
    | None, None => True
    | _, _ => False
    end.
  Proof. apply find_core, assigns_core. Qed.

  Lemma deps_of_core x : deps_of o x = deps_of o' x.
  Proof.
    unfold deps_of, adeps. pose proof (a_expr_find x) as H.
    destruct (find_assign o x), (find_assign o' x); try contradiction; [rewrite H|]; reflexivity.
  Qed.

  Lemma inter_names_core : inter_names o = inter_names o'.
  Proof. unfold inter_names. rewrite (map_acore_names _ _ (sc_inters _ _ E)). reflexivity. Qed.
  Lemma deriv_names_core : deriv_names o = deriv_names o'.
  Proof. unfold deriv_names. rewrite (map_acore_names _ _ (sc_derivs _ _ E)). reflexivity. Qed.
  Lemma param_names_core : param_names o = param_names o'.
  Proof. unfold param_names. change (map d_name) with (map dcore). rewrite (sc_params _ _ E). reflexivity. Qed.
  Lemma state_names_core : state_names o = state_names o'.
  Proof. unfold state_names. change (map d_name) with (map dcore). rewrite (sc_states _ _ E). reflexivity. Qed.

  Lemma build_graph_core names : build_graph o names = build_graph o' names.
  Proof.
    unfold build_graph. generalize (@nil (string * ninfo)).
    induction names as [|n names IH]; intros g; simpl; [reflexivity|]. rewrite deps_of_core. apply IH.
  Qed.

  Lemma used_core x : used o x = used o' x.
  Proof.
    unfold used. pose proof assigns_core as H. revert H. generalize (assigns o) (assigns o').
    induction l as [|a l IH]; intros [|b l'] H; simpl in *; try discriminate; auto.
    injection H as Hn He Hl. rewrite He, (IH _ Hl). reflexivity.
  Qed.

  (* annotations and component tags do not influence statement order or slot layout *)
  Theorem sorted_names_core ru : sorted_names o ru = sorted_names o' ru.
  Proof.
    unfold sorted_names, all_assign_names. rewrite inter_names_core, deriv_names_core, build_graph_core.
    destruct (static_order _); [|reflexivity]. f_equal. destruct ru; [|reflexivity].
    apply filter_ext_in'. intros n. unfold is_inter_name.
    rewrite (map_acore_names _ _ (sc_inters _ _ E)), used_core. reflexivity.
  Qed.

  Theorem sorted_states_core : sorted_states o = sorted_states o'.
  Proof.
    unfold sorted_states. rewrite sorted_names_core. destruct (sorted_names o' false); [|reflexivity].
    f_equal. f_equal. apply filter_ext_in'. intros n. unfold is_deriv_name.
    rewrite (map_acore_names _ _ (sc_derivs _ _ E)). reflexivity.
  Qed.
End SameCore.
