
type __ = Obj.t

(** val negb : bool -> bool **)

let negb = function
| true -> false
| false -> true

type nat =
| O
| S of nat

(** val fst : ('a1 * 'a2) -> 'a1 **)

let fst = function
| (x, _) -> x

(** val snd : ('a1 * 'a2) -> 'a2 **)

let snd = function
| (_, y) -> y

(** val length : 'a1 list -> nat **)

let rec length = function
| [] -> O
| _ :: l' -> S (length l')

(** val app : 'a1 list -> 'a1 list -> 'a1 list **)

let rec app l m =
  match l with
  | [] -> m
  | a :: l1 -> a :: (app l1 m)

type comparison =
| Eq
| Lt
| Gt

(** val add : nat -> nat -> nat **)

let rec add n0 m =
  match n0 with
  | O -> m
  | S p -> S (add p m)

(** val sub : nat -> nat -> nat **)

let rec sub n0 m =
  match n0 with
  | O -> n0
  | S k -> (match m with
            | O -> n0
            | S l -> sub k l)

(** val eqb : bool -> bool -> bool **)

let eqb b1 b2 =
  if b1 then b2 else if b2 then false else true

module type TotalLeBool' =
 sig
  type t

  val leb : t -> t -> bool
 end

module Nat =
 struct
  (** val eqb : nat -> nat -> bool **)

  let rec eqb n0 m =
    match n0 with
    | O -> (match m with
            | O -> true
            | S _ -> false)
    | S n' -> (match m with
               | O -> false
               | S m' -> eqb n' m')

  (** val leb : nat -> nat -> bool **)

  let rec leb n0 m =
    match n0 with
    | O -> true
    | S n' -> (match m with
               | O -> false
               | S m' -> leb n' m')

  (** val ltb : nat -> nat -> bool **)

  let ltb n0 m =
    leb (S n0) m
 end

type positive =
| XI of positive
| XO of positive
| XH

type n =
| N0
| Npos of positive

type z =
| Z0
| Zpos of positive
| Zneg of positive

module Pos =
 struct
  (** val succ : positive -> positive **)

  let rec succ = function
  | XI p -> XO (succ p)
  | XO p -> XI p
  | XH -> XO XH

  (** val add : positive -> positive -> positive **)

  let rec add x y =
    match x with
    | XI p ->
      (match y with
       | XI q0 -> XO (add_carry p q0)
       | XO q0 -> XI (add p q0)
       | XH -> XO (succ p))
    | XO p ->
      (match y with
       | XI q0 -> XI (add p q0)
       | XO q0 -> XO (add p q0)
       | XH -> XI p)
    | XH -> (match y with
             | XI q0 -> XO (succ q0)
             | XO q0 -> XI q0
             | XH -> XO XH)

  (** val add_carry : positive -> positive -> positive **)

  and add_carry x y =
    match x with
    | XI p ->
      (match y with
       | XI q0 -> XI (add_carry p q0)
       | XO q0 -> XO (add_carry p q0)
       | XH -> XI (succ p))
    | XO p ->
      (match y with
       | XI q0 -> XO (add_carry p q0)
       | XO q0 -> XI (add p q0)
       | XH -> XO (succ p))
    | XH ->
      (match y with
       | XI q0 -> XI (succ q0)
       | XO q0 -> XO (succ q0)
       | XH -> XI XH)

  (** val pred_double : positive -> positive **)

  let rec pred_double = function
  | XI p -> XI (XO p)
  | XO p -> XI (pred_double p)
  | XH -> XH

  (** val mul : positive -> positive -> positive **)

  let rec mul x y =
    match x with
    | XI p -> add y (XO (mul p y))
    | XO p -> XO (mul p y)
    | XH -> y

  (** val compare_cont : comparison -> positive -> positive -> comparison **)

  let rec compare_cont r x y =
    match x with
    | XI p ->
      (match y with
       | XI q0 -> compare_cont r p q0
       | XO q0 -> compare_cont Gt p q0
       | XH -> Gt)
    | XO p ->
      (match y with
       | XI q0 -> compare_cont Lt p q0
       | XO q0 -> compare_cont r p q0
       | XH -> Gt)
    | XH -> (match y with
             | XH -> r
             | _ -> Lt)

  (** val compare : positive -> positive -> comparison **)

  let compare =
    compare_cont Eq

  (** val eqb : positive -> positive -> bool **)

  let rec eqb p q0 =
    match p with
    | XI p0 -> (match q0 with
                | XI q1 -> eqb p0 q1
                | _ -> false)
    | XO p0 -> (match q0 with
                | XO q1 -> eqb p0 q1
                | _ -> false)
    | XH -> (match q0 with
             | XH -> true
             | _ -> false)

  (** val of_succ_nat : nat -> positive **)

  let rec of_succ_nat = function
  | O -> XH
  | S x -> succ (of_succ_nat x)
 end

module N =
 struct
  (** val add : n -> n -> n **)

  let add n0 m =
    match n0 with
    | N0 -> m
    | Npos p -> (match m with
                 | N0 -> n0
                 | Npos q0 -> Npos (Pos.add p q0))

  (** val mul : n -> n -> n **)

  let mul n0 m =
    match n0 with
    | N0 -> N0
    | Npos p -> (match m with
                 | N0 -> N0
                 | Npos q0 -> Npos (Pos.mul p q0))

  (** val compare : n -> n -> comparison **)

  let compare n0 m =
    match n0 with
    | N0 -> (match m with
             | N0 -> Eq
             | Npos _ -> Lt)
    | Npos n' -> (match m with
                  | N0 -> Gt
                  | Npos m' -> Pos.compare n' m')
 end

(** val nth_error : 'a1 list -> nat -> 'a1 option **)

let rec nth_error l = function
| O -> (match l with
        | [] -> None
        | x :: _ -> Some x)
| S n1 -> (match l with
           | [] -> None
           | _ :: l0 -> nth_error l0 n1)

(** val map : ('a1 -> 'a2) -> 'a1 list -> 'a2 list **)

let rec map f = function
| [] -> []
| a :: t0 -> (f a) :: (map f t0)

(** val flat_map : ('a1 -> 'a2 list) -> 'a1 list -> 'a2 list **)

let rec flat_map f = function
| [] -> []
| x :: t0 -> app (f x) (flat_map f t0)

(** val fold_left : ('a1 -> 'a2 -> 'a1) -> 'a2 list -> 'a1 -> 'a1 **)

let rec fold_left f l a0 =
  match l with
  | [] -> a0
  | b :: t0 -> fold_left f t0 (f a0 b)

(** val existsb : ('a1 -> bool) -> 'a1 list -> bool **)

let rec existsb f = function
| [] -> false
| a :: l0 -> (||) (f a) (existsb f l0)

(** val forallb : ('a1 -> bool) -> 'a1 list -> bool **)

let rec forallb f = function
| [] -> true
| a :: l0 -> (&&) (f a) (forallb f l0)

(** val filter : ('a1 -> bool) -> 'a1 list -> 'a1 list **)

let rec filter f = function
| [] -> []
| x :: l0 -> if f x then x :: (filter f l0) else filter f l0

(** val find : ('a1 -> bool) -> 'a1 list -> 'a1 option **)

let rec find f = function
| [] -> None
| x :: tl -> if f x then Some x else find f tl

(** val seq : nat -> nat -> nat list **)

let rec seq start = function
| O -> []
| S len0 -> start :: (seq (S start) len0)

module Z =
 struct
  (** val double : z -> z **)

  let double = function
  | Z0 -> Z0
  | Zpos p -> Zpos (XO p)
  | Zneg p -> Zneg (XO p)

  (** val succ_double : z -> z **)

  let succ_double = function
  | Z0 -> Zpos XH
  | Zpos p -> Zpos (XI p)
  | Zneg p -> Zneg (Pos.pred_double p)

  (** val pred_double : z -> z **)

  let pred_double = function
  | Z0 -> Zneg XH
  | Zpos p -> Zpos (Pos.pred_double p)
  | Zneg p -> Zneg (XI p)

  (** val pos_sub : positive -> positive -> z **)

  let rec pos_sub x y =
    match x with
    | XI p ->
      (match y with
       | XI q0 -> double (pos_sub p q0)
       | XO q0 -> succ_double (pos_sub p q0)
       | XH -> Zpos (XO p))
    | XO p ->
      (match y with
       | XI q0 -> pred_double (pos_sub p q0)
       | XO q0 -> double (pos_sub p q0)
       | XH -> Zpos (Pos.pred_double p))
    | XH ->
      (match y with
       | XI q0 -> Zneg (XO q0)
       | XO q0 -> Zneg (Pos.pred_double q0)
       | XH -> Z0)

  (** val add : z -> z -> z **)

  let add x y =
    match x with
    | Z0 -> y
    | Zpos x' ->
      (match y with
       | Z0 -> x
       | Zpos y' -> Zpos (Pos.add x' y')
       | Zneg y' -> pos_sub x' y')
    | Zneg x' ->
      (match y with
       | Z0 -> x
       | Zpos y' -> pos_sub y' x'
       | Zneg y' -> Zneg (Pos.add x' y'))

  (** val opp : z -> z **)

  let opp = function
  | Z0 -> Z0
  | Zpos x0 -> Zneg x0
  | Zneg x0 -> Zpos x0

  (** val sub : z -> z -> z **)

  let sub m n0 =
    add m (opp n0)

  (** val eqb : z -> z -> bool **)

  let eqb x y =
    match x with
    | Z0 -> (match y with
             | Z0 -> true
             | _ -> false)
    | Zpos p -> (match y with
                 | Zpos q0 -> Pos.eqb p q0
                 | _ -> false)
    | Zneg p -> (match y with
                 | Zneg q0 -> Pos.eqb p q0
                 | _ -> false)

  (** val of_nat : nat -> z **)

  let of_nat = function
  | O -> Z0
  | S n1 -> Zpos (Pos.of_succ_nat n1)
 end

type ascii =
| Ascii of bool * bool * bool * bool * bool * bool * bool * bool

(** val eqb0 : ascii -> ascii -> bool **)

let eqb0 a b =
  let Ascii (a0, a1, a2, a3, a4, a5, a6, a7) = a in
  let Ascii (b0, b1, b2, b3, b4, b5, b6, b7) = b in
  if if if if if if if eqb a0 b0 then eqb a1 b1 else false
                 then eqb a2 b2
                 else false
              then eqb a3 b3
              else false
           then eqb a4 b4
           else false
        then eqb a5 b5
        else false
     then eqb a6 b6
     else false
  then eqb a7 b7
  else false

(** val n_of_digits : bool list -> n **)

let rec n_of_digits = function
| [] -> N0
| b :: l' ->
  N.add (if b then Npos XH else N0) (N.mul (Npos (XO XH)) (n_of_digits l'))

(** val n_of_ascii : ascii -> n **)

let n_of_ascii = function
| Ascii (a0, a1, a2, a3, a4, a5, a6, a7) ->
  n_of_digits
    (a0 :: (a1 :: (a2 :: (a3 :: (a4 :: (a5 :: (a6 :: (a7 :: []))))))))

(** val compare0 : ascii -> ascii -> comparison **)

let compare0 a b =
  N.compare (n_of_ascii a) (n_of_ascii b)

type string =
| EmptyString
| String of ascii * string

(** val eqb1 : string -> string -> bool **)

let rec eqb1 s1 s2 =
  match s1 with
  | EmptyString ->
    (match s2 with
     | EmptyString -> true
     | String (_, _) -> false)
  | String (c1, s1') ->
    (match s2 with
     | EmptyString -> false
     | String (c2, s2') -> if eqb0 c1 c2 then eqb1 s1' s2' else false)

(** val compare1 : string -> string -> comparison **)

let rec compare1 s1 s2 =
  match s1 with
  | EmptyString -> (match s2 with
                    | EmptyString -> Eq
                    | String (_, _) -> Lt)
  | String (c1, s1') ->
    (match s2 with
     | EmptyString -> Gt
     | String (c2, s2') ->
       (match compare0 c1 c2 with
        | Eq -> compare1 s1' s2'
        | x -> x))

(** val leb0 : string -> string -> bool **)

let leb0 s1 s2 =
  match compare1 s1 s2 with
  | Gt -> false
  | _ -> true

(** val append : string -> string -> string **)

let rec append s1 s2 =
  match s1 with
  | EmptyString -> s2
  | String (c, s1') -> String (c, (append s1' s2))

(** val length0 : string -> nat **)

let rec length0 = function
| EmptyString -> O
| String (_, s') -> S (length0 s')

(** val substring : nat -> nat -> string -> string **)

let rec substring n0 m s =
  match n0 with
  | O ->
    (match m with
     | O -> EmptyString
     | S m' ->
       (match s with
        | EmptyString -> s
        | String (c, s') -> String (c, (substring O m' s'))))
  | S n' ->
    (match s with
     | EmptyString -> s
     | String (_, s') -> substring n' m s')

type q = { qnum : z; qden : positive }

(** val inject_Z : z -> q **)

let inject_Z x =
  { qnum = x; qden = XH }

module Sort =
 functor (X:TotalLeBool') ->
 struct
  (** val merge : X.t list -> X.t list -> X.t list **)

  let rec merge l1 l2 =
    let rec merge_aux l3 =
      match l1 with
      | [] -> l3
      | a1 :: l1' ->
        (match l3 with
         | [] -> l1
         | a2 :: l2' ->
           if X.leb a1 a2 then a1 :: (merge l1' l3) else a2 :: (merge_aux l2'))
    in merge_aux l2

  (** val merge_list_to_stack :
      X.t list option list -> X.t list -> X.t list option list **)

  let rec merge_list_to_stack stack l =
    match stack with
    | [] -> (Some l) :: []
    | y :: stack' ->
      (match y with
       | Some l' -> None :: (merge_list_to_stack stack' (merge l' l))
       | None -> (Some l) :: stack')

  (** val merge_stack : X.t list option list -> X.t list **)

  let rec merge_stack = function
  | [] -> []
  | y :: stack' ->
    (match y with
     | Some l -> merge l (merge_stack stack')
     | None -> merge_stack stack')

  (** val iter_merge : X.t list option list -> X.t list -> X.t list **)

  let rec iter_merge stack = function
  | [] -> merge_stack stack
  | a :: l' -> iter_merge (merge_list_to_stack stack (a :: [])) l'

  (** val sort : X.t list -> X.t list **)

  let sort =
    iter_merge []

  (** val flatten_stack : X.t list option list -> X.t list **)

  let rec flatten_stack = function
  | [] -> []
  | o :: stack' ->
    (match o with
     | Some l -> app l (flatten_stack stack')
     | None -> flatten_stack stack')
 end

(** val mem : string -> string list -> bool **)

let rec mem x = function
| [] -> false
| y :: l' -> if eqb1 x y then true else mem x l'

(** val lookup : string -> (string * 'a1) list -> 'a1 option **)

let rec lookup x = function
| [] -> None
| p :: l' -> let (y, v) = p in if eqb1 x y then Some v else lookup x l'

(** val keys : (string * 'a1) list -> string list **)

let keys l =
  map fst l

(** val index_of : string -> string list -> nat option **)

let rec index_of x = function
| [] -> None
| y :: l' ->
  if eqb1 x y
  then Some O
  else (match index_of x l' with
        | Some n0 -> Some (S n0)
        | None -> None)

module StringOrder =
 struct
  type t = string

  (** val leb : string -> string -> bool **)

  let leb =
    leb0
 end

module StringSort = Sort(StringOrder)

(** val sort_names : string list -> string list **)

let sort_names =
  StringSort.sort

(** val dedup : string list -> string list **)

let rec dedup = function
| [] -> []
| x :: l' -> if mem x l' then dedup l' else x :: (dedup l')

(** val enum_from : nat -> 'a1 list -> (nat * 'a1) list **)

let rec enum_from n0 = function
| [] -> []
| x :: l' -> (n0, x) :: (enum_from (S n0) l')

(** val enumerate : 'a1 list -> (nat * 'a1) list **)

let enumerate l =
  enum_from O l

type fn1 =
| Fexp
| Fcos
| Fsin
| Ftan
| Facos
| Fasin
| Fatan
| Flog
| Fsqrt
| Fabs
| Ffloor

type relop =
| Rlt
| Rgt
| Rle
| Rge
| Req
| Rne

type expr =
| ENum of q * bool
| EVar of string
| EPi
| EAdd of expr * expr
| ESub of expr * expr
| EMul of expr * expr
| EDiv of expr * expr
| EPow of expr * expr
| ENeg of expr
| EFn of fn1 * expr
| EMod of expr * expr
| ERel of relop * expr * expr
| ENot of expr
| EAnd of expr * expr
| EOr of expr * expr
| ECond of expr * expr * expr

(** val vars : expr -> string list **)

let rec vars = function
| EVar x -> x :: []
| EAdd (a, b) -> app (vars a) (vars b)
| ESub (a, b) -> app (vars a) (vars b)
| EMul (a, b) -> app (vars a) (vars b)
| EDiv (a, b) -> app (vars a) (vars b)
| EPow (a, b) -> app (vars a) (vars b)
| ENeg a -> vars a
| EFn (_, a) -> vars a
| EMod (a, b) -> app (vars a) (vars b)
| ERel (_, a, b) -> app (vars a) (vars b)
| ENot a -> vars a
| EAnd (a, b) -> app (vars a) (vars b)
| EOr (a, b) -> app (vars a) (vars b)
| ECond (c, a, b) -> app (vars c) (app (vars a) (vars b))
| _ -> []

type 't numOps = { ofQ : (q -> 't); cpi : 't; add0 : ('t -> 't -> 't);
                   sub0 : ('t -> 't -> 't); mul0 : ('t -> 't -> 't);
                   div : ('t -> 't -> 't); pow : ('t -> 't -> 't);
                   neg : ('t -> 't); fn : (fn1 -> 't -> 't);
                   fmod : ('t -> 't -> 't); rel : (relop -> 't -> 't -> 't);
                   bnot : ('t -> 't); band : ('t -> 't -> 't);
                   bor : ('t -> 't -> 't); select : ('t -> 't -> 't -> 't) }

(** val eval : 'a1 numOps -> (string -> 'a1) -> expr -> 'a1 **)

let rec eval n0 rho = function
| ENum (q0, _) -> n0.ofQ q0
| EVar x -> rho x
| EPi -> n0.cpi
| EAdd (a, b) -> n0.add0 (eval n0 rho a) (eval n0 rho b)
| ESub (a, b) -> n0.sub0 (eval n0 rho a) (eval n0 rho b)
| EMul (a, b) -> n0.mul0 (eval n0 rho a) (eval n0 rho b)
| EDiv (a, b) -> n0.div (eval n0 rho a) (eval n0 rho b)
| EPow (a, b) -> n0.pow (eval n0 rho a) (eval n0 rho b)
| ENeg a -> n0.neg (eval n0 rho a)
| EFn (f, a) -> n0.fn f (eval n0 rho a)
| EMod (a, b) -> n0.fmod (eval n0 rho a) (eval n0 rho b)
| ERel (r, a, b) -> n0.rel r (eval n0 rho a) (eval n0 rho b)
| ENot a -> n0.bnot (eval n0 rho a)
| EAnd (a, b) -> n0.band (eval n0 rho a) (eval n0 rho b)
| EOr (a, b) -> n0.bor (eval n0 rho a) (eval n0 rho b)
| ECond (c, a, b) -> n0.select (eval n0 rho c) (eval n0 rho a) (eval n0 rho b)

(** val e_int : z -> expr **)

let e_int z0 =
  ENum ((inject_Z z0), true)

(** val e_zero : expr **)

let e_zero =
  e_int Z0

(** val fn1_eqb : fn1 -> fn1 -> bool **)

let fn1_eqb f g =
  match f with
  | Fexp -> (match g with
             | Fexp -> true
             | _ -> false)
  | Fcos -> (match g with
             | Fcos -> true
             | _ -> false)
  | Fsin -> (match g with
             | Fsin -> true
             | _ -> false)
  | Ftan -> (match g with
             | Ftan -> true
             | _ -> false)
  | Facos -> (match g with
              | Facos -> true
              | _ -> false)
  | Fasin -> (match g with
              | Fasin -> true
              | _ -> false)
  | Fatan -> (match g with
              | Fatan -> true
              | _ -> false)
  | Flog -> (match g with
             | Flog -> true
             | _ -> false)
  | Fsqrt -> (match g with
              | Fsqrt -> true
              | _ -> false)
  | Fabs -> (match g with
             | Fabs -> true
             | _ -> false)
  | Ffloor -> (match g with
               | Ffloor -> true
               | _ -> false)

(** val relop_eqb : relop -> relop -> bool **)

let relop_eqb f g =
  match f with
  | Rlt -> (match g with
            | Rlt -> true
            | _ -> false)
  | Rgt -> (match g with
            | Rgt -> true
            | _ -> false)
  | Rle -> (match g with
            | Rle -> true
            | _ -> false)
  | Rge -> (match g with
            | Rge -> true
            | _ -> false)
  | Req -> (match g with
            | Req -> true
            | _ -> false)
  | Rne -> (match g with
            | Rne -> true
            | _ -> false)

(** val q_eqb_syn : q -> q -> bool **)

let q_eqb_syn p q0 =
  (&&) (Z.eqb p.qnum q0.qnum) (Pos.eqb p.qden q0.qden)

(** val expr_eqb : expr -> expr -> bool **)

let rec expr_eqb e1 e2 =
  match e1 with
  | ENum (p, i) ->
    (match e2 with
     | ENum (q0, j) -> (&&) (q_eqb_syn p q0) (eqb i j)
     | _ -> false)
  | EVar x -> (match e2 with
               | EVar y -> eqb1 x y
               | _ -> false)
  | EPi -> (match e2 with
            | EPi -> true
            | _ -> false)
  | EAdd (a, b) ->
    (match e2 with
     | EAdd (c, d) -> (&&) (expr_eqb a c) (expr_eqb b d)
     | _ -> false)
  | ESub (a, b) ->
    (match e2 with
     | ESub (c, d) -> (&&) (expr_eqb a c) (expr_eqb b d)
     | _ -> false)
  | EMul (a, b) ->
    (match e2 with
     | EMul (c, d) -> (&&) (expr_eqb a c) (expr_eqb b d)
     | _ -> false)
  | EDiv (a, b) ->
    (match e2 with
     | EDiv (c, d) -> (&&) (expr_eqb a c) (expr_eqb b d)
     | _ -> false)
  | EPow (a, b) ->
    (match e2 with
     | EPow (c, d) -> (&&) (expr_eqb a c) (expr_eqb b d)
     | _ -> false)
  | ENeg a -> (match e2 with
               | ENeg c -> expr_eqb a c
               | _ -> false)
  | EFn (f, a) ->
    (match e2 with
     | EFn (g, c) -> (&&) (fn1_eqb f g) (expr_eqb a c)
     | _ -> false)
  | EMod (a, b) ->
    (match e2 with
     | EMod (c, d) -> (&&) (expr_eqb a c) (expr_eqb b d)
     | _ -> false)
  | ERel (r, a, b) ->
    (match e2 with
     | ERel (s, c, d) ->
       (&&) ((&&) (relop_eqb r s) (expr_eqb a c)) (expr_eqb b d)
     | _ -> false)
  | ENot a -> (match e2 with
               | ENot c -> expr_eqb a c
               | _ -> false)
  | EAnd (a, b) ->
    (match e2 with
     | EAnd (c, d) -> (&&) (expr_eqb a c) (expr_eqb b d)
     | _ -> false)
  | EOr (a, b) ->
    (match e2 with
     | EOr (c, d) -> (&&) (expr_eqb a c) (expr_eqb b d)
     | _ -> false)
  | ECond (a, b, c) ->
    (match e2 with
     | ECond (d, e, f) ->
       (&&) ((&&) (expr_eqb a d) (expr_eqb b e)) (expr_eqb c f)
     | _ -> false)

type ninfo = { npred : z; succs : string list }

type graph = (string * ninfo) list

(** val g_update : graph -> string -> (ninfo -> ninfo) -> graph **)

let rec g_update g n0 f =
  match g with
  | [] -> []
  | p :: g' ->
    let (m, i) = p in
    if eqb1 n0 m then (m, (f i)) :: g' else (m, i) :: (g_update g' n0 f)

(** val g_touch : graph -> string -> graph **)

let g_touch g n0 =
  match lookup n0 g with
  | Some _ -> g
  | None -> app g ((n0, { npred = Z0; succs = [] }) :: [])

(** val g_add : graph -> string -> string list -> graph **)

let g_add g node preds =
  let g1 = g_touch g node in
  let g2 =
    g_update g1 node (fun i -> { npred =
      (Z.add i.npred (Z.of_nat (length preds))); succs = i.succs })
  in
  fold_left (fun g0 p ->
    g_update (g_touch g0 p) p (fun i -> { npred = i.npred; succs =
      (app i.succs (node :: [])) })) preds g2

(** val done_succ : (graph * string list) -> string -> graph * string list **)

let done_succ st s =
  let (g, ready) = st in
  let g' =
    g_update g s (fun j -> { npred = (Z.sub j.npred (Zpos XH)); succs =
      j.succs })
  in
  (match lookup s g' with
   | Some j ->
     if Z.eqb j.npred Z0 then (g', (app ready (s :: []))) else (g', ready)
   | None -> (g', ready))

(** val done_one : (graph * string list) -> string -> graph * string list **)

let done_one st node =
  match lookup node (fst st) with
  | Some i -> fold_left done_succ i.succs st
  | None -> st

(** val done_all : graph -> string list -> graph * string list **)

let done_all g nodes =
  fold_left done_one nodes (g, [])

(** val kahn :
    nat -> graph -> string list -> string list -> string list option **)

let rec kahn fuel g ready out =
  match ready with
  | [] -> Some out
  | _ :: _ ->
    (match fuel with
     | O -> None
     | S f ->
       let (g', ready') = done_all g ready in kahn f g' ready' (app out ready))

(** val ready0 : graph -> string list **)

let ready0 g =
  map fst (filter (fun ni -> Z.eqb (snd ni).npred Z0) g)

(** val static_order : graph -> string list option **)

let static_order g =
  match kahn (S (length g)) g (ready0 g) [] with
  | Some out -> if Nat.eqb (length out) (length g) then Some out else None
  | None -> None

(** val topo_ok_aux :
    (string -> string list) -> string list -> string list -> string list ->
    bool **)

let rec topo_ok_aux deps nodes seen = function
| [] -> true
| n0 :: rest' ->
  (&&)
    ((&&) ((&&) (mem n0 nodes) (negb (mem n0 seen)))
      (forallb (fun d -> (||) (negb (mem d nodes)) (mem d seen)) (deps n0)))
    (topo_ok_aux deps nodes (n0 :: seen) rest')

(** val is_topological :
    (string -> string list) -> string list -> string list -> bool **)

let is_topological deps nodes ord =
  (&&) (topo_ok_aux deps nodes [] ord)
    (Nat.eqb (length ord) (length (dedup nodes)))

type decl = { d_name : string; d_value : expr; d_comps : string list;
              d_unit : string option; d_desc : string option }

type assign = { a_name : string; a_expr : expr; a_comps : string list;
                a_unit : string option; a_comment : string option }

type ode = { o_states : decl list; o_params : decl list;
             o_inters : assign list; o_derivs : assign list }

(** val suffix_dt : string -> bool **)

let suffix_dt n0 =
  eqb1 (substring (sub (length0 n0) (S (S (S O)))) (S (S (S O))) n0) (String
    ((Ascii (true, true, true, true, true, false, true, false)), (String
    ((Ascii (false, false, true, false, false, true, true, false)), (String
    ((Ascii (false, false, true, false, true, true, true, false)),
    EmptyString))))))

(** val deriv_state : string -> string option **)

let deriv_state n0 =
  if (&&)
       ((&&)
         (eqb1 (substring O (S O) n0) (String ((Ascii (false, false, true,
           false, false, true, true, false)), EmptyString))) (suffix_dt n0))
       (Nat.leb (S (S (S (S (S O))))) (length0 n0))
  then Some (substring (S O) (sub (length0 n0) (S (S (S (S O))))) n0)
  else None

(** val deriv_name_of : string -> string **)

let deriv_name_of s =
  append (String ((Ascii (false, false, true, false, false, true, true,
    false)), EmptyString))
    (append s (String ((Ascii (true, true, true, true, true, false, true,
      false)), (String ((Ascii (false, false, true, false, false, true, true,
      false)), (String ((Ascii (false, false, true, false, true, true, true,
      false)), EmptyString)))))))

(** val assigns : ode -> assign list **)

let assigns o =
  app o.o_inters o.o_derivs

(** val find_assign : ode -> string -> assign option **)

let find_assign o x =
  find (fun a -> eqb1 a.a_name x) (assigns o)

(** val find_decl : decl list -> string -> decl option **)

let find_decl l x =
  find (fun d -> eqb1 d.d_name x) l

(** val state_names : ode -> string list **)

let state_names o =
  sort_names (map (fun d -> d.d_name) o.o_states)

(** val param_names : ode -> string list **)

let param_names o =
  sort_names (map (fun d -> d.d_name) o.o_params)

(** val inter_names : ode -> string list **)

let inter_names o =
  sort_names (map (fun a -> a.a_name) o.o_inters)

(** val deriv_names : ode -> string list **)

let deriv_names o =
  sort_names (map (fun a -> a.a_name) o.o_derivs)

(** val is_deriv_name : ode -> string -> bool **)

let is_deriv_name o x =
  mem x (map (fun a -> a.a_name) o.o_derivs)

(** val is_inter_name : ode -> string -> bool **)

let is_inter_name o x =
  mem x (map (fun a -> a.a_name) o.o_inters)

(** val adeps : assign -> string list **)

let adeps a =
  sort_names (dedup (vars a.a_expr))

(** val deps_of : ode -> string -> string list **)

let deps_of o x =
  match find_assign o x with
  | Some a -> adeps a
  | None -> []

(** val used : ode -> string -> bool **)

let used o x =
  existsb (fun a -> mem x (vars a.a_expr)) (assigns o)

(** val build_graph : ode -> string list -> graph **)

let build_graph o names =
  fold_left (fun g n0 -> g_add g n0 (deps_of o n0)) names []

(** val all_assign_names : ode -> string list **)

let all_assign_names o =
  app (inter_names o) (deriv_names o)

(** val sorted_names : ode -> bool -> string list option **)

let sorted_names o remove_unused =
  let names = all_assign_names o in
  (match static_order (build_graph o names) with
   | Some ord ->
     let ord0 = filter (fun n0 -> mem n0 names) ord in
     Some
     (if remove_unused
      then filter (fun n0 -> (||) (negb (is_inter_name o n0)) (used o n0))
             ord0
      else ord0)
   | None -> None)

(** val sorted_states : ode -> string list option **)

let sorted_states o =
  match sorted_names o false with
  | Some ord ->
    Some
      (map (fun n0 ->
        match deriv_state n0 with
        | Some s -> s
        | None -> EmptyString) (filter (is_deriv_name o) ord))
  | None -> None

(** val known_symbol : ode -> string -> bool **)

let known_symbol o x =
  (||)
    ((||)
      ((||)
        ((||) (mem x (map (fun d -> d.d_name) o.o_params))
          (mem x (map (fun d -> d.d_name) o.o_states)))
        (mem x (map (fun a -> a.a_name) (assigns o))))
      (eqb1 x (String ((Ascii (false, false, true, false, true, true, true,
        false)), (String ((Ascii (true, false, false, true, false, true,
        true, false)), (String ((Ascii (true, false, true, true, false, true,
        true, false)), (String ((Ascii (true, false, true, false, false,
        true, true, false)), EmptyString))))))))))
    (eqb1 x (String ((Ascii (false, false, true, false, true, true, true,
      false)), EmptyString)))

(** val missing_names : ode -> string list **)

let missing_names o =
  sort_names
    (dedup
      (filter (fun x -> negb (known_symbol o x))
        (flat_map (fun a -> vars a.a_expr) (assigns o))))

type stmt =
| SUnpackS of string * nat
| SUnpackP of string * nat
| SUnpackM of string * nat
| SLet of string * expr
| SStore of nat * expr

type func = { f_name : string; f_args : string list; f_nret : nat;
              f_body : stmt list }

type 't inputs = { in_t : 't; in_dt : 't; in_states : 't list;
                   in_params : 't list; in_missing : 't list }

(** val tzero : 'a1 numOps -> 'a1 **)

let tzero n0 =
  n0.ofQ (inject_Z Z0)

type 't env = (string * 't) list

(** val env_fun : 'a1 numOps -> 'a1 env -> string -> 'a1 **)

let env_fun n0 rho x =
  match lookup x rho with
  | Some v -> v
  | None -> tzero n0

(** val bound : 'a1 env -> expr -> bool **)

let bound rho e =
  forallb (fun x -> match lookup x rho with
                    | Some _ -> true
                    | None -> false) (vars e)

(** val env0 : 'a1 inputs -> bool -> 'a1 env **)

let env0 inp with_dt =
  app
    (if with_dt
     then ((String ((Ascii (false, false, true, false, false, true, true,
            false)), (String ((Ascii (false, false, true, false, true, true,
            true, false)), EmptyString)))), inp.in_dt) :: []
     else []) (((String ((Ascii (false, false, true, false, true, true, true,
    false)), EmptyString)), inp.in_t) :: (((String ((Ascii (false, false,
    true, false, true, true, true, false)), (String ((Ascii (true, false,
    false, true, false, true, true, false)), (String ((Ascii (true, false,
    true, true, false, true, true, false)), (String ((Ascii (true, false,
    true, false, false, true, true, false)), EmptyString)))))))),
    inp.in_t) :: []))

(** val step :
    'a1 numOps -> nat -> 'a1 inputs -> ('a1 env * (nat * 'a1) list) -> stmt
    -> ('a1 env * (nat * 'a1) list) option **)

let step n0 nret inp st s =
  let (rho, vals) = st in
  (match s with
   | SUnpackS (x, i) ->
     (match nth_error inp.in_states i with
      | Some v -> Some (((x, v) :: rho), vals)
      | None -> None)
   | SUnpackP (x, i) ->
     (match nth_error inp.in_params i with
      | Some v -> Some (((x, v) :: rho), vals)
      | None -> None)
   | SUnpackM (x, i) ->
     (match nth_error inp.in_missing i with
      | Some v -> Some (((x, v) :: rho), vals)
      | None -> None)
   | SLet (x, e) ->
     if bound rho e
     then Some (((x, (eval n0 (env_fun n0 rho) e)) :: rho), vals)
     else None
   | SStore (i, e) ->
     if (&&) (bound rho e) (Nat.ltb i nret)
     then Some (rho, ((i, (eval n0 (env_fun n0 rho) e)) :: vals))
     else None)

(** val run :
    'a1 numOps -> nat -> 'a1 inputs -> ('a1 env * (nat * 'a1) list) -> stmt
    list -> ('a1 env * (nat * 'a1) list) option **)

let rec run n0 nret inp st = function
| [] -> Some st
| s :: body' ->
  (match step n0 nret inp st s with
   | Some st' -> run n0 nret inp st' body'
   | None -> None)

(** val lookup_nat : nat -> (nat * 'a1) list -> 'a1 option **)

let rec lookup_nat i = function
| [] -> None
| p :: l' -> let (j, v) = p in if Nat.eqb i j then Some v else lookup_nat i l'

(** val result : 'a1 numOps -> nat -> (nat * 'a1) list -> 'a1 list **)

let result n0 nret vals =
  map (fun i -> match lookup_nat i vals with
                | Some v -> v
                | None -> tzero n0) (seq O nret)

(** val exec : 'a1 numOps -> func -> bool -> 'a1 inputs -> 'a1 list option **)

let exec n0 f with_dt inp =
  match run n0 f.f_nret inp ((env0 inp with_dt), []) f.f_body with
  | Some p -> let (_, vals) = p in Some (result n0 f.f_nret vals)
  | None -> None

(** val exec_env :
    'a1 numOps -> func -> bool -> 'a1 inputs -> 'a1 env option **)

let exec_env n0 f with_dt inp =
  match run n0 f.f_nret inp ((env0 inp with_dt), []) f.f_body with
  | Some p -> let (rho, _) = p in Some rho
  | None -> None

(** val reserved : 'a1 inputs -> bool -> string list **)

let reserved inp with_dt =
  keys (env0 inp with_dt)

(** val base :
    ode -> string list -> 'a1 inputs -> bool -> string -> 'a1 option **)

let base o ss inp with_dt x =
  match lookup x (env0 inp with_dt) with
  | Some v -> Some v
  | None ->
    (match index_of x ss with
     | Some i -> nth_error inp.in_states i
     | None ->
       (match index_of x (param_names o) with
        | Some i -> nth_error inp.in_params i
        | None ->
          (match index_of x (missing_names o) with
           | Some i -> nth_error inp.in_missing i
           | None -> None)))

(** val is_assign : ode -> string -> bool **)

let is_assign o x =
  match find_assign o x with
  | Some _ -> true
  | None -> false

(** val opt_nat_eqb : nat option -> nat -> bool **)

let opt_nat_eqb a i =
  match a with
  | Some j -> Nat.eqb j i
  | None -> false

(** val ok_stmt :
    ode -> string list -> 'a1 inputs -> bool -> nat -> string list -> stmt ->
    bool **)

let ok_stmt o ss inp with_dt nret defined = function
| SUnpackS (x, i) ->
  (&&)
    ((&&) ((&&) (negb (mem x defined)) (negb (mem x (reserved inp with_dt))))
      (negb (is_assign o x))) (opt_nat_eqb (index_of x ss) i)
| SUnpackP (x, i) ->
  (&&)
    ((&&)
      ((&&)
        ((&&) (negb (mem x defined)) (negb (mem x (reserved inp with_dt))))
        (negb (is_assign o x))) (negb (mem x ss)))
    (opt_nat_eqb (index_of x (param_names o)) i)
| SUnpackM (x, i) ->
  (&&)
    ((&&)
      ((&&)
        ((&&)
          ((&&) (negb (mem x defined)) (negb (mem x (reserved inp with_dt))))
          (negb (is_assign o x))) (negb (mem x ss)))
      (negb (mem x (param_names o))))
    (opt_nat_eqb (index_of x (missing_names o)) i)
| SLet (x, e) ->
  (&&)
    ((&&) (negb (mem x defined))
      (match find_assign o x with
       | Some a -> expr_eqb a.a_expr e
       | None -> false)) (forallb (fun y -> mem y defined) (vars e))
| SStore (i, e) ->
  (&&) (forallb (fun y -> mem y defined) (vars e)) (Nat.ltb i nret)

(** val binds : stmt -> string list **)

let binds = function
| SUnpackS (x, _) -> x :: []
| SUnpackP (x, _) -> x :: []
| SUnpackM (x, _) -> x :: []
| SLet (x, _) -> x :: []
| SStore (_, _) -> []

(** val valid_body :
    ode -> string list -> 'a1 inputs -> bool -> nat -> string list -> stmt
    list -> bool **)

let rec valid_body o ss inp with_dt nret defined = function
| [] -> true
| s :: body' ->
  (&&) (ok_stmt o ss inp with_dt nret defined s)
    (valid_body o ss inp with_dt nret (app (binds s) defined) body')

type 't sizes_ok = __

(** val reserved_free : ode -> 'a1 inputs -> bool -> bool **)

let reserved_free o inp with_dt =
  forallb (fun r -> negb (is_assign o r)) (reserved inp with_dt)

(** val unpack_with :
    (string -> nat -> stmt) -> (string -> bool) -> string list -> stmt list **)

let unpack_with mk keep names =
  flat_map (fun ix ->
    if keep (snd ix) then (mk (snd ix) (fst ix)) :: [] else [])
    (enumerate names)

(** val keep_all : string -> bool **)

let keep_all _ =
  true

(** val condition : ode -> bool -> string -> bool **)

let condition o = function
| true -> used o
| false -> keep_all

(** val prologue :
    ode -> string list -> (string -> bool) -> (string -> bool) -> stmt list **)

let prologue o states state_keep param_keep =
  app (unpack_with (fun x x0 -> SUnpackS (x, x0)) state_keep states)
    (app
      (unpack_with (fun x x0 -> SUnpackP (x, x0)) param_keep (param_names o))
      (unpack_with (fun x x0 -> SUnpackM (x, x0)) keep_all (missing_names o)))

(** val a_expr_of : ode -> string -> expr **)

let a_expr_of o n0 =
  match find_assign o n0 with
  | Some a -> a.a_expr
  | None -> e_zero

(** val rhs_body : ode -> string list -> nat -> stmt list **)

let rec rhs_body o ord idx =
  match ord with
  | [] -> []
  | n0 :: ord' ->
    if is_deriv_name o n0
    then (SLet (n0, (a_expr_of o n0))) :: ((SStore (idx, (EVar
           n0))) :: (rhs_body o ord' (S idx)))
    else (SLet (n0, (a_expr_of o n0))) :: (rhs_body o ord' idx)

(** val monitor_body : ode -> string list -> nat -> stmt list **)

let rec monitor_body o ord idx =
  match ord with
  | [] -> []
  | n0 :: ord' ->
    (SLet (n0, (a_expr_of o n0))) :: ((SStore (idx, (EVar
      n0))) :: (monitor_body o ord' (S idx)))

(** val euler_update : string -> expr **)

let euler_update n0 =
  EAdd ((EVar (match deriv_state n0 with
               | Some s -> s
               | None -> EmptyString)), (EMul ((EVar (String ((Ascii (false,
    false, true, false, false, true, true, false)), (String ((Ascii (false,
    false, true, false, true, true, true, false)), EmptyString))))), (EVar
    n0))))

(** val euler_body : ode -> string list -> nat -> stmt list **)

let rec euler_body o ord idx =
  match ord with
  | [] -> []
  | n0 :: ord' ->
    if is_deriv_name o n0
    then (SLet (n0, (a_expr_of o n0))) :: ((SStore (idx,
           (euler_update n0))) :: (euler_body o ord' (S idx)))
    else (SLet (n0, (a_expr_of o n0))) :: (euler_body o ord' idx)

(** val mv_loop :
    ode -> (string * nat) list -> string list -> nat -> nat -> stmt list **)

let rec mv_loop o req ord n0 n1 =
  match ord with
  | [] -> []
  | x :: ord' ->
    let here = (SLet (x,
      (a_expr_of o x))) :: (match lookup x req with
                            | Some i -> (SStore (i, (EVar x))) :: []
                            | None -> [])
    in
    let n' = match lookup x req with
             | Some _ -> S n0
             | None -> n0 in
    if Nat.leb n1 n' then here else app here (mv_loop o req ord' n' n1)

(** val mv_decl_stores : ode -> (string * nat) list -> stmt list **)

let mv_decl_stores o req =
  flat_map (fun x ->
    match lookup x req with
    | Some i -> (SStore (i, (EVar x))) :: []
    | None -> []) (app (state_names o) (param_names o))

(** val mv_body : ode -> (string * nat) list -> string list -> stmt list **)

let mv_body o req ord =
  let pre = mv_decl_stores o req in
  app pre (mv_loop o req ord (length pre) (length req))

(** val arg_name : ascii -> string **)

let arg_name c =
  if eqb0 c (Ascii (true, true, false, false, true, true, true, false))
  then String ((Ascii (true, true, false, false, true, true, true, false)),
         (String ((Ascii (false, false, true, false, true, true, true,
         false)), (String ((Ascii (true, false, false, false, false, true,
         true, false)), (String ((Ascii (false, false, true, false, true,
         true, true, false)), (String ((Ascii (true, false, true, false,
         false, true, true, false)), (String ((Ascii (true, true, false,
         false, true, true, true, false)), EmptyString)))))))))))
  else if eqb0 c (Ascii (false, false, true, false, true, true, true, false))
       then String ((Ascii (false, false, true, false, true, true, true,
              false)), EmptyString)
       else if eqb0 c (Ascii (false, false, false, false, true, true, true,
                 false))
            then String ((Ascii (false, false, false, false, true, true,
                   true, false)), (String ((Ascii (true, false, false, false,
                   false, true, true, false)), (String ((Ascii (false, true,
                   false, false, true, true, true, false)), (String ((Ascii
                   (true, false, false, false, false, true, true, false)),
                   (String ((Ascii (true, false, true, true, false, true,
                   true, false)), (String ((Ascii (true, false, true, false,
                   false, true, true, false)), (String ((Ascii (false, false,
                   true, false, true, true, true, false)), (String ((Ascii
                   (true, false, true, false, false, true, true, false)),
                   (String ((Ascii (false, true, false, false, true, true,
                   true, false)), (String ((Ascii (true, true, false, false,
                   true, true, true, false)), EmptyString)))))))))))))))))))
            else if eqb0 c (Ascii (false, false, true, false, false, true,
                      true, false))
                 then String ((Ascii (false, false, true, false, false, true,
                        true, false)), (String ((Ascii (false, false, true,
                        false, true, true, true, false)), EmptyString)))
                 else String ((Ascii (true, true, true, true, true, true,
                        false, false)), EmptyString)

(** val arg_list : string -> string list **)

let rec arg_list = function
| EmptyString -> []
| String (c, rest) -> (arg_name c) :: (arg_list rest)

(** val with_missing : ode -> string list -> string list **)

let with_missing o args =
  match missing_names o with
  | [] -> args
  | _ :: _ ->
    app args ((String ((Ascii (true, false, true, true, false, true, true,
      false)), (String ((Ascii (true, false, false, true, false, true, true,
      false)), (String ((Ascii (true, true, false, false, true, true, true,
      false)), (String ((Ascii (true, true, false, false, true, true, true,
      false)), (String ((Ascii (true, false, false, true, false, true, true,
      false)), (String ((Ascii (false, true, true, true, false, true, true,
      false)), (String ((Ascii (true, true, true, false, false, true, true,
      false)), (String ((Ascii (true, true, true, true, true, false, true,
      false)), (String ((Ascii (false, true, true, false, true, true, true,
      false)), (String ((Ascii (true, false, false, false, false, true, true,
      false)), (String ((Ascii (false, true, false, false, true, true, true,
      false)), (String ((Ascii (true, false, false, true, false, true, true,
      false)), (String ((Ascii (true, false, false, false, false, true, true,
      false)), (String ((Ascii (false, true, false, false, false, true, true,
      false)), (String ((Ascii (false, false, true, true, false, true, true,
      false)), (String ((Ascii (true, false, true, false, false, true, true,
      false)), (String ((Ascii (true, true, false, false, true, true, true,
      false)), EmptyString)))))))))))))))))))))))))))))))))) :: [])

(** val gen_rhs : ode -> bool -> string -> func option **)

let gen_rhs o remove_unused order =
  match sorted_states o with
  | Some ss ->
    (match sorted_names o remove_unused with
     | Some ord ->
       Some { f_name = (String ((Ascii (false, true, false, false, true,
         true, true, false)), (String ((Ascii (false, false, false, true,
         false, true, true, false)), (String ((Ascii (true, true, false,
         false, true, true, true, false)), EmptyString)))))); f_args =
         (with_missing o (arg_list order)); f_nret =
         (length (state_names o)); f_body =
         (app
           (prologue o ss (condition o remove_unused)
             (condition o remove_unused)) (rhs_body o ord O)) }
     | None -> None)
  | None -> None

(** val gen_monitor : ode -> bool -> string -> func option **)

let gen_monitor o remove_unused order =
  match sorted_states o with
  | Some ss ->
    (match sorted_names o false with
     | Some ord ->
       Some { f_name = (String ((Ascii (true, false, true, true, false, true,
         true, false)), (String ((Ascii (true, true, true, true, false, true,
         true, false)), (String ((Ascii (false, true, true, true, false,
         true, true, false)), (String ((Ascii (true, false, false, true,
         false, true, true, false)), (String ((Ascii (false, false, true,
         false, true, true, true, false)), (String ((Ascii (true, true, true,
         true, false, true, true, false)), (String ((Ascii (false, true,
         false, false, true, true, true, false)), (String ((Ascii (true,
         true, true, true, true, false, true, false)), (String ((Ascii
         (false, true, true, false, true, true, true, false)), (String
         ((Ascii (true, false, false, false, false, true, true, false)),
         (String ((Ascii (false, false, true, true, false, true, true,
         false)), (String ((Ascii (true, false, true, false, true, true,
         true, false)), (String ((Ascii (true, false, true, false, false,
         true, true, false)), (String ((Ascii (true, true, false, false,
         true, true, true, false)), EmptyString))))))))))))))))))))))))))));
         f_args = (with_missing o (arg_list order)); f_nret =
         (add (length o.o_inters) (length o.o_derivs)); f_body =
         (app (prologue o ss keep_all (condition o remove_unused))
           (monitor_body o ord O)) }
     | None -> None)
  | None -> None

(** val gen_missing_values :
    ode -> bool -> (string * nat) list -> string -> func option **)

let gen_missing_values o remove_unused req order =
  match sorted_states o with
  | Some ss ->
    (match sorted_names o false with
     | Some ord ->
       Some { f_name = (String ((Ascii (true, false, true, true, false, true,
         true, false)), (String ((Ascii (true, false, false, true, false,
         true, true, false)), (String ((Ascii (true, true, false, false,
         true, true, true, false)), (String ((Ascii (true, true, false,
         false, true, true, true, false)), (String ((Ascii (true, false,
         false, true, false, true, true, false)), (String ((Ascii (false,
         true, true, true, false, true, true, false)), (String ((Ascii (true,
         true, true, false, false, true, true, false)), (String ((Ascii
         (true, true, true, true, true, false, true, false)), (String ((Ascii
         (false, true, true, false, true, true, true, false)), (String
         ((Ascii (true, false, false, false, false, true, true, false)),
         (String ((Ascii (false, false, true, true, false, true, true,
         false)), (String ((Ascii (true, false, true, false, true, true,
         true, false)), (String ((Ascii (true, false, true, false, false,
         true, true, false)), (String ((Ascii (true, true, false, false,
         true, true, true, false)), EmptyString))))))))))))))))))))))))))));
         f_args = (with_missing o (arg_list order)); f_nret = (length req);
         f_body =
         (app (prologue o ss keep_all (condition o remove_unused))
           (mv_body o req ord)) }
     | None -> None)
  | None -> None

(** val gen_euler : ode -> bool -> string -> string -> func option **)

let gen_euler o remove_unused name order =
  match sorted_states o with
  | Some ss ->
    (match sorted_names o remove_unused with
     | Some ord ->
       Some { f_name = name; f_args = (with_missing o (arg_list order));
         f_nret = (length (state_names o)); f_body =
         (app (prologue o ss keep_all (condition o remove_unused))
           (euler_body o ord O)) }
     | None -> None)
  | None -> None

(** val decl_value : decl list -> string -> expr **)

let decl_value l x =
  match find_decl l x with
  | Some d -> d.d_value
  | None -> e_zero

(** val closed_val : 'a1 numOps -> expr -> 'a1 **)

let closed_val n0 e =
  eval n0 (fun _ -> tzero n0) e

(** val set_nth : 'a1 list -> nat -> 'a1 -> 'a1 list **)

let rec set_nth l i v =
  match l with
  | [] -> []
  | x :: l' -> (match i with
                | O -> v :: l'
                | S i' -> x :: (set_nth l' i' v))

(** val apply_overrides :
    string list -> 'a1 list -> (string * 'a1) list -> 'a1 list option **)

let rec apply_overrides tbl vals = function
| [] -> Some vals
| p :: kw' ->
  let (k, v) = p in
  (match index_of k tbl with
   | Some i -> apply_overrides tbl (set_nth vals i v) kw'
   | None -> None)

(** val init_states :
    'a1 numOps -> ode -> (string * 'a1) list -> 'a1 list option **)

let init_states n0 o kw =
  match sorted_states o with
  | Some ss ->
    apply_overrides ss
      (map (fun x -> closed_val n0 (decl_value o.o_states x)) ss) kw
  | None -> None

(** val init_params :
    'a1 numOps -> ode -> (string * 'a1) list -> 'a1 list option **)

let init_params n0 o kw =
  let ps = param_names o in
  apply_overrides ps
    (map (fun x -> closed_val n0 (decl_value o.o_params x)) ps) kw

type entry = { en_name : string; en_value : expr; en_unit : string option;
               en_desc : string option }

type line = { ln_name : string; ln_expr : expr; ln_unit : string option;
              ln_comment : string option }

type item =
| IStates of string list * entry list
| IParams of string list * entry list
| IExprs of string list * line list
| IComment of string

type lerr =
| LDuplicate of string
| LStateNotFound of string * string
| LNotComplete of string
| LMissingSymbol of string

type 'a result0 =
| Ok of 'a
| Err of lerr

(** val bind : 'a1 result0 -> ('a1 -> 'a2 result0) -> 'a2 result0 **)

let bind r f =
  match r with
  | Ok a -> f a
  | Err e -> Err e

(** val opt_str_eqb : string option -> string option -> bool **)

let opt_str_eqb a b =
  match a with
  | Some x -> (match b with
               | Some y -> eqb1 x y
               | None -> false)
  | None -> (match b with
             | Some _ -> false
             | None -> true)

(** val list_str_eqb : string list -> string list -> bool **)

let rec list_str_eqb a b =
  match a with
  | [] -> (match b with
           | [] -> true
           | _ :: _ -> false)
  | x :: a' ->
    (match b with
     | [] -> false
     | y :: b' -> (&&) (eqb1 x y) (list_str_eqb a' b'))

(** val decl_eqb : decl -> decl -> bool **)

let decl_eqb a b =
  (&&)
    ((&&)
      ((&&) ((&&) (eqb1 a.d_name b.d_name) (expr_eqb a.d_value b.d_value))
        (list_str_eqb a.d_comps b.d_comps)) (opt_str_eqb a.d_unit b.d_unit))
    (opt_str_eqb a.d_desc b.d_desc)

(** val assign_eqb : assign -> assign -> bool **)

let assign_eqb a b =
  (&&)
    ((&&)
      ((&&) ((&&) (eqb1 a.a_name b.a_name) (expr_eqb a.a_expr b.a_expr))
        (list_str_eqb a.a_comps b.a_comps)) (opt_str_eqb a.a_unit b.a_unit))
    (opt_str_eqb a.a_comment b.a_comment)

(** val set_eqb : string list -> string list -> bool **)

let set_eqb a b =
  (&&) (forallb (fun x -> mem x b) a) (forallb (fun x -> mem x a) b)

(** val assign_key_eqb : assign -> assign -> bool **)

let assign_key_eqb a b =
  (&&)
    ((&&)
      ((&&)
        ((&&) (eqb1 a.a_name b.a_name)
          (set_eqb (vars a.a_expr) (vars b.a_expr)))
        (list_str_eqb a.a_comps b.a_comps)) (opt_str_eqb a.a_unit b.a_unit))
    (opt_str_eqb a.a_comment b.a_comment)

type comp = { c_name : string; c_states : decl list; c_params : decl list;
              c_assigns : assign list }

(** val empty_comp : string -> comp **)

let empty_comp n0 =
  { c_name = n0; c_states = []; c_params = []; c_assigns = [] }

(** val add_decl : decl list -> decl -> decl list **)

let add_decl l d =
  if existsb (decl_eqb d) l then l else app l (d :: [])

(** val add_assign : assign list -> assign -> assign list result0 **)

let add_assign l a =
  match find (assign_key_eqb a) l with
  | Some b -> if assign_eqb a b then Ok l else Err (LDuplicate a.a_name)
  | None -> Ok (app l (a :: []))

(** val upd_comp :
    comp list -> string -> (comp -> comp result0) -> comp list result0 **)

let rec upd_comp cs n0 f =
  match cs with
  | [] -> bind (f (empty_comp n0)) (fun c -> Ok (c :: []))
  | c :: cs' ->
    if eqb1 c.c_name n0
    then bind (f c) (fun c' -> Ok (c' :: cs'))
    else bind (upd_comp cs' n0 f) (fun cs'' -> Ok (c :: cs''))

(** val decl_of : string list -> entry -> decl **)

let decl_of comps e =
  { d_name = e.en_name; d_value = e.en_value; d_comps = comps; d_unit =
    e.en_unit; d_desc = e.en_desc }

(** val assign_of : string list -> line -> assign **)

let assign_of comps l =
  { a_name = l.ln_name; a_expr = l.ln_expr; a_comps = comps; a_unit =
    l.ln_unit; a_comment = l.ln_comment }

(** val add_state : decl -> comp -> comp result0 **)

let add_state d c =
  Ok { c_name = c.c_name; c_states = (add_decl c.c_states d); c_params =
    c.c_params; c_assigns = c.c_assigns }

(** val add_param : decl -> comp -> comp result0 **)

let add_param d c =
  Ok { c_name = c.c_name; c_states = c.c_states; c_params =
    (add_decl c.c_params d); c_assigns = c.c_assigns }

(** val add_assignment : assign -> comp -> comp result0 **)

let add_assignment a c =
  bind (add_assign c.c_assigns a) (fun l -> Ok { c_name = c.c_name;
    c_states = c.c_states; c_params = c.c_params; c_assigns = l })

(** val add_to_comps :
    comp list -> string list -> (comp -> comp result0) -> comp list result0 **)

let rec add_to_comps cs comps f =
  match comps with
  | [] -> Ok cs
  | n0 :: comps' ->
    bind (upd_comp cs n0 f) (fun cs' -> add_to_comps cs' comps' f)

(** val add_atoms :
    comp list -> string list -> ('a1 -> comp -> comp result0) -> 'a1 list ->
    comp list result0 **)

let rec add_atoms cs comps mk = function
| [] -> Ok cs
| x :: l' ->
  bind (add_to_comps cs comps (mk x)) (fun cs' -> add_atoms cs' comps mk l')

(** val add_item : comp list -> item -> comp list result0 **)

let add_item cs = function
| IStates (comps, es) ->
  add_atoms cs comps (fun e -> add_state (decl_of comps e)) es
| IParams (comps, es) ->
  add_atoms cs comps (fun e -> add_param (decl_of comps e)) es
| IExprs (comps, ls) ->
  add_atoms cs comps (fun l -> add_assignment (assign_of comps l)) ls
| IComment _ -> Ok cs

(** val transform : comp list -> item list -> comp list result0 **)

let rec transform cs = function
| [] -> Ok cs
| it :: items' -> bind (add_item cs it) (fun cs' -> transform cs' items')

(** val is_deriv : assign -> bool **)

let is_deriv a =
  match deriv_state a.a_name with
  | Some _ -> true
  | None -> false

(** val comp_derivs : comp -> assign list **)

let comp_derivs c =
  filter is_deriv c.c_assigns

(** val comp_inters : comp -> assign list **)

let comp_inters c =
  filter (fun a -> negb (is_deriv a)) c.c_assigns

(** val has_state : comp -> string -> bool **)

let has_state c s =
  existsb (fun d -> eqb1 d.d_name s) c.c_states

(** val first_missing_state : comp -> assign list -> string option **)

let rec first_missing_state c = function
| [] -> None
| a :: l' ->
  (match deriv_state a.a_name with
   | Some s -> if has_state c s then first_missing_state c l' else Some s
   | None -> first_missing_state c l')

(** val handle_assignments : comp list -> unit result0 **)

let rec handle_assignments = function
| [] -> Ok ()
| c :: cs' ->
  (match first_missing_state c c.c_assigns with
   | Some s -> Err (LStateNotFound (s, c.c_name))
   | None -> handle_assignments cs')

(** val state_has_derivative : comp -> decl -> bool **)

let state_has_derivative c d =
  existsb (fun a ->
    match deriv_state a.a_name with
    | Some s ->
      (&&) (eqb1 s d.d_name)
        (match find_decl c.c_states s with
         | Some d' -> decl_eqb d' d
         | None -> false)
    | None -> false) c.c_assigns

(** val complete : comp -> bool **)

let complete c =
  forallb (state_has_derivative c) c.c_states

(** val check_components : comp list -> unit result0 **)

let rec check_components = function
| [] -> Ok ()
| c :: cs' ->
  if complete c then check_components cs' else Err (LNotComplete c.c_name)

type atom =
| AParam of decl
| AState of decl
| AInter of assign
| ADeriv of assign

(** val atom_name : atom -> string **)

let atom_name = function
| AParam d -> d.d_name
| AState d -> d.d_name
| AInter a -> a.a_name
| ADeriv a -> a.a_name

(** val atom_eqb : atom -> atom -> bool **)

let atom_eqb x y =
  match x with
  | AParam a -> (match y with
                 | AParam b -> decl_eqb a b
                 | _ -> false)
  | AState a -> (match y with
                 | AState b -> decl_eqb a b
                 | _ -> false)
  | AInter a -> (match y with
                 | AInter b -> assign_eqb a b
                 | _ -> false)
  | ADeriv a -> (match y with
                 | ADeriv b -> assign_eqb a b
                 | _ -> false)

(** val comp_atoms : comp -> atom list **)

let comp_atoms c =
  app (map (fun x -> AParam x) c.c_params)
    (app (map (fun x -> AState x) c.c_states)
      (app (map (fun x -> AInter x) (comp_inters c))
        (map (fun x -> ADeriv x) (comp_derivs c))))

(** val all_atoms : comp list -> atom list **)

let all_atoms cs =
  flat_map comp_atoms cs

(** val clashes : atom -> atom -> bool **)

let clashes x y =
  (&&) (eqb1 (atom_name x) (atom_name y)) (negb (atom_eqb x y))

(** val first_dup : atom list -> string option **)

let rec first_dup = function
| [] -> None
| x :: l' ->
  if existsb (clashes x) l' then Some (atom_name x) else first_dup l'

(** val symbols : comp list -> string list **)

let symbols cs =
  app (map atom_name (all_atoms cs)) ((String ((Ascii (false, false, true,
    false, true, true, true, false)), (String ((Ascii (true, false, false,
    true, false, true, true, false)), (String ((Ascii (true, false, true,
    true, false, true, true, false)), (String ((Ascii (true, false, true,
    false, false, true, true, false)), EmptyString)))))))) :: ((String
    ((Ascii (false, false, true, false, true, true, true, false)),
    EmptyString)) :: []))

(** val first_missing_symbol : string list -> string list -> string option **)

let rec first_missing_symbol syms = function
| [] -> None
| x :: l' -> if mem x syms then first_missing_symbol syms l' else Some x

(** val all_assigns : comp list -> assign list **)

let all_assigns cs =
  flat_map (fun c -> c.c_assigns) cs

(** val resolve : comp list -> unit result0 **)

let resolve cs =
  match first_missing_symbol (symbols cs)
          (flat_map (fun a -> vars a.a_expr) (all_assigns cs)) with
  | Some s -> Err (LMissingSymbol s)
  | None -> Ok ()

(** val dedup_decl : decl list -> decl list **)

let rec dedup_decl = function
| [] -> []
| d :: l' ->
  if existsb (decl_eqb d) l' then dedup_decl l' else d :: (dedup_decl l')

(** val dedup_assign : assign list -> assign list **)

let rec dedup_assign = function
| [] -> []
| a :: l' ->
  if existsb (assign_eqb a) l'
  then dedup_assign l'
  else a :: (dedup_assign l')

(** val ode_of : comp list -> ode **)

let ode_of cs =
  { o_states = (dedup_decl (flat_map (fun c -> c.c_states) cs)); o_params =
    (dedup_decl (flat_map (fun c -> c.c_params) cs)); o_inters =
    (dedup_assign (flat_map comp_inters cs)); o_derivs =
    (dedup_assign (flat_map comp_derivs cs)) }

(** val load_comps : item list -> comp list result0 **)

let load_comps items =
  bind (transform [] items) (fun cs ->
    bind (handle_assignments cs) (fun _ ->
      bind (check_components cs) (fun _ ->
        match first_dup (all_atoms cs) with
        | Some n0 -> Err (LDuplicate n0)
        | None -> bind (resolve cs) (fun _ -> Ok cs))))

(** val load : item list -> ode result0 **)

let load items =
  bind (load_comps items) (fun cs -> Ok (ode_of cs))

(** val membership : comp list -> (string * string list) list **)

let membership cs =
  map (fun c -> (c.c_name,
    (sort_names
      (app (map (fun d -> d.d_name) c.c_states)
        (app (map (fun d -> d.d_name) c.c_params)
          (map (fun a -> a.a_name) c.c_assigns)))))) cs

(** val stores_at : nat -> stmt list -> expr list **)

let stores_at i body =
  flat_map (fun s ->
    match s with
    | SStore (j, e) -> if Nat.eqb i j then e :: [] else []
    | _ -> []) body

(** val slots_ok : nat -> (nat -> expr -> bool) -> stmt list -> bool **)

let slots_ok nret ok body =
  forallb (fun i ->
    match stores_at i body with
    | [] -> false
    | e :: l -> (match l with
                 | [] -> ok i e
                 | _ :: _ -> false)) (seq O nret)

(** val valid_fun :
    ode -> string list -> 'a1 inputs -> bool -> func -> (nat -> expr -> bool)
    -> bool **)

let valid_fun o ss inp with_dt f ok =
  (&&) (valid_body o ss inp with_dt f.f_nret (reserved inp with_dt) f.f_body)
    (slots_ok f.f_nret ok f.f_body)

(** val is_var : string -> expr -> bool **)

let is_var x = function
| EVar y -> eqb1 x y
| _ -> false

(** val ok_name : string list -> nat -> expr -> bool **)

let ok_name tbl i e =
  match nth_error tbl i with
  | Some n0 -> is_var n0 e
  | None -> false

(** val ok_rhs : ode -> string list -> nat -> expr -> bool **)

let ok_rhs o ss i e =
  match nth_error ss i with
  | Some s ->
    (&&) (is_var (deriv_name_of s) e) (is_deriv_name o (deriv_name_of s))
  | None -> false

(** val valid_rhs :
    ode -> string list -> 'a1 inputs -> bool -> func -> bool **)

let valid_rhs o ss inp with_dt f =
  (&&) (Nat.eqb f.f_nret (length ss))
    (valid_fun o ss inp with_dt f (ok_rhs o ss))

(** val valid_named :
    ode -> string list -> 'a1 inputs -> bool -> string list -> func -> bool **)

let valid_named o ss inp with_dt tbl f =
  (&&) (Nat.eqb f.f_nret (length tbl))
    (valid_fun o ss inp with_dt f (ok_name tbl))

(** val states_clean : ode -> string list -> 'a1 inputs -> bool -> bool **)

let states_clean o ss inp with_dt =
  forallb (fun s ->
    (&&) (negb (is_assign o s)) (negb (mem s (reserved inp with_dt)))) ss

(** val is_dt_mul : string -> expr -> bool **)

let is_dt_mul n0 = function
| EMul (a, b) ->
  (||)
    ((&&)
      (is_var (String ((Ascii (false, false, true, false, false, true, true,
        false)), (String ((Ascii (false, false, true, false, true, true,
        true, false)), EmptyString)))) a) (is_var n0 b))
    ((&&) (is_var n0 a)
      (is_var (String ((Ascii (false, false, true, false, false, true, true,
        false)), (String ((Ascii (false, false, true, false, true, true,
        true, false)), EmptyString)))) b))
| _ -> false

(** val is_euler : string -> expr -> bool **)

let is_euler s = function
| EAdd (a, b) ->
  (||) ((&&) (is_var s a) (is_dt_mul (deriv_name_of s) b))
    ((&&) (is_dt_mul (deriv_name_of s) a) (is_var s b))
| _ -> false

(** val ok_euler : ode -> string list -> nat -> expr -> bool **)

let ok_euler o ss i e =
  match nth_error ss i with
  | Some s -> (&&) (is_euler s e) (is_deriv_name o (deriv_name_of s))
  | None -> false

(** val valid_euler :
    ode -> string list -> 'a1 inputs -> bool -> func -> bool **)

let valid_euler o ss inp with_dt f =
  (&&) (Nat.eqb f.f_nret (length ss))
    (valid_fun o ss inp with_dt f (ok_euler o ss))

(** val ap1 : ('a1 -> 'a1) -> 'a1 option -> 'a1 option **)

let ap1 f = function
| Some x -> Some (f x)
| None -> None

(** val ap2 :
    ('a1 -> 'a1 -> 'a1) -> 'a1 option -> 'a1 option -> 'a1 option **)

let ap2 f a b =
  match a with
  | Some x -> (match b with
               | Some y -> Some (f x y)
               | None -> None)
  | None -> None

(** val ap3 :
    ('a1 -> 'a1 -> 'a1 -> 'a1) -> 'a1 option -> 'a1 option -> 'a1 option ->
    'a1 option **)

let ap3 f a b c =
  match a with
  | Some x ->
    (match b with
     | Some y -> (match c with
                  | Some z0 -> Some (f x y z0)
                  | None -> None)
     | None -> None)
  | None -> None

(** val evalo : 'a1 numOps -> (string -> 'a1 option) -> expr -> 'a1 option **)

let rec evalo n0 rho = function
| ENum (q0, _) -> Some (n0.ofQ q0)
| EVar x -> rho x
| EPi -> Some n0.cpi
| EAdd (a, b) -> ap2 n0.add0 (evalo n0 rho a) (evalo n0 rho b)
| ESub (a, b) -> ap2 n0.sub0 (evalo n0 rho a) (evalo n0 rho b)
| EMul (a, b) -> ap2 n0.mul0 (evalo n0 rho a) (evalo n0 rho b)
| EDiv (a, b) -> ap2 n0.div (evalo n0 rho a) (evalo n0 rho b)
| EPow (a, b) -> ap2 n0.pow (evalo n0 rho a) (evalo n0 rho b)
| ENeg a -> ap1 n0.neg (evalo n0 rho a)
| EFn (f, a) -> ap1 (n0.fn f) (evalo n0 rho a)
| EMod (a, b) -> ap2 n0.fmod (evalo n0 rho a) (evalo n0 rho b)
| ERel (r, a, b) -> ap2 (n0.rel r) (evalo n0 rho a) (evalo n0 rho b)
| ENot a -> ap1 n0.bnot (evalo n0 rho a)
| EAnd (a, b) -> ap2 n0.band (evalo n0 rho a) (evalo n0 rho b)
| EOr (a, b) -> ap2 n0.bor (evalo n0 rho a) (evalo n0 rho b)
| ECond (c, a, b) ->
  ap3 n0.select (evalo n0 rho c) (evalo n0 rho a) (evalo n0 rho b)

(** val sem_eval :
    'a1 numOps -> ode -> string list -> 'a1 inputs -> bool -> nat -> string
    -> 'a1 option **)

let rec sem_eval n0 o ss inp with_dt fuel x =
  match fuel with
  | O -> None
  | S k ->
    (match find_assign o x with
     | Some a -> evalo n0 (sem_eval n0 o ss inp with_dt k) a.a_expr
     | None -> base o ss inp with_dt x)

(** val sem_eval_expr :
    'a1 numOps -> ode -> string list -> 'a1 inputs -> bool -> nat -> expr ->
    'a1 option **)

let sem_eval_expr n0 o ss inp with_dt fuel e =
  evalo n0 (sem_eval n0 o ss inp with_dt fuel) e

type kstmt =
| KUnS of string * nat
| KUnP of string * nat
| KUnM of string * nat
| KLet of string * string list
| KStore of nat * expr

(** val fill_stmt : ode -> kstmt -> stmt option **)

let fill_stmt o = function
| KUnS (x, i) -> Some (SUnpackS (x, i))
| KUnP (x, i) -> Some (SUnpackP (x, i))
| KUnM (x, i) -> Some (SUnpackM (x, i))
| KLet (x, reads) ->
  (match find_assign o x with
   | Some a ->
     if forallb (fun r -> mem r (vars a.a_expr)) reads
     then Some (SLet (x, a.a_expr))
     else None
   | None -> None)
| KStore (i, e) -> Some (SStore (i, e))

(** val fill_body : ode -> kstmt list -> stmt list option **)

let rec fill_body o = function
| [] -> Some []
| k :: ks' ->
  (match fill_stmt o k with
   | Some s ->
     (match fill_body o ks' with
      | Some b -> Some (s :: b)
      | None -> None)
   | None -> None)

(** val first_bad :
    ode -> string list -> 'a1 inputs -> bool -> nat -> string list -> stmt
    list -> nat -> nat option **)

let rec first_bad o ss inp with_dt nret defined body pos =
  match body with
  | [] -> None
  | s :: body' ->
    if ok_stmt o ss inp with_dt nret defined s
    then first_bad o ss inp with_dt nret (app (binds s) defined) body' (S pos)
    else Some pos
