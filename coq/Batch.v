(* Batch.v — vectorised execution (C14).  A batch is a function from the column index to a value;
   the batch carrier applies every operation column by column (this is what numpy does for the
   array-safe constructs: arithmetic, numpy.<function>, comparisons, numpy.where,
   numpy.logical_and / or / not).  Executing a function body on a batch is the same as executing it on every
   column alone. *)
From GX Require Import Base Expr Target.
Open Scope string_scope.
Open Scope list_scope.

Section Batch.
  Context {T : Type} (N : NumOps T).

  Local Notation V := (nat -> T).

  Definition VOps : NumOps V := {|
    ofQ := fun q _ => ofQ N q;
    cpi := fun _ => cpi N;
    add := fun a b j => add N (a j) (b j);
    sub := fun a b j => sub N (a j) (b j);
    mul := fun a b j => mul N (a j) (b j);
    div := fun a b j => div N (a j) (b j);
    pow := fun a b j => pow N (a j) (b j);
    neg := fun a j => neg N (a j);
    fn := fun f a j => fn N f (a j);
    fmod := fun a b j => fmod N (a j) (b j);
    rel := fun r a b j => rel N r (a j) (b j);
    bnot := fun a j => bnot N (a j);
    band := fun a b j => band N (a j) (b j);
    bor := fun a b j => bor N (a j) (b j);
    select := fun c a b j => select N (c j) (a j) (b j) |}.

  (* every expression is evaluated column by column *)
  Lemma eval_columnwise (rho : string -> V) e j :
    eval VOps rho e j = eval N (fun x => rho x j) e.
  Proof. induction e; simpl; congruence. Qed.

  Definition col_inputs (j : nat) (inp : inputs V) : inputs T :=
    {| in_t := in_t inp j; in_dt := in_dt inp j;
       in_states := map (fun v => v j) (in_states inp);
       in_params := map (fun v => v j) (in_params inp);
       in_missing := map (fun v => v j) (in_missing inp) |}.

  Definition col_env (j : nat) (rho : env V) : env T := map (fun kv => (fst kv, snd kv j)) rho.
  Definition col_vals (j : nat) (vals : list (nat * V)) : list (nat * T) :=
    map (fun kv => (fst kv, snd kv j)) vals.

  Lemma lookup_col j (rho : env V) x :
    lookup x (col_env j rho) = match lookup x rho with Some v => Some (v j) | None => None end.
  Proof.
    induction rho as [|[y v] rho IH]; simpl; [reflexivity|].
    destruct (String.eqb x y); auto.
  Qed.

  Lemma bound_col j (rho : env V) e : bound (col_env j rho) e = bound rho e.
  Proof.
    unfold bound. induction (vars e) as [|x l IH]; simpl; [reflexivity|].
    rewrite lookup_col, IH. destruct (lookup x rho); reflexivity.
  Qed.

  Lemma env_fun_col j (rho : env V) x :
    env_fun N (col_env j rho) x = env_fun VOps rho x j.
  Proof. unfold env_fun. rewrite lookup_col. destruct (lookup x rho); reflexivity. Qed.

  Lemma eval_env_col j (rho : env V) e :
    eval VOps (env_fun VOps rho) e j = eval N (env_fun N (col_env j rho)) e.
  Proof.
    rewrite eval_columnwise. apply eval_ext. intros x _. symmetry. apply env_fun_col.
  Qed.

  Lemma nth_error_map_col {A B} (f : A -> B) l i :
    nth_error (map f l) i = match nth_error l i with Some v => Some (f v) | None => None end.
  Proof. revert i; induction l as [|x l IH]; intros [|i]; simpl; auto. Qed.

  Lemma env0_col j inp wd : env0 (col_inputs j inp) wd = col_env j (env0 inp wd).
  Proof. unfold env0. destruct wd; reflexivity. Qed.

  (* one statement on a batch = the statement on each column *)
  Lemma step_col j nret inp rho vals s :
    step N nret (col_inputs j inp) (col_env j rho, col_vals j vals) s =
    match step VOps nret inp (rho, vals) s with
    | Some (rho', vals') => Some (col_env j rho', col_vals j vals')
    | None => None
    end.
  Proof.
    destruct s as [x i|x i|x i|x e|i e]; cbn [step col_inputs in_states in_params in_missing].
    - rewrite nth_error_map_col. destruct (nth_error (in_states inp) i); reflexivity.
    - rewrite nth_error_map_col. destruct (nth_error (in_params inp) i); reflexivity.
    - rewrite nth_error_map_col. destruct (nth_error (in_missing inp) i); reflexivity.
    - rewrite bound_col. destruct (bound rho e); [|reflexivity]. simpl. rewrite eval_env_col. reflexivity.
    - rewrite bound_col. destruct (bound rho e && Nat.ltb i nret); [|reflexivity].
      simpl. rewrite eval_env_col. reflexivity.
  Qed.

  Lemma run_col j nret inp body : forall rho vals,
    run N nret (col_inputs j inp) (col_env j rho, col_vals j vals) body =
    match run VOps nret inp (rho, vals) body with
    | Some (rho', vals') => Some (col_env j rho', col_vals j vals')
    | None => None
    end.
  Proof.
    induction body as [|s body IH]; intros rho vals; cbn [run]; [reflexivity|].
    rewrite step_col. destruct (step VOps nret inp (rho, vals) s) as [[rho1 vals1]|]; [apply IH|reflexivity].
  Qed.

  Lemma lookup_nat_col j i (vals : list (nat * V)) :
    lookup_nat i (col_vals j vals) = match lookup_nat i vals with Some v => Some (v j) | None => None end.
  Proof.
    induction vals as [|[k v] vals IH]; simpl; [reflexivity|]. destruct (Nat.eqb i k); auto.
  Qed.

  Lemma result_col j nret (vals : list (nat * V)) :
    result N nret (col_vals j vals) = map (fun v => v j) (result VOps nret vals).
  Proof.
    unfold result. rewrite map_map. apply map_ext. intros i. rewrite lookup_nat_col.
    destruct (lookup_nat i vals); reflexivity.
  Qed.

  (* C14: the result for a batch is, column by column, the result for that column alone; and the
     batch call fails (NameError / IndexError) exactly when the single-column calls do *)
  Theorem exec_columnwise (f : func) wd (inp : inputs V) j :
    exec N f wd (col_inputs j inp) =
    match exec VOps f wd inp with
    | Some out => Some (map (fun v => v j) out)
    | None => None
    end.
  Proof.
    unfold exec. rewrite env0_col.
    change (@nil (nat * T)) with (col_vals j (@nil (nat * V))).
    rewrite run_col. destruct (run VOps (f_nret f) inp (env0 inp wd, [])) as [[rho vals]|]; [|reflexivity].
    rewrite result_col. reflexivity.
  Qed.
End Batch.
