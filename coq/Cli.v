(* Cli.v — option plumbing of the command line (cli/__init__.py, cli/utils.py): the options given
   on the command line are merged with the configuration file ([tool.gotranx] of pyproject.toml or
   --config): a key present in the configuration overrides the command line - whatever its value,
   an empty list or 0 included - a key that is absent leaves the command-line value. *)
From GX Require Import Base.
From Coq Require Import QArith.
Close Scope Q_scope.
Open Scope string_scope.
Open Scope list_scope.

Record opts := {
  o_scheme : list string;
  o_stiff : list string;
  o_delta : Q;
  o_verbose : bool;
  o_remove_unused : bool;
  o_format : string;
  o_backend : string;
  o_outname : option string }.

Record config := {
  c_scheme : option (list string);
  c_stiff : option (list string);
  c_delta : option Q;
  c_verbose : option bool;
  c_format : option string;     (* [tool.gotranx.python] / [tool.gotranx.c] format *)
  c_backend : option string }.

Definition pick {A} (c : option A) (cli : A) : A := match c with Some v => v | None => cli end.

(* config_data.get(key, cli_value) *)
Definition effective (cli : opts) (cfg : config) : opts :=
  {| o_scheme := pick (c_scheme cfg) (o_scheme cli);
     o_stiff := pick (c_stiff cfg) (o_stiff cli);
     o_delta := pick (c_delta cfg) (o_delta cli);
     o_verbose := pick (c_verbose cfg) (o_verbose cli);
     o_remove_unused := o_remove_unused cli;
     o_format := pick (c_format cfg) (o_format cli);
     o_backend := pick (c_backend cfg) (o_backend cli);
     o_outname := o_outname cli |}.

Definition empty_config : config :=
  {| c_scheme := None; c_stiff := None; c_delta := None; c_verbose := None; c_format := None; c_backend := None |}.

Theorem no_config_keeps_the_command_line cli : effective cli empty_config = cli.
Proof. destruct cli; reflexivity. Qed.

Theorem config_overrides_whatever_its_value cli cfg s st d :
  c_scheme cfg = Some s -> c_stiff cfg = Some st -> c_delta cfg = Some d ->
  o_scheme (effective cli cfg) = s /\ o_stiff (effective cli cfg) = st /\ o_delta (effective cli cfg) = d.
Proof. intros H1 H2 H3. unfold effective; simpl. rewrite H1, H2, H3. auto. Qed.

Theorem absent_keys_leave_the_command_line cli cfg :
  c_scheme cfg = None -> c_stiff cfg = None -> c_delta cfg = None ->
  o_scheme (effective cli cfg) = o_scheme cli /\ o_stiff (effective cli cfg) = o_stiff cli
  /\ o_delta (effective cli cfg) = o_delta cli.
Proof. intros H1 H2 H3. unfold effective; simpl. rewrite H1, H2, H3. auto. Qed.

Theorem options_without_configuration_key_pass_through cli cfg :
  o_remove_unused (effective cli cfg) = o_remove_unused cli /\ o_outname (effective cli cfg) = o_outname cli.
Proof. split; reflexivity. Qed.

(* the output path: -o if given, otherwise the model path; the suffix replaces the last suffix *)
Definition out_path (model : string) (outname : option string) : string := pick outname model.
