(* Run.v — executable entry points used by the correspondence check (extracted to OCaml):
   an order-free reference evaluator of the documented meaning ([sem_eval], proved sound w.r.t.
   the relation Sem), and the bridge from the skeleton of the implementation's generated code
   ([kstmt]: what the harness reads off the generated text with Python's ast) to the verified
   validators of Valid.v. *)
From GX Require Import Base Expr Topo Ode Target Sem Valid.
Open Scope string_scope.
Open Scope list_scope.

Section EvalO.
  Context {T : Type} (N : NumOps T).

  Definition ap1 (f : T -> T) (a : option T) : option T :=
    match a with Some x => Some (f x) | None => None end.
  Definition ap2 (f : T -> T -> T) (a b : option T) : option T :=
    match a, b with Some x, Some y => Some (f x y) | _, _ => None end.
  Definition ap3 (f : T -> T -> T -> T) (a b c : option T) : option T :=
    match a, b, c with Some x, Some y, Some z => Some (f x y z) | _, _, _ => None end.

  (* eval with partial environments: None if some variable has no value.  Every operand is
     evaluated (no short-circuit): numpy.where evaluates both branches, too. *)
  Fixpoint evalo (rho : string -> option T) (e : expr) : option T :=
    match e with
    | ENum q _ => Some (ofQ N q)
    | EVar x => rho x
    | EPi => Some (cpi N)
    | EAdd a b => ap2 (add N) (evalo rho a) (evalo rho b)
    | ESub a b => ap2 (sub N) (evalo rho a) (evalo rho b)
    | EMul a b => ap2 (mul N) (evalo rho a) (evalo rho b)
    | EDiv a b => ap2 (div N) (evalo rho a) (evalo rho b)
    | EPow a b => ap2 (pow N) (evalo rho a) (evalo rho b)
    | ENeg a => ap1 (neg N) (evalo rho a)
    | EFn f a => ap1 (fn N f) (evalo rho a)
    | EMod a b => ap2 (fmod N) (evalo rho a) (evalo rho b)
    | ERel r a b => ap2 (rel N r) (evalo rho a) (evalo rho b)
    | ENot a => ap1 (bnot N) (evalo rho a)
    | EAnd a b => ap2 (band N) (evalo rho a) (evalo rho b)
    | EOr a b => ap2 (bor N) (evalo rho a) (evalo rho b)
    | ECond c a b => ap3 (select N) (evalo rho c) (evalo rho a) (evalo rho b)
    end.

  Lemma evalo_sound rho e v :
    evalo rho e = Some v ->
    forall d : T,
      let r := fun y => match rho y with Some w => w | None => d end in
      (forall y, In y (vars e) -> rho y = Some (r y)) /\ v = eval N r e.
  Proof.
    intros H d r. revert v H.
    induction e; intros v H; simpl in H |- *;
      try (injection H as <-; split; [intros y []|reflexivity]).
    - (* EVar *) split; [|unfold r; rewrite H; reflexivity].
      intros y [<-|[]]. unfold r. rewrite H. reflexivity.
    - destruct (evalo rho e1) as [v1|] eqn:E1; [|discriminate].
      destruct (evalo rho e2) as [v2|] eqn:E2; [|discriminate]. injection H as <-.
      destruct (IHe1 _ eq_refl) as [H1 ->]. destruct (IHe2 _ eq_refl) as [H2 ->].
      split; [|reflexivity]. intros y Hy. apply in_app_or in Hy. destruct Hy; auto.
    - destruct (evalo rho e1) as [v1|] eqn:E1; [|discriminate].
      destruct (evalo rho e2) as [v2|] eqn:E2; [|discriminate]. injection H as <-.
      destruct (IHe1 _ eq_refl) as [H1 ->]. destruct (IHe2 _ eq_refl) as [H2 ->].
      split; [|reflexivity]. intros y Hy. apply in_app_or in Hy. destruct Hy; auto.
    - destruct (evalo rho e1) as [v1|] eqn:E1; [|discriminate].
      destruct (evalo rho e2) as [v2|] eqn:E2; [|discriminate]. injection H as <-.
      destruct (IHe1 _ eq_refl) as [H1 ->]. destruct (IHe2 _ eq_refl) as [H2 ->].
      split; [|reflexivity]. intros y Hy. apply in_app_or in Hy. destruct Hy; auto.
    - destruct (evalo rho e1) as [v1|] eqn:E1; [|discriminate].
      destruct (evalo rho e2) as [v2|] eqn:E2; [|discriminate]. injection H as <-.
      destruct (IHe1 _ eq_refl) as [H1 ->]. destruct (IHe2 _ eq_refl) as [H2 ->].
      split; [|reflexivity]. intros y Hy. apply in_app_or in Hy. destruct Hy; auto.
    - destruct (evalo rho e1) as [v1|] eqn:E1; [|discriminate].
      destruct (evalo rho e2) as [v2|] eqn:E2; [|discriminate]. injection H as <-.
      destruct (IHe1 _ eq_refl) as [H1 ->]. destruct (IHe2 _ eq_refl) as [H2 ->].
      split; [|reflexivity]. intros y Hy. apply in_app_or in Hy. destruct Hy; auto.
    - destruct (evalo rho e) as [v1|] eqn:E1; [|discriminate]. injection H as <-.
      destruct (IHe _ eq_refl) as [H1 ->]. split; [exact H1|reflexivity].
    - destruct (evalo rho e) as [v1|] eqn:E1; [|discriminate]. injection H as <-.
      destruct (IHe _ eq_refl) as [H1 ->]. split; [exact H1|reflexivity].
    - destruct (evalo rho e1) as [v1|] eqn:E1; [|discriminate].
      destruct (evalo rho e2) as [v2|] eqn:E2; [|discriminate]. injection H as <-.
      destruct (IHe1 _ eq_refl) as [H1 ->]. destruct (IHe2 _ eq_refl) as [H2 ->].
      split; [|reflexivity]. intros y Hy. apply in_app_or in Hy. destruct Hy; auto.
    - destruct (evalo rho e1) as [v1|] eqn:E1; [|discriminate].
      destruct (evalo rho e2) as [v2|] eqn:E2; [|discriminate]. injection H as <-.
      destruct (IHe1 _ eq_refl) as [H1 ->]. destruct (IHe2 _ eq_refl) as [H2 ->].
      split; [|reflexivity]. intros y Hy. apply in_app_or in Hy. destruct Hy; auto.
    - destruct (evalo rho e) as [v1|] eqn:E1; [|discriminate]. injection H as <-.
      destruct (IHe _ eq_refl) as [H1 ->]. split; [exact H1|reflexivity].
    - destruct (evalo rho e1) as [v1|] eqn:E1; [|discriminate].
      destruct (evalo rho e2) as [v2|] eqn:E2; [|discriminate]. injection H as <-.
      destruct (IHe1 _ eq_refl) as [H1 ->]. destruct (IHe2 _ eq_refl) as [H2 ->].
      split; [|reflexivity]. intros y Hy. apply in_app_or in Hy. destruct Hy; auto.
    - destruct (evalo rho e1) as [v1|] eqn:E1; [|discriminate].
      destruct (evalo rho e2) as [v2|] eqn:E2; [|discriminate]. injection H as <-.
      destruct (IHe1 _ eq_refl) as [H1 ->]. destruct (IHe2 _ eq_refl) as [H2 ->].
      split; [|reflexivity]. intros y Hy. apply in_app_or in Hy. destruct Hy; auto.
    - destruct (evalo rho e1) as [v1|] eqn:E1; [|discriminate].
      destruct (evalo rho e2) as [v2|] eqn:E2; [|discriminate].
      destruct (evalo rho e3) as [v3|] eqn:E3; [|discriminate]. injection H as <-.
      destruct (IHe1 _ eq_refl) as [H1 ->]. destruct (IHe2 _ eq_refl) as [H2 ->].
      destruct (IHe3 _ eq_refl) as [H3 ->].
      split; [|reflexivity]. intros y Hy. apply in_app_or in Hy. destruct Hy as [Hy|Hy]; auto.
      apply in_app_or in Hy. destruct Hy; auto.
  Qed.
End EvalO.

Section SemEval.
  Context {T : Type} (N : NumOps T) (o : ode).
  Variable ss : list string.
  Variable inp : inputs T.
  Variable with_dt : bool.

  (* the documented meaning of a name, computed by unfolding definitions (no evaluation order
     is involved); None = out of fuel (cyclic definitions) or an undefined name *)
  Fixpoint sem_eval (fuel : nat) (x : string) : option T :=
    match fuel with
    | O => None
    | S k =>
        match find_assign o x with
        | None => base o ss inp with_dt x
        | Some a => evalo N (sem_eval k) (a_expr a)
        end
    end.

  Theorem sem_eval_sound fuel x v :
    sem_eval fuel x = Some v -> Sem N o ss inp with_dt x v.
  Proof.
    revert x v. induction fuel as [|k IH]; intros x v H; [discriminate|].
    simpl in H. destruct (find_assign o x) as [a|] eqn:Ef.
    - destruct (evalo_sound N (sem_eval k) (a_expr a) v H v) as [Hv ->].
      apply SemDef; [exact Ef|]. intros y Hy. apply IH. apply Hv. exact Hy.
    - apply SemBase; assumption.
  Qed.

  Definition sem_eval_expr (fuel : nat) (e : expr) : option T := evalo N (sem_eval fuel) e.

  Theorem sem_eval_expr_sound fuel e v :
    sem_eval_expr fuel e = Some v -> SemE N o ss inp with_dt e v.
  Proof.
    intros H. destruct (evalo_sound N (sem_eval fuel) e v H v) as [Hv ->].
    eexists. split; [|reflexivity]. intros y Hy. apply sem_eval_sound with fuel. apply Hv. exact Hy.
  Qed.
End SemEval.

(* ---------- the skeleton of an implementation-generated function ---------- *)
Inductive kstmt :=
| KUnS (x : string) (i : nat)
| KUnP (x : string) (i : nat)
| KUnM (x : string) (i : nat)
| KLet (x : string) (reads : list string)   (* x = <text>; reads = the names the text mentions *)
| KStore (i : nat) (e : expr).              (* values[i] = e, parsed from the generated text *)

(* A let of the generated code is matched with the model's definition of the same name; the
   generated text may not read a name the definition does not mention ("time" is printed as the
   symbol t: ode.py binds symbols["time"] = t).  (That the text computes
   the definition's value is the printer contract, checked numerically.) *)
Definition fill_stmt (o : ode) (k : kstmt) : option stmt :=
  match k with
  | KUnS x i => Some (SUnpackS x i)
  | KUnP x i => Some (SUnpackP x i)
  | KUnM x i => Some (SUnpackM x i)
  | KLet x reads =>
      match find_assign o x with
      | Some a => if forallb (fun r => mem r (vars (a_expr a))
                                     || (String.eqb r "t" && mem "time" (vars (a_expr a)))) reads
                  then Some (SLet x (a_expr a)) else None
      | None => None
      end
  | KStore i e => Some (SStore i e)
  end.

Fixpoint fill_body (o : ode) (ks : list kstmt) : option (list stmt) :=
  match ks with
  | [] => Some []
  | k :: ks' =>
      match fill_stmt o k, fill_body o ks' with
      | Some s, Some b => Some (s :: b)
      | _, _ => None
      end
  end.

(* diagnostics only: index of the first statement the body validator rejects *)
Section Diag.
  Context {T : Type} (o : ode) (ss : list string) (inp : inputs T) (with_dt : bool).
  Fixpoint first_bad (nret : nat) (defined : list string) (body : list stmt) (pos : nat) : option nat :=
    match body with
    | [] => None
    | s :: body' =>
        if ok_stmt o ss inp with_dt nret defined s
        then first_bad nret (binds s ++ defined) body' (S pos)
        else Some pos
    end.
End Diag.
