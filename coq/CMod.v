(* CMod.v — the C text the generator writes for Mod(a, b) since the repair of the sign defect,
     fmod(fmod(a, b) + b, b),
   computes the language's Mod (the floored modulo: the result has the sign of the divisor, as in sympy, Python and the
   numpy / jax code) over the reals, for every divisor other than 0 - while a single fmod(a, b), whose result has the sign of
   the dividend, does not (Example).  C's fmod over the reals is a - b*trunc(a/b) (RealsC.r_cfmod). *)
From Coq Require Import Reals Lra Lia ZArith R_Ifp.
From GX Require Import Base Expr Carriers RealsC.
Open Scope R_scope.

Lemma Int_part_unique (x : R) (n : Z) : IZR n <= x < IZR n + 1 -> Int_part x = n.
Proof.
  intros [H1 H2]. destruct (base_Int_part x) as [H3 H4].
  assert (Ha : IZR (Int_part x) < IZR n + 1) by lra.
  assert (Hb : IZR n < IZR (Int_part x) + 1) by lra.
  rewrite <- (plus_IZR n 1) in Ha. rewrite <- (plus_IZR (Int_part x) 1) in Hb.
  apply lt_IZR in Ha. apply lt_IZR in Hb. lia.
Qed.

Lemma r_floor_spec x : r_floor x <= x < r_floor x + 1.
Proof. unfold r_floor. destruct (base_Int_part x). lra. Qed.

Lemma r_floor_unique x n : IZR n <= x < IZR n + 1 -> r_floor x = IZR n.
Proof. intros H. unfold r_floor. rewrite (Int_part_unique x n H). reflexivity. Qed.

Lemma r_floor_IZR n : r_floor (IZR n) = IZR n.
Proof. apply r_floor_unique. lra. Qed.

(* trunc rounds towards 0: floor for non-negative arguments, ceiling for negative ones *)
Lemma r_trunc_nonneg x : 0 <= x -> r_trunc x = r_floor x.
Proof. intros H. unfold r_trunc. destruct (Rle_dec 0 x); [reflexivity|contradiction]. Qed.

Lemma r_trunc_neg_int x n : x < 0 -> x = IZR n -> r_trunc x = IZR n.
Proof.
  intros H E. unfold r_trunc. destruct (Rle_dec 0 x); [lra|].
  subst x. rewrite <- opp_IZR, r_floor_IZR, opp_IZR. lra.
Qed.

Lemma r_trunc_neg_frac x n : x < 0 -> IZR n < x < IZR n + 1 -> r_trunc x = IZR n + 1.
Proof.
  intros H [H1 H2]. unfold r_trunc. destruct (Rle_dec 0 x); [lra|].
  rewrite (r_floor_unique (- x) (- n - 1)).
  - rewrite minus_IZR, opp_IZR. lra.
  - rewrite minus_IZR, opp_IZR. lra.
Qed.

Theorem fmod_twice_is_floored_mod a b :
  b <> 0 -> r_cfmod (r_cfmod a b + b) b = a - b * r_floor (a / b).
Proof.
  intros Hb. set (q := a / b). set (n := Int_part q).
  assert (Hn : r_floor q = IZR n) by reflexivity.
  destruct (r_floor_spec q) as [H1 H2]. rewrite Hn in H1, H2.
  assert (Ea : a = b * q) by (unfold q; field; exact Hb).
  unfold r_cfmod at 2. fold q.
  destruct (Rle_dec 0 q) as [Hq|Hq].
  - (* q >= 0: trunc q = n, the first remainder is b*(q - n), adding b gives a quotient in [1, 2) *)
    rewrite (r_trunc_nonneg q Hq), Hn.
    unfold r_cfmod.
    replace ((a - b * IZR n + b) / b) with (q - IZR n + 1) by (rewrite Ea; field; exact Hb).
    rewrite (r_trunc_nonneg (q - IZR n + 1)) by lra.
    rewrite (r_floor_unique (q - IZR n + 1) 1) by lra. ring.
  - assert (Hq' : q < 0) by lra.
    destruct (Req_dec q (IZR n)) as [E|E].
    + (* q is a negative integer: remainder 0, then b/b = 1 *)
      rewrite (r_trunc_neg_int q n Hq' E).
      unfold r_cfmod.
      replace ((a - b * IZR n + b) / b) with 1 by (rewrite Ea, E; field; exact Hb).
      rewrite (r_trunc_nonneg 1) by lra. rewrite (r_floor_unique 1 1) by lra. rewrite ?Hn. ring.
    + (* q negative with a fractional part: trunc q = n + 1, the first remainder is b*(q - n - 1), adding b gives (0, 1) *)
      assert (Hf : IZR n < q < IZR n + 1) by lra.
      rewrite (r_trunc_neg_frac q n Hq' Hf).
      unfold r_cfmod.
      replace ((a - b * (IZR n + 1) + b) / b) with (q - IZR n) by (rewrite Ea; field; exact Hb).
      rewrite (r_trunc_nonneg (q - IZR n)) by lra.
      rewrite (r_floor_unique (q - IZR n) 0) by lra. rewrite ?Hn. ring.
Qed.

(* in the words of the model: the printed form evaluates to the meaning of Mod in the real carrier *)
Corollary printed_mod_is_the_models_mod a b : b <> 0 -> r_cfmod (r_cfmod a b + b) b = fmod ROps a b.
Proof. intros H. rewrite (fmod_twice_is_floored_mod a b H). reflexivity. Qed.

(* the form printed before the repair is not: Mod(-1.7, 2) = 0.3, fmod(-1.7, 2) = -1.7 *)
Example single_fmod_has_the_sign_of_the_dividend :
  r_cfmod (-17 / 10) 2 = -17 / 10 /\ fmod ROps (-17 / 10) 2 = 3 / 10.
Proof.
  split.
  - unfold r_cfmod. rewrite (r_trunc_neg_frac (-17 / 10 / 2) (-1)); [|lra|simpl; lra]. simpl. lra.
  - simpl. rewrite (r_floor_unique (-17 / 10 / 2) (-1)); [|simpl; lra]. simpl. lra.
Qed.
