(* Singular.v — atoms.remove_singularities: one Conditional(Eq(symbol, value), replacement, expr)
   per removable (non-infinite) singularity, combined
     - as the code does today: by *summing* them (then folded by sympy.piecewise_fold), [remove_sum];
     - as the property requires: by *nesting* them, [remove_nested].
   With k removable singularities the sum counts the expression k times at every regular point. *)
From GX Require Import Base Expr.
From Coq Require Import QArith.
Close Scope Q_scope.
Open Scope string_scope.
Open Scope list_scope.

Record sing := { s_var : string; s_val : expr; s_repl : expr; s_infinite : bool }.

Definition sing_cond (s : sing) : expr := ERel Req (EVar (s_var s)) (s_val s).

Definition removable (l : list sing) : list sing := filter (fun s => negb (s_infinite s)) l.

Fixpoint sum_exprs (l : list expr) : expr :=
  match l with
  | [] => ENum 0%Q true
  | [e] => e
  | e :: l' => EAdd e (sum_exprs l')
  end.

Definition remove_sum (e : expr) (l : list sing) : expr :=
  match removable l with
  | [] => e
  | r => sum_exprs (map (fun s => ECond (sing_cond s) (s_repl s) e) r)
  end.

Fixpoint nest (e : expr) (r : list sing) : expr :=
  match r with
  | [] => e
  | s :: r' => ECond (sing_cond s) (s_repl s) (nest e r')
  end.

Definition remove_nested (e : expr) (l : list sing) : expr := nest e (removable l).

Section Meaning.
  Context {T : Type} (N : NumOps T).
  Definition zero : T := ofQ N 0%Q.
  Definition oneT : T := ofQ N 1%Q.

  Record SelLaws : Prop := {
    sel_true : forall a b, select N oneT a b = a;
    sel_false : forall a b, select N zero a b = b;
    rel_bool : forall r a b, rel N r a b = oneT \/ rel N r a b = zero }.

  Hypothesis L : SelLaws.
  Variable rho : string -> T.

  Definition hit (s : sing) : Prop := eval N rho (sing_cond s) = oneT.
  Definition miss (s : sing) : Prop := eval N rho (sing_cond s) = zero.

  (* nested form: at a regular point (no removable singularity is hit) the value is the original's *)
  Theorem nested_regular e l :
    (forall s, In s (removable l) -> miss s) -> eval N rho (remove_nested e l) = eval N rho e.
  Proof.
    unfold remove_nested. induction (removable l) as [|s r IH]; intros H; cbn [nest eval]; [reflexivity|].
    unfold miss in H. rewrite (H s (or_introl eq_refl)). rewrite (sel_false L). apply IH. intros s' Hs'. apply H. right; exact Hs'.
  Qed.

  (* nested form: where the first singularity that is hit is s, the value is s's replacement (the limit) *)
  Theorem nested_singular e l r1 s r2 :
    removable l = r1 ++ s :: r2 -> (forall s', In s' r1 -> miss s') -> hit s ->
    eval N rho (remove_nested e l) = eval N rho (s_repl s).
  Proof.
    unfold remove_nested. intros -> Hm Hh. unfold hit in Hh. unfold miss in Hm.
    induction r1 as [|s0 r1 IH]; cbn [app nest eval].
    - rewrite Hh. apply (sel_true L).
    - rewrite (Hm s0 (or_introl eq_refl)), (sel_false L). apply IH. intros s' Hs'. apply Hm. right; exact Hs'.
  Qed.

  (* no removable singularity: the expression is untouched, infinite ones included *)
  Theorem untouched_without_removable e l :
    removable l = [] -> remove_sum e l = e /\ remove_nested e l = e.
  Proof. unfold remove_sum, remove_nested. intros ->. split; reflexivity. Qed.

  (* one removable singularity: sum and nesting coincide *)
  Theorem sum_is_nested_for_one e l s : removable l = [s] -> remove_sum e l = remove_nested e l.
  Proof. unfold remove_sum, remove_nested. intros ->. reflexivity. Qed.

  (* the summed form at a regular point: the expression is counted once per removable singularity *)
  Fixpoint times (k : nat) (v : T) : T :=
    match k with O => zero | S O => v | S k' => add N v (times k' v) end.

  Theorem sum_regular e l :
    removable l <> [] -> (forall s, In s (removable l) -> miss s) ->
    eval N rho (remove_sum e l) = times (length (removable l)) (eval N rho e).
  Proof.
    unfold remove_sum. destruct (removable l) as [|s r] eqn:E; [congruence|]. intros _ H.
    clear E. unfold miss in H. revert s H. induction r as [|s' r IH]; intros s H.
    - cbn [map sum_exprs eval length times]. rewrite (H s (or_introl eq_refl)). apply (sel_false L).
    - change (sum_exprs (map (fun s0 => ECond (sing_cond s0) (s_repl s0) e) (s :: s' :: r)))
        with (EAdd (ECond (sing_cond s) (s_repl s) e) (sum_exprs (map (fun s0 => ECond (sing_cond s0) (s_repl s0) e) (s' :: r)))).
      cbn [eval]. rewrite (H s (or_introl eq_refl)), (sel_false L).
      rewrite (IH s'); [reflexivity|]. intros s0 Hs0. apply H. right; exact Hs0.
  Qed.
End Meaning.

(* ---------- a relation as a number ---------- *)
(* codegen/base.py (_doprint) and atoms.Assignment.resolve_expression write an assignment whose right-hand side is a relation
   r as the conditional  Conditional(r, 1, 0).  In every carrier with the selection laws the two have the same value. *)
Section Indicator.
  Context {T : Type} (N : NumOps T).
  Hypothesis L : SelLaws N.
  Theorem indicator_conditional_is_the_relation rho r a b :
    eval N rho (ECond (ERel r a b) e_one e_zero) = eval N rho (ERel r a b).
  Proof.
    cbn [eval]. destruct (rel_bool N L r (eval N rho a) (eval N rho b)) as [E|E]; rewrite E.
    - apply (sel_true N L).
    - apply (sel_false N L).
  Qed.
End Indicator.
