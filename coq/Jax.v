(* Jax.v — the functional style of the jax backend (codegen/jax.py, templates/jax.py):
     values[i] = e   is printed as   _values_i = e
   and the function returns  numpy.array([_values_0, ..., _values_{n-1}])  with n the declared
   number of return values.  A slot that no statement assigns is therefore a NameError (where the
   numpy backend returns 0).  For a validated function (every slot written exactly once) the two
   back ends return the same array, of the declared length. *)
From GX Require Import Base Expr Topo Ode Target Sem Valid.
Open Scope string_scope.
Open Scope list_scope.

Section Jax.
  Context {T : Type} (N : NumOps T).

  Definition all_assigned (nret : nat) (vals : list (nat * T)) : bool :=
    forallb (fun i => match lookup_nat i vals with Some _ => true | None => false end) (seq 0 nret).

  Definition exec_jax (f : func) (with_dt : bool) (inp : inputs T) : option (list T) :=
    match run N (f_nret f) inp (env0 inp with_dt, []) (f_body f) with
    | Some (_, vals) => if all_assigned (f_nret f) vals then Some (result N (f_nret f) vals) else None
    | None => None
    end.

  Lemma exec_jax_le f wd inp out : exec_jax f wd inp = Some out -> exec N f wd inp = Some out.
  Proof.
    unfold exec_jax, exec. destruct (run N (f_nret f) inp (env0 inp wd, []) (f_body f)) as [[rho vals]|]; [|discriminate].
    destruct (all_assigned (f_nret f) vals); [auto|discriminate].
  Qed.

  Variables (o : ode) (ss : list string) (inp : inputs T) (wd : bool).

  (* C03: a validated function returns, under jax, an array of the declared length equal to the
     numpy result *)
  Theorem jax_equals_numpy f ok :
    sizes_ok o ss inp -> reserved_free o inp wd = true ->
    valid_fun o ss inp wd f ok = true ->
    exists out, exec_jax f wd inp = Some out /\ exec N f wd inp = Some out /\ length out = f_nret f.
  Proof.
    intros Hsz Hrf Hv. unfold valid_fun in Hv. apply andb_true_iff in Hv. destruct Hv as [Hb Hs].
    destruct (run_sound N o ss inp wd (f_nret f) (f_body f) Hsz (env0 inp wd) [] Hb (Agree_env0 N o ss inp wd Hrf))
      as (rho' & vals' & Hrun & _ & _ & _ & _ & Hall & _).
    exists (result N (f_nret f) vals').
    assert (Ha : all_assigned (f_nret f) vals' = true).
    { unfold all_assigned. apply forallb_forall. intros i Hi. apply in_seq in Hi.
      unfold slots_ok in Hs. rewrite forallb_forall in Hs. specialize (Hs i).
      rewrite in_seq in Hs. specialize (Hs Hi).
      destruct (stores_at i (f_body f)) as [|e [|e2 l]] eqn:E; try discriminate.
      assert (HIn : In (SStore i e) (f_body f)) by (apply stores_at_In; rewrite E; left; reflexivity).
      destruct (Hall i e HIn) as (v & Hin & _).
      destruct (In_lookup_nat i v vals' Hin) as [w Hw]. rewrite Hw. reflexivity. }
    unfold exec_jax, exec. unfold env in *. rewrite Hrun, Ha.
    split; [reflexivity|]. split; [reflexivity|].
    unfold result. rewrite map_length, seq_length. reflexivity.
  Qed.
End Jax.
