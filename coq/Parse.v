(* Parse.v — the expression grammar of ode.lark as an executable recursive-descent parser over tokens, and a
   printer it inverts.

     expression : term (("+"|"-") term)*
     term       : factor (("*"|"/") factor)*
     factor     : ("+"|"-") factor | power
     power      : atom ("**" factor)?
     atom       : NUMBER | VARIABLE | "pi" | "(" expression ")" | NAME "(" expression ("," expression)* ")"

   [parse_expr] returns the Gallina [expr] that expressions.build_expression assigns to the parse tree (left
   associative sums and products, unary minus below the power, right associative power through the factor
   exponent, And / Or folded to the left, ContinuousConditional expanded); the harness runs it on the token
   sequences Lark's lexer produces for the expressions of every generated model and compares the result with the
   tree Lark builds.  [print_expr] writes an expression with every operand in parentheses;
   [parse_print]: parsing what was printed gives the expression back, followed by whatever stood behind it. *)
From GX Require Import Base Expr.
From Coq Require Import QArith Lia.
Open Scope string_scope.
Open Scope list_scope.
Open Scope nat_scope.

Inductive tok :=
| TNum (q : Q) (int_lit : bool)
| TId (s : string)
| TPlus | TMinus | TStar | TSlash | TPow | TLP | TRP | TComma.

Definition res (A : Type) := option (A * list tok).

(* ---------- calls ---------- *)
Definition fn_of_name (s : string) : option fn1 :=
  if String.eqb s "exp" then Some Fexp else if String.eqb s "cos" then Some Fcos
  else if String.eqb s "sin" then Some Fsin else if String.eqb s "tan" then Some Ftan
  else if String.eqb s "acos" then Some Facos else if String.eqb s "asin" then Some Fasin
  else if String.eqb s "atan" then Some Fatan else if String.eqb s "log" then Some Flog
  else if String.eqb s "ln" then Some Flog else if String.eqb s "sqrt" then Some Fsqrt
  else if String.eqb s "abs" then Some Fabs else if String.eqb s "Abs" then Some Fabs
  else if String.eqb s "floor" then Some Ffloor else None.

Definition rel_of_name (s : string) : option relop :=
  if String.eqb s "Lt" then Some Rlt else if String.eqb s "Gt" then Some Rgt
  else if String.eqb s "Le" then Some Rle else if String.eqb s "Ge" then Some Rge
  else if String.eqb s "Eq" then Some Req else None.

(* the keyword terminals of the grammar: never variables *)
Definition is_keyword (s : string) : bool :=
  match fn_of_name s, rel_of_name s with
  | Some _, _ | _, Some _ => true
  | None, None =>
      String.eqb s "Mod" || String.eqb s "Not" || String.eqb s "And" || String.eqb s "Or"
      || String.eqb s "Conditional" || String.eqb s "ContinuousConditional" || String.eqb s "pi"
  end.

Fixpoint fold_conn (f : expr -> expr -> expr) (acc : expr) (l : list expr) : expr :=
  match l with
  | [] => acc
  | x :: l' => fold_conn f (f acc x) l'
  end.

Definition mk_call (s : string) (args : list expr) : option expr :=
  match fn_of_name s, args with
  | Some f, [a] => Some (EFn f a)
  | Some _, _ => None
  | None, _ =>
    match rel_of_name s, args with
    | Some r, [a; b] => Some (ERel r a b)
    | Some _, _ => None
    | None, _ =>
      if String.eqb s "Mod" then match args with [a; b] => Some (EMod a b) | _ => None end
      else if String.eqb s "Not" then match args with [a] => Some (ENot a) | _ => None end
      else if String.eqb s "And" then match args with a :: l => Some (fold_conn EAnd a l) | [] => None end
      else if String.eqb s "Or" then match args with a :: l => Some (fold_conn EOr a l) | [] => None end
      else if String.eqb s "Conditional" then match args with [c; a; b] => Some (ECond c a b) | _ => None end
      else if String.eqb s "ContinuousConditional" then
        match args with
        | [ERel r a b; tv; fv; sg] => Some (mk_ccond r a b tv fv sg)
        | _ => None
        end
      else None
    end
  end.

(* ---------- the parser, by levels of fuel ---------- *)
Record parsers := mkP {
  p_expr : list tok -> res expr;
  p_term : list tok -> res expr;
  p_factor : list tok -> res expr;
  p_erest : expr -> list tok -> res expr;
  p_trest : expr -> list tok -> res expr;
  p_args : list tok -> res (list expr) }.

Definition P0 : parsers :=
  mkP (fun _ => None) (fun _ => None) (fun _ => None) (fun _ _ => None) (fun _ _ => None) (fun _ => None).

Definition atom (k : parsers) (ts : list tok) : res expr :=
  match ts with
  | TNum q i :: r => Some (ENum q i, r)
  | TLP :: r => match p_expr k r with
                | Some (e, TRP :: r') => Some (e, r')
                | _ => None
                end
  | TId s :: r =>
      if is_keyword s then
        if String.eqb s "pi" then Some (EPi, r)
        else match r with
             | TLP :: r1 => match p_args k r1 with
                            | Some (args, TRP :: r2) => match mk_call s args with
                                                        | Some e => Some (e, r2)
                                                        | None => None
                                                        end
                            | _ => None
                            end
             | _ => None
             end
      else match r with
           | TLP :: _ => None
           | _ => Some (EVar s, r)
           end
  | _ => None
  end.

Definition power (k : parsers) (ts : list tok) : res expr :=
  match atom k ts with
  | Some (a, TPow :: r) => match p_factor k r with
                           | Some (b, r') => Some (EPow a b, r')
                           | None => None
                           end
  | other => other
  end.

Definition step_parsers (k : parsers) : parsers :=
  mkP
    (fun ts => match p_term k ts with Some (a, r) => p_erest k a r | None => None end)
    (fun ts => match p_factor k ts with Some (a, r) => p_trest k a r | None => None end)
    (fun ts => match ts with
               | TPlus :: r => p_factor k r
               | TMinus :: r => match p_factor k r with Some (a, r') => Some (ENeg a, r') | None => None end
               | _ => power k ts
               end)
    (fun acc ts => match ts with
                   | TPlus :: r => match p_term k r with Some (b, r') => p_erest k (EAdd acc b) r' | None => None end
                   | TMinus :: r => match p_term k r with Some (b, r') => p_erest k (ESub acc b) r' | None => None end
                   | _ => Some (acc, ts)
                   end)
    (fun acc ts => match ts with
                   | TStar :: r => match p_factor k r with Some (b, r') => p_trest k (EMul acc b) r' | None => None end
                   | TSlash :: r => match p_factor k r with Some (b, r') => p_trest k (EDiv acc b) r' | None => None end
                   | _ => Some (acc, ts)
                   end)
    (fun ts => match p_expr k ts with
               | Some (e, TComma :: r) => match p_args k r with
                                          | Some (es, r') => Some (e :: es, r')
                                          | None => None
                                          end
               | Some (e, r) => Some ([e], r)
               | None => None
               end).

Fixpoint P (n : nat) : parsers :=
  match n with
  | O => P0
  | S k => step_parsers (P k)
  end.

(* the whole token list must be an expression; the fuel is generous: every token costs at most six levels *)
Definition parse_expr (ts : list tok) : option expr :=
  match p_expr (P (6 * List.length ts + 6)%nat) ts with
  | Some (e, []) => Some e
  | _ => None
  end.

(* ---------- more fuel never changes an answer ---------- *)
Definition le_parsers (a b : parsers) : Prop :=
  (forall ts r, p_expr a ts = Some r -> p_expr b ts = Some r)
  /\ (forall ts r, p_term a ts = Some r -> p_term b ts = Some r)
  /\ (forall ts r, p_factor a ts = Some r -> p_factor b ts = Some r)
  /\ (forall acc ts r, p_erest a acc ts = Some r -> p_erest b acc ts = Some r)
  /\ (forall acc ts r, p_trest a acc ts = Some r -> p_trest b acc ts = Some r)
  /\ (forall ts r, p_args a ts = Some r -> p_args b ts = Some r).

Lemma atom_mono a b ts r : le_parsers a b -> atom a ts = Some r -> atom b ts = Some r.
Proof.
  intros (He & _ & _ & _ & _ & Ha) H. unfold atom in *.
  destruct ts as [|t ts]; [discriminate|]. destruct t; try exact H.
  - destruct (is_keyword s); [|exact H].
    destruct (String.eqb s "pi"); [exact H|].
    destruct ts as [|t1 ts1]; [discriminate|]. destruct t1; try discriminate.
    destruct (p_args a ts1) as [[args r1]|] eqn:E; [|discriminate].
    rewrite (Ha _ _ E). exact H.
  - destruct (p_expr a ts) as [[e r1]|] eqn:E; [|discriminate].
    rewrite (He _ _ E). exact H.
Qed.

Lemma power_mono a b ts r : le_parsers a b -> power a ts = Some r -> power b ts = Some r.
Proof.
  intros Hle H. unfold power in *.
  destruct (atom a ts) as [[x r1]|] eqn:E; [|discriminate].
  rewrite (atom_mono a b ts _ Hle E).
  destruct r1 as [|t r1]; [exact H|]. destruct t; try exact H.
  destruct Hle as (_ & _ & Hf & _).
  destruct (p_factor a r1) as [[y r2]|] eqn:E2; [|discriminate].
  rewrite (Hf _ _ E2). exact H.
Qed.

Lemma step_mono a b : le_parsers a b -> le_parsers (step_parsers a) (step_parsers b).
Proof.
  intros Hle. pose proof Hle as (He & Ht & Hf & Her & Htr & Ha).
  unfold le_parsers, step_parsers; cbn [p_expr p_term p_factor p_erest p_trest p_args].
  repeat split.
  - intros ts r H. destruct (p_term a ts) as [[x r1]|] eqn:E; [|discriminate].
    rewrite (Ht _ _ E). apply Her. exact H.
  - intros ts r H. destruct (p_factor a ts) as [[x r1]|] eqn:E; [|discriminate].
    rewrite (Hf _ _ E). apply Htr. exact H.
  - intros ts r H. destruct ts as [|t ts]; [exact (power_mono a b [] r Hle H)|].
    destruct t; try exact (power_mono a b _ r Hle H).
    + apply Hf. exact H.
    + destruct (p_factor a ts) as [[x r1]|] eqn:E; [|discriminate]. rewrite (Hf _ _ E). exact H.
  - intros acc ts r H. destruct ts as [|t ts]; [exact H|]. destruct t; try exact H.
    + destruct (p_term a ts) as [[x r1]|] eqn:E; [|discriminate]. rewrite (Ht _ _ E). apply Her. exact H.
    + destruct (p_term a ts) as [[x r1]|] eqn:E; [|discriminate]. rewrite (Ht _ _ E). apply Her. exact H.
  - intros acc ts r H. destruct ts as [|t ts]; [exact H|]. destruct t; try exact H.
    + destruct (p_factor a ts) as [[x r1]|] eqn:E; [|discriminate]. rewrite (Hf _ _ E). apply Htr. exact H.
    + destruct (p_factor a ts) as [[x r1]|] eqn:E; [|discriminate]. rewrite (Hf _ _ E). apply Htr. exact H.
  - intros ts r H. destruct (p_expr a ts) as [[x r1]|] eqn:E; [|discriminate].
    rewrite (He _ _ E). destruct r1 as [|t r1]; [exact H|]. destruct t; try exact H.
    destruct (p_args a r1) as [[es r2]|] eqn:E2; [|discriminate]. rewrite (Ha _ _ E2). exact H.
Qed.

Lemma P_succ n : le_parsers (P n) (P (S n)).
Proof.
  induction n as [|n IH].
  - unfold le_parsers; cbn; repeat split; intros; discriminate.
  - cbn [P]. apply step_mono. exact IH.
Qed.

Lemma le_parsers_trans a b c : le_parsers a b -> le_parsers b c -> le_parsers a c.
Proof.
  intros (A1 & A2 & A3 & A4 & A5 & A6) (B1 & B2 & B3 & B4 & B5 & B6).
  repeat split; intros; eauto.
Qed.

Lemma P_mono n m : (n <= m)%nat -> le_parsers (P n) (P m).
Proof.
  induction 1 as [|m _ IH].
  - repeat split; intros; assumption.
  - apply (le_parsers_trans _ (P m)); [exact IH|apply P_succ].
Qed.

(* ---------- the printer ---------- *)
Definition fn_name (f : fn1) : string :=
  match f with
  | Fexp => "exp" | Fcos => "cos" | Fsin => "sin" | Ftan => "tan" | Facos => "acos" | Fasin => "asin"
  | Fatan => "atan" | Flog => "log" | Fsqrt => "sqrt" | Fabs => "abs" | Ffloor => "floor"
  end.
Definition rel_name (r : relop) : string :=
  match r with Rlt => "Lt" | Rgt => "Gt" | Rle => "Le" | Rge => "Ge" | Req => "Eq" | Rne => "Ne" end.

Fixpoint print_expr (e : expr) : list tok :=
  let par x := TLP :: print_expr x ++ [TRP] in
  match e with
  | ENum q i => [TNum q i]
  | EVar x => [TId x]
  | EPi => [TId "pi"]
  | EAdd a b => par a ++ TPlus :: par b
  | ESub a b => par a ++ TMinus :: par b
  | EMul a b => par a ++ TStar :: par b
  | EDiv a b => par a ++ TSlash :: par b
  | EPow a b => par a ++ TPow :: par b
  | ENeg a => TMinus :: par a
  | EFn f a => TId (fn_name f) :: TLP :: print_expr a ++ [TRP]
  | EMod a b => TId "Mod" :: TLP :: print_expr a ++ TComma :: print_expr b ++ [TRP]
  | ERel r a b => TId (rel_name r) :: TLP :: print_expr a ++ TComma :: print_expr b ++ [TRP]
  | ENot a => TId "Not" :: TLP :: print_expr a ++ [TRP]
  | EAnd a b => TId "And" :: TLP :: print_expr a ++ TComma :: print_expr b ++ [TRP]
  | EOr a b => TId "Or" :: TLP :: print_expr a ++ TComma :: print_expr b ++ [TRP]
  | ECond c a b => TId "Conditional" :: TLP :: print_expr c ++ TComma :: print_expr a ++ TComma :: print_expr b ++ [TRP]
  end.

(* what can be written: variables are not keywords; the language has no "not equal" *)
Fixpoint writable (e : expr) : Prop :=
  match e with
  | ENum _ _ | EPi => True
  | EVar x => is_keyword x = false
  | EAdd a b | ESub a b | EMul a b | EDiv a b | EPow a b | EMod a b | EAnd a b | EOr a b => writable a /\ writable b
  | ERel r a b => r <> Rne /\ writable a /\ writable b
  | ENeg a | EFn _ a | ENot a => writable a
  | ECond c a b => writable c /\ writable a /\ writable b
  end.

(* ---------- parsing what was printed ---------- *)
Definition nopow (rest : list tok) : Prop := match rest with TPow :: _ => False | _ => True end.
Definition nomul (rest : list tok) : Prop := match rest with TStar :: _ | TSlash :: _ => False | _ => True end.
Definition noadd (rest : list tok) : Prop := match rest with TPlus :: _ | TMinus :: _ => False | _ => True end.
Definition stop (rest : list tok) : Prop := match rest with [] | TRP :: _ | TComma :: _ => True | _ => False end.

Lemma stop_no rest : stop rest -> nopow rest /\ nomul rest /\ noadd rest.
Proof. destruct rest as [|[] rest]; simpl; tauto. Qed.

(* [G X n]: from fuel n on, X is read back in front of anything that ends an expression *)
Definition G (X : expr) (n : nat) : Prop :=
  forall m, (n <= m)%nat -> forall rest, stop rest -> p_expr (P m) (print_expr X ++ rest) = Some (X, rest).

Definition par (x : expr) : list tok := TLP :: print_expr x ++ [TRP].

Lemma par_app x rest : par x ++ rest = TLP :: print_expr x ++ TRP :: rest.
Proof. unfold par. simpl. rewrite <- app_assoc. reflexivity. Qed.

Lemma atom_par X n : G X n -> forall m, (n <= m)%nat -> forall rest, atom (P m) (par X ++ rest) = Some (X, rest).
Proof.
  intros HG m Hm rest. rewrite par_app. unfold atom.
  rewrite (HG m Hm (TRP :: rest) I). reflexivity.
Qed.

Lemma factor_of_atom ts X rest n :
  (forall m, (n <= m)%nat -> atom (P m) ts = Some (X, rest)) ->
  nopow rest -> match ts with TPlus :: _ | TMinus :: _ => False | _ => True end ->
  forall m, (S n <= m)%nat -> p_factor (P m) ts = Some (X, rest).
Proof.
  intros Ha Hp Hh m Hm. destruct m as [|k]; [lia|]. cbn [P step_parsers p_factor].
  assert (Hk : (n <= k)%nat) by lia.
  assert (Hpow : power (P k) ts = Some (X, rest)).
  { unfold power. rewrite (Ha k Hk). destruct rest as [|[] rest]; simpl in Hp; try contradiction; reflexivity. }
  destruct ts as [|[] ts]; simpl in Hh; try contradiction; exact Hpow.
Qed.

Lemma term_of_factor ts X rest n :
  (forall m, (n <= m)%nat -> p_factor (P m) ts = Some (X, rest)) -> nomul rest ->
  forall m, (S (S n) <= m)%nat -> p_term (P m) ts = Some (X, rest).
Proof.
  intros Hf Hn m Hm. destruct m as [|k]; [lia|]. cbn [P step_parsers p_term].
  rewrite (Hf k ltac:(lia)). destruct k as [|k2]; [lia|]. cbn [P step_parsers p_trest].
  destruct rest as [|[] rest]; simpl in Hn; try contradiction; reflexivity.
Qed.

Lemma expr_of_term ts X rest n :
  (forall m, (n <= m)%nat -> p_term (P m) ts = Some (X, rest)) -> noadd rest ->
  forall m, (S (S n) <= m)%nat -> p_expr (P m) ts = Some (X, rest).
Proof.
  intros Ht Hn m Hm. destruct m as [|k]; [lia|]. cbn [P step_parsers p_expr].
  rewrite (Ht k ltac:(lia)). destruct k as [|k2]; [lia|]. cbn [P step_parsers p_erest].
  destruct rest as [|[] rest]; simpl in Hn; try contradiction; reflexivity.
Qed.

Lemma factor_par X n : G X n -> forall rest, nopow rest ->
  forall m, (S n <= m)%nat -> p_factor (P m) (par X ++ rest) = Some (X, rest).
Proof.
  intros HG rest Hp. apply (factor_of_atom (par X ++ rest) X rest n); [|exact Hp|exact I].
  intros m Hm. apply (atom_par X n HG m Hm).
Qed.

Lemma term_par X n : G X n -> forall rest, nopow rest -> nomul rest ->
  forall m, (S (S (S n)) <= m)%nat -> p_term (P m) (par X ++ rest) = Some (X, rest).
Proof.
  intros HG rest Hp Hn. apply (term_of_factor (par X ++ rest) X rest (S n)); [|exact Hn].
  intros m Hm. apply (factor_par X n HG rest Hp m Hm).
Qed.

(* an atom that ends where an expression may end is an expression *)
Lemma expr_of_atom ts X rest n :
  (forall m, (n <= m)%nat -> atom (P m) ts = Some (X, rest)) -> stop rest ->
  match ts with TPlus :: _ | TMinus :: _ => False | _ => True end ->
  forall m, (n + 5 <= m)%nat -> p_expr (P m) ts = Some (X, rest).
Proof.
  intros Ha Hs Hh. destruct (stop_no rest Hs) as (H1 & H2 & H3).
  intros m Hm. apply (expr_of_term ts X rest (S (S (S n)))); [|exact H3|lia].
  intros k0 Hk0. apply (term_of_factor ts X rest (S n)); [|exact H2|lia].
  apply (factor_of_atom ts X rest n Ha H1 Hh).
Qed.

(* argument lists *)
Lemma args_one X n : G X n -> forall m, (S n <= m)%nat -> forall rest,
  p_args (P m) (print_expr X ++ TRP :: rest) = Some ([X], TRP :: rest).
Proof.
  intros HG m Hm rest. destruct m as [|k]; [lia|]. cbn [P step_parsers p_args].
  rewrite (HG k ltac:(lia) (TRP :: rest) I). reflexivity.
Qed.

Lemma args_more X n ts es rest na : G X n ->
  (forall m, (na <= m)%nat -> p_args (P m) ts = Some (es, rest)) ->
  forall m, (S (n + na) <= m)%nat ->
  p_args (P m) (print_expr X ++ TComma :: ts) = Some (X :: es, rest).
Proof.
  intros HG Hes m Hm. destruct m as [|k]; [lia|]. cbn [P step_parsers p_args].
  rewrite (HG k ltac:(lia) (TComma :: ts) I). rewrite (Hes k ltac:(lia)). reflexivity.
Qed.

Lemma call_atom s args ts rest e n :
  is_keyword s = true -> String.eqb s "pi" = false -> mk_call s args = Some e ->
  (forall m, (n <= m)%nat -> p_args (P m) ts = Some (args, TRP :: rest)) ->
  forall m, (n <= m)%nat -> atom (P m) (TId s :: TLP :: ts) = Some (e, rest).
Proof.
  intros Hk Hpi Hc Ha m Hm. unfold atom. rewrite Hk, Hpi, (Ha m Hm), Hc. reflexivity.
Qed.

Lemma mk_call_fn f a : mk_call (fn_name f) [a] = Some (EFn f a).
Proof. destruct f; reflexivity. Qed.
Lemma kw_fn f : is_keyword (fn_name f) = true /\ String.eqb (fn_name f) "pi" = false.
Proof. destruct f; split; reflexivity. Qed.
Lemma mk_call_rel r a b : r <> Rne -> mk_call (rel_name r) [a; b] = Some (ERel r a b).
Proof. destruct r; intros H; try reflexivity. contradiction. Qed.
Lemma kw_rel r : r <> Rne -> is_keyword (rel_name r) = true /\ String.eqb (rel_name r) "pi" = false.
Proof. destruct r; intros H; try (split; reflexivity). contradiction. Qed.

Ltac app_norm := repeat (rewrite <- app_comm_cons || rewrite <- app_assoc); change (@app tok [TRP]) with (cons TRP); repeat rewrite <- app_comm_cons; repeat match goal with |- context [@app tok nil ?l] => change (@app tok nil l) with l end.

Lemma G_weaken X n n' : (n <= n')%nat -> G X n -> G X n'.
Proof. intros H HG m Hm. apply HG. lia. Qed.

Ltac subst_ns := repeat match goal with x := (6 * List.length _)%nat |- _ => subst x end.
Ltac len_bound := cbn [print_expr]; repeat (rewrite app_length || cbn [List.length]); lia.

(* the fuel parse_expr uses is enough *)
Theorem print_then_parse e : writable e -> G e (6 * List.length (print_expr e)).
Proof.
  induction e as [q i|x| |a IHa b IHb|a IHa b IHb|a IHa b IHb|a IHa b IHb|a IHa b IHb|a IHa|f a IHa
                  |a IHa b IHb|r a IHa b IHb|a IHa|a IHa b IHb|a IHa b IHb|c IHc a IHa b IHb];
    cbn [writable]; intros W.
  - (* number *)
    apply (G_weaken _ 5); [len_bound|]. intros m Hm rest Hs. apply (expr_of_atom _ (ENum q i) rest 0); [|exact Hs|exact I|lia].
    intros k _. reflexivity.
  - (* variable *)
    apply (G_weaken _ 5); [len_bound|]. intros m Hm rest Hs. apply (expr_of_atom _ (EVar x) rest 0); [|exact Hs|exact I|lia].
    intros k _. cbn [print_expr app atom]. rewrite W.
    destruct rest as [|[] rest]; simpl in Hs; try contradiction; reflexivity.
  - (* pi *)
    apply (G_weaken _ 5); [len_bound|]. intros m Hm rest Hs. apply (expr_of_atom _ EPi rest 0); [|exact Hs|exact I|lia].
    intros k _. reflexivity.
  - (* a + b *)
    destruct W as [Wa Wb]. pose proof (IHa Wa) as Ga; set (na := 6 * List.length (print_expr a)) in *. pose proof (IHb Wb) as Gb; set (nb := 6 * List.length (print_expr b)) in *.
    apply (G_weaken _ (na + nb + 10)); [subst_ns; len_bound|]. intros m Hm rest Hs. destruct (stop_no rest Hs) as (H1 & H2 & H3).
    cbn [print_expr]. fold (par a). fold (par b). app_norm.
    destruct m as [|k]; [lia|]. cbn [P step_parsers p_expr].
    rewrite (term_par a na Ga (TPlus :: par b ++ rest) I I k ltac:(lia)).
    destruct k as [|k2]; [lia|]. cbn [P step_parsers p_erest].
    rewrite (term_par b nb Gb rest H1 H2 k2 ltac:(lia)).
    destruct k2 as [|k3]; [lia|]. cbn [P step_parsers p_erest].
    destruct rest as [|[] rest]; simpl in H3; try contradiction; reflexivity.
  - (* a - b *)
    destruct W as [Wa Wb]. pose proof (IHa Wa) as Ga; set (na := 6 * List.length (print_expr a)) in *. pose proof (IHb Wb) as Gb; set (nb := 6 * List.length (print_expr b)) in *.
    apply (G_weaken _ (na + nb + 10)); [subst_ns; len_bound|]. intros m Hm rest Hs. destruct (stop_no rest Hs) as (H1 & H2 & H3).
    cbn [print_expr]. fold (par a). fold (par b). app_norm.
    destruct m as [|k]; [lia|]. cbn [P step_parsers p_expr].
    rewrite (term_par a na Ga (TMinus :: par b ++ rest) I I k ltac:(lia)).
    destruct k as [|k2]; [lia|]. cbn [P step_parsers p_erest].
    rewrite (term_par b nb Gb rest H1 H2 k2 ltac:(lia)).
    destruct k2 as [|k3]; [lia|]. cbn [P step_parsers p_erest].
    destruct rest as [|[] rest]; simpl in H3; try contradiction; reflexivity.
  - (* a * b *)
    destruct W as [Wa Wb]. pose proof (IHa Wa) as Ga; set (na := 6 * List.length (print_expr a)) in *. pose proof (IHb Wb) as Gb; set (nb := 6 * List.length (print_expr b)) in *.
    apply (G_weaken _ (na + nb + 10)); [subst_ns; len_bound|]. intros m Hm rest Hs. destruct (stop_no rest Hs) as (H1 & H2 & H3).
    cbn [print_expr]. fold (par a). fold (par b). app_norm.
    apply (expr_of_term _ (EMul a b) rest (na + nb + 6)); [|exact H3|lia].
    intros k Hk. destruct k as [|k2]; [lia|]. cbn [P step_parsers p_term].
    rewrite (factor_par a na Ga (TStar :: par b ++ rest) I k2 ltac:(lia)).
    destruct k2 as [|k3]; [lia|]. cbn [P step_parsers p_trest].
    rewrite (factor_par b nb Gb rest H1 k3 ltac:(lia)).
    destruct k3 as [|k4]; [lia|]. cbn [P step_parsers p_trest].
    destruct rest as [|[] rest]; simpl in H2; try contradiction; reflexivity.
  - (* a / b *)
    destruct W as [Wa Wb]. pose proof (IHa Wa) as Ga; set (na := 6 * List.length (print_expr a)) in *. pose proof (IHb Wb) as Gb; set (nb := 6 * List.length (print_expr b)) in *.
    apply (G_weaken _ (na + nb + 10)); [subst_ns; len_bound|]. intros m Hm rest Hs. destruct (stop_no rest Hs) as (H1 & H2 & H3).
    cbn [print_expr]. fold (par a). fold (par b). app_norm.
    apply (expr_of_term _ (EDiv a b) rest (na + nb + 6)); [|exact H3|lia].
    intros k Hk. destruct k as [|k2]; [lia|]. cbn [P step_parsers p_term].
    rewrite (factor_par a na Ga (TSlash :: par b ++ rest) I k2 ltac:(lia)).
    destruct k2 as [|k3]; [lia|]. cbn [P step_parsers p_trest].
    rewrite (factor_par b nb Gb rest H1 k3 ltac:(lia)).
    destruct k3 as [|k4]; [lia|]. cbn [P step_parsers p_trest].
    destruct rest as [|[] rest]; simpl in H2; try contradiction; reflexivity.
  - (* a ** b *)
    destruct W as [Wa Wb]. pose proof (IHa Wa) as Ga; set (na := 6 * List.length (print_expr a)) in *. pose proof (IHb Wb) as Gb; set (nb := 6 * List.length (print_expr b)) in *.
    apply (G_weaken _ (na + nb + 12)); [subst_ns; len_bound|]. intros m Hm rest Hs. destruct (stop_no rest Hs) as (H1 & H2 & H3).
    cbn [print_expr]. fold (par a). fold (par b). app_norm.
    apply (expr_of_term _ (EPow a b) rest (na + nb + 8)); [|exact H3|lia].
    intros k0 Hk0. apply (term_of_factor _ (EPow a b) rest (na + nb + 4)); [|exact H2|lia].
    intros k Hk. destruct k as [|k2]; [lia|]. cbn [P step_parsers p_factor]. rewrite par_app.
    unfold power. rewrite <- par_app.
    rewrite (atom_par a na Ga k2 ltac:(lia) (TPow :: par b ++ rest)).
    rewrite (factor_par b nb Gb rest H1 k2 ltac:(lia)). reflexivity.
  - (* - a *)
    pose proof (IHa W) as Ga; set (na := 6 * List.length (print_expr a)) in *.
    apply (G_weaken _ (na + 10)); [subst_ns; len_bound|]. intros m Hm rest Hs. destruct (stop_no rest Hs) as (H1 & H2 & H3).
    cbn [print_expr]. fold (par a). cbn [app].
    apply (expr_of_term _ (ENeg a) rest (na + 6)); [|exact H3|lia].
    intros k0 Hk0. apply (term_of_factor _ (ENeg a) rest (na + 2)); [|exact H2|lia].
    intros k Hk. destruct k as [|k2]; [lia|]. cbn [P step_parsers p_factor].
    rewrite (factor_par a na Ga rest H1 k2 ltac:(lia)). reflexivity.
  - (* f(a) *)
    pose proof (IHa W) as Ga; set (na := 6 * List.length (print_expr a)) in *. destruct (kw_fn f) as [K1 K2].
    apply (G_weaken _ (na + 10)); [subst_ns; len_bound|]. intros m Hm rest Hs.
    cbn [print_expr]. app_norm.
    apply (expr_of_atom _ (EFn f a) rest (S na)); [|exact Hs|exact I|lia].
    apply (call_atom (fn_name f) [a] _ rest (EFn f a) (S na) K1 K2 (mk_call_fn f a)).
    intros k Hk. apply (args_one a na Ga k Hk).
  - (* Mod(a, b) *)
    destruct W as [Wa Wb]. pose proof (IHa Wa) as Ga; set (na := 6 * List.length (print_expr a)) in *. pose proof (IHb Wb) as Gb; set (nb := 6 * List.length (print_expr b)) in *.
    apply (G_weaken _ (na + nb + 12)); [subst_ns; len_bound|]. intros m Hm rest Hs.
    cbn [print_expr]. app_norm.
    apply (expr_of_atom _ (EMod a b) rest (na + nb + 4)); [|exact Hs|exact I|lia].
    apply (call_atom "Mod" [a; b] _ rest (EMod a b) (na + nb + 4) eq_refl eq_refl eq_refl).
    intros k Hk. apply (args_more a na _ [b] (TRP :: rest) (S nb) Ga); [|lia].
    intros k' Hk'. apply (args_one b nb Gb k' Hk').
  - (* Rel(a, b) *)
    destruct W as (Wr & Wa & Wb). pose proof (IHa Wa) as Ga; set (na := 6 * List.length (print_expr a)) in *. pose proof (IHb Wb) as Gb; set (nb := 6 * List.length (print_expr b)) in *.
    destruct (kw_rel r Wr) as [K1 K2].
    apply (G_weaken _ (na + nb + 12)); [subst_ns; len_bound|]. intros m Hm rest Hs.
    cbn [print_expr]. app_norm.
    apply (expr_of_atom _ (ERel r a b) rest (na + nb + 4)); [|exact Hs|exact I|lia].
    apply (call_atom (rel_name r) [a; b] _ rest (ERel r a b) (na + nb + 4) K1 K2 (mk_call_rel r a b Wr)).
    intros k Hk. apply (args_more a na _ [b] (TRP :: rest) (S nb) Ga); [|lia].
    intros k' Hk'. apply (args_one b nb Gb k' Hk').
  - (* Not(a) *)
    pose proof (IHa W) as Ga; set (na := 6 * List.length (print_expr a)) in *.
    apply (G_weaken _ (na + 10)); [subst_ns; len_bound|]. intros m Hm rest Hs.
    cbn [print_expr]. app_norm.
    apply (expr_of_atom _ (ENot a) rest (S na)); [|exact Hs|exact I|lia].
    apply (call_atom "Not" [a] _ rest (ENot a) (S na) eq_refl eq_refl eq_refl).
    intros k Hk. apply (args_one a na Ga k Hk).
  - (* And(a, b) *)
    destruct W as [Wa Wb]. pose proof (IHa Wa) as Ga; set (na := 6 * List.length (print_expr a)) in *. pose proof (IHb Wb) as Gb; set (nb := 6 * List.length (print_expr b)) in *.
    apply (G_weaken _ (na + nb + 12)); [subst_ns; len_bound|]. intros m Hm rest Hs.
    cbn [print_expr]. app_norm.
    apply (expr_of_atom _ (EAnd a b) rest (na + nb + 4)); [|exact Hs|exact I|lia].
    apply (call_atom "And" [a; b] _ rest (EAnd a b) (na + nb + 4) eq_refl eq_refl eq_refl).
    intros k Hk. apply (args_more a na _ [b] (TRP :: rest) (S nb) Ga); [|lia].
    intros k' Hk'. apply (args_one b nb Gb k' Hk').
  - (* Or(a, b) *)
    destruct W as [Wa Wb]. pose proof (IHa Wa) as Ga; set (na := 6 * List.length (print_expr a)) in *. pose proof (IHb Wb) as Gb; set (nb := 6 * List.length (print_expr b)) in *.
    apply (G_weaken _ (na + nb + 12)); [subst_ns; len_bound|]. intros m Hm rest Hs.
    cbn [print_expr]. app_norm.
    apply (expr_of_atom _ (EOr a b) rest (na + nb + 4)); [|exact Hs|exact I|lia].
    apply (call_atom "Or" [a; b] _ rest (EOr a b) (na + nb + 4) eq_refl eq_refl eq_refl).
    intros k Hk. apply (args_more a na _ [b] (TRP :: rest) (S nb) Ga); [|lia].
    intros k' Hk'. apply (args_one b nb Gb k' Hk').
  - (* Conditional(c, a, b) *)
    destruct W as (Wc & Wa & Wb). pose proof (IHc Wc) as Gc; set (nc := 6 * List.length (print_expr c)) in *. pose proof (IHa Wa) as Ga; set (na := 6 * List.length (print_expr a)) in *. pose proof (IHb Wb) as Gb; set (nb := 6 * List.length (print_expr b)) in *.
    apply (G_weaken _ (nc + na + nb + 14)); [subst_ns; len_bound|]. intros m Hm rest Hs.
    cbn [print_expr]. app_norm.
    apply (expr_of_atom _ (ECond c a b) rest (nc + na + nb + 6)); [|exact Hs|exact I|lia].
    apply (call_atom "Conditional" [c; a; b] _ rest (ECond c a b) (nc + na + nb + 6) eq_refl eq_refl eq_refl).
    intros k Hk. apply (args_more c nc _ [a; b] (TRP :: rest) (na + nb + 3) Gc); [|lia].
    intros k' Hk'. apply (args_more a na _ [b] (TRP :: rest) (S nb) Ga); [|lia].
    intros k'' Hk''. apply (args_one b nb Gb k'' Hk'').
Qed.

(* the round trip for the parser as it is run: every writable expression has a token sequence - the one
   print_expr writes - that parse_expr reads back as exactly that expression *)
Corollary parse_print e : writable e -> parse_expr (print_expr e) = Some e.
Proof.
  intros W. unfold parse_expr.
  pose proof (print_then_parse e W (6 * List.length (print_expr e) + 6) ltac:(lia) [] I) as H.
  rewrite app_nil_r in H. rewrite H. reflexivity.
Qed.

(* so the grammar is unambiguous on printed text in the strongest sense: two writable expressions with the same
   printed form are equal *)
Corollary print_expr_injective a b : writable a -> writable b -> print_expr a = print_expr b -> a = b.
Proof.
  intros Wa Wb E. pose proof (parse_print a Wa) as Ha. pose proof (parse_print b Wb) as Hb.
  rewrite E in Ha. rewrite Ha in Hb. injection Hb as <-. reflexivity.
Qed.

(* precedence and associativity of the unparenthesised forms (computed): a - b - c, a / b * c, -a ** b, a ** b ** c,
   a + b * c ** -d, And with three operands *)
Definition v (s : string) := TId s.
Example precedence_examples :
  parse_expr [v "a"; TMinus; v "b"; TMinus; v "c"] = Some (ESub (ESub (EVar "a") (EVar "b")) (EVar "c"))
  /\ parse_expr [v "a"; TSlash; v "b"; TStar; v "c"] = Some (EMul (EDiv (EVar "a") (EVar "b")) (EVar "c"))
  /\ parse_expr [TMinus; v "a"; TPow; v "b"] = Some (ENeg (EPow (EVar "a") (EVar "b")))
  /\ parse_expr [v "a"; TPow; v "b"; TPow; v "c"] = Some (EPow (EVar "a") (EPow (EVar "b") (EVar "c")))
  /\ parse_expr [v "a"; TPlus; v "b"; TStar; v "c"; TPow; TMinus; v "d"]
     = Some (EAdd (EVar "a") (EMul (EVar "b") (EPow (EVar "c") (ENeg (EVar "d")))))
  /\ parse_expr [v "And"; TLP; v "a"; TComma; v "b"; TComma; v "c"; TRP] = Some (EAnd (EAnd (EVar "a") (EVar "b")) (EVar "c"))
  /\ parse_expr [v "cos"] = None
  /\ parse_expr [v "x"; TLP; v "a"; TRP] = None
  /\ parse_expr [v "a"; TPlus] = None.
Proof. vm_compute. repeat split. Qed.
