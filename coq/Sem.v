(* Sem.v — the documented meaning of a model ("every intermediate stands for its defining
   expression") as an order-independent relation, a boolean validator for function bodies, and
   the central soundness theorem: a body that passes the validator runs without a NameError /
   IndexError, binds every name to its meaning, and every value it stores is the meaning of the
   stored expression.  Generic in the numeric carrier, hence valid for reals and float64 alike. *)
From GX Require Import Base Expr Topo Ode Target.
Open Scope string_scope.
Open Scope list_scope.

Arguments env0 {T}.
Arguments env_fun {T}.
Arguments bound {T}.
Arguments lookup_nat {T}.

Section Sem.
  Context {T : Type} (N : NumOps T) (o : ode).
  Variable ss : list string.        (* the state slot order (ODE.sorted_states) *)
  Variable inp : inputs T.
  Variable with_dt : bool.

  Definition reserved : list string := keys (env0 inp with_dt).

  (* value of a name that is not defined by an assignment *)
  Definition base (x : string) : option T :=
    match lookup x (env0 inp with_dt) with
    | Some v => Some v
    | None =>
      match index_of x ss with
      | Some i => nth_error (in_states inp) i
      | None =>
        match index_of x (param_names o) with
        | Some i => nth_error (in_params inp) i
        | None =>
          match index_of x (missing_names o) with
          | Some i => nth_error (in_missing inp) i
          | None => None
          end
        end
      end
    end.

  Inductive Sem : string -> T -> Prop :=
  | SemBase x v : find_assign o x = None -> base x = Some v -> Sem x v
  | SemDef x a rho :
      find_assign o x = Some a ->
      (forall y, In y (vars (a_expr a)) -> Sem y (rho y)) ->
      Sem x (eval N rho (a_expr a)).

  (* the meaning is a function of the name *)
  Lemma Sem_fun x v : Sem x v -> forall v', Sem x v' -> v = v'.
  Proof.
    induction 1 as [x v Hf Hb | x a rho Hf Hdeps IH]; intros v' H'.
    - inversion H' as [x' v'' Hf' Hb' | x' a' rho' Hf' Hdeps']; subst; congruence.
    - inversion H' as [x' v'' Hf' Hb' | x' a' rho' Hf' Hdeps']; subst; [congruence|].
      assert (a' = a) by congruence. subst a'.
      apply eval_ext. intros y Hy. apply (IH y Hy). apply Hdeps'. exact Hy.
  Qed.

  (* meaning of an expression over names *)
  Definition SemE (e : expr) (v : T) : Prop :=
    exists rho, (forall y, In y (vars e) -> Sem y (rho y)) /\ v = eval N rho e.

  Lemma SemE_fun e v v' : SemE e v -> SemE e v' -> v = v'.
  Proof.
    intros (r & Hr & ->) (r' & Hr' & ->). apply eval_ext.
    intros y Hy. eapply Sem_fun; eauto.
  Qed.

  Lemma SemE_var x v : SemE (EVar x) v <-> Sem x v.
  Proof.
    split.
    - intros (r & Hr & ->). simpl. apply Hr. simpl; auto.
    - intros H. exists (fun _ => v). split; [|reflexivity]. simpl. intros y [<-|[]]. exact H.
  Qed.

  (* ---------- the validator ---------- *)
  Definition is_assign (x : string) : bool :=
    match find_assign o x with Some _ => true | None => false end.

  Definition opt_nat_eqb (a : option nat) (i : nat) : bool :=
    match a with Some j => Nat.eqb j i | None => false end.

  Definition ok_stmt (nret : nat) (defined : list string) (s : stmt) : bool :=
    match s with
    | SUnpackS x i =>
        negb (mem x defined) && negb (mem x reserved) && negb (is_assign x)
        && opt_nat_eqb (index_of x ss) i
    | SUnpackP x i =>
        negb (mem x defined) && negb (mem x reserved) && negb (is_assign x)
        && negb (mem x ss) && opt_nat_eqb (index_of x (param_names o)) i
    | SUnpackM x i =>
        negb (mem x defined) && negb (mem x reserved) && negb (is_assign x)
        && negb (mem x ss) && negb (mem x (param_names o))
        && opt_nat_eqb (index_of x (missing_names o)) i
    | SLet x e =>
        negb (mem x defined)
        && match find_assign o x with Some a => expr_eqb (a_expr a) e | None => false end
        && forallb (fun y => mem y defined) (vars e)
    | SStore i e => forallb (fun y => mem y defined) (vars e) && Nat.ltb i nret
    end.

  Definition binds (s : stmt) : list string :=
    match s with
    | SUnpackS x _ | SUnpackP x _ | SUnpackM x _ | SLet x _ => [x]
    | SStore _ _ => []
    end.

  Fixpoint valid_body (nret : nat) (defined : list string) (body : list stmt) : bool :=
    match body with
    | [] => true
    | s :: body' => ok_stmt nret defined s && valid_body nret (binds s ++ defined) body'
    end.

  Definition sizes_ok : Prop :=
    length (in_states inp) = length ss /\
    length (in_params inp) = length (param_names o) /\
    length (in_missing inp) = length (missing_names o).

  Definition reserved_free : bool := forallb (fun r => negb (is_assign r)) reserved.

  Definition Agree (rho : env T) : Prop := forall x v, lookup x rho = Some v -> Sem x v.

  Lemma Agree_env0 : reserved_free = true -> Agree (env0 inp with_dt).
  Proof.
    intros Hr x v Hl. apply SemBase.
    - unfold reserved_free in Hr. rewrite forallb_forall in Hr.
      assert (Hin : In x reserved).
      { unfold reserved. destruct (in_dec string_dec x (keys (env0 inp with_dt))) as [i|ni]; [exact i|].
        apply lookup_None_keys in ni. congruence. }
      specialize (Hr x Hin). unfold is_assign in Hr.
      destruct (find_assign o x); [discriminate|reflexivity].
    - unfold base. rewrite Hl. reflexivity.
  Qed.

  Lemma bound_of_defined (rho : env T) e :
    forallb (fun y => mem y (keys rho)) (vars e) = true -> bound rho e = true.
  Proof.
    unfold bound. rewrite !forallb_forall. intros H y Hy. specialize (H y Hy).
    apply mem_In in H. destruct (lookup y rho) eqn:E; [reflexivity|].
    apply lookup_None_keys in E. contradiction.
  Qed.

  Lemma SemE_of_env (rho : env T) e :
    Agree rho -> bound rho e = true -> SemE e (eval N (env_fun N rho) e).
  Proof.
    intros HA Hb. exists (env_fun N rho). split; [|reflexivity].
    intros y Hy. unfold bound in Hb. rewrite forallb_forall in Hb. specialize (Hb y Hy).
    unfold env_fun. destruct (lookup y rho) eqn:E; [|discriminate]. apply HA. exact E.
  Qed.

  Lemma idx_some (a : option nat) i : opt_nat_eqb a i = true -> a = Some i.
  Proof. destruct a; simpl; [|discriminate]. intros H. apply Nat.eqb_eq in H. congruence. Qed.

  Lemma not_reserved_lookup x :
    negb (mem x reserved) = true -> lookup x (env0 inp with_dt) = None.
  Proof.
    intros H. apply negb_true_iff, mem_false_In in H. apply lookup_None_keys. exact H.
  Qed.

  Lemma not_assign x : negb (is_assign x) = true -> find_assign o x = None.
  Proof. unfold is_assign. destruct (find_assign o x); [discriminate|reflexivity]. Qed.

  Lemma nth_error_some_lt {A} (l : list A) i : i < length l -> exists v, nth_error l i = Some v.
  Proof.
    intros H. destruct (nth_error l i) eqn:E; [eauto|]. apply nth_error_None in E. lia.
  Qed.

  Lemma index_of_mem_false x l : negb (mem x l) = true -> index_of x l = None.
  Proof. intros H. apply negb_true_iff, mem_false_In in H. apply index_of_None. exact H. Qed.

  (* ---------- soundness of the validator ---------- *)
  Theorem run_sound nret body :
    sizes_ok ->
    forall rho vals,
      valid_body nret (keys rho) body = true ->
      Agree rho ->
      exists rho' vals',
        run N nret inp (rho, vals) body = Some (rho', vals')
        /\ Agree rho'
        /\ (forall x v, lookup x rho = Some v -> lookup x rho' = Some v)
        /\ (forall i v, In (i, v) vals' ->
              In (i, v) vals \/ exists e, In (SStore i e) body /\ SemE e v)
        /\ (forall i v, In (i, v) vals -> In (i, v) vals')
        /\ (forall i e, In (SStore i e) body -> exists v, In (i, v) vals' /\ SemE e v)
        /\ (forall x e, In (SLet x e) body -> exists v, lookup x rho' = Some v).
  Proof.
    intros (Hs & Hp & Hm).
    induction body as [|s body IH]; intros rho vals Hv HA.
    - exists rho, vals. simpl. split; [reflexivity|]. split; [exact HA|]. split; [auto|].
      split; [intros; left; assumption|]. split; [auto|]. split; intros; contradiction.
    - simpl in Hv. apply andb_true_iff in Hv. destruct Hv as [Hok Hrest].
      assert (Hstep : exists rho1 vals1,
                 step N nret inp (rho, vals) s = Some (rho1, vals1)
                 /\ Agree rho1 /\ keys rho1 = binds s ++ keys rho
                 /\ (forall x v, lookup x rho = Some v -> lookup x rho1 = Some v)
                 /\ (forall x e, s = SLet x e -> exists v, lookup x rho1 = Some v)
                 /\ ((vals1 = vals /\ forall i e, s <> SStore i e)
                     \/ exists i e v, s = SStore i e /\ vals1 = (i, v) :: vals /\ SemE e v)).
      { destruct s as [x i|x i|x i|x e|i e]; simpl in Hok |- *.
        - (* SUnpackS *)
          repeat (apply andb_true_iff in Hok; destruct Hok as [Hok ?]).
          apply idx_some in H. pose proof (index_of_lt _ _ _ H) as Hlt.
          rewrite <- Hs in Hlt. destruct (nth_error_some_lt _ _ Hlt) as [v Hv]. rewrite Hv.
          exists ((x, v) :: rho), vals. repeat split; auto.
          + intros y w. simpl. destruct (String.eqb_spec y x) as [->|Hne]; [|apply HA].
            intros [= <-]. apply SemBase; [apply not_assign; assumption|].
            unfold base. rewrite (not_reserved_lookup _ H1), H. exact Hv.
          + intros y w Hl. simpl. destruct (String.eqb_spec y x) as [->|Hne]; [|exact Hl].
            exfalso. apply negb_true_iff, mem_false_In in Hok. apply Hok.
            apply lookup_Some_In in Hl. apply (in_map fst) in Hl. exact Hl.
          + intros ? ? [=].
          + left. split; [reflexivity|]. intros ? ? [=].
        - (* SUnpackP *)
          repeat (apply andb_true_iff in Hok; destruct Hok as [Hok ?]).
          apply idx_some in H. pose proof (index_of_lt _ _ _ H) as Hlt.
          rewrite <- Hp in Hlt. destruct (nth_error_some_lt _ _ Hlt) as [v Hv]. rewrite Hv.
          exists ((x, v) :: rho), vals. repeat split; auto.
          + intros y w. simpl. destruct (String.eqb_spec y x) as [->|Hne]; [|apply HA].
            intros [= <-]. apply SemBase; [apply not_assign; assumption|].
            unfold base. rewrite (not_reserved_lookup _ H2), (index_of_mem_false _ _ H0), H. exact Hv.
          + intros y w Hl. simpl. destruct (String.eqb_spec y x) as [->|Hne]; [|exact Hl].
            exfalso. apply negb_true_iff, mem_false_In in Hok. apply Hok.
            apply lookup_Some_In in Hl. apply (in_map fst) in Hl. exact Hl.
          + intros ? ? [=].
          + left. split; [reflexivity|]. intros ? ? [=].
        - (* SUnpackM *)
          repeat (apply andb_true_iff in Hok; destruct Hok as [Hok ?]).
          apply idx_some in H. pose proof (index_of_lt _ _ _ H) as Hlt.
          rewrite <- Hm in Hlt. destruct (nth_error_some_lt _ _ Hlt) as [v Hv]. rewrite Hv.
          exists ((x, v) :: rho), vals. repeat split; auto.
          + intros y w. simpl. destruct (String.eqb_spec y x) as [->|Hne]; [|apply HA].
            intros [= <-]. apply SemBase; [apply not_assign; assumption|].
            unfold base. rewrite (not_reserved_lookup _ H3), (index_of_mem_false _ _ H1),
              (index_of_mem_false _ _ H0), H. exact Hv.
          + intros y w Hl. simpl. destruct (String.eqb_spec y x) as [->|Hne]; [|exact Hl].
            exfalso. apply negb_true_iff, mem_false_In in Hok. apply Hok.
            apply lookup_Some_In in Hl. apply (in_map fst) in Hl. exact Hl.
          + intros ? ? [=].
          + left. split; [reflexivity|]. intros ? ? [=].
        - (* SLet *)
          repeat (apply andb_true_iff in Hok; destruct Hok as [Hok ?]).
          destruct (find_assign o x) as [a|] eqn:Hfa; [|discriminate].
          apply expr_eqb_eq in H0. subst e.
          pose proof (bound_of_defined _ _ H) as Hb. rewrite Hb.
          exists ((x, eval N (env_fun N rho) (a_expr a)) :: rho), vals. repeat split; auto.
          + intros y w. simpl. destruct (String.eqb_spec y x) as [->|Hne]; [|apply HA].
            intros [= <-]. apply SemDef; [exact Hfa|].
            intros z Hz. unfold bound in Hb. rewrite forallb_forall in Hb. specialize (Hb z Hz).
            unfold env_fun. destruct (lookup z rho) eqn:E; [|discriminate]. apply HA. exact E.
          + intros y w Hl. simpl. destruct (String.eqb_spec y x) as [->|Hne]; [|exact Hl].
            exfalso. apply negb_true_iff, mem_false_In in Hok. apply Hok.
            apply lookup_Some_In in Hl. apply (in_map fst) in Hl. exact Hl.
          + intros y e' [= -> ->]. simpl. rewrite String.eqb_refl. eauto.
          + left. split; [reflexivity|]. intros ? ? [=].
        - (* SStore *)
          apply andb_true_iff in Hok. destruct Hok as [Hd Hlt].
          pose proof (bound_of_defined _ _ Hd) as Hb. rewrite Hb, Hlt. simpl.
          exists rho, ((i, eval N (env_fun N rho) e) :: vals). repeat split; auto.
          + intros ? ? [=].
          + right. exists i, e, (eval N (env_fun N rho) e). repeat split; auto.
            apply SemE_of_env; assumption. }
      destruct Hstep as (rho1 & vals1 & Hst & HA1 & Hk1 & Hpres1 & Hlet1 & Hvals1).
      rewrite <- Hk1 in Hrest.
      destruct (IH rho1 vals1 Hrest HA1) as (rho' & vals' & Hrun & HA' & Hpres & Hfrom & Hkeep & Hall & Hlets).
      exists rho', vals'. split; [cbn [run]; rewrite Hst; exact Hrun|].
      split; [exact HA'|]. split; [intros x v Hl; apply Hpres, Hpres1, Hl|].
      split; [|split; [|split]].
      + intros i v Hin. destruct (Hfrom i v Hin) as [Hin1|(e & He & Hse)].
        * destruct Hvals1 as [[-> _]|(i0 & e0 & v0 & -> & -> & Hse0)]; [left; exact Hin1|].
          destruct Hin1 as [[= <- <-]|Hin1]; [|left; exact Hin1].
          right. exists e0. split; [left; reflexivity|exact Hse0].
        * right. exists e. split; [right; exact He|exact Hse].
      + intros i v Hin. apply Hkeep.
        destruct Hvals1 as [[-> _]|(i0 & e0 & v0 & _ & -> & _)]; [exact Hin|right; exact Hin].
      + intros i e [->|Hin]; [|apply Hall; exact Hin].
        destruct Hvals1 as [[_ Hne]|(i0 & e0 & v0 & [= <- <-] & -> & Hse0)].
        * exfalso. eapply Hne; reflexivity.
        * exists v0. split; [apply Hkeep; left; reflexivity|exact Hse0].
      + intros x e [->|Hin]; [|apply Hlets with e; exact Hin].
        destruct (Hlet1 x e eq_refl) as [v Hv]. exists v. apply Hpres. exact Hv.
  Qed.

  Lemma lookup_nat_In i v (l : list (nat * T)) : lookup_nat i l = Some v -> In (i, v) l.
  Proof.
    induction l as [|[j w] l IH]; simpl; [discriminate|].
    destruct (Nat.eqb_spec i j) as [->|Hne]; [intros [= ->]; auto|auto].
  Qed.

  Lemma In_lookup_nat i v (l : list (nat * T)) : In (i, v) l -> exists w, lookup_nat i l = Some w.
  Proof.
    induction l as [|[j w] l IH]; simpl; [tauto|].
    intros [[= -> ->]|H].
    - rewrite Nat.eqb_refl. eauto.
    - destruct (Nat.eqb i j); eauto.
  Qed.

  Lemma result_nth nret vals i :
    i < nret ->
    nth_error (result N nret vals) i =
    Some (match lookup_nat i vals with Some v => v | None => tzero N end).
  Proof.
    intros H. unfold result.
    assert (Hs : nth_error (seq 0 nret) i = Some i).
    { rewrite (nth_error_nth' _ 0) by (rewrite seq_length; exact H).
      rewrite seq_nth by exact H. reflexivity. }
    rewrite (map_nth_error _ _ _ Hs). reflexivity.
  Qed.

  (* Whole functions: a validated function returns an array; every slot that some statement
     stores holds the meaning of a stored expression; slots never stored hold 0. *)
  Theorem exec_sound (f : func) :
    sizes_ok -> reserved_free = true ->
    valid_body (f_nret f) reserved (f_body f) = true ->
    exists out,
      exec N f with_dt inp = Some out
      /\ length out = f_nret f
      /\ forall i, i < f_nret f ->
           (exists e v, In (SStore i e) (f_body f) /\ SemE e v /\ nth_error out i = Some v)
           \/ ((forall e, ~ In (SStore i e) (f_body f)) /\ nth_error out i = Some (tzero N)).
  Proof.
    intros Hsz Hrf Hv.
    destruct (run_sound (f_nret f) (f_body f) Hsz (env0 inp with_dt) [] Hv (Agree_env0 Hrf))
      as (rho' & vals' & Hrun & _ & _ & Hfrom & _ & Hall & _).
    exists (result N (f_nret f) vals'). split; [unfold exec; unfold env in *; rewrite Hrun; reflexivity|]. split.
    - unfold result. rewrite map_length, seq_length. reflexivity.
    - intros i Hi. rewrite (result_nth _ _ _ Hi).
      destruct (lookup_nat i vals') as [v|] eqn:E.
      + left. apply lookup_nat_In in E. destruct (Hfrom i v E) as [[]|(e & He & Hse)].
        exists e, v. auto.
      + right. split; [|reflexivity]. intros e He. destruct (Hall i e He) as (v & Hin & _).
        destruct (In_lookup_nat _ _ _ Hin) as [w Hw]. congruence.
  Qed.
End Sem.
