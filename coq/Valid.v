(* Valid.v — verified validators for whole generated functions.

   [valid_fun f ok] accepts a function body iff (Sem.valid_body) every name is bound before it is
   read, unpacking reads the slot the index tables assign to the name, every let binds an
   assignment of the model to its own defining expression, and every slot of the returned array
   is written exactly once with an expression of the shape [ok] prescribes for that slot.
   [fun_sound]: an accepted function runs to completion and slot i holds the documented meaning
   (Sem) of an expression of the prescribed shape.  The validators are run, after extraction, on the
   skeleton of the code the implementation really generated. *)
From GX Require Import Base Expr Topo Ode Target Sem.
Open Scope string_scope.
Open Scope list_scope.

Definition stores_at (i : nat) (body : list stmt) : list expr :=
  flat_map (fun s => match s with
                     | SStore j e => if Nat.eqb i j then [e] else []
                     | _ => []
                     end) body.

Lemma stores_at_In i e body : In e (stores_at i body) <-> In (SStore i e) body.
Proof.
  unfold stores_at. rewrite in_flat_map. split.
  - intros (s & Hs & He). destruct s as [x j|x j|x j|x e'|j e']; try contradiction.
    destruct (Nat.eqb_spec i j) as [->|Hne]; [|contradiction].
    destruct He as [->|[]]. exact Hs.
  - intros H. exists (SStore i e). split; [exact H|]. rewrite Nat.eqb_refl. left; reflexivity.
Qed.

Definition slots_ok (nret : nat) (ok : nat -> expr -> bool) (body : list stmt) : bool :=
  forallb (fun i => match stores_at i body with
                    | [e] => ok i e
                    | _ => false
                    end) (seq 0 nret).

Section Valid.
  Context {T : Type} (N : NumOps T) (o : ode).
  Variable ss : list string.
  Variable inp : inputs T.
  Variable with_dt : bool.

  Definition valid_fun (f : func) (ok : nat -> expr -> bool) : bool :=
    valid_body o ss inp with_dt (f_nret f) (reserved inp with_dt) (f_body f)
    && slots_ok (f_nret f) ok (f_body f).

  Theorem fun_sound f ok :
    sizes_ok o ss inp -> reserved_free o inp with_dt = true ->
    valid_fun f ok = true ->
    exists out,
      exec N f with_dt inp = Some out
      /\ length out = f_nret f
      /\ forall i, i < f_nret f ->
           exists e v, ok i e = true /\ SemE N o ss inp with_dt e v /\ nth_error out i = Some v.
  Proof.
    intros Hsz Hrf Hv. unfold valid_fun in Hv. apply andb_true_iff in Hv. destruct Hv as [Hb Hs].
    destruct (exec_sound N o ss inp with_dt f Hsz Hrf Hb) as (out & Hex & Hlen & Hslots).
    exists out. split; [exact Hex|]. split; [exact Hlen|].
    intros i Hi. unfold slots_ok in Hs. rewrite forallb_forall in Hs.
    specialize (Hs i). rewrite in_seq in Hs. specialize (Hs (conj (Nat.le_0_l i) Hi)).
    destruct (stores_at i (f_body f)) as [|e [|e2 l]] eqn:E; try discriminate.
    assert (HIn : In (SStore i e) (f_body f)).
    { apply stores_at_In. rewrite E. left; reflexivity. }
    destruct (Hslots i Hi) as [(e' & v & Hin' & Hse & Hn)|(Hno & _)].
    - apply stores_at_In in Hin'. rewrite E in Hin'. destruct Hin' as [<-|[]].
      exists e, v. auto.
    - exfalso. apply (Hno e HIn).
  Qed.

  (* ---------- shapes ---------- *)
  Definition is_var (x : string) (e : expr) : bool :=
    match e with EVar y => String.eqb x y | _ => false end.

  Lemma is_var_eq x e : is_var x e = true -> e = EVar x.
  Proof. destruct e; simpl; try discriminate. intros H. apply String.eqb_eq in H. congruence. Qed.

  (* slot i holds the name tbl[i] *)
  Definition ok_name (tbl : list string) (i : nat) (e : expr) : bool :=
    match nth_error tbl i with Some n => is_var n e | None => false end.

  (* rhs: slot i holds d<state i>_dt *)
  Definition ok_rhs (i : nat) (e : expr) : bool :=
    match nth_error ss i with
    | Some s => is_var (deriv_name_of s) e && is_deriv_name o (deriv_name_of s)
    | None => false
    end.

  Definition valid_rhs (f : func) : bool :=
    Nat.eqb (f_nret f) (length ss) && valid_fun f ok_rhs.

  Theorem rhs_sound f :
    sizes_ok o ss inp -> reserved_free o inp with_dt = true ->
    valid_rhs f = true ->
    exists out,
      exec N f with_dt inp = Some out
      /\ length out = length ss
      /\ forall i s, nth_error ss i = Some s ->
           exists v, nth_error out i = Some v /\ Sem N o ss inp with_dt (deriv_name_of s) v.
  Proof.
    intros Hsz Hrf Hv. unfold valid_rhs in Hv. apply andb_true_iff in Hv. destruct Hv as [Hn Hv].
    apply Nat.eqb_eq in Hn.
    destruct (fun_sound f ok_rhs Hsz Hrf Hv) as (out & Hex & Hlen & Hsl).
    exists out. split; [exact Hex|]. split; [congruence|].
    intros i s Hs. assert (Hi : i < f_nret f).
    { rewrite Hn. apply nth_error_Some. congruence. }
    destruct (Hsl i Hi) as (e & v & Hok & Hse & Hnth).
    unfold ok_rhs in Hok. rewrite Hs in Hok. apply andb_true_iff in Hok. destruct Hok as [Hok _].
    apply is_var_eq in Hok. subst e. exists v. split; [exact Hnth|].
    apply SemE_var. exact Hse.
  Qed.

  (* monitor_values / missing_values: slot i holds the name the table lists at i *)
  Definition valid_named (tbl : list string) (f : func) : bool :=
    Nat.eqb (f_nret f) (length tbl) && valid_fun f (ok_name tbl).

  Theorem named_sound tbl f :
    sizes_ok o ss inp -> reserved_free o inp with_dt = true ->
    valid_named tbl f = true ->
    exists out,
      exec N f with_dt inp = Some out
      /\ length out = length tbl
      /\ forall i n, nth_error tbl i = Some n ->
           exists v, nth_error out i = Some v /\ Sem N o ss inp with_dt n v.
  Proof.
    intros Hsz Hrf Hv. unfold valid_named in Hv. apply andb_true_iff in Hv. destruct Hv as [Hn Hv].
    apply Nat.eqb_eq in Hn.
    destruct (fun_sound f (ok_name tbl) Hsz Hrf Hv) as (out & Hex & Hlen & Hsl).
    exists out. split; [exact Hex|]. split; [congruence|].
    intros i n Hs. assert (Hi : i < f_nret f).
    { rewrite Hn. apply nth_error_Some. congruence. }
    destruct (Hsl i Hi) as (e & v & Hok & Hse & Hnth).
    unfold ok_name in Hok. rewrite Hs in Hok. apply is_var_eq in Hok. subst e.
    exists v. split; [exact Hnth|]. apply SemE_var. exact Hse.
  Qed.

  (* ---------- meaning of the names a scheme update reads ---------- *)
  Definition states_clean : bool :=
    forallb (fun s => negb (is_assign o s) && negb (mem s (reserved inp with_dt))) ss.

  Lemma Sem_state i s v :
    states_clean = true -> NoDup ss ->
    nth_error ss i = Some s -> nth_error (in_states inp) i = Some v ->
    Sem N o ss inp with_dt s v.
  Proof.
    intros Hc Hnd Hs Hv. unfold states_clean in Hc. rewrite forallb_forall in Hc.
    specialize (Hc s (nth_error_In _ _ Hs)). apply andb_true_iff in Hc. destruct Hc as [Ha Hr].
    apply SemBase.
    - apply not_assign. exact Ha.
    - unfold base. rewrite (not_reserved_lookup inp with_dt _ Hr).
      rewrite (NoDup_index_of _ _ _ Hnd Hs). exact Hv.
  Qed.

  Lemma Sem_dt : with_dt = true -> reserved_free o inp with_dt = true ->
    Sem N o ss inp with_dt "dt" (in_dt inp).
  Proof.
    intros -> Hrf. apply (Agree_env0 N o ss inp true Hrf). reflexivity.
  Qed.

  Lemma Sem_t : reserved_free o inp with_dt = true -> Sem N o ss inp with_dt "t" (in_t inp).
  Proof.
    intros Hrf. apply (Agree_env0 N o ss inp with_dt Hrf).
    unfold env0. destruct with_dt; reflexivity.
  Qed.

  (* explicit Euler: slot i holds  state_i + dt * d<state_i>_dt  (operands in either order, which
     is how sympy's canonical ordering may print them) *)
  Definition is_dt_mul (n : string) (e : expr) : bool :=
    match e with
    | EMul a b => (is_var "dt" a && is_var n b) || (is_var n a && is_var "dt" b)
    | _ => false
    end.

  Definition is_euler (s : string) (e : expr) : bool :=
    match e with
    | EAdd a b => (is_var s a && is_dt_mul (deriv_name_of s) b)
                  || (is_dt_mul (deriv_name_of s) a && is_var s b)
    | _ => false
    end.

  Definition ok_euler (i : nat) (e : expr) : bool :=
    match nth_error ss i with
    | Some s => is_euler s e && is_deriv_name o (deriv_name_of s)
    | None => false
    end.

  Definition valid_euler (f : func) : bool :=
    Nat.eqb (f_nret f) (length ss) && valid_fun f ok_euler.

  Record CommOps : Prop := {
    add_comm : forall a b : T, add N a b = add N b a;
    mul_comm : forall a b : T, mul N a b = mul N b a }.

  Lemma SemE_inv_var x v : SemE N o ss inp with_dt (EVar x) v -> Sem N o ss inp with_dt x v.
  Proof. apply SemE_var. Qed.

  Lemma is_dt_mul_sem n e v dtv fv :
    CommOps -> is_dt_mul n e = true ->
    SemE N o ss inp with_dt e v ->
    Sem N o ss inp with_dt "dt" dtv -> Sem N o ss inp with_dt n fv ->
    v = mul N dtv fv.
  Proof.
    intros HC Hs (rho & Hrho & ->) Hdt Hf. destruct e; simpl in Hs; try discriminate.
    apply orb_true_iff in Hs. destruct Hs as [Hs|Hs]; apply andb_true_iff in Hs; destruct Hs as [H1 H2];
      apply is_var_eq in H1; apply is_var_eq in H2; subst; simpl in *.
    - rewrite (Sem_fun N o ss inp with_dt _ _ (Hrho "dt" (or_introl eq_refl)) _ Hdt).
      rewrite (Sem_fun N o ss inp with_dt _ _ (Hrho n (or_intror (or_introl eq_refl))) _ Hf).
      reflexivity.
    - rewrite (Sem_fun N o ss inp with_dt _ _ (Hrho n (or_introl eq_refl)) _ Hf).
      rewrite (Sem_fun N o ss inp with_dt _ _ (Hrho "dt" (or_intror (or_introl eq_refl))) _ Hdt).
      apply (mul_comm HC).
  Qed.

  Lemma SemE_add a b v :
    SemE N o ss inp with_dt (EAdd a b) v ->
    exists va vb, SemE N o ss inp with_dt a va /\ SemE N o ss inp with_dt b vb /\ v = add N va vb.
  Proof.
    intros (rho & Hrho & ->). exists (eval N rho a), (eval N rho b). simpl.
    split; [|split; [|reflexivity]]; exists rho; (split; [|reflexivity]);
      intros y Hy; apply Hrho; simpl; apply in_or_app; auto.
  Qed.

  Lemma is_euler_sem s e v sv dtv fv :
    CommOps -> is_euler s e = true ->
    SemE N o ss inp with_dt e v ->
    Sem N o ss inp with_dt s sv ->
    Sem N o ss inp with_dt "dt" dtv -> Sem N o ss inp with_dt (deriv_name_of s) fv ->
    v = add N sv (mul N dtv fv).
  Proof.
    intros HC Hs He Hsv Hdt Hf. destruct e; simpl in Hs; try discriminate.
    destruct (SemE_add _ _ _ He) as (va & vb & Ha & Hb & ->).
    apply orb_true_iff in Hs. destruct Hs as [Hs|Hs]; apply andb_true_iff in Hs; destruct Hs as [H1 H2].
    - apply is_var_eq in H1. subst e1. apply SemE_var in Ha.
      rewrite (Sem_fun N o ss inp with_dt _ _ Ha _ Hsv).
      rewrite (is_dt_mul_sem _ _ _ _ _ HC H2 Hb Hdt Hf). reflexivity.
    - apply is_var_eq in H2. subst e2. apply SemE_var in Hb.
      rewrite (Sem_fun N o ss inp with_dt _ _ Hb _ Hsv).
      rewrite (is_dt_mul_sem _ _ _ _ _ HC H1 Ha Hdt Hf). apply (add_comm HC).
  Qed.

  Lemma is_dt_mul_reads n e : is_dt_mul n e = true -> In n (vars e).
  Proof.
    destruct e; simpl; try discriminate. intros H.
    apply orb_true_iff in H. destruct H as [H|H]; apply andb_true_iff in H; destruct H as [H1 H2];
      apply is_var_eq in H1; apply is_var_eq in H2; subst; cbn [vars]; apply in_or_app;
      [right|left]; left; reflexivity.
  Qed.

  Lemma is_euler_reads s e : is_euler s e = true -> In (deriv_name_of s) (vars e).
  Proof.
    destruct e; simpl; try discriminate. intros H.
    apply orb_true_iff in H. destruct H as [H|H]; apply andb_true_iff in H; destruct H as [H1 H2];
      cbn [vars]; apply in_or_app.
    - right. apply is_dt_mul_reads. exact H2.
    - left. apply is_dt_mul_reads. exact H1.
  Qed.

  Theorem euler_sound f :
    CommOps -> with_dt = true ->
    sizes_ok o ss inp -> reserved_free o inp with_dt = true ->
    states_clean = true -> NoDup ss ->
    valid_euler f = true ->
    exists out,
      exec N f with_dt inp = Some out
      /\ length out = length ss
      /\ forall i s, nth_error ss i = Some s ->
           exists sv fv,
             nth_error (in_states inp) i = Some sv
             /\ Sem N o ss inp with_dt (deriv_name_of s) fv
             /\ nth_error out i = Some (add N sv (mul N (in_dt inp) fv)).
  Proof.
    intros HC Hdt Hsz Hrf Hcl Hnd Hv. unfold valid_euler in Hv.
    apply andb_true_iff in Hv. destruct Hv as [Hn Hv]. apply Nat.eqb_eq in Hn.
    destruct (fun_sound f ok_euler Hsz Hrf Hv) as (out & Hex & Hlen & Hsl).
    exists out. split; [exact Hex|]. split; [congruence|].
    intros i s Hs. assert (Hi : i < f_nret f).
    { rewrite Hn. apply nth_error_Some. congruence. }
    destruct (Hsl i Hi) as (e & v & Hok & Hse & Hnth).
    unfold ok_euler in Hok. rewrite Hs in Hok. apply andb_true_iff in Hok. destruct Hok as [Hok _].
    destruct Hsz as (Hs1 & _).
    assert (Hlt : i < length (in_states inp)).
    { rewrite Hs1. apply nth_error_Some. congruence. }
    destruct (nth_error (in_states inp) i) as [sv|] eqn:Esv;
      [|apply nth_error_None in Esv; lia].
    pose proof (Sem_state i s sv Hcl Hnd Hs Esv) as Hsem_s.
    (* the update reads the derivative, so the derivative has a meaning *)
    assert (Hfv : exists fv, Sem N o ss inp with_dt (deriv_name_of s) fv).
    { destruct Hse as (rho & Hrho & _). exists (rho (deriv_name_of s)). apply Hrho.
      apply is_euler_reads. exact Hok. }
    destruct Hfv as [fv Hfv].
    exists sv, fv. split; [reflexivity|]. split; [exact Hfv|].
    rewrite Hnth. f_equal.
    apply (is_euler_sem s e v sv (in_dt inp) fv HC Hok Hse Hsem_s (Sem_dt Hdt Hrf) Hfv).
  Qed.
End Valid.
