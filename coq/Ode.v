(* Ode.v — the loaded model (gotranx.ode.ODE) and the queries code generation makes on it:
   name-sorted tuples, sorted_assignments / sorted_states (ode.py), dependents(),
   missing_variables, component subtraction. *)
From GX Require Import Base Expr Topo.
Open Scope string_scope.
Open Scope list_scope.

Record decl := {            (* atoms.State / atoms.Parameter *)
  d_name : string;
  d_value : expr;           (* closed expression: build_expression(tree) without symbols *)
  d_comps : list string;
  d_unit : option string;
  d_desc : option string }.

Record assign := {          (* atoms.Intermediate / atoms.StateDerivative *)
  a_name : string;
  a_expr : expr;
  a_comps : list string;
  a_unit : option string;
  a_comment : option string }.

Record ode := {
  o_states : list decl;
  o_params : list decl;
  o_inters : list assign;   (* intermediates *)
  o_derivs : list assign }. (* state derivatives, named d<state>_dt *)

(* ode_component.STATE_DERIV_EXPR = ^d(?P<state>\w+)_dt$ : the state named by a derivative.
   Identifiers consist of \w characters only, so the match is: starts with "d", ends with "_dt",
   at least one character in between (greedy \w+ takes everything up to the last "_dt"). *)
Definition suffix_dt (n : string) : bool :=
  String.eqb (substring (String.length n - 3) 3 n) "_dt".
Definition deriv_state (n : string) : option string :=
  if (String.eqb (substring 0 1 n) "d" && suffix_dt n && Nat.leb 5 (String.length n))%bool
  then Some (substring 1 (String.length n - 4) n) else None.
Definition state_of (a : assign) : string :=
  match deriv_state (a_name a) with Some s => s | None => "" end.

Definition deriv_name_of (s : string) : string := String.append "d" (String.append s "_dt").

Definition assigns (o : ode) : list assign := o_inters o ++ o_derivs o.

Definition find_assign (o : ode) (x : string) : option assign :=
  find (fun a => String.eqb (a_name a) x) (assigns o).
Definition find_decl (l : list decl) (x : string) : option decl :=
  find (fun d => String.eqb (d_name d) x) l.

(* ODE.states / parameters / intermediates / state_derivatives: sorted by name *)
Definition state_names (o : ode) : list string := sort_names (map d_name (o_states o)).
Definition param_names (o : ode) : list string := sort_names (map d_name (o_params o)).
Definition inter_names (o : ode) : list string := sort_names (map a_name (o_inters o)).
Definition deriv_names (o : ode) : list string := sort_names (map a_name (o_derivs o)).
Definition is_deriv_name (o : ode) (x : string) : bool := mem x (map a_name (o_derivs o)).
Definition is_inter_name (o : ode) (x : string) : bool := mem x (map a_name (o_inters o)).

(* Expression.dependencies is a frozenset; sort_assignments feeds it to sorter.add after
   sorting it (repaired behaviour, fix for C09: sorter.add(name, *sorted(deps))). *)
Definition adeps (a : assign) : list string := sort_names (dedup (vars (a_expr a))).
Definition deps_of (o : ode) (x : string) : list string :=
  match find_assign o x with Some a => adeps a | None => [] end.

(* ODE.dependents(): only membership "name in deps" is ever used *)
Definition used (o : ode) (x : string) : bool :=
  existsb (fun a => mem x (vars (a_expr a))) (assigns o).

Definition build_graph (o : ode) (names : list string) : graph :=
  fold_left (fun g n => g_add g n (deps_of o n)) names [].

Definition all_assign_names (o : ode) : list string := inter_names o ++ deriv_names o.

(* ODE.sorted_assignments(remove_unused): one topological sort of all assignments; unused
   intermediates are dropped from the *result* (repaired behaviour, fix for C12; the code as
   found re-sorted the smaller graph, see [sorted_names_resort] below). *)
Definition sorted_names (o : ode) (remove_unused : bool) : option (list string) :=
  let names := all_assign_names o in
  match static_order (build_graph o names) with
  | Some ord =>
      let ord := filter (fun n => mem n names) ord in
      Some (if remove_unused
            then filter (fun n => negb (is_inter_name o n) || used o n) ord
            else ord)
  | None => None
  end.

(* the behaviour of the code as found at the pinned commit (kept for the refutation in C12) *)
Definition sorted_names_resort (o : ode) (remove_unused : bool) : option (list string) :=
  let inters := if remove_unused then filter (used o) (inter_names o) else inter_names o in
  let names := inters ++ deriv_names o in
  match static_order (build_graph o names) with
  | Some ord => Some (filter (fun n => mem n names) ord)
  | None => None
  end.

(* ODE.sorted_states(): states of the derivatives in sorted order (never with remove_unused) *)
Definition sorted_states (o : ode) : option (list string) :=
  match sorted_names o false with
  | Some ord => Some (map (fun n => match deriv_state n with Some s => s | None => "" end)
                          (filter (is_deriv_name o) ord))
  | None => None
  end.

(* ODE.missing_variables: names some assignment reads that are not a symbol of the model
   (symbols = parameters, states, intermediates, derivatives, "time") and not "t";
   sorted, then enumerated *)
Definition known_symbol (o : ode) (x : string) : bool :=
  mem x (map d_name (o_params o)) || mem x (map d_name (o_states o))
  || mem x (map a_name (assigns o)) || String.eqb x "time" || String.eqb x "t".
Definition missing_names (o : ode) : list string :=
  sort_names (dedup (filter (fun x => negb (known_symbol o x))
                            (flat_map (fun a => vars (a_expr a)) (assigns o)))).

(* ---------- well-formedness of a loaded model (what C08 says the loader guarantees) ---------- *)
Definition reserved_time (x : string) : bool := String.eqb x "t" || String.eqb x "time".

Definition all_names (o : ode) : list string :=
  map d_name (o_states o) ++ map d_name (o_params o) ++ map a_name (assigns o).

Definition nodupb (l : list string) : bool := Nat.eqb (length (dedup l)) (length l).

(* names are unique across kinds; derivatives pair up with states; no model name is t / time *)
Definition wf_names (o : ode) : bool :=
  nodupb (all_names o)
  && forallb (fun x => negb (reserved_time x)) (all_names o)
  && forallb (fun a => match deriv_state (a_name a) with
                       | Some s => mem s (map d_name (o_states o))
                       | None => false end) (o_derivs o)
  && forallb (fun d => mem (String.append "d" (String.append (d_name d) "_dt")) (map a_name (o_derivs o))) (o_states o)
  && forallb (fun a => match deriv_state (a_name a) with
                       | Some _ => false   (* _handle_assignments would have made it a derivative *)
                       | None => true end) (o_inters o).
