(* Base.v — identifiers, association lists, Python-style sorting of names.
   Part of the Gallina model of finsberg/gotranx (see /verif/DESIGN.md). *)
From Coq Require Export String List Bool Arith ZArith Lia.
From Coq Require Import Sorting.Mergesort Orders Permutation.
Export ListNotations.
Open Scope string_scope.
Open Scope list_scope.

Definition ident := string.

(* ---------- membership / association lists keyed by strings ---------- *)

Fixpoint mem (x : string) (l : list string) : bool :=
  match l with
  | [] => false
  | y :: l' => if String.eqb x y then true else mem x l'
  end.

Lemma mem_In x l : mem x l = true <-> In x l.
Proof.
  induction l as [|y l IH]; simpl.
  - split; [discriminate | tauto].
  - destruct (String.eqb_spec x y) as [->|Hne].
    + split; auto.
    + rewrite IH. split; [auto|]. intros [H|H]; [congruence|exact H].
Qed.

Lemma mem_false_In x l : mem x l = false <-> ~ In x l.
Proof.
  rewrite <- mem_In. destruct (mem x l); split; congruence.
Qed.

Fixpoint lookup {A} (x : string) (l : list (string * A)) : option A :=
  match l with
  | [] => None
  | (y, v) :: l' => if String.eqb x y then Some v else lookup x l'
  end.

Definition keys {A} (l : list (string * A)) : list string := map fst l.

Lemma lookup_None_keys {A} x (l : list (string * A)) :
  lookup x l = None <-> ~ In x (keys l).
Proof.
  induction l as [|[y v] l IH]; simpl.
  - tauto.
  - destruct (String.eqb_spec x y) as [->|Hne].
    + split; [discriminate|]. intros H. exfalso. apply H. auto.
    + rewrite IH. split; [intros H [H1|H1]; [congruence|auto] | tauto].
Qed.

Lemma lookup_Some_In {A} x (v : A) l : lookup x l = Some v -> In (x, v) l.
Proof.
  induction l as [|[y w] l IH]; simpl; [discriminate|].
  destruct (String.eqb_spec x y) as [->|Hne].
  - intros [= ->]. auto.
  - auto.
Qed.

Lemma lookup_app {A} x (l1 l2 : list (string * A)) :
  lookup x (l1 ++ l2) = match lookup x l1 with Some v => Some v | None => lookup x l2 end.
Proof.
  induction l1 as [|[y v] l1 IH]; simpl; [reflexivity|].
  destruct (String.eqb x y); auto.
Qed.

(* index of the first occurrence *)
Fixpoint index_of (x : string) (l : list string) : option nat :=
  match l with
  | [] => None
  | y :: l' => if String.eqb x y then Some 0
               else match index_of x l' with Some n => Some (S n) | None => None end
  end.

Lemma index_of_nth x l n :
  index_of x l = Some n -> nth_error l n = Some x.
Proof.
  revert n; induction l as [|y l IH]; simpl; intros n; [discriminate|].
  destruct (String.eqb_spec x y) as [->|Hne].
  - intros [= <-]. reflexivity.
  - destruct (index_of x l) as [m|]; [|discriminate].
    intros [= <-]. simpl. auto.
Qed.

Lemma index_of_None x l : index_of x l = None <-> ~ In x l.
Proof.
  induction l as [|y l IH]; simpl; [tauto|].
  destruct (String.eqb_spec x y) as [->|Hne].
  - split; [discriminate|]. intros H; exfalso; auto.
  - destruct (index_of x l) as [m|].
    + split; [discriminate|]. intros H. exfalso. apply H. right.
      destruct IH as [_ IH2]. destruct (in_dec string_dec x l) as [i|ni]; [exact i|].
      specialize (IH2 ni). discriminate.
    + split; [|reflexivity]. intros _ [H|H]; [congruence|]. apply IH in H; auto.
Qed.

Lemma index_of_lt x l n : index_of x l = Some n -> n < length l.
Proof.
  intros H. apply index_of_nth in H. apply nth_error_Some. congruence.
Qed.

Lemma index_of_inj x y l n :
  index_of x l = Some n -> index_of y l = Some n -> x = y.
Proof.
  intros Hx Hy. apply index_of_nth in Hx. apply index_of_nth in Hy. congruence.
Qed.

Lemma NoDup_index_of l n x :
  NoDup l -> nth_error l n = Some x -> index_of x l = Some n.
Proof.
  revert n; induction l as [|y l IH]; intros n Hnd Hn.
  - destruct n; discriminate.
  - inversion Hnd as [|? ? Hni Hnd']; subst. destruct n as [|n]; simpl in *.
    + injection Hn as ->. rewrite String.eqb_refl. reflexivity.
    + destruct (String.eqb_spec x y) as [->|Hne].
      * exfalso. apply Hni. eapply nth_error_In; eauto.
      * rewrite (IH n Hnd' Hn). reflexivity.
Qed.

(* ---------- Python's sorted() on identifiers: code-point order ---------- *)

Module StringOrder <: TotalLeBool.
  Definition t := string.
  Definition leb := String.leb.
  Theorem leb_total : forall a1 a2, leb a1 a2 = true \/ leb a2 a1 = true.
  Proof. exact String.leb_total. Qed.
End StringOrder.

Module StringSort := Sort StringOrder.

Definition sort_names (l : list string) : list string := StringSort.sort l.

Lemma sort_names_perm l : Permutation l (sort_names l).
Proof. apply StringSort.Permuted_sort. Qed.

Lemma sort_names_In x l : In x (sort_names l) <-> In x l.
Proof.
  split; intros H.
  - eapply Permutation_in; [apply Permutation_sym, sort_names_perm | exact H].
  - eapply Permutation_in; [apply sort_names_perm | exact H].
Qed.

Lemma sort_names_NoDup l : NoDup l -> NoDup (sort_names l).
Proof. intros H. eapply Permutation_NoDup; [apply sort_names_perm | exact H]. Qed.

Lemma sort_names_length l : length (sort_names l) = length l.
Proof. symmetry. apply Permutation_length, sort_names_perm. Qed.

(* remove duplicates keeping the first occurrence (Python: set.add of an equal element is a no-op) *)
Fixpoint dedup (l : list string) : list string :=
  match l with
  | [] => []
  | x :: l' => if mem x l' then dedup l' else x :: dedup l'
  end.

Lemma dedup_In x l : In x (dedup l) <-> In x l.
Proof.
  induction l as [|y l IH]; simpl; [tauto|].
  destruct (mem y l) eqn:E.
  - rewrite IH. apply mem_In in E. split; [auto|]. intros [->|H]; auto.
  - simpl. rewrite IH. tauto.
Qed.

Lemma dedup_NoDup l : NoDup (dedup l).
Proof.
  induction l as [|y l IH]; simpl; [constructor|].
  destruct (mem y l) eqn:E; [exact IH|].
  constructor; [|exact IH]. rewrite dedup_In. apply mem_false_In. exact E.
Qed.

(* enumerate *)
Fixpoint enum_from {A} (n : nat) (l : list A) : list (nat * A) :=
  match l with
  | [] => []
  | x :: l' => (n, x) :: enum_from (S n) l'
  end.
Definition enumerate {A} (l : list A) := enum_from 0 l.

Lemma enum_from_nth {A} (l : list A) n i x :
  In (i, x) (enum_from n l) <-> (n <= i /\ nth_error l (i - n) = Some x).
Proof.
  revert n; induction l as [|y l IH]; intros n; simpl.
  - split; [tauto|]. intros [_ H]. destruct (i - n); discriminate.
  - rewrite IH. split.
    + intros [[= <- <-]|[Hle Hn]].
      * split; [lia|]. replace (n - n) with 0 by lia. reflexivity.
      * split; [lia|]. replace (i - n) with (S (i - S n)) by lia. exact Hn.
    + intros [Hle Hn]. destruct (Nat.eq_dec i n) as [->|Hne].
      * left. replace (n - n) with 0 in Hn by lia. simpl in Hn. congruence.
      * right. split; [lia|]. replace (i - n) with (S (i - S n)) in Hn by lia. exact Hn.
Qed.

Lemma enumerate_nth {A} (l : list A) i x :
  In (i, x) (enumerate l) <-> nth_error l i = Some x.
Proof.
  unfold enumerate. rewrite enum_from_nth. replace (i - 0) with i by lia.
  split; [tauto|]. intros H; split; [lia|exact H].
Qed.
