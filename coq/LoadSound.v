(* LoadSound.v — what the loader mirror accepts is well formed (C08). *)
From GX Require Import Base Expr Topo Ode Load.
Open Scope string_scope.
Open Scope list_scope.

Lemma first_dup_None (l : list atom) :
  first_dup l = None ->
  forall l1 x l2, l = l1 ++ x :: l2 ->
    forall y, In y l2 -> atom_name x = atom_name y -> atom_eqb x y = true.
Proof.
  induction l as [|z l IH]; intros H l1 x l2 E y Hy Hn.
  - destruct l1; discriminate.
  - simpl in H. destruct (existsb (clashes z) l) eqn:Ex; [discriminate|].
    destruct l1 as [|w l1]; simpl in E; injection E as -> ->.
    + assert (Hc : clashes x y = false).
      { destruct (clashes x y) eqn:C; [|reflexivity].
        assert (existsb (clashes x) l2 = true) by (apply existsb_exists; eauto). congruence. }
      unfold clashes in Hc. rewrite Hn, String.eqb_refl in Hc. simpl in Hc.
      destruct (atom_eqb x y); [reflexivity|discriminate].
    + eapply IH; eauto.
Qed.

Lemma first_missing_state_None c l :
  first_missing_state c l = None ->
  forall a s, In a l -> deriv_state (a_name a) = Some s -> has_state c s = true.
Proof.
  induction l as [|b l IH]; intros H a s Ha Hs; [destruct Ha|].
  simpl in H. destruct Ha as [->|Ha].
  - rewrite Hs in H. destruct (has_state c s); [reflexivity|discriminate].
  - destruct (deriv_state (a_name b)) as [s'|]; [destruct (has_state c s'); [|discriminate]|]; eauto.
Qed.

Lemma handle_assignments_Ok cs :
  handle_assignments cs = Ok tt ->
  forall c a s, In c cs -> In a (c_assigns c) -> deriv_state (a_name a) = Some s -> has_state c s = true.
Proof.
  induction cs as [|c0 cs IH]; intros H c a s Hc Ha Hs; [destruct Hc|].
  simpl in H. destruct (first_missing_state c0 (c_assigns c0)) eqn:E; [discriminate|].
  destruct Hc as [->|Hc]; [eapply first_missing_state_None; eauto|eauto].
Qed.

Lemma check_components_Ok cs :
  check_components cs = Ok tt -> forall c, In c cs -> complete c = true.
Proof.
  induction cs as [|c0 cs IH]; intros H c Hc; [destruct Hc|].
  simpl in H. destruct (complete c0) eqn:E; [|discriminate].
  destruct Hc as [->|Hc]; auto.
Qed.

Lemma first_missing_symbol_None syms l :
  first_missing_symbol syms l = None -> forall x, In x l -> In x syms.
Proof.
  induction l as [|y l IH]; intros H x Hx; [destruct Hx|].
  simpl in H. destruct (mem y syms) eqn:E; [|discriminate].
  destruct Hx as [->|Hx]; [apply mem_In; exact E|auto].
Qed.

(* Whatever the loader mirror accepts is well formed:
   (1) two atoms of one name, of any kind and in any component, are one and the same definition;
   (2) every derivative d<s>_dt has a state s declared in its own component;
   (3) every state has a derivative in its component;
   (4) every symbol an assignment references is defined (or is t / time). *)
Theorem load_sound items cs :
  load_comps items = Ok cs ->
  (forall l1 x l2, all_atoms cs = l1 ++ x :: l2 ->
     forall y, In y l2 -> atom_name x = atom_name y -> atom_eqb x y = true)
  /\ (forall c a s, In c cs -> In a (c_assigns c) -> deriv_state (a_name a) = Some s ->
        has_state c s = true)
  /\ (forall c d, In c cs -> In d (c_states c) -> state_has_derivative c d = true)
  /\ (forall a x, In a (all_assigns cs) -> In x (vars (a_expr a)) -> In x (symbols cs)).
Proof.
  unfold load_comps, bind. intros H.
  destruct (transform [] items) as [cs0|e] eqn:Et; [|discriminate].
  destruct (handle_assignments cs0) as [[]|e] eqn:Eh; [|discriminate].
  destruct (check_components cs0) as [[]|e] eqn:Ec; [|discriminate].
  destruct (first_dup (all_atoms cs0)) eqn:Ed; [discriminate|].
  unfold resolve in H.
  destruct (first_missing_symbol _ _) eqn:Em; [discriminate|]. injection H as <-.
  split; [|split; [|split]].
  - exact (first_dup_None _ Ed).
  - exact (handle_assignments_Ok _ Eh).
  - intros c d Hc Hd. pose proof (check_components_Ok _ Ec c Hc) as Hcomp.
    unfold complete in Hcomp. rewrite forallb_forall in Hcomp. auto.
  - intros a x Ha Hx. eapply first_missing_symbol_None; [exact Em|].
    apply in_flat_map. exists a. split; assumption.
Qed.

(* a state that has a derivative: the derivative is an assignment of that component named d<s>_dt *)
Lemma state_has_derivative_spec c d :
  state_has_derivative c d = true ->
  exists a, In a (c_assigns c) /\ deriv_state (a_name a) = Some (d_name d).
Proof.
  unfold state_has_derivative. rewrite existsb_exists. intros (a & Ha & H).
  exists a. split; [exact Ha|].
  destruct (deriv_state (a_name a)) as [s|]; [|discriminate].
  apply andb_true_iff in H. destruct H as [H _]. apply String.eqb_eq in H. congruence.
Qed.

(* ---------- C13: the two halves of a component split contain every state of the original ---------- *)
Lemma decl_eqb_name a b : decl_eqb a b = true -> d_name a = d_name b.
Proof.
  unfold decl_eqb. intros H. repeat (apply andb_true_iff in H; destruct H as [H _]).
  apply String.eqb_eq. exact H.
Qed.

Lemma dedup_decl_names l n : In n (map d_name (dedup_decl l)) <-> In n (map d_name l).
Proof.
  induction l as [|d l IH]; simpl; [tauto|].
  destruct (existsb (decl_eqb d) l) eqn:E.
  - rewrite IH. split; [auto|]. intros [<-|H]; [|exact H].
    apply existsb_exists in E. destruct E as (d' & Hd' & He).
    rewrite (decl_eqb_name _ _ He). apply in_map. exact Hd'.
  - simpl. rewrite IH. tauto.
Qed.

Lemma state_names_of cs n :
  In n (map d_name (o_states (ode_of cs))) <-> exists c, In c cs /\ In n (map d_name (c_states c)).
Proof.
  unfold ode_of; simpl. rewrite dedup_decl_names, in_map_iff. split.
  - intros (d & <- & Hd). apply in_flat_map in Hd. destruct Hd as (c & Hc & Hd).
    exists c. split; [exact Hc|]. apply in_map. exact Hd.
  - intros (c & Hc & Hn). apply in_map_iff in Hn. destruct Hn as (d & <- & Hd).
    exists d. split; [reflexivity|]. apply in_flat_map. exists c. auto.
Qed.

(* every state of the full model is a state of C.to_ode() or of (model - C), and conversely
   (components are keyed by name: [NoDup (map c_name cs)]) *)
Theorem split_covers_states cs c n :
  NoDup (map c_name cs) -> In c cs ->
  (In n (map d_name (o_states (ode_of cs))) <->
   In n (map d_name (o_states (to_ode c))) \/ In n (map d_name (o_states (minus cs (c_name c))))).
Proof.
  intros Hnd Hc. unfold to_ode, minus. rewrite !state_names_of. split.
  - intros (c' & Hc' & Hn). destruct (String.eqb_spec (c_name c') (c_name c)) as [E|NE].
    + left. exists c. split; [left; reflexivity|].
      assert (c' = c); [|subst; exact Hn].
      clear Hn. induction cs as [|c0 cs IH]; [destruct Hc|].
      simpl in Hnd. inversion Hnd as [|? ? Hni Hnd']; subst.
      destruct Hc as [->|Hc], Hc' as [->|Hc']; auto.
      * exfalso. apply Hni. rewrite <- E. apply in_map. exact Hc'.
      * exfalso. apply Hni. rewrite E. apply in_map. exact Hc.
    + right. exists c'. split; [|exact Hn]. apply filter_In. split; [exact Hc'|].
      apply negb_true_iff. apply String.eqb_neq. exact NE.
  - intros [(c' & [<-|[]] & Hn)|(c' & Hc' & Hn)].
    + exists c. auto.
    + apply filter_In in Hc'. exists c'. tauto.
Qed.

(* ... and a state of both halves would be declared in two components *)
Theorem split_halves_disjoint cs c n :
  In n (map d_name (o_states (to_ode c))) -> In n (map d_name (o_states (minus cs (c_name c)))) ->
  exists c', In c' cs /\ c_name c' <> c_name c /\ In n (map d_name (c_states c')) /\ In n (map d_name (c_states c)).
Proof.
  unfold to_ode, minus. rewrite !state_names_of.
  intros (c1 & [<-|[]] & H1) (c2 & H2 & Hn2). apply filter_In in H2. destruct H2 as [H2 Hne].
  exists c2. repeat split; auto. apply negb_true_iff in Hne. apply String.eqb_neq. exact Hne.
Qed.

(* ---------- C17: comment items are inert ---------- *)
Lemma transform_app cs l1 l2 :
  transform cs (l1 ++ l2) = bind (transform cs l1) (fun cs' => transform cs' l2).
Proof.
  revert cs; induction l1 as [|it l1 IH]; intros cs; simpl; [reflexivity|].
  destruct (add_item cs it) as [cs'|e]; simpl; [apply IH|reflexivity].
Qed.

Theorem comment_items_are_ignored l1 s l2 :
  load_comps (l1 ++ IComment s :: l2) = load_comps (l1 ++ l2) /\ load (l1 ++ IComment s :: l2) = load (l1 ++ l2).
Proof.
  assert (H : transform [] (l1 ++ IComment s :: l2) = transform [] (l1 ++ l2)).
  { rewrite !transform_app. destruct (transform [] l1); simpl; reflexivity. }
  unfold load, load_comps. rewrite H. split; reflexivity.
Qed.

Theorem comment_text_is_irrelevant l1 s s' l2 :
  load (l1 ++ IComment s :: l2) = load (l1 ++ IComment s' :: l2).
Proof.
  destruct (comment_items_are_ignored l1 s l2) as [_ ->].
  destruct (comment_items_are_ignored l1 s' l2) as [_ ->]. reflexivity.
Qed.
